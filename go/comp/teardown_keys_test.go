package comp

// TestTeardownKeys (C10): the teardown of a connection / of a remote entity over IDENTITY KEYS.
//
// Model: Spine.TdK (lean/Spine/TeardownKeys.lean, driver drv_tdk) — registry entries keyed by (connection = SKI,
// device address, entity, feature), bookkeeping keyed by (device address, entity, feature), the map of connected
// devices, the removal events, the two resolution functions. The model is parametric in WHICH components each
// clean-up function compares; the harness hands it the values the translator derived from the tree under test
// (lean/Spine/Generated/Cleanup.lean, generator `cleanup`, line `-- FACTS`), so the run compares "the model built
// from the regenerated comparisons" with the real teardown — also in worlds where two connections announce ONE
// device address (there the outcome depends on whether a clean-up compares the connection or the address, which is
// exactly what the facts say).
//
// SPEC monitor (model-free, judged in worlds whose connections have pairwise distinct device addresses — the
// assumption of C10): after RemoveRemoteDeviceConnection(k) / an entity-removed notification all and only the
// entries and remembered addresses of that device / entity are gone, one removal event was published per removed
// registry entry (naming connection, client feature and local feature) plus one for the device / entity, the
// device resolves neither by SKI nor by address, every other device resolves to the same object as before.

import (
	"encoding/json"
	"fmt"
	"os"
	"path/filepath"
	"regexp"
	"runtime"
	"sort"
	"strconv"
	"strings"
	"sync"
	"testing"
	"time"

	"github.com/enbility/spine-go/api"
	"github.com/enbility/spine-go/model"
	"github.com/enbility/spine-go/spine"
	"github.com/enbility/spine-go/util"

	"verifharness/h"
)

var tkRemoteEnts = []string{"0", "1", "1.1", "2"}
var tkBookEnts = []string{"1", "1.1", "2"}

const tkNConn = 4

type tkEvents struct {
	mu sync.Mutex
	ev []string
}

func tkNum(s, prefix string) string {
	if strings.HasPrefix(s, prefix) {
		return s[len(prefix):]
	}
	return "?" + s
}

func tkClient(ski string, a *model.FeatureAddressType) string {
	if a == nil || a.Device == nil || a.Feature == nil {
		return tkNum(ski, "ski") + ":nil"
	}
	return fmt.Sprintf("%s:%s:%s/%d", tkNum(ski, "ski"), tkNum(string(*a.Device), "dev"), h.EntStr(a.Entity), *a.Feature)
}

func (r *tkEvents) HandleEvent(p api.EventPayload) {
	if p.ChangeType != api.ElementChangeRemove {
		return
	}
	var s string
	switch p.EventType {
	case api.EventTypeSubscriptionChange, api.EventTypeBindingChange:
		s = "S"
		if p.EventType == api.EventTypeBindingChange {
			s = "B"
		}
		loc, cl := "nil", tkNum(p.Ski, "ski")+":nil"
		if p.LocalFeature != nil {
			loc = h.AddrS(p.LocalFeature.Address())
		}
		if p.Feature != nil {
			cl = tkClient(p.Ski, p.Feature.Address())
		}
		s += loc + "<-" + cl
	case api.EventTypeDeviceChange:
		s = "D" + tkNum(p.Ski, "ski")
	case api.EventTypeEntityChange:
		s = "E" + tkNum(p.Ski, "ski") + ":"
		if p.Entity != nil {
			s += h.EntStr(p.Entity.Address().Entity)
		} else {
			s += "nil"
		}
	default:
		return
	}
	r.mu.Lock()
	r.ev = append(r.ev, s)
	r.mu.Unlock()
}

func (r *tkEvents) take() []string {
	r.mu.Lock()
	defer r.mu.Unlock()
	e := r.ev
	r.ev = nil
	sort.Strings(e)
	return e
}

type tkWorld struct {
	l          *spine.DeviceLocal
	cl         api.FeatureLocalInterface
	srv        map[string]*model.FeatureAddressType // local server feature per local entity "1".."4"
	rds        map[int]api.DeviceRemoteInterface    // latest device object per connection number
	dev        map[int]int                          // device address number announced by connection k
	alive      map[int]bool
	ctr        map[int]uint64
	ev         *tkEvents
	base       int
	wr         map[int]*h.W   // writer of the current connection k
	old        []tkOldWriter  // writers of removed connections
	vals       map[string]int // canonical JSON of a written limit list -> value id
	valN       int
	last       map[string]int // SPEC: value id of the last write the SPEC accepted, per local server feature address
	everShared bool           // two connected devices announced one address at some point of this history
	// pending write approvals: local server features [3] and [4] have an approval callback (long timeout: no timer fires)
	cbMu   sync.Mutex
	cbMsgs []*api.Message
	appr   []*tkAppr   // every write the approval callback has received in this history, in order
	epoch  map[int]int // number of connections SKI k has had
	pw     map[int]int // approval-bound writes of the current connection of k (their counters restart with the connection)
}

// tkAppr: a write that waits (or waited) for the application's verdict, with the SPEC's view of it
type tkAppr struct {
	msg      *api.Message
	k, epoch int
	ctr      uint64
	ent      string
	se       string
	live     bool   // SPEC: still pending by the property statement
	why      string // SPEC: why not
}

type tkOldWriter struct {
	k int
	w *h.W
}

func tkDev(d int) string { return fmt.Sprintf("dev%d", d) }
func tkSki(k int) string { return fmt.Sprintf("ski%d", k) }

func tkTree(dev string, state *model.NetworkManagementStateChangeType, ents []string) *model.NodeManagementDetailedDiscoveryDataType {
	dd := &model.NodeManagementDetailedDiscoveryDataType{
		DeviceInformation: &model.NodeManagementDetailedDiscoveryDeviceInformationType{Description: &model.NetworkManagementDeviceDescriptionDataType{DeviceAddress: &model.DeviceAddressType{Device: util.Ptr(model.AddressDeviceType(dev))}}},
	}
	for _, e := range ents {
		et := model.EntityTypeTypeEVSE
		if e == "0" {
			et = model.EntityTypeTypeDeviceInformation
		}
		dd.EntityInformation = append(dd.EntityInformation, model.NodeManagementDetailedDiscoveryEntityInformationType{Description: &model.NetworkManagementEntityDescriptionDataType{
			EntityAddress: &model.EntityAddressType{Device: util.Ptr(model.AddressDeviceType(dev)), Entity: spine.NewAddressEntityType(regParseEnt(e))}, EntityType: &et, LastStateChange: state}})
		if state != nil {
			continue
		}
		add := func(id uint, ft model.FeatureTypeType, role model.RoleType) {
			f, r := ft, role
			dd.FeatureInformation = append(dd.FeatureInformation, model.NodeManagementDetailedDiscoveryFeatureInformationType{Description: &model.NetworkManagementFeatureDescriptionDataType{
				FeatureAddress: h.FA(dev, regParseEnt(e), id), FeatureType: &f, Role: &r}})
		}
		if e == "0" {
			add(0, model.FeatureTypeTypeNodeManagement, model.RoleTypeSpecial)
			continue
		}
		add(1, model.FeatureTypeTypeLoadControl, model.RoleTypeClient)
		add(2, model.FeatureTypeTypeLoadControl, model.RoleTypeClient)
		add(3, model.FeatureTypeTypeLoadControl, model.RoleTypeServer)
	}
	return dd
}

func newTkWorld(ev *tkEvents, base int) *tkWorld {
	w := &tkWorld{srv: map[string]*model.FeatureAddressType{}, rds: map[int]api.DeviceRemoteInterface{}, dev: map[int]int{}, alive: map[int]bool{}, ctr: map[int]uint64{}, ev: ev, base: base,
		wr: map[int]*h.W{}, vals: map[string]int{}, last: map[string]int{}, epoch: map[int]int{}, pw: map[int]int{}}
	l := spine.NewDeviceLocal("b", "m", "s", "c", "HEMS", model.DeviceTypeTypeEnergyManagementSystem, model.NetworkManagementFeatureSetTypeSmart)
	for i := 1; i <= 4; i++ {
		e := spine.NewEntityLocal(l, model.EntityTypeTypeCEM, spine.NewAddressEntityType([]uint{uint(i)}), 0)
		l.AddEntity(e)
		f := e.GetOrAddFeature(model.FeatureTypeTypeLoadControl, model.RoleTypeServer)
		f.AddFunctionType(model.FunctionTypeLoadControlLimitListData, true, true)
		w.srv[strconv.Itoa(i)] = f.Address()
		if i >= 3 {
			f.SetWriteApprovalTimeout(10 * time.Minute)
			_ = f.AddWriteApprovalCallback(func(m *api.Message) {
				w.cbMu.Lock()
				w.cbMsgs = append(w.cbMsgs, m)
				w.cbMu.Unlock()
			})
		}
		if i == 1 {
			w.cl = e.GetOrAddFeature(model.FeatureTypeTypeLoadControl, model.RoleTypeClient)
		}
	}
	w.l = l
	return w
}

func (w *tkWorld) inject(k int, d model.DatagramType) {
	b, _ := json.Marshal(model.Datagram{Datagram: d})
	_ = h.Recover(func() { _, _ = w.rds[k].HandleSpineMesssage(b) })
}

func (w *tkWorld) connect(k, d int) {
	w.wr[k] = &h.W{}
	w.l.SetupRemoteDevice(tkSki(k), w.wr[k])
	w.rds[k] = w.l.RemoteDeviceForSki(tkSki(k))
	w.dev[k], w.alive[k], w.ctr[k] = d, true, 100
	w.epoch[k]++
	w.pw[k] = 0
	cl := model.CmdClassifierTypeReply
	w.inject(k, model.DatagramType{Header: model.HeaderType{AddressSource: h.FA(tkDev(d), []uint{0}, 0), AddressDestination: h.FA("HEMS", []uint{0}, 0),
		MsgCounter: util.Ptr(model.MsgCounterType(1)), MsgCounterReference: util.Ptr(model.MsgCounterType(1)), CmdClassifier: &cl},
		Payload: model.PayloadType{Cmd: []model.CmdType{{NodeManagementDetailedDiscoveryData: tkTree(tkDev(d), nil, tkRemoteEnts)}}}})
}

func (w *tkWorld) close() {
	for k := range w.alive {
		if w.alive[k] {
			w.l.RemoveRemoteDeviceConnection(tkSki(k))
		}
	}
	h.Settle(w.base)
	w.ev.take()
}

func tkSet(l []string) string {
	if len(l) == 0 {
		return "."
	}
	sort.Strings(l)
	return strings.Join(l, " ")
}

// observe: the canonical state of the real world, in the format of drv_tdk's `state`
func (w *tkWorld) observe() (subs, binds, csubs, cbinds, conns []string) {
	for k := 1; k <= tkNConn; k++ {
		rd := w.rds[k]
		if rd == nil {
			continue
		}
		for _, e := range w.l.SubscriptionManager().Subscriptions(rd) {
			subs = append(subs, h.AddrS(e.ServerFeature.Address())+"<-"+tkClient(e.ClientFeature.Device().Ski(), e.ClientFeature.Address()))
		}
		for _, e := range w.l.BindingManager().Bindings(rd) {
			binds = append(binds, h.AddrS(e.ServerFeature.Address())+"<-"+tkClient(e.ClientFeature.Device().Ski(), e.ClientFeature.Address()))
		}
		if cur := w.l.RemoteDeviceForSki(tkSki(k)); cur != nil {
			var es []string
			for _, e := range cur.Entities() {
				es = append(es, h.EntStr(e.Address().Entity))
			}
			a := "nil"
			if cur.Address() != nil {
				a = tkNum(string(*cur.Address()), "dev")
			}
			conns = append(conns, fmt.Sprintf("%d:%s:%s", k, a, strings.Join(es, ",")))
		}
	}
	for d := 101; d <= 100+tkNConn; d++ {
		for _, e := range tkBookEnts {
			a := h.FA(tkDev(d), regParseEnt(e), 3)
			if w.cl.HasSubscriptionToRemote(a) {
				csubs = append(csubs, fmt.Sprintf("%d:%s/3", d, e))
			}
			if w.cl.HasBindingToRemote(a) {
				cbinds = append(cbinds, fmt.Sprintf("%d:%s/3", d, e))
			}
		}
	}
	return
}

func tkState(subs, binds, csubs, cbinds, conns []string) string {
	return fmt.Sprintf("subs %s | binds %s | csubs %s | cbinds %s | conns %s", tkSet(subs), tkSet(binds), tkSet(csubs), tkSet(cbinds), tkSet(conns))
}

// shared: two connected devices announce one address
func (w *tkWorld) shared() bool {
	seen := map[int]bool{}
	for k, a := range w.alive {
		if a {
			if seen[w.dev[k]] {
				return true
			}
			seen[w.dev[k]] = true
		}
	}
	return false
}

func (w *tkWorld) sharers(d int) int {
	n := 0
	for k, a := range w.alive {
		if a && w.dev[k] == d {
			n++
		}
	}
	return n
}

func (w *tkWorld) resolve() []string {
	var out []string
	for k := 1; k <= tkNConn; k++ {
		s := "-"
		if rd := w.l.RemoteDeviceForSki(tkSki(k)); rd != nil {
			a := "nil"
			if rd.Address() != nil {
				a = tkNum(string(*rd.Address()), "dev")
			}
			s = tkNum(rd.Ski(), "ski") + ":" + a
		}
		out = append(out, fmt.Sprintf("ski %d=%s", k, s))
	}
	for d := 101; d <= 100+tkNConn; d++ {
		s := "-"
		if rd := w.l.RemoteDeviceForAddress(model.AddressDeviceType(tkDev(d))); rd != nil {
			s = tkNum(rd.Ski(), "ski") + ":" + tkNum(string(*rd.Address()), "dev")
			if w.sharers(d) > 1 {
				s = "some"
			}
		}
		out = append(out, fmt.Sprintf("addr %d=%s", d, s))
	}
	return out
}

func tkModelResolve(d *h.Driver) []string {
	var out []string
	for k := 1; k <= tkNConn; k++ {
		out = append(out, fmt.Sprintf("ski %d=%s", k, d.Ask(fmt.Sprintf("ski %d", k))))
	}
	for a := 101; a <= 100+tkNConn; a++ {
		out = append(out, fmt.Sprintf("addr %d=%s", a, d.Ask(fmt.Sprintf("addr %d", a))))
	}
	return out
}

func tkWithout(l []string, drop func(string) bool) (kept, gone []string) {
	for _, x := range l {
		if drop(x) {
			gone = append(gone, x)
		} else {
			kept = append(kept, x)
		}
	}
	return
}

type tkStats struct {
	grants, grantOk, drops, dropsNontrivial, sharedOps, ops int
	served, servedWriteOk, servedNotified, servedSubOk      int
	pwrites, pwritesPending, verdicts, verdictsTaken        int
	injectedDrops, injectedFired, insideWindow              int
}

// runTkHistory executes ops on a fresh world, compares with the driver (nil: monitor only), judges the SPEC.
func runTkHistory(r *h.Report, d *h.Driver, ev *tkEvents, base int, facts string, ops []string, st *tkStats) {
	w := newTkWorld(ev, base)
	defer w.close()
	ask := func(line string) string {
		if d == nil {
			return ""
		}
		return d.Ask(line)
	}
	agreed := true
	mismatch := func(ops []string, impl, mdl, note string) {
		// the tie is broken: the rest of the history runs without the model, the monitor keeps judging
		r.Mismatch(ops, impl, mdl, note)
		d, agreed = nil, false
	}
	if d != nil {
		if a := d.Ask("reset"); a != "reset" {
			panic("drv_tdk: " + a)
		}
		if a := d.Ask("facts " + facts); a != "facts" {
			panic("drv_tdk facts: " + a)
		}
		if a := d.Ask(w.ctxLine()); a != "ctx" {
			panic("drv_tdk ctx: " + a)
		}
	}
	var done []string
	for opIdx, op := range ops {
		f := strings.Fields(op)
		if len(f) == 0 {
			continue
		}
		atoi := func(i int) int { n, _ := strconv.Atoi(f[i]); return n }
		done = append(done, op)
		st.ops++
		if w.shared() {
			st.sharedOps++
			w.everShared = true
		}
		var impl, mdl string
		switch f[0] {
		case "connect":
			k, dv := atoi(1), atoi(2)
			if k < 1 || k > tkNConn || dv < 101 || dv > 100+tkNConn {
				continue
			}
			if w.alive[k] {
				impl = "dup"
			} else {
				w.connect(k, dv)
				impl = "ok"
			}
			h.Settle(w.base)
			ev.take()
			mdl = ask(fmt.Sprintf("connect %d %d %s", k, dv, strings.Join(tkRemoteEnts, ",")))
		case "sub", "bind":
			k, ent, cf, se := atoi(1), f[2], uint(atoi(3)), f[4]
			srv := w.srv[se]
			if !w.alive[k] || srv == nil {
				continue // a removed connection delivers nothing
			}
			ft := model.FeatureTypeTypeLoadControl
			cAddr := h.FA(tkDev(w.dev[k]), regParseEnt(ent), cf)
			var err error
			preS0, preB0, _, _, _ := w.observe()
			pre := preS0
			if f[0] == "bind" {
				pre = preB0
			}
			if f[0] == "bind" {
				err = w.l.BindingManager().AddBinding(w.rds[k], model.BindingManagementRequestCallType{ClientAddress: cAddr, ServerAddress: srv, ServerFeatureType: &ft})
			} else {
				err = w.l.SubscriptionManager().AddSubscription(w.rds[k], model.SubscriptionManagementRequestCallType{ClientAddress: cAddr, ServerAddress: srv, ServerFeatureType: &ft})
			}
			st.grants++
			// expectation from the observed lists alone: a known entity, no such subscription yet / no binding on the server feature yet
			entry := h.AddrS(srv) + "<-" + tkClient(tkSki(k), cAddr)
			expect := regexpEntityKnown(w, k, ent)
			for _, x := range pre {
				if f[0] == "sub" && x == entry || f[0] == "bind" && strings.HasPrefix(x, h.AddrS(srv)+"<-") {
					expect = false
				}
			}
			if (err == nil) != expect {
				mismatch(done, fmt.Sprintf("granted=%v (%v)", err == nil, err), fmt.Sprintf("granted=%v", expect), "outcome of a request")
			}
			if err != nil {
				// refused (duplicate, second binding on the server feature, entity gone): the model does not see the request
				impl, mdl = "refused", "refused"
			} else {
				st.grantOk++
				impl = "ok"
				mdl = ask(fmt.Sprintf("%s %d %s %d %s %d", f[0], k, ent, cf, se, *srv.Feature))
			}
			h.Settle(w.base)
			ev.take()
		case "csub", "cbind":
			dv, ent := atoi(1), f[2]
			a := h.FA(tkDev(dv), regParseEnt(ent), 3)
			has := w.cl.HasSubscriptionToRemote(a)
			if f[0] == "cbind" {
				has = w.cl.HasBindingToRemote(a)
			}
			if has {
				continue // the bookkeeping is observed as a set
			}
			var e *model.ErrorType
			if f[0] == "cbind" {
				_, e = w.cl.BindToRemote(a)
			} else {
				_, e = w.cl.SubscribeToRemote(a)
			}
			impl = "ok"
			if e != nil {
				impl = "err"
			}
			mdl = ask(fmt.Sprintf("%s %d %s 3", f[0], dv, ent))
			h.Settle(w.base)
			ev.take()
		case "drop", "dropent":
			k := atoi(1)
			if k < 1 || k > tkNConn || (f[0] == "dropent" && !w.alive[k]) {
				continue
			}
			ent := ""
			if f[0] == "dropent" {
				ent = f[2]
			}
			shared := w.shared()
			preS, preB, preCS, preCB, preC := w.observe()
			preRes := w.resolve()
			wasAlive := w.alive[k]
			known := false
			if wasAlive {
				known = regexpEntityKnown(w, k, ent)
			}
			ev.take()
			// `dropent k ent @<kind>:<idx>`: the connection of the SAME peer is removed while its entity-removed notification is
			// being processed — RemoveRemoteDeviceConnection(k) is started by a core-level event handler at the idx-th removal
			// event of that kind (entity-, sub-, bind-) the notification publishes. Judged after BOTH have returned, as the
			// teardown of the device (every interleaving must end where the sequential teardown ends: Props.C10Keys
			// c10k_entity_pass_device_teardown_commute).
			both := f[0] == "dropent" && len(f) > 3 && strings.HasPrefix(f[3], "@")
			var tdDone chan struct{}
			if both {
				kindIdx := strings.SplitN(f[3][1:], ":", 2)
				idx := 0
				if len(kindIdx) == 2 {
					idx, _ = strconv.Atoi(kindIdx[1])
				}
				tdDone = make(chan struct{})
				tkCore.arm(kindIdx[0], idx, func() {
					go func() {
						w.l.RemoveRemoteDeviceConnection(tkSki(k))
						close(tdDone)
					}()
					// Publish is serialised (the bus holds its handling lock while this handler runs): the teardown runs until
					// its first own Publish and waits there. Condition-based, bounded wait: the device has left the map of
					// connected devices (the teardown had nothing to publish before that point — the window the notification's
					// remaining clean-up must cope with), or the bound ran out (the teardown is waiting at a Publish, or — on a
					// loaded machine — has not been scheduled: either way not a failure, the verdict is taken after both returned)
					for t0 := time.Now(); time.Since(t0) < 20*time.Millisecond; {
						if w.l.RemoteDeviceForSki(tkSki(k)) == nil {
							st.insideWindow++
							break
						}
						runtime.Gosched()
						if time.Since(t0) > 2*time.Millisecond {
							time.Sleep(200 * time.Microsecond)
						}
					}
				})
			}
			if f[0] == "drop" {
				w.l.RemoveRemoteDeviceConnection(tkSki(k))
				if w.alive[k] && w.wr[k] != nil {
					w.old = append(w.old, tkOldWriter{k, w.wr[k]})
					delete(w.wr, k)
				}
				w.alive[k] = false
			} else {
				removed := model.NetworkManagementStateChangeTypeRemoved
				nc := model.CmdClassifierTypeNotify
				w.ctr[k]++
				cmd := model.CmdType{Function: util.Ptr(model.FunctionTypeNodeManagementDetailedDiscoveryData), Filter: []model.FilterType{*model.NewFilterTypePartial()},
					NodeManagementDetailedDiscoveryData: tkTree(tkDev(w.dev[k]), &removed, []string{ent})}
				w.inject(k, model.DatagramType{Header: model.HeaderType{AddressSource: h.FA(tkDev(w.dev[k]), []uint{0}, 0), AddressDestination: h.FA("HEMS", []uint{0}, 0),
					MsgCounter: util.Ptr(model.MsgCounterType(w.ctr[k])), CmdClassifier: &nc}, Payload: model.PayloadType{Cmd: []model.CmdType{cmd}}})
			}
			if both {
				st.injectedDrops++
				if _, fired := tkCore.disarm(); !fired {
					// the event point does not exist in this run (nothing of that kind was published): the teardown follows
					w.l.RemoveRemoteDeviceConnection(tkSki(k))
					close(tdDone)
				} else {
					st.injectedFired++
				}
				select {
				case <-tdDone:
				case <-time.After(5 * time.Second):
					r.SpecFail("C10/keys-teardown-blocked-inside-entity-removal", done, fmt.Sprintf("RemoveRemoteDeviceConnection(%d), started at %s of its own entity-removed notification, had not returned 5 s after the notification", k, f[3]))
				}
				if w.wr[k] != nil {
					w.old = append(w.old, tkOldWriter{k, w.wr[k]})
					delete(w.wr, k)
				}
				w.alive[k] = false
			}
			h.Settle(w.base)
			evs := ev.take()
			impl = tkSet(evs)
			if both {
				mdl = ask(fmt.Sprintf("dropentdrop %d %s", k, ent))
			} else {
				mdl = ask(op)
			}
			if shared {
				// outside the assumption (two connections announce one address) a removal event describes the clean-up's
				// TARGET (its connection, its feature object), not the entry that went: compared by kind and local feature only
				strip := func(s string) string {
					var out []string
					for _, x := range strings.Fields(s) {
						if i := strings.Index(x, "<-"); i > 0 {
							x = x[:i]
						}
						out = append(out, x)
					}
					return tkSet(out)
				}
				impl, mdl = strip(impl), strip(mdl)
			}
			st.drops++
			// SPEC view of the pending approvals: those of the removed device / of the removed entity are gone
			for _, a := range w.appr {
				if a.live && a.k == k && wasAlive && (f[0] == "drop" || both || (known && ent != "0" && a.ent == ent)) {
					a.live, a.why = false, op
				}
			}
			// ---- SPEC (model-free), judged under the assumption of C10: distinct device addresses
			if !shared {
				postS, postB, postCS, postCB, postC := w.observe()
				conn := fmt.Sprintf("<-%d:", k)
				devp := fmt.Sprintf("%d:", w.dev[k])
				var refersE func(string) bool
				var refersB func(string) bool
				var expEv []string
				if f[0] == "drop" || both {
					refersE = func(x string) bool { return wasAlive && strings.Contains(x, conn) }
					refersB = func(x string) bool { return wasAlive && strings.HasPrefix(x, devp) }
					if both && known && ent != "0" {
						expEv = append(expEv, fmt.Sprintf("E%d:%s", k, ent))
					}
				} else {
					effective := known && ent != "0"
					refersE = func(x string) bool {
						return effective && strings.Contains(x, conn) && strings.Contains(x, fmt.Sprintf(":%d:%s/", w.dev[k], ent))
					}
					refersB = func(x string) bool { return effective && strings.HasPrefix(x, devp+ent+"/") }
					if effective {
						expEv = append(expEv, fmt.Sprintf("E%d:%s", k, ent))
					}
				}
				keepS, goneS := tkWithout(preS, refersE)
				keepB, goneB := tkWithout(preB, refersE)
				keepCS, _ := tkWithout(preCS, refersB)
				keepCB, _ := tkWithout(preCB, refersB)
				if len(goneS)+len(goneB) > 0 && len(keepS)+len(keepB) > 0 {
					st.dropsNontrivial++
				}
				if tkSet(postS) != tkSet(keepS) || tkSet(postB) != tkSet(keepB) {
					key := "C10/keys-teardown-leaves-own-entry"
					missing := func(keep, post []string) bool {
						for _, x := range keep {
							if !strings.Contains(" "+tkSet(post)+" ", " "+x+" ") {
								return true
							}
						}
						return false
					}
					if missing(keepS, postS) || missing(keepB, postB) {
						key = "C10/keys-teardown-removes-other-peers-entry"
					}
					r.SpecFail(key, done, fmt.Sprintf("after %s: subscriptions %s (expected %s), bindings %s (expected %s)", op, tkSet(postS), tkSet(keepS), tkSet(postB), tkSet(keepB)))
				}
				if tkSet(postCS) != tkSet(keepCS) || tkSet(postCB) != tkSet(keepCB) {
					r.SpecFail("C10/keys-client-bookkeeping-not-exact", done, fmt.Sprintf("after %s: remembered subscriptions %s (expected %s), bindings %s (expected %s)", op, tkSet(postCS), tkSet(keepCS), tkSet(postCB), tkSet(keepCB)))
				}
				for _, x := range goneS {
					expEv = append(expEv, "S"+x)
				}
				for _, x := range goneB {
					expEv = append(expEv, "B"+x)
				}
				if f[0] == "drop" || both {
					expEv = append(expEv, fmt.Sprintf("D%d", k))
				}
				if tkSet(evs) != tkSet(expEv) {
					r.SpecFail("C10/keys-removal-events-not-one-per-removed-entry", done, fmt.Sprintf("after %s the removal events were %s, expected %s", op, tkSet(evs), tkSet(expEv)))
				}
				postRes := w.resolve()
				for i, line := range postRes {
					mine := (f[0] == "drop" || both) && wasAlive && (strings.HasPrefix(line, fmt.Sprintf("ski %d=", k)) || strings.HasPrefix(line, fmt.Sprintf("addr %d=", w.dev[k])))
					if mine && !strings.HasSuffix(line, "=-") {
						r.SpecFail("C10/keys-removed-device-still-resolves", done, fmt.Sprintf("after %s: %s", op, line))
					}
					if !mine && line != preRes[i] {
						r.SpecFail("C10/keys-other-device-resolution-changed", done, fmt.Sprintf("after %s: %s, before: %s", op, line, preRes[i]))
					}
				}
				if f[0] == "dropent" && !both {
					if tkSet(postC) == tkSet(preC) && known && ent != "0" {
						r.SpecFail("C10/keys-removed-entity-still-known", done, fmt.Sprintf("after %s the connections are %s", op, tkSet(postC)))
					}
				}
			}
		case "pwrite":
			k := atoi(1)
			// (shared device addresses: the write gate compares the client feature's ADDRESS — outside the assumption and the model)
			if !w.alive[k] || w.everShared || w.shared() {
				continue
			}
			impl, mdl = w.pwrite(r, ask, k, done, st)
			if impl == "" {
				continue
			}
		case "verdict":
			if len(w.appr) == 0 || w.everShared {
				continue
			}
			impl, mdl = w.verdict(r, ask, w.appr[atoi(1)%len(w.appr)], len(f) > 2 && f[2] == "deny", done, st)
		case "sweep":
			if len(w.appr) == 0 || w.everShared {
				continue
			}
			var is, ms []string
			for _, a := range w.appr {
				i, m := w.verdict(r, ask, a, false, done, st)
				is, ms = append(is, i), append(ms, m)
			}
			impl, mdl = strings.Join(is, " "), strings.Join(ms, " ")
			if d == nil {
				mdl = ""
			}
		default:
			continue
		}
		r.Eval(f[0], "")
		if d != nil {
			if impl != mdl {
				mismatch(done, impl, mdl, "answer of "+op)
			} else {
				s1, s2, s3, s4, s5 := w.observe()
				if is, ms := tkState(s1, s2, s3, s4, s5), d.Ask("state"); is != ms {
					mismatch(done, is, ms, "state after "+op)
				} else if ir, mr := strings.Join(w.resolve(), " "), strings.Join(tkModelResolve(d), " "); ir != mr {
					mismatch(done, ir, mr, "resolution after "+op)
				}
			}
		}
		if w.shared() {
			w.everShared = true
		}
		// (worlds in which two connections announce(d) one device address are outside the assumption AND outside the
		// composed model: the write gate compares the client feature's ADDRESS, so a sharer passes the other's binding)
		if (f[0] == "drop" || f[0] == "dropent") && !w.everShared {
			// "every other peer continues to be served": requests of every other connection, answered by the real stack and
			// by the composed model Spine.TdS (world of the TdK state + dispatch model); SPEC judged on the observed registries
			w.serveOthers(r, func() *h.Driver { return d }, mismatch, atoi(1), opIdx, done, st)
			if d != nil {
				s1, s2, s3, s4, s5 := w.observe()
				if is, ms := tkState(s1, s2, s3, s4, s5), d.Ask("state"); is != ms {
					mismatch(done, is, ms, "state after the requests of the other peers that followed "+op)
				}
			}
		}
	}
	// at the end of every history: the verdict for every write the approval callback ever received
	if len(w.appr) > 0 && !w.everShared {
		var is, ms []string
		for _, a := range w.appr {
			i, m := w.verdict(r, ask, a, false, append(done, "(final sweep)"), st)
			is, ms = append(is, i), append(ms, m)
		}
		if d != nil && strings.Join(is, " ") != strings.Join(ms, " ") {
			mismatch(append(done, "sweep"), strings.Join(is, " "), strings.Join(ms, " "), "verdicts of the final sweep")
		}
	}
	if agreed {
		r.Traces++
	}
}

// ---------- pending write approvals

func (w *tkWorld) takeCb() []*api.Message {
	w.cbMu.Lock()
	defer w.cbMu.Unlock()
	m := w.cbMsgs
	w.cbMsgs = nil
	return m
}

// pwrite: connection k writes (acknowledgement requested) to a local server feature with an approval callback — from a
// client feature the OBSERVED bindings authorise for [3] or [4] if there is one, else from its first entity to [3].
// impl: "pending <epoch>" (the callback received the write, nothing was answered) or "denied" (error result).
func (w *tkWorld) pwrite(r *h.Report, ask func(string) string, k int, done []string, st *tkStats) (impl, mdl string) {
	dispInit()
	fn := dispFnID[dispFnLimit]
	_, preB, _, _, _ := w.observe()
	ent, cf, se := "", uint(1), "3"
	for _, b := range preB {
		i := strings.Index(b, "<-")
		cl := strings.Split(b[i+2:], ":")
		if (strings.HasPrefix(b, "3/") || strings.HasPrefix(b, "4/")) && len(cl) == 3 && cl[0] == strconv.Itoa(k) {
			ef := strings.Split(cl[2], "/")
			n, _ := strconv.Atoi(ef[1])
			ent, cf, se = ef[0], uint(n), b[:1]
			break
		}
	}
	bound := ent != ""
	if !bound {
		for _, e := range tkBookEnts {
			if regexpEntityKnown(w, k, e) {
				ent = e
				break
			}
		}
		if ent == "" {
			return "", ""
		}
	}
	srv := w.srv[se]
	w.pw[k]++
	ctr := uint64(500 + w.pw[k]) // restarts with every connection of the SKI: a re-connection reuses the counters
	w.valN++
	cmd := dispCmd(fn, w.valN, false)
	cls, ack := model.CmdClassifierTypeWrite, true
	w.drain()
	w.takeCb()
	w.inject(k, model.DatagramType{Header: model.HeaderType{AddressSource: h.FA(tkDev(w.dev[k]), regParseEnt(ent), cf), AddressDestination: h.FA("HEMS", regParseEnt(se), uint(*srv.Feature)),
		MsgCounter: util.Ptr(model.MsgCounterType(ctr)), CmdClassifier: &cls, AckRequest: &ack}, Payload: model.PayloadType{Cmd: []model.CmdType{cmd}}})
	h.Settle(w.base)
	w.ev.take()
	outs, _ := w.outputs()
	cbs := w.takeCb()
	st.pwrites++
	switch {
	case len(cbs) == 1 && len(outs) == 0:
		impl = fmt.Sprintf("pending %d", w.epoch[k])
		w.appr = append(w.appr, &tkAppr{msg: cbs[0], k: k, epoch: w.epoch[k], ctr: ctr, ent: ent, se: se, live: true})
		st.pwritesPending++
	case len(cbs) == 0 && len(outs) == 1 && strings.Contains(outs[0], fmt.Sprintf("%d>result:%d:", k, ctr)) && !strings.Contains(outs[0], fmt.Sprintf("result:%d:0:", ctr)):
		impl = "denied"
	default:
		impl = fmt.Sprintf("callbacks=%d outputs=%s", len(cbs), tkSet(outs))
	}
	if !w.everShared {
		want := "denied"
		if bound {
			want = fmt.Sprintf("pending %d", w.epoch[k])
		}
		if impl != want {
			r.SpecFail("C10/keys-other-peer-not-served", done, fmt.Sprintf("write of connection %d (client %s/%d) to %s, which asks the application: %s, expected %s (bound by the observed bindings: %v)", k, ent, cf, h.AddrS(srv), impl, want, bound))
		}
	}
	mdl = ask(fmt.Sprintf("pwrite %d %d %s %d %s %d", k, ctr, ent, cf, se, *srv.Feature))
	return
}

// verdict: the application's verdict for a write the callback received earlier (of whichever connection epoch).
// impl: "taken" (a result referring to the write was sent) or "ignored" (nothing was written).
func (w *tkWorld) verdict(r *h.Report, ask func(string) string, a *tkAppr, deny bool, done []string, st *tkStats) (impl, mdl string) {
	srv := w.srv[a.se]
	fl := w.l.FeatureByAddress(srv)
	w.drain()
	e := model.ErrorType{ErrorNumber: 0}
	if deny {
		e = model.ErrorType{ErrorNumber: 7}
	}
	_ = h.Recover(func() { fl.ApproveOrDenyWrite(a.msg, e) })
	h.Settle(w.base)
	w.ev.take()
	outs, toOld := w.outputs()
	impl = "ignored"
	for _, o := range outs {
		if strings.Contains(o, fmt.Sprintf(">result:%d:", a.ctr)) {
			impl = "taken"
		}
	}
	st.verdicts++
	what := fmt.Sprintf("verdict for the write %d of connection %d (epoch %d, entity %s) pending on %s", a.ctr, a.k, a.epoch, a.ent, h.AddrS(srv))
	if len(toOld) > 0 {
		r.SpecFail("C10/keys-datagram-to-removed-connection", done, fmt.Sprintf("%s: written to a removed connection: %s", what, tkSet(toOld)))
	}
	if !w.everShared {
		switch {
		case impl == "taken" && !a.live && a.why != "verdict":
			r.SpecFail("C10/keys-pending-approval-survives-teardown", done, fmt.Sprintf("%s: taken although the approval went with %q (outputs %s)", what, a.why, tkSet(outs)))
		case impl == "taken" && !a.live:
			r.SpecFail("C10/keys-verdict-taken-twice", done, fmt.Sprintf("%s: taken a second time (outputs %s)", what, tkSet(outs)))
		case impl == "ignored" && a.live:
			r.SpecFail("C10/keys-pending-approval-of-other-lost", done, fmt.Sprintf("%s: ignored although no teardown referred to that device or entity", what))
		}
	}
	if impl == "taken" {
		st.verdictsTaken++
		if a.live {
			a.live, a.why = false, "verdict"
		}
	}
	mdl = ask(fmt.Sprintf("verdict %d %d %d %s %d", a.k, a.epoch, a.ctr, a.se, *srv.Feature))
	return
}

// ---------- "continues to be served": requests of the other peers after a teardown

var tkAnyErr = regexp.MustCompile(`(>result:\d+:)[1-9]\d*:`)

func (w *tkWorld) ctxLine() string {
	dispInit()
	var sf []string
	for i := 1; i <= 4; i++ {
		sf = append(sf, strconv.Itoa(int(*w.srv[strconv.Itoa(i)].Feature)))
	}
	return fmt.Sprintf("ctx %d %d %s %s %d", dispFnID[dispFnLimit], dispTypeID[model.FeatureTypeTypeLoadControl],
		dispCSV(dispFds(model.FeatureTypeTypeLoadControl)), strings.Join(sf, " "), *w.cl.Address().Feature)
}

func (w *tkWorld) drain() {
	for _, x := range w.wr {
		x.Take()
	}
	for _, o := range w.old {
		o.w.Take()
	}
}

// valOf: the value id of a limit-list payload (0 = never written; -1 = a list no write of this history carried)
func (w *tkWorld) valOf(payload string) int {
	var got model.LoadControlLimitListDataType
	if err := json.Unmarshal([]byte(payload), &got); err != nil || len(got.LoadControlLimitData) == 0 {
		return 0
	}
	b, _ := json.Marshal(got)
	if v, ok := w.vals[string(b)]; ok {
		return v
	}
	return -1
}

// outputs: everything the stack wrote since the last drain, per connection, in the format of drv_tdk's showOuts;
// toOld: what was written to writers of removed connections
func (w *tkWorld) outputs() (all []string, toOld []string) {
	show := func(k int, m []byte) string {
		o := dispParseOut(m)
		switch o.kind {
		case "reply":
			return fmt.Sprintf("%d>reply:%s:%d:%s:%s:v%d", k, o.refS(), o.fn, h.AddrS(o.src), h.AddrS(o.dst), w.valOf(o.payload))
		case "result":
			return fmt.Sprintf("%d>result:%s:%d:%s:%s", k, o.refS(), o.err, h.AddrS(o.src), h.AddrS(o.dst))
		case "notify":
			return fmt.Sprintf("%d>notify:%d:%s:%s:v%d", k, o.fn, h.AddrS(o.src), h.AddrS(o.dst), w.valOf(o.payload))
		case "readReq":
			return fmt.Sprintf("%d>readReq:%d:%s:%s", k, o.fn, h.AddrS(o.src), h.AddrS(o.dst))
		}
		return fmt.Sprintf("%d>other:%s", k, o.kind)
	}
	for k := 1; k <= tkNConn; k++ {
		if x := w.wr[k]; x != nil {
			for _, m := range x.Take() {
				all = append(all, show(k, m))
			}
		}
	}
	for _, o := range w.old {
		for _, m := range o.w.Take() {
			all = append(all, show(o.k, m))
			toOld = append(toOld, show(o.k, m))
		}
	}
	return
}

// serveOthers: after a teardown about connection k, every other connected peer q (after an entity removal also k itself,
// from its remaining entities) sends a read, a write and a
// subscription request (as real datagrams through HandleSpineMesssage). Compared with the composed model (drv_tdk `dg`
// / `call`); SPEC (model-free, distinct device addresses): the read is answered with one reply carrying the value of the
// last accepted write, the write is accepted iff the OBSERVED bindings hold (server feature <- q's client feature) and
// then notifies exactly the OBSERVED subscribers of that server feature, the subscription request is granted iff the
// OBSERVED subscriptions do not hold it yet; nothing is written to a removed connection.
func (w *tkWorld) serveOthers(r *h.Report, drv func() *h.Driver, mismatch func([]string, string, string, string), k, opIdx int, done []string, st *tkStats) {
	dispInit()
	fn := dispFnID[dispFnLimit]
	typ := dispTypeID[model.FeatureTypeTypeLoadControl]
	shared := false
	for q := 1; q <= tkNConn; q++ {
		// every OTHER connected peer — and, after an entity removal, the SAME peer from the entities it still has
		// ("all and only what refers to that entity": Props.C10Serve.c10s_entity_same_device_served)
		if !w.alive[q] {
			continue
		}
		var ents []string
		for _, e := range tkBookEnts {
			if regexpEntityKnown(w, q, e) {
				ents = append(ents, e)
			}
		}
		if len(ents) == 0 {
			continue
		}
		dev := tkDev(w.dev[q])
		ent := ents[(opIdx+q)%len(ents)]
		cf := uint(1 + (opIdx+q)%2)
		se := strconv.Itoa(1 + (opIdx+q)%4)
		seW := strconv.Itoa(1 + (opIdx+q)%2) // writes and reads go to the server features without approval callback
		_, preB, _, _, _ := w.observe()
		// prefer a write from a client feature of q that the observed bindings authorise (three times out of four)
		wEnt, wCf, wSe := ent, cf, seW
		if opIdx%4 != 0 {
			for _, b := range preB {
				i := strings.Index(b, "<-")
				if strings.HasPrefix(b, "3/") || strings.HasPrefix(b, "4/") {
					continue
				}
				cl := strings.Split(b[i+2:], ":") // q, dev, ent/feat
				if len(cl) == 3 && cl[0] == strconv.Itoa(q) {
					ef := strings.Split(cl[2], "/")
					n, _ := strconv.Atoi(ef[1])
					wEnt, wCf, wSe = ef[0], uint(n), strings.Split(b[:i], "/")[0]
					break
				}
			}
		}
		type req struct {
			kind, ent string
			cf        uint
			se        string
		}
		for _, rq := range []req{{"write", wEnt, wCf, wSe}, {"read", ent, cf, wSe}, {"sub", ent, cf, se}} {
			srv := w.srv[rq.se]
			cAddr := h.FA(dev, regParseEnt(rq.ent), rq.cf)
			w.ctr[q]++
			ctr := w.ctr[q]
			preS, preB, _, _, _ := w.observe()
			w.drain()
			w.ev.take()
			var line string
			v := 0
			ack := true
			switch rq.kind {
			case "read", "write":
				cls := model.CmdClassifierTypeRead
				cmd := dispCmd(fn, 0, false)
				if rq.kind == "write" {
					cls = model.CmdClassifierTypeWrite
					w.valN++
					v = w.valN
					cmd = dispCmd(fn, v, false)
					b, _ := json.Marshal(cmd.LoadControlLimitListData)
					w.vals[string(b)] = v
				}
				hd := model.HeaderType{AddressSource: cAddr, AddressDestination: h.FA("HEMS", regParseEnt(rq.se), uint(*srv.Feature)),
					MsgCounter: util.Ptr(model.MsgCounterType(ctr)), CmdClassifier: &cls}
				if rq.kind == "write" {
					hd.AckRequest = &ack
				}
				w.inject(q, model.DatagramType{Header: hd, Payload: model.PayloadType{Cmd: []model.CmdType{cmd}}})
				line = fmt.Sprintf("dg %d %s %s %d %s %d %d %d %d %d", q, rq.kind, rq.ent, rq.cf, rq.se, *srv.Feature, fn, ctr, h.B2i(rq.kind == "write"), v)
			case "sub":
				cls := model.CmdClassifierTypeCall
				cmd := model.CmdType{NodeManagementSubscriptionRequestCall: spine.NewNodeManagementSubscriptionRequestCallType(cAddr, h.FA("HEMS", regParseEnt(rq.se), uint(*srv.Feature)), model.FeatureTypeTypeLoadControl)}
				w.inject(q, model.DatagramType{Header: model.HeaderType{AddressSource: h.FA(dev, []uint{0}, 0), AddressDestination: h.FA("HEMS", []uint{0}, 0),
					MsgCounter: util.Ptr(model.MsgCounterType(ctr)), CmdClassifier: &cls, AckRequest: &ack}, Payload: model.PayloadType{Cmd: []model.CmdType{cmd}}})
				line = fmt.Sprintf("call %d sub %s %d %s %d %d %d 1", q, rq.ent, rq.cf, rq.se, *srv.Feature, typ, ctr)
			}
			h.Settle(w.base)
			w.ev.take()
			outs, toOld := w.outputs()
			impl := tkSet(outs)
			st.served++
			r.Eval("serve-"+rq.kind, "")
			what := fmt.Sprintf("%s of connection %d (client %s/%d, server %s) after the teardown about connection %d", rq.kind, q, rq.ent, rq.cf, h.AddrS(srv), k)
			if len(toOld) > 0 {
				r.SpecFail("C10/keys-datagram-to-removed-connection", done, fmt.Sprintf("%s: written to a removed connection: %s", what, tkSet(toOld)))
			}
			if !shared {
				// ---- SPEC from the observed registries alone
				client := fmt.Sprintf("%d:%s:%s/%d", q, tkNum(dev, "dev"), rq.ent, rq.cf)
				entry := h.AddrS(srv) + "<-" + client
				has := func(l []string) bool {
					for _, x := range l {
						if x == entry {
							return true
						}
					}
					return false
				}
				var exp []string
				switch rq.kind {
				case "read":
					exp = []string{fmt.Sprintf("%d>reply:%d:%d:%s:%s/%d:v%d", q, ctr, fn, h.AddrS(srv), rq.ent, rq.cf, w.last[h.AddrS(srv)])}
				case "write":
					if has(preB) {
						st.servedWriteOk++
						w.last[h.AddrS(srv)] = v
						exp = []string{fmt.Sprintf("%d>result:%d:0:%s:%s/%d", q, ctr, h.AddrS(srv), rq.ent, rq.cf)}
						for _, x := range preS {
							if strings.HasPrefix(x, h.AddrS(srv)+"<-") {
								cl := strings.Split(x[strings.Index(x, "<-")+2:], ":")
								exp = append(exp, fmt.Sprintf("%s>notify:%d:%s:%s:v%d", cl[0], fn, h.AddrS(srv), cl[2], v))
								st.servedNotified++
							}
						}
					} else {
						exp = []string{fmt.Sprintf("%d>result:%d:1:%s:%s/%d", q, ctr, h.AddrS(srv), rq.ent, rq.cf)}
					}
				case "sub":
					e := 1
					if !has(preS) {
						e = 0
						st.servedSubOk++
					}
					exp = []string{fmt.Sprintf("%d>result:%d:%d:0/0:0/0", q, ctr, e)}
				}
				// the SPEC does not prescribe WHICH error number refuses
				if tkAnyErr.ReplaceAllString(impl, "${1}1:") != tkSet(exp) {
					r.SpecFail("C10/keys-other-peer-not-served", done, fmt.Sprintf("%s: the stack wrote %s, expected %s", what, impl, tkSet(exp)))
				}
			}
			if d := drv(); d != nil {
				if mdl := d.Ask(line); mdl != impl {
					mismatch(done, impl, mdl, "outputs for the "+what+" ("+line+")")
				}
			}
		}
	}
}

// regexpEntityKnown: does connection k currently know entity ent (real device object)?
func regexpEntityKnown(w *tkWorld, k int, ent string) bool {
	rd := w.l.RemoteDeviceForSki(tkSki(k))
	if rd == nil {
		return false
	}
	return rd.Entity(spine.NewAddressEntityType(regParseEnt(ent))) != nil
}

// tkFacts reads the `-- FACTS` line the translator wrote and converts it into the driver's `facts` arguments.
func tkFacts() (args, raw string) {
	def := "011 101 010 011"
	root := os.Getenv("VERIF_ROOT")
	if root == "" {
		root = ".."
	}
	b, err := os.ReadFile(filepath.Join(root, "lean", "Spine", "Generated", "Cleanup.lean"))
	if err != nil {
		return def, "(no Generated/Cleanup.lean: comparisons of HEAD assumed)"
	}
	kv := map[string]string{}
	for _, l := range strings.Split(string(b), "\n") {
		if strings.HasPrefix(l, "-- FACTS ") {
			raw = strings.TrimPrefix(l, "-- FACTS ")
			for _, t := range strings.Fields(raw) {
				if i := strings.Index(t, "="); i > 0 {
					kv[t[:i]] = t[i+1:]
				}
			}
		}
	}
	s, b2, cd, ce := kv["removeSubscriptionsForEntity"], kv["removeBindingsForEntity"], kv["cleanDeviceCachesSubscriptions"], kv["cleanEntityCachesSubscriptions"]
	if len(s) != 4 || len(b2) != 4 || len(cd) != 3 || len(ce) != 3 {
		return def, "(no usable FACTS line: comparisons of HEAD assumed)"
	}
	return fmt.Sprintf("%s %s 0%s 0%s", s[:3], b2[:3], cd[:2], ce[:2]), raw
}

func genTkHistory(rng regRng, n int, shared bool) []string {
	var ops []string
	alive := map[int]int{} // connection -> device address
	bound := map[string]bool{}
	// two or three connections at the start
	nc := 2 + rng.Intn(2)
	for k := 1; k <= nc; k++ {
		d := 100 + k
		if shared && k > 1 && rng.Intn(2) == 0 {
			d = 101
		}
		alive[k] = d
		ops = append(ops, fmt.Sprintf("connect %d %d", k, d))
	}
	pick := func() int {
		var ks []int
		for k := range alive {
			ks = append(ks, k)
		}
		if len(ks) == 0 {
			return 1
		}
		sort.Ints(ks)
		return ks[rng.Intn(len(ks))]
	}
	ents := []string{"1", "1", "1.1", "2"}
	for len(ops) < n {
		switch x := rng.Intn(100); {
		case x < 28:
			ops = append(ops, fmt.Sprintf("sub %d %s %d %d 1", pick(), ents[rng.Intn(len(ents))], 1+rng.Intn(2), 1+rng.Intn(3)))
		case x < 46:
			se := strconv.Itoa(1 + rng.Intn(4))
			if bound[se] && rng.Intn(4) != 0 {
				continue
			}
			bound[se] = true
			ops = append(ops, fmt.Sprintf("bind %d %s %d %s 1", pick(), ents[rng.Intn(len(ents))], 1+rng.Intn(2), se))
		case x < 56:
			k := pick()
			kind := "csub"
			if rng.Intn(2) == 0 {
				kind = "cbind"
			}
			ops = append(ops, fmt.Sprintf("%s %d %s", kind, alive[k]+h.B2i(rng.Intn(10) == 0), tkBookEnts[rng.Intn(len(tkBookEnts))]))
		case x < 66:
			ops = append(ops, fmt.Sprintf("pwrite %d", pick()))
		case x < 70:
			v := "ok"
			if rng.Intn(3) == 0 {
				v = "deny"
			}
			ops = append(ops, fmt.Sprintf("verdict %d %s", rng.Intn(8), v))
		case x < 81:
			k := pick()
			if rng.Intn(8) == 0 {
				k = 1 + rng.Intn(tkNConn)
			}
			ops = append(ops, fmt.Sprintf("drop %d", k))
			delete(alive, k)
			for i := 1; i <= 4; i++ {
				if se := strconv.Itoa(i); bound[se] && rng.Intn(2) == 0 {
					delete(bound, se)
				}
			}
		case x < 91:
			e := []string{"1", "1.1", "2", "0", "3"}[rng.Intn(5)]
			k := pick()
			if rng.Intn(3) == 0 {
				// the same peer's connection is removed WHILE this notification is processed, at one of its removal events
				at := []string{"entity-:0", "entity-:0", "sub-:0", "sub-:1", "bind-:0"}[rng.Intn(5)]
				ops = append(ops, fmt.Sprintf("dropent %d %s @%s", k, e, at))
				delete(alive, k)
			} else {
				ops = append(ops, fmt.Sprintf("dropent %d %s", k, e))
			}
			if rng.Intn(2) == 0 {
				ops = append(ops, "sweep")
			}
		default:
			k := 1 + rng.Intn(tkNConn)
			if _, ok := alive[k]; ok {
				continue
			}
			d := 100 + k
			if shared && rng.Intn(2) == 0 {
				d = 101 + rng.Intn(tkNConn)
			}
			if !shared {
				// a fresh address: none of the connected devices announces it
				used := false
				for _, a := range alive {
					used = used || a == d
				}
				if used {
					continue
				}
			}
			alive[k] = d
			ops = append(ops, fmt.Sprintf("connect %d %d", k, d))
		}
	}
	return ops
}

// corpus: identical numbering on two connections; the witness of the pinned binding defect; a shared device address
var tkCorpus = [][]string{
	{"connect 1 101", "connect 2 102", "sub 1 1 1 1 1", "sub 2 1 1 1 1", "bind 2 1 1 2 1", "bind 1 1 1 3 1", "csub 101 1", "csub 102 1", "cbind 102 1", "drop 1", "drop 1", "connect 1 101", "sub 1 1 1 1 1", "dropent 2 1", "drop 2"},
	{"connect 1 101", "connect 2 102", "bind 2 1 1 1 1", "drop 1"},
	{"connect 1 101", "connect 2 102", "bind 2 1 1 1 1", "sub 2 1 1 1 1", "sub 1 1.1 1 1 1", "dropent 1 1", "dropent 1 1.1", "dropent 1 0", "dropent 1 3"},
	{"connect 1 101", "connect 3 101", "sub 1 1 1 1 1", "sub 3 1 1 1 1", "bind 3 1 1 1 1", "csub 101 1", "drop 1"},
	{"connect 1 101", "connect 3 101", "sub 1 1 1 1 1", "sub 3 1 1 1 1", "bind 3 1 1 1 1", "cbind 101 1.1", "dropent 1 1", "drop 3"},
	{"connect 2 102", "drop 4", "drop 2", "drop 2", "connect 2 103", "sub 2 2 2 4 1", "drop 2"},
	// pending approvals: two connections with identical numbering and identical counters; teardown of one; re-connection under
	// the same SKI reusing the counter (the verdict for the old connection's message must be ignored, the new one taken)
	{"connect 1 101", "connect 2 102", "bind 1 1 1 3 1", "bind 2 1 1 4 1", "pwrite 1", "pwrite 2", "pwrite 1", "drop 1", "sweep", "connect 1 101", "bind 1 1 1 3 1", "pwrite 1", "pwrite 2", "verdict 0 ok", "verdict 3 ok", "dropent 2 1", "sweep"},
	{"connect 1 101", "connect 2 102", "bind 1 2 1 3 1", "bind 2 1 1 4 1", "pwrite 1", "pwrite 2", "dropent 1 1", "verdict 0 ok", "dropent 1 2", "verdict 0 deny", "verdict 1 deny", "pwrite 1"},
	// the connection is removed while its own entity-removed notification is processed (at the entity event, at a registry event)
	{"connect 1 101", "connect 2 102", "sub 1 1 1 1 1", "bind 1 1 1 2 1", "sub 1 2 1 1 1", "sub 2 1 1 1 1", "csub 101 1", "csub 101 2", "dropent 1 1 @entity-:0", "bind 2 1 1 2 1", "sub 2 1 2 1 1"},
	{"connect 1 101", "connect 2 102", "sub 1 1 1 1 1", "sub 1 1 2 3 1", "bind 1 1 1 2 1", "bind 1 2 1 3 1", "pwrite 1", "sub 2 1 1 1 1", "dropent 1 1 @sub-:1", "sweep", "connect 1 101", "sub 1 1 1 1 1"},
	{"connect 1 101", "connect 2 102", "bind 1 1 1 2 1", "sub 1 1.1 1 1 1", "dropent 1 1 @bind-:0", "dropent 2 3 @entity-:0", "bind 2 1 1 2 1"},
}

// tkCore: core-level event handler that starts an injected teardown at a chosen removal event (see `dropent … @kind:idx`)
var tkCore = &regCoreHandler{}

func TestTeardownKeys(t *testing.T) {
	r := h.NewReport("teardown-keys", "histories over up to 4 connections with identical entity / feature numbering (distinct device addresses, and — compared with the model only — two connections announcing one address): granted subscriptions and bindings, client-side subscriptions / bindings of a local client feature, RemoveRemoteDeviceConnection (also of unknown / already removed connections), entity-removed notifications ([0], unknown, nested), re-connections (also under a new address); after every op the registries with (connection, device address, entity, feature) of each entry, the bookkeeping, the connected devices with their entities, the removal events with their contents and RemoteDeviceForSki / RemoteDeviceForAddress for every connection and address are compared with Spine.TdK built from the comparisons the translator derived from this tree; model-free SPEC monitor for the all-and-only, event and resolution clauses; non-trivial = a history (distinct by op text) that agreed to its end")
	defer r.Write()
	ev := &tkEvents{}
	_ = spine.Events.Subscribe(ev)
	defer func() { _ = spine.Events.Unsubscribe(ev) }()
	_ = spine.VerifSubscribeCore(tkCore)
	defer func() { _ = spine.VerifUnsubscribeCore(tkCore) }()
	d := h.StartDriver("drv_tdk")
	defer d.Close()
	base := h.Baseline()
	facts, raw := tkFacts()
	r.SetFlag("cleanup-comparisons", true, []string{facts}, "what the clean-up functions compare, as derived by the translator from this tree: "+raw)
	st := &tkStats{}
	run := func(ops []string) {
		before := r.Traces
		runTkHistory(r, d, ev, base, facts, ops, st)
		if r.Traces > before {
			r.Case(strings.Join(ops, "; "))
		}
	}
	if ops := h.ReplayOps("teardown-keys"); ops != nil {
		run(ops)
		return
	}
	for _, c := range tkCorpus {
		run(c)
	}
	rng := h.Rng(1061)
	n := h.Scale(700, 7000)
	search := 0 // histories run after the first mismatch, in search of an input on which the SPEC itself fails
	for i := 0; i < n && search < 60; i++ {
		if r.MismatchN > 0 {
			search++
		}
		run(genTkHistory(rng, 10+rng.Intn(22), i%4 == 3))
	}
	if regClean(r, map[string]bool{}) {
		// floors are generator quality on a run that agreed; a change that breaks every history is a violation, not starvation
		r.Floor("granted share of subscription / binding requests", st.grantOk, st.grants, 0.45)
		r.Floor("teardowns that removed entries while entries of others stayed (distinct addresses)", st.dropsNontrivial, st.drops, 0.10)
		r.Floor("ops in worlds with a shared device address", st.sharedOps, st.ops, 0.03)
		r.Floor("requests of other peers after a teardown: writes the observed bindings authorise (accepted)", st.servedWriteOk, st.served, 0.02)
		r.Floor("writes to a feature with approval callback that became pending", st.pwritesPending, st.pwrites, 0.10)
		r.Floor("verdicts taken", st.verdictsTaken, st.verdicts, 0.10)
		r.Floor("connection removals injected into the peer's own entity-removed notification: event point reached", st.injectedFired, st.injectedDrops, 0.25)
		r.Floor("… of those, the device had left the map of connected devices inside the event window", st.insideWindow, st.injectedFired, 0.03)
		r.Floor("requests of other peers after a teardown: subscription requests granted", st.servedSubOk, st.served, 0.05)
	}
	rerun := func(q *h.Report, ops []string) { runTkHistory(q, d, ev, base, facts, ops, &tkStats{}) }
	regShrinkReport(r, rerun, map[string]bool{}, false)
}
