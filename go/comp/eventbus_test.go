package comp

// C15 — correspondence of Spine.Bus (Lean) with spine.Events, plus the SPEC
// monitor of the property evaluated on the implementation's own trace:
// sequential histories (exact differential), a concurrent round (monitor
// only; registered a second time under the race detector) and the
// re-entrancy scenarios (handlers that subscribe, unsubscribe, publish and
// call back into the stack while handling).
//
// spine.Events is process-global: every handler subscribed here is
// unsubscribed again before the test returns, and nobody else publishes
// events with the "evb:" prefix (foreign events are ignored by the harness
// handlers).
//
// Ops of a sequential history (also the replay format): sub l id / unsub l id;
// pub; pubsub l id / pubunsub l id (the first core handler of the publication
// (un)subscribes (l,id) while handling); pubapp sub|unsub l id / pubapp pub (an
// application handler does it / publishes); pubq sub|unsub l id (two goroutines
// publish at the same time: the first core handler of the first publication
// is held inside HandleEvent until the second publisher is seen parked inside
// Publish — goroutine dump — and then (un)subscribes (l,id)); pubheld (an
// application handler of the publication is held inside HandleEvent while
// another goroutine publishes — must return — and then publishes itself).
//
// NOT generated (outside the quantifier of C15, DESIGN §8): a CORE handler
// that publishes (self-deadlock on muHandle), handlers of uncomparable value
// types (second Subscribe panics). Harness handlers are pointers.

import (
	"encoding/json"
	"fmt"
	"os"
	"runtime"
	"sort"
	"strconv"
	"strings"
	"sync"
	"sync/atomic"
	"syscall"
	"testing"
	"time"

	"github.com/enbility/spine-go/api"
	"github.com/enbility/spine-go/model"
	"github.com/enbility/spine-go/spine"
	"github.com/enbility/spine-go/util"
	"verifharness/h"
)

const evbPrefix = "evb:"

// evbWatchdog bounds every wait on the real code; a Publish or a handler that
// has not come back by then counts as blocked.
const evbWatchdog = 5 * time.Second

// evbWedged is set once a call into the real code did not come back: the bus
// (or the stack) then holds a lock for ever and every further call — the
// clean-up calls included — would hang too.
var evbWedged int32

// evbGuard runs f under the watchdog unless the bus is wedged already.
func evbGuard(f func()) bool {
	if atomic.LoadInt32(&evbWedged) != 0 {
		return false
	}
	done := make(chan struct{})
	go func() { f(); close(done) }()
	select {
	case <-done:
		return true
	case <-time.After(evbWatchdog):
		atomic.StoreInt32(&evbWedged, 1)
		return false
	}
}

// evbInflight counts harness handler invocations that have started and not yet returned.
var evbInflight int64

// evbSettle waits until the asynchronous handlers have finished: goroutine
// count back at the baseline AND no harness handler in flight, confirmed on
// three consecutive polls. (runtime.NumGoroutine is computed without stopping
// the world and can transiently under-report while goroutines are created and
// recycled; a single poll returned early once in about a million steps.)
func evbSettle(base int) bool {
	t0 := time.Now()
	for time.Since(t0) < 2*evbWatchdog {
		if !h.Settle(base) {
			break
		}
		stable := true
		for i := 0; i < 3 && stable; i++ {
			runtime.Gosched()
			stable = atomic.LoadInt64(&evbInflight) == 0 && runtime.NumGoroutine() <= base
		}
		if stable {
			return true
		}
	}
	atomic.StoreInt32(&evbWedged, 1)
	return false
}

type evbRec struct {
	pub        string
	level, id  int
	start, end int64 // global sequence numbers; end = 0 while the handler runs
}

type evbWorld struct {
	mu       sync.Mutex
	seq      int64
	recs     []*evbRec
	returned map[string]int64  // publication -> sequence number at which Publish returned
	coreAct  map[string]func() // publication -> action of the first core handler invoked
	appAct   map[string]func() // publication -> action of the first application handler invoked
	open     map[string][2]int // publication -> the handler whose subscription was changed while that Publish call was in progress (either outcome is within the statement)
	hs       map[[2]int]*evbH
}

type evbH struct {
	level, id int
	w         *evbWorld
}

func (x *evbH) HandleEvent(p api.EventPayload) {
	if !strings.HasPrefix(p.Ski, evbPrefix) {
		return
	}
	atomic.AddInt64(&evbInflight, 1)
	defer atomic.AddInt64(&evbInflight, -1)
	w := x.w
	w.mu.Lock()
	w.seq++
	rec := &evbRec{pub: p.Ski, level: x.level, id: x.id, start: w.seq}
	w.recs = append(w.recs, rec)
	m := w.coreAct
	if x.level == 1 {
		m = w.appAct
	}
	act := m[p.Ski]
	delete(m, p.Ski)
	w.mu.Unlock()
	if act != nil {
		act()
	}
	w.mu.Lock()
	w.seq++
	rec.end = w.seq
	w.mu.Unlock()
}

func newEvbWorld() *evbWorld {
	w := &evbWorld{returned: map[string]int64{}, coreAct: map[string]func(){}, appAct: map[string]func(){}, open: map[string][2]int{}, hs: map[[2]int]*evbH{}}
	for l := 0; l < 2; l++ {
		for id := 1; id <= 3; id++ {
			w.hs[[2]int{l, id}] = &evbH{level: l, id: id, w: w}
		}
	}
	return w
}

func evbSub(x *evbH) {
	if x.level == 0 {
		_ = spine.VerifSubscribeCore(x)
	} else {
		_ = spine.Events.Subscribe(x)
	}
}

func evbUnsub(x *evbH) {
	if x.level == 0 {
		_ = spine.VerifUnsubscribeCore(x)
	} else {
		_ = spine.Events.Unsubscribe(x)
	}
}

func (w *evbWorld) cleanup() {
	evbGuard(func() {
		for _, x := range w.hs {
			evbUnsub(x)
		}
	})
}

// publish calls the real Publish and notes when it returned. false = blocked.
func (w *evbWorld) publish(ski string) bool {
	done := make(chan struct{})
	go func() {
		spine.Events.Publish(api.EventPayload{Ski: ski, EventType: api.EventTypeDataChange})
		w.mu.Lock()
		w.seq++
		w.returned[ski] = w.seq
		w.mu.Unlock()
		close(done)
	}()
	select {
	case <-done:
		return true
	case <-time.After(evbWatchdog):
		atomic.StoreInt32(&evbWedged, 1)
		return false
	}
}

// evbQueuedPublish is the second publisher of an overlap step; its own frame
// makes its goroutine recognisable in a stack dump.
//
//go:noinline
func evbQueuedPublish(ski string) {
	spine.Events.Publish(api.EventPayload{Ski: ski, EventType: api.EventTypeDataChange})
}

// evbWaitQueued waits (bounded) until the goroutine running evbQueuedPublish
// is parked on a mutex inside Publish, i.e. the second publisher is queued
// behind the publication whose core handler the harness holds. Nobody else
// touches the bus at that moment, so on the code as written the lock it waits
// for is muHandle and its snapshot has been taken.
func evbWaitQueued(limit time.Duration) bool {
	buf := make([]byte, 1<<20)
	t0 := time.Now()
	for time.Since(t0) < limit {
		n := runtime.Stack(buf, true)
		for _, blk := range strings.Split(string(buf[:n]), "\n\n") {
			if !strings.Contains(blk, "comp.evbQueuedPublish") || !strings.Contains(blk, ").Publish") {
				continue
			}
			hdr := blk
			if i := strings.IndexByte(blk, '\n'); i > 0 {
				hdr = blk[:i]
			}
			if strings.Contains(hdr, "Mutex.Lock") || strings.Contains(hdr, "semacquire") {
				return true
			}
		}
		runtime.Gosched()
		time.Sleep(50 * time.Microsecond)
	}
	return false
}

// evbDump: the goroutines that are inside the bus, for the detail of a deadlock report.
func evbDump() string {
	buf := make([]byte, 4<<20)
	n := runtime.Stack(buf, true)
	var out []string
	for _, blk := range strings.Split(string(buf[:n]), "\n\n") {
		if strings.Contains(blk, "spine/events.go") {
			if len(blk) > 900 {
				blk = blk[:900] + " …"
			}
			out = append(out, blk)
		}
		if len(out) >= 8 {
			break
		}
	}
	return strings.Join(out, "\n--\n")
}

const evbDeadlockKey = "deadlock:core-handler-resubscribes-while-publisher-queued"

// overlap drives the schedule "two goroutines publish at the same time and a
// core handler of the first publication (un)subscribes while the second
// publisher is queued", deterministically: the first core handler invoked for
// ski1 reports that it is inside HandleEvent and waits; the harness starts the
// second publisher and waits until it is parked inside Publish; then the
// handler performs act and returns.
//
//	overlapped: ski1 reached a core handler (else both publications simply ran one after the other)
//	queued:     the second publisher was seen parked before the handler went on
//	ok:         both Publish calls returned within the watchdog
func (w *evbWorld) overlap(ski1, ski2 string, act func()) (overlapped, queued, ok bool) {
	inside, goOn := make(chan struct{}), make(chan struct{})
	var once sync.Once
	release := func() { once.Do(func() { close(goOn) }) }
	defer release() // whatever happens, the held handler is let go
	w.mu.Lock()
	w.coreAct[ski1] = func() {
		close(inside)
		<-goOn
		act()
	}
	w.mu.Unlock()
	pub := func(ski string, f func(string)) chan struct{} {
		done := make(chan struct{})
		go func() {
			f(ski)
			w.mu.Lock()
			w.seq++
			w.returned[ski] = w.seq
			w.mu.Unlock()
			close(done)
		}()
		return done
	}
	wait := func(c chan struct{}) bool {
		select {
		case <-c:
			return true
		case <-time.After(evbWatchdog):
			atomic.StoreInt32(&evbWedged, 1)
			return false
		}
	}
	doneA := pub(ski1, evbQueuedFirst)
	select {
	case <-inside:
		overlapped = true
	case <-doneA:
	case <-time.After(evbWatchdog):
		atomic.StoreInt32(&evbWedged, 1)
		return false, false, false
	}
	if !overlapped {
		w.mu.Lock()
		delete(w.coreAct, ski1)
		w.mu.Unlock()
		return false, false, wait(pub(ski2, evbQueuedPublish))
	}
	doneB := pub(ski2, evbQueuedPublish)
	queued = evbWaitQueued(2 * time.Second)
	release()
	okA := wait(doneA)
	okB := okA && wait(doneB)
	return true, queued, okA && okB
}

func evbQueuedFirst(ski string) {
	spine.Events.Publish(api.EventPayload{Ski: ski, EventType: api.EventTypeDataChange})
}

type evbKey = [2]int

func evbSetStr(s map[evbKey]bool) string {
	var k []string
	for x, on := range s {
		if on {
			k = append(k, fmt.Sprintf("%d/%d", x[0], x[1]))
		}
	}
	sort.Strings(k)
	return strings.Join(k, ",")
}

// judge is the SPEC of C15 for one publication, evaluated on the handler log
// once everything has settled: `set` = the handlers subscribed when Publish
// was called. It returns the canonical observation core-in-order|app-sorted.
func (w *evbWorld) judge(r *h.Report, done []string, ski string, set map[evbKey]bool, ever map[evbKey]bool, dup map[evbKey]bool) string {
	w.mu.Lock()
	defer w.mu.Unlock()
	ret, returned := w.returned[ski]
	count := map[evbKey]int{}
	var core []*evbRec
	var app []string
	var maxCoreEnd, minAppStart int64 = 0, 1 << 62
	for _, rec := range w.recs {
		if rec.pub != ski {
			continue
		}
		k := evbKey{rec.level, rec.id}
		count[k]++
		if rec.end == 0 {
			r.SpecFail("handler-blocked", done, fmt.Sprintf("handler %d/%d of %s has not returned", rec.level, rec.id, ski))
		}
		if rec.level == 0 {
			core = append(core, rec)
			if rec.end > maxCoreEnd {
				maxCoreEnd = rec.end
			}
			if returned && (rec.end == 0 || rec.end > ret) {
				r.SpecFail("core-not-finished-at-return", done, fmt.Sprintf("core handler 0/%d of %s finished after Publish returned", rec.id, ski))
			}
		} else {
			app = append(app, fmt.Sprintf("1/%d", rec.id))
			if rec.start < minAppStart {
				minAppStart = rec.start
			}
		}
	}
	if len(core) > 0 && minAppStart < maxCoreEnd {
		r.SpecFail("application-before-core", done, fmt.Sprintf("an application handler of %s started before the last core handler finished", ski))
	}
	openK, hasOpen := w.open[ski]
	for k, on := range set {
		if hasOpen && k == openK {
			continue
		}
		if on && count[k] == 0 {
			r.SpecFail("not-delivered", done, fmt.Sprintf("%s did not reach handler %d/%d subscribed at publication time (%s)", ski, k[0], k[1], evbSetStr(set)))
		}
	}
	for k, n := range count {
		switch {
		case hasOpen && k == openK && n <= 1:
		case !set[k] && ever[k]:
			r.SpecFail("delivered-after-unsubscribe", done, fmt.Sprintf("%s reached handler %d/%d whose unsubscription had returned", ski, k[0], k[1]))
		case !set[k]:
			r.SpecFail("delivered-to-never-subscribed", done, fmt.Sprintf("%s reached handler %d/%d which never subscribed", ski, k[0], k[1]))
		case n > 1 && dup[k]:
			r.SpecFail("double-subscribe-delivers-twice", done, fmt.Sprintf("%s reached handler %d/%d %d times after a double subscription", ski, k[0], k[1], n))
		case n > 1:
			r.SpecFail("delivered-twice", done, fmt.Sprintf("%s reached handler %d/%d %d times", ski, k[0], k[1], n))
		}
	}
	sort.Slice(core, func(i, j int) bool { return core[i].start < core[j].start })
	var cs []string
	for _, c := range core {
		cs = append(cs, fmt.Sprintf("0/%d", c.id))
	}
	sort.Strings(app)
	show := func(x []string) string {
		if len(x) == 0 {
			return "."
		}
		return strings.Join(x, ",")
	}
	return show(cs) + "|" + show(app)
}

// evbRunHistory runs one sequential history on the real bus and on the model.
// false = the bus is wedged (a Publish or handler blocked), stop the test.
func evbRunHistory(r *h.Report, d *h.Driver, ops []string, base int) bool {
	w := newEvbWorld()
	defer w.cleanup()
	d.Ask("reset")
	d.Mark()
	set := map[evbKey]bool{}  // SPEC state: subscribed, from the calls that returned
	ever := map[evbKey]bool{} // was subscribed at some time
	dup := map[evbKey]bool{}  // subscribed again while subscribed
	var done []string
	pubN := 0
	both, acted := false, false
	for _, op := range ops {
		f := strings.Fields(op)
		atoi := func(i int) int { n, _ := strconv.Atoi(f[i]); return n }
		var impl, line, kind string
		doSet := func(k evbKey, on bool) {
			if on {
				if set[k] {
					dup[k] = true
				}
				set[k], ever[k] = true, true
			} else {
				set[k], dup[k] = false, false
			}
		}
		switch f[0] {
		case "sub", "unsub":
			k := evbKey{atoi(1), atoi(2)}
			x := w.hs[k]
			if x == nil {
				panic("bad op " + op)
			}
			if f[0] == "sub" {
				evbSub(x)
			} else {
				evbUnsub(x)
			}
			doSet(k, f[0] == "sub")
			line, impl, kind = op, "ok", f[0]
			done = append(done, op)
		case "pub", "pubsub", "pubunsub", "pubapp":
			pubN++
			p := pubN
			ski := evbPrefix + strconv.Itoa(p)
			at := map[evbKey]bool{}
			for k, on := range set {
				at[k] = on
			}
			var after func()     // SPEC state change caused by the handler's action
			var nestedSki string // publication made by an application handler
			var nestedAt map[evbKey]bool
			nestedOK := true
			w.mu.Lock()
			switch f[0] {
			case "pub":
				line = fmt.Sprintf("pub %d", p)
			case "pubsub", "pubunsub":
				k := evbKey{atoi(1), atoi(2)}
				x := w.hs[k]
				on := f[0] == "pubsub"
				line = fmt.Sprintf("%s %d %d %d", f[0], p, k[0], k[1])
				w.coreAct[ski] = func() {
					if on {
						evbSub(x)
					} else {
						evbUnsub(x)
					}
				}
				after = func() { doSet(k, on) }
			case "pubapp":
				switch f[1] {
				case "sub", "unsub":
					k := evbKey{atoi(2), atoi(3)}
					x := w.hs[k]
					on := f[1] == "sub"
					line = fmt.Sprintf("pubapp %d %s %d %d", p, f[1], k[0], k[1])
					w.appAct[ski] = func() {
						if on {
							evbSub(x)
						} else {
							evbUnsub(x)
						}
					}
					after = func() { doSet(k, on) }
				case "pub":
					pubN++
					nestedSki = evbPrefix + strconv.Itoa(pubN)
					line = fmt.Sprintf("pubapp %d pub %d", p, pubN)
					nestedAt = at // nothing changes the subscriptions in between
					w.appAct[ski] = func() {
						// re-entrant publication from inside an application handler
						spine.Events.Publish(api.EventPayload{Ski: nestedSki, EventType: api.EventTypeDataChange})
						w.mu.Lock()
						w.seq++
						w.returned[nestedSki] = w.seq
						w.mu.Unlock()
					}
				default:
					panic("bad op " + op)
				}
			}
			w.mu.Unlock()
			done = append(done, op)
			if !w.publish(ski) {
				r.SpecFail("publish-blocked", done, fmt.Sprintf("Publish of %s did not return within %v", ski, evbWatchdog))
				return false
			}
			// SPEC, checked at once: the core handlers subscribed at publication time are done
			w.mu.Lock()
			for k, on := range at {
				if !on || k[0] != 0 {
					continue
				}
				fin := false
				for _, rec := range w.recs {
					if rec.pub == ski && rec.level == 0 && rec.id == k[1] && rec.end != 0 {
						fin = true
					}
				}
				if !fin {
					r.SpecFail("core-not-finished-at-return", done, fmt.Sprintf("Publish of %s returned before core handler 0/%d had finished", ski, k[1]))
				}
			}
			w.mu.Unlock()
			if !evbSettle(base) {
				r.SpecFail("reentrant-handler-blocked", done, fmt.Sprintf("the application handlers of %s (action %q) did not finish within the settle bound", ski, op))
				return false
			}
			// which action was performed?
			w.mu.Lock()
			_, corePending := w.coreAct[ski]
			_, appPending := w.appAct[ski]
			delete(w.coreAct, ski)
			delete(w.appAct, ski)
			w.mu.Unlock()
			hasCore, hasApp := false, false
			for k, on := range at {
				if on && k[0] == 0 {
					hasCore = true
				}
				if on && k[0] == 1 {
					hasApp = true
				}
			}
			if hasCore && hasApp {
				both = true
			}
			performed := (f[0] == "pubsub" || f[0] == "pubunsub") && !corePending || f[0] == "pubapp" && !appPending
			if after != nil && performed {
				after()
			}
			// SPEC: a handler subscribed at publication time performs the action
			if (f[0] == "pubsub" || f[0] == "pubunsub") && hasCore != performed || f[0] == "pubapp" && hasApp != performed {
				r.SpecFail("not-delivered", done, fmt.Sprintf("%s: action of the first handler performed=%v although subscribed core=%v app=%v", ski, performed, hasCore, hasApp))
			}
			impl = w.judge(r, done, ski, at, ever, dup)
			if nestedSki != "" {
				if performed {
					impl += ";" + w.judge(r, done, nestedSki, nestedAt, ever, dup)
					w.mu.Lock()
					_, nestedOK = w.returned[nestedSki]
					w.mu.Unlock()
					if !nestedOK {
						r.SpecFail("reentrant-handler-blocked", done, "the nested Publish of "+nestedSki+" did not return")
						return false
					}
				} else {
					impl += ";-"
				}
			}
			kind = f[0]
			if f[0] == "pubapp" {
				kind = "pubapp-" + f[1]
				if performed {
					acted = true
					kind += ":performed"
				}
			}
		case "pubheld":
			// an application handler of publication p1 is HELD inside HandleEvent (by the harness, on a channel) while
			// another goroutine publishes p2 — Publish must return with the core handlers served, whatever earlier
			// application handlers are doing — and then publishes p3 itself, still inside HandleEvent
			p1, p2, p3 := pubN+1, pubN+2, pubN+3
			pubN += 3
			ski1, ski2, ski3 := evbPrefix+strconv.Itoa(p1), evbPrefix+strconv.Itoa(p2), evbPrefix+strconv.Itoa(p3)
			at := map[evbKey]bool{}
			hasApp := false
			for kk, v := range set {
				at[kk] = v
				hasApp = hasApp || (v && kk[0] == 1)
			}
			inside, goOn := make(chan struct{}), make(chan struct{})
			var once sync.Once
			release := func() { once.Do(func() { close(goOn) }) }
			w.mu.Lock()
			w.appAct[ski1] = func() {
				close(inside)
				<-goOn
				spine.Events.Publish(api.EventPayload{Ski: ski3, EventType: api.EventTypeDataChange})
				w.mu.Lock()
				w.seq++
				w.returned[ski3] = w.seq
				w.mu.Unlock()
			}
			w.mu.Unlock()
			done = append(done, op)
			r.Eval("pubheld", "")
			if !w.publish(ski1) {
				release()
				r.SpecFail("publish-blocked", done, "Publish of "+ski1+" did not return")
				return false
			}
			if hasApp {
				select {
				case <-inside:
				case <-time.After(evbWatchdog):
					release()
					atomic.StoreInt32(&evbWedged, 1)
					r.SpecFail("not-delivered", done, ski1+" reached no application handler although one is subscribed")
					return false
				}
			}
			okB := w.publish(ski2)
			if okB {
				// SPEC, checked while the application handler of p1 is still inside HandleEvent
				w.mu.Lock()
				for kk, v := range at {
					if !v || kk[0] != 0 {
						continue
					}
					fin := false
					for _, rec := range w.recs {
						if rec.pub == ski2 && rec.level == 0 && rec.id == kk[1] && rec.end != 0 {
							fin = true
						}
					}
					if !fin {
						r.SpecFail("core-not-finished-at-return", done, fmt.Sprintf("Publish of %s returned before core handler 0/%d had finished", ski2, kk[1]))
					}
				}
				w.mu.Unlock()
			}
			release()
			if !okB {
				r.SpecFail("publish-waits-for-application-handler", done, fmt.Sprintf("an application handler of %s is still inside HandleEvent (held by the harness); Publish of %s from another goroutine did not return within %v. Goroutines inside the bus:\n%s", ski1, ski2, evbWatchdog, evbDump()))
				return false
			}
			if !evbSettle(base) {
				r.SpecFail("reentrant-handler-blocked", done, fmt.Sprintf("the application handler of %s that publishes %s from inside HandleEvent after another publication went through did not finish. Goroutines inside the bus:\n%s", ski1, ski3, evbDump()))
				return false
			}
			w.mu.Lock()
			_, notTaken := w.appAct[ski1]
			delete(w.appAct, ski1)
			w.mu.Unlock()
			if hasApp == notTaken {
				r.SpecFail("not-delivered", done, fmt.Sprintf("%s: application handler subscribed=%v, action performed=%v", ski1, hasApp, !notTaken))
			}
			impl = w.judge(r, done, ski1, at, ever, dup)
			if !notTaken {
				impl += ";" + w.judge(r, done, ski3, at, ever, dup)
				acted = true
			} else {
				impl += ";-"
			}
			impl2 := w.judge(r, done, ski2, at, ever, dup)
			want := d.Ask(fmt.Sprintf("pubapp %d pub %d", p1, p3))
			want2 := d.Ask(fmt.Sprintf("pub %d", p2))
			if impl != want || impl2 != want2 {
				r.Mismatch(done, impl+" / "+impl2, want+" / "+want2, "bus op "+op)
				return true
			}
			continue
		case "pubq":
			// two publishers at once; the first core handler of the first publication (un)subscribes (l,id)
			// while the second publisher is queued
			k := evbKey{atoi(2), atoi(3)}
			x := w.hs[k]
			on := f[1] == "sub"
			if x == nil || (f[1] != "sub" && f[1] != "unsub") {
				panic("bad op " + op)
			}
			pubN += 2
			p1, p2 := pubN-1, pubN
			ski1, ski2 := evbPrefix+strconv.Itoa(p1), evbPrefix+strconv.Itoa(p2)
			line = fmt.Sprintf("pubq %d %d %s %d %d", p1, p2, f[1], k[0], k[1])
			at := map[evbKey]bool{}
			for kk, v := range set {
				at[kk] = v
			}
			done = append(done, op)
			overlapped, queued, ok := w.overlap(ski1, ski2, func() {
				if on {
					evbSub(x)
				} else {
					evbUnsub(x)
				}
			})
			if !ok {
				r.SpecFail(evbDeadlockKey, done, fmt.Sprintf("two goroutines publish %s and %s; the first core handler of %s calls %s(%d/%d) while the second publisher is queued (seen parked: %v): a Publish did not return within %v. Goroutines inside the bus:\n%s", ski1, ski2, ski1, map[bool]string{true: "Subscribe", false: "Unsubscribe"}[on], k[0], k[1], queued, evbWatchdog, evbDump()))
				return false
			}
			if !evbSettle(base) {
				r.SpecFail("reentrant-handler-blocked", done, "the application handlers of "+ski1+" / "+ski2+" did not finish within the settle bound")
				return false
			}
			hasCore := false
			for kk, v := range at {
				if v && kk[0] == 0 {
					hasCore = true
				}
			}
			if hasCore != overlapped {
				r.SpecFail("not-delivered", done, fmt.Sprintf("%s: a core handler subscribed=%v, reached=%v", ski1, hasCore, overlapped))
			}
			impl = w.judge(r, done, ski1, at, ever, dup)
			at2 := at
			if overlapped {
				// Publish(ski2) was called before the handler acted and returned after it: for (l,id) either outcome is
				// within "subscribed at publication time"; the model comparison below is exact
				w.mu.Lock()
				w.open[ski2] = k
				w.mu.Unlock()
				doSet(k, on)
			} else {
				at2 = map[evbKey]bool{}
				for kk, v := range set {
					at2[kk] = v
				}
			}
			impl2 := w.judge(r, done, ski2, at2, ever, dup)
			impl += ";" + impl2
			kind = "pubq"
			if overlapped {
				kind = "pubq:overlapped"
				if !queued {
					// the second publisher was not seen parked within the bound: whether its snapshot precedes the
					// handler's action is then unknown; only the first publication is compared exactly
					kind = "pubq:overlapped-unobserved"
					want := d.Ask(line)
					r.Eval(kind, "")
					if i := strings.IndexByte(want, ';'); i < 0 || want[:i] != impl[:strings.IndexByte(impl, ';')] {
						r.Mismatch(done, impl, want, "bus op "+op+" as "+line+" (first publication)")
						return true
					}
					continue
				}
			}
		default:
			panic("bad op " + op)
		}
		want := d.Ask(line)
		r.Eval(kind, "")
		if impl != want {
			r.Mismatch(done, impl, want, "bus op "+op+" as "+line)
			return true
		}
	}
	r.Traces++
	if both && acted {
		r.Case(strings.Join(ops, "; "))
		r.Dist["history:nontrivial"]++
	}
	return true
}

func evbGenHistory(rng interface{ Intn(int) int }, n int) []string {
	var ops []string
	for i := 0; i < n; i++ {
		l, id := rng.Intn(2), 1+rng.Intn(3)
		switch k := rng.Intn(26); {
		case k == 25:
			ops = append(ops, "pubheld")
		case k == 24:
			ops = append(ops, fmt.Sprintf("pubq %s %d %d", []string{"sub", "unsub"}[rng.Intn(2)], l, id))
		case k < 7:
			ops = append(ops, fmt.Sprintf("sub %d %d", l, id))
		case k < 10:
			ops = append(ops, fmt.Sprintf("unsub %d %d", l, id))
		case k < 14:
			ops = append(ops, "pub")
		case k < 16:
			ops = append(ops, fmt.Sprintf("pubsub %d %d", l, id))
		case k < 18:
			ops = append(ops, fmt.Sprintf("pubunsub %d %d", l, id))
		case k < 20:
			ops = append(ops, fmt.Sprintf("pubapp sub %d %d", l, id))
		case k < 22:
			ops = append(ops, fmt.Sprintf("pubapp unsub %d %d", l, id))
		default:
			ops = append(ops, "pubapp pub")
		}
	}
	return ops
}


// ---------- ONE handler object subscribed at both levels (exhaustive)

// evbBothH is a single Go object that may be subscribed at the core level, at the application level, or at both.
// It tells the two deliveries of a publication apart by where they run: the core delivery is synchronous on the
// publishing goroutine, the application delivery runs on a goroutine of its own.
type evbBothH struct {
	mu          sync.Mutex
	publisher   string
	sync, async map[string]int
}

func (x *evbBothH) HandleEvent(p api.EventPayload) {
	if !strings.HasPrefix(p.Ski, evbPrefix) {
		return
	}
	atomic.AddInt64(&evbInflight, 1)
	defer atomic.AddInt64(&evbInflight, -1)
	me := h.Goid()
	x.mu.Lock()
	if me == x.publisher {
		x.sync[p.Ski]++
	} else {
		x.async[p.Ski]++
	}
	x.mu.Unlock()
}

// evbSharedSeq runs one sequence of "shared subC|subA|unsubC|unsubA" on a fresh handler object, publishing after
// every operation; the model is Spine.Bus with the handler as (0,9) and (1,9). Identity on the bus is the PAIR
// (level, handler): a subscription at one level neither replaces, nor is removed with, the one at the other level.
func evbSharedSeq(r *h.Report, d *h.Driver, ops []string, base int) bool {
	x := &evbBothH{sync: map[string]int{}, async: map[string]int{}}
	defer evbGuard(func() { _ = spine.VerifUnsubscribeCore(x); _ = spine.Events.Unsubscribe(x) })
	d.Ask("reset")
	var done []string
	spec := [2]bool{} // subscribed at core / application level according to the calls that returned
	for i, op := range ops {
		f := strings.Fields(op)
		if len(f) != 2 || f[0] != "shared" {
			panic("bad op " + op)
		}
		var line string
		ok := evbGuard(func() {
			switch f[1] {
			case "subC":
				_ = spine.VerifSubscribeCore(x)
				spec[0], line = true, "sub 0 9"
			case "subA":
				_ = spine.Events.Subscribe(x)
				spec[1], line = true, "sub 1 9"
			case "unsubC":
				_ = spine.VerifUnsubscribeCore(x)
				spec[0], line = false, "unsub 0 9"
			case "unsubA":
				_ = spine.Events.Unsubscribe(x)
				spec[1], line = false, "unsub 1 9"
			default:
				panic("bad op " + op)
			}
		})
		done = append(done, op)
		if !ok {
			r.SpecFail("blocked:"+f[1], done, "the call did not return")
			return false
		}
		d.Ask(line)
		ski := fmt.Sprintf("%sshared-%d", evbPrefix, i)
		pubDone := make(chan struct{})
		go func() {
			x.mu.Lock()
			x.publisher = h.Goid()
			x.mu.Unlock()
			spine.Events.Publish(api.EventPayload{Ski: ski, EventType: api.EventTypeDataChange})
			close(pubDone)
		}()
		select {
		case <-pubDone:
		case <-time.After(evbWatchdog):
			atomic.StoreInt32(&evbWedged, 1)
			r.SpecFail("blocked:publish", done, "Publish did not return")
			return false
		}
		evbSettle(base)
		x.mu.Lock()
		ns, na := x.sync[ski], x.async[ski]
		x.mu.Unlock()
		impl := fmt.Sprintf("core=%d application=%d", ns, na)
		hl := d.Ask("handlers")
		want := fmt.Sprintf("core=%d application=%d", h.B2i(strings.Contains(hl, "0/9")), h.B2i(strings.Contains(hl, "1/9")))
		r.Eval("shared:"+f[1], "")
		// SPEC, independent of the model: a level at which the handler is subscribed and was never unsubscribed since is served
		// exactly once; nothing is delivered at a level after the unsubscription there returned
		for l, n := range []int{ns, na} {
			lv := []string{"core", "application"}[l]
			switch {
			case spec[l] && n == 0 && !strings.HasPrefix(f[1], "sub"):
				r.SpecFail("unsubscribe-at-other-level-removes-subscription", done, fmt.Sprintf("the handler is subscribed at %s level and was not unsubscribed there; after %s the publication did not reach it at that level (%s)", lv, f[1], impl))
			case !spec[l] && n > 0:
				r.SpecFail("delivered-after-unsubscribe", done, fmt.Sprintf("the handler is not subscribed at %s level and received the publication there (%s)", lv, impl))
			case n > 1:
				r.SpecFail("delivered-twice", done, fmt.Sprintf("%d deliveries at %s level for one publication", n, lv))
			}
		}
		if impl != want {
			r.Mismatch(done, impl, want, "one handler object at both levels: "+op)
			return true
		}
	}
	r.Traces++
	return true
}

// evbRunAny dispatches a history to the runner its ops belong to.
func evbRunAny(r *h.Report, d *h.Driver, ops []string, base int) bool {
	if len(ops) > 0 && strings.HasPrefix(ops[0], "shared ") {
		for _, op := range ops {
			if !strings.HasPrefix(op, "shared ") {
				return true
			}
		}
		return evbSharedSeq(r, d, ops, base)
	}
	if len(ops) == 0 {
		return true
	}
	return evbRunHistory(r, d, ops, base)
}

// evbShared: every sequence of up to `depth` (un)subscriptions of ONE handler object at the two levels.
func evbShared(r *h.Report, d *h.Driver, base int) bool {
	alphabet := []string{"shared subC", "shared subA", "shared unsubC", "shared unsubA"}
	depth := h.Scale(4, 6)
	for n := 1; n <= depth; n++ {
		idx := make([]int, n)
		for {
			ops := make([]string, 0, n)
			for _, i := range idx {
				ops = append(ops, alphabet[i])
			}
			if !evbSharedSeq(r, d, ops, base) {
				return false
			}
			if r.MismatchN > 0 || len(r.SpecFailures) > 0 {
				return true
			}
			k := n - 1
			for k >= 0 {
				idx[k]++
				if idx[k] < len(alphabet) {
					break
				}
				idx[k] = 0
				k--
			}
			if k < 0 {
				break
			}
		}
	}
	return true
}

// ---------- re-entrancy scenarios (SPEC monitor with watchdog, no model)

// evbSelfH re-subscribes, unsubscribes and publishes from inside HandleEvent.
type evbSelfH struct {
	mu    sync.Mutex
	got   map[string]int
	first bool
	inner string
	extra func()
}

func (x *evbSelfH) HandleEvent(p api.EventPayload) {
	if !strings.HasPrefix(p.Ski, evbPrefix) {
		return
	}
	atomic.AddInt64(&evbInflight, 1)
	defer atomic.AddInt64(&evbInflight, -1)
	x.mu.Lock()
	x.got[p.Ski]++
	first := !x.first
	x.first = true
	x.mu.Unlock()
	if first {
		spine.Events.Publish(api.EventPayload{Ski: x.inner, EventType: api.EventTypeDataChange})
		_ = spine.Events.Unsubscribe(x)
		_ = spine.Events.Subscribe(x)
		_ = spine.Events.Subscribe(x)
		if x.extra != nil {
			x.extra()
		}
	}
}

func (x *evbSelfH) count(ski string) int {
	x.mu.Lock()
	defer x.mu.Unlock()
	return x.got[ski]
}

// evbReentrant: an application handler that publishes, unsubscribes itself and
// subscribes itself twice while handling returns, the publications return, and
// the handler is served afterwards (once per publication).
func evbReentrant(r *h.Report, base int, n int) bool {
	ops := []string{fmt.Sprintf("reentrant-self %d", n)}
	x := &evbSelfH{got: map[string]int{}, inner: fmt.Sprintf("%sinner-%d", evbPrefix, n)}
	w := newEvbWorld()
	_ = spine.Events.Subscribe(x)
	_ = spine.Events.Subscribe(x)
	defer evbGuard(func() { _ = spine.Events.Unsubscribe(x) })
	outer := fmt.Sprintf("%souter-%d", evbPrefix, n)
	if !w.publish(outer) {
		r.SpecFail("publish-blocked", ops, "Publish did not return while an application handler re-entered the bus")
		return false
	}
	if !evbSettle(base) {
		r.SpecFail("reentrant-handler-blocked", ops, "an application handler that publishes, unsubscribes and subscribes from inside HandleEvent did not return")
		return false
	}
	if a, b := x.count(outer), x.count(x.inner); a > 1 {
		r.SpecFail("double-subscribe-delivers-twice", ops, fmt.Sprintf("a handler subscribed twice got one publication %d times", a))
	} else if a != 1 || b != 1 {
		r.SpecFail("reentrant-not-served", ops, fmt.Sprintf("outer publication delivered %d times, publication made inside the handler %d times (want 1, 1)", a, b))
	}
	later := fmt.Sprintf("%slater-%d", evbPrefix, n)
	if !w.publish(later) {
		r.SpecFail("publish-blocked", ops, "Publish after the re-entrant handler did not return")
		return false
	}
	evbSettle(base)
	if c := x.count(later); c != 1 {
		r.SpecFail("reentrant-not-served", ops, fmt.Sprintf("after re-subscribing itself (twice) inside HandleEvent the handler got the next publication %d times (want 1)", c))
	}
	r.Eval("reentrant-self", "")
	return true
}

// evbAsync: application handlers run asynchronously — a handler that waits
// until Publish has returned does not keep Publish from returning.
func evbAsync(r *h.Report, base int) bool {
	ops := []string{"application-handler-waits-for-return"}
	returned := make(chan struct{})
	var sawReturn int32
	hh := &evbFuncH{f: func(p api.EventPayload) {
		select {
		case <-returned:
			atomic.StoreInt32(&sawReturn, 1)
		case <-time.After(evbWatchdog):
		}
	}}
	_ = spine.Events.Subscribe(hh)
	defer evbGuard(func() { _ = spine.Events.Unsubscribe(hh) })
	done := make(chan struct{})
	go func() {
		spine.Events.Publish(api.EventPayload{Ski: evbPrefix + "async", EventType: api.EventTypeDataChange})
		close(returned)
		close(done)
	}()
	select {
	case <-done:
	case <-time.After(2 * evbWatchdog):
		atomic.StoreInt32(&evbWedged, 1)
		r.SpecFail("publish-blocked", ops, "Publish did not return")
		return false
	}
	evbSettle(base)
	if atomic.LoadInt32(&sawReturn) != 1 {
		r.SpecFail("application-handler-synchronous", ops, "Publish returned only after the application handler had given up waiting for it: application handlers do not run asynchronously")
	}
	r.Eval("async", "")
	return true
}

type evbFuncH struct {
	f   func(api.EventPayload)
	all bool // also events of skis other than the harness's own prefix (life-cycle scenario)
}

func (x *evbFuncH) HandleEvent(p api.EventPayload) {
	if strings.HasPrefix(p.Ski, evbPrefix) || p.Ski == "evbpeer" || x.all || p.Ski == "evbA" || p.Ski == "evbB" {
		atomic.AddInt64(&evbInflight, 1)
		defer atomic.AddInt64(&evbInflight, -1)
		x.f(p)
	}
}

// evbStack: a real event published by the stack (data change after an inbound
// notify) is handled by an application handler that calls back into the stack
// — reads the remote feature's data, reads and writes a local feature, sends a
// request, (un)subscribes and publishes — while the stack's own core handler
// (DeviceLocal) is subscribed. Everything must return.
func evbStack(r *h.Report, base int) bool {
	ops := []string{"stack-callback-from-handler"}
	l := spine.NewDeviceLocal("b", "m", "s", "c", "HEMS", model.DeviceTypeTypeEnergyManagementSystem, model.NetworkManagementFeatureSetTypeSmart)
	e1 := spine.NewEntityLocal(l, model.EntityTypeTypeCEM, spine.NewAddressEntityType([]uint{1}), 4*time.Second)
	l.AddEntity(e1)
	lc := e1.GetOrAddFeature(model.FeatureTypeTypeLoadControl, model.RoleTypeClient)
	dd := e1.GetOrAddFeature(model.FeatureTypeTypeDeviceDiagnosis, model.RoleTypeServer)
	dd.AddFunctionType(model.FunctionTypeDeviceDiagnosisStateData, true, false)
	wr := &h.W{}
	l.SetupRemoteDevice("evbpeer", wr)
	rd := l.RemoteDeviceForSki("evbpeer")
	defer func() {
		if evbGuard(func() { l.RemoveRemoteDeviceConnection("evbpeer") }) {
			h.Settle(base)
		}
	}()
	dev := "devP"
	feat := func(ent []uint, fid uint, ft model.FeatureTypeType, role model.RoleType) model.NodeManagementDetailedDiscoveryFeatureInformationType {
		return model.NodeManagementDetailedDiscoveryFeatureInformationType{Description: &model.NetworkManagementFeatureDescriptionDataType{FeatureAddress: h.FA(dev, ent, fid), FeatureType: &ft, Role: &role}}
	}
	ent := func(e []uint, et model.EntityTypeType) model.NodeManagementDetailedDiscoveryEntityInformationType {
		return model.NodeManagementDetailedDiscoveryEntityInformationType{Description: &model.NetworkManagementEntityDescriptionDataType{EntityAddress: &model.EntityAddressType{Device: util.Ptr(model.AddressDeviceType(dev)), Entity: spine.NewAddressEntityType(e)}, EntityType: &et}}
	}
	disc := &model.NodeManagementDetailedDiscoveryDataType{
		DeviceInformation:  &model.NodeManagementDetailedDiscoveryDeviceInformationType{Description: &model.NetworkManagementDeviceDescriptionDataType{DeviceAddress: &model.DeviceAddressType{Device: util.Ptr(model.AddressDeviceType(dev))}}},
		EntityInformation:  []model.NodeManagementDetailedDiscoveryEntityInformationType{ent([]uint{0}, model.EntityTypeTypeDeviceInformation), ent([]uint{1}, model.EntityTypeTypeEVSE)},
		FeatureInformation: []model.NodeManagementDetailedDiscoveryFeatureInformationType{feat([]uint{0}, 0, model.FeatureTypeTypeNodeManagement, model.RoleTypeSpecial), feat([]uint{1}, 1, model.FeatureTypeTypeLoadControl, model.RoleTypeServer)},
	}
	send := func(src, dst *model.FeatureAddressType, cl model.CmdClassifierType, ctr uint64, ref *model.MsgCounterType, c model.CmdType) bool {
		b, _ := json.Marshal(model.Datagram{Datagram: model.DatagramType{Header: model.HeaderType{AddressSource: src, AddressDestination: dst, MsgCounter: util.Ptr(model.MsgCounterType(ctr)), MsgCounterReference: ref, CmdClassifier: &cl}, Payload: model.PayloadType{Cmd: []model.CmdType{c}}}})
		done := make(chan struct{})
		go func() { _, _ = rd.HandleSpineMesssage(b); close(done) }()
		select {
		case <-done:
			return true
		case <-time.After(evbWatchdog):
			atomic.StoreInt32(&evbWedged, 1)
			return false
		}
	}
	var handled, finished, nested int32
	var self *evbFuncH
	self = &evbFuncH{f: func(p api.EventPayload) {
		if p.Ski == evbPrefix+"from-handler" {
			atomic.AddInt32(&nested, 1)
			return
		}
		if p.EventType != api.EventTypeDataChange || p.Feature == nil || p.LocalFeature == nil || p.Function != model.FunctionTypeLoadControlLimitListData {
			return
		}
		atomic.AddInt32(&handled, 1)
		// call back into the stack from inside the handler
		_ = p.Feature.DataCopy(model.FunctionTypeLoadControlLimitListData)
		_ = p.LocalFeature.DataCopy(model.FunctionTypeLoadControlLimitListData)
		_ = dd.DataCopy(model.FunctionTypeDeviceDiagnosisStateData)
		dd.SetData(model.FunctionTypeDeviceDiagnosisStateData, &model.DeviceDiagnosisStateDataType{OperatingState: util.Ptr(model.DeviceDiagnosisOperatingStateTypeNormalOperation)})
		_ = l.Entities()
		_ = l.RemoteDevices()
		_ = p.Device.Entities()
		_, _ = p.LocalFeature.RequestRemoteData(model.FunctionTypeLoadControlLimitListData, nil, nil, p.Feature)
		_ = spine.Events.Unsubscribe(self)
		_ = spine.Events.Subscribe(self)
		spine.Events.Publish(api.EventPayload{Ski: evbPrefix + "from-handler", EventType: api.EventTypeDataChange})
		atomic.AddInt32(&finished, 1)
	}}
	_ = spine.Events.Subscribe(self)
	defer evbGuard(func() { _ = spine.Events.Unsubscribe(self) })
	one := model.MsgCounterType(1)
	if !send(h.FA(dev, []uint{0}, 0), h.FA("HEMS", []uint{0}, 0), model.CmdClassifierTypeReply, 1, &one, model.CmdType{NodeManagementDetailedDiscoveryData: disc}) {
		r.SpecFail("stack-blocked", ops, "HandleSpineMesssage (discovery reply) did not return")
		return false
	}
	evbSettle(base)
	limits := &model.LoadControlLimitListDataType{LoadControlLimitData: []model.LoadControlLimitDataType{{LimitId: util.Ptr(model.LoadControlLimitIdType(1)), IsLimitActive: util.Ptr(true)}}}
	if !send(h.FA(dev, []uint{1}, 1), lc.Address(), model.CmdClassifierTypeNotify, 2, nil, model.CmdType{LoadControlLimitListData: limits}) {
		r.SpecFail("stack-blocked", ops, "HandleSpineMesssage (notify) did not return while an application handler called back into the stack")
		return false
	}
	if !evbSettle(base) {
		r.SpecFail("reentrant-handler-blocked", ops, "an application handler that reads and writes features, sends a request, (un)subscribes and publishes while handling a data-change event did not return")
		return false
	}
	hd, fin, ne := atomic.LoadInt32(&handled), atomic.LoadInt32(&finished), atomic.LoadInt32(&nested)
	if hd != 1 {
		r.SpecFail("not-delivered", ops, fmt.Sprintf("the data-change event of the inbound notify reached the application handler %d times (want 1)", hd))
	} else if fin != 1 || ne != 1 {
		r.SpecFail("reentrant-not-served", ops, fmt.Sprintf("handler finished %d times, its own publication was delivered to it %d times (want 1, 1)", fin, ne))
	}
	r.Eval("stack-callback", "")
	return true
}

// ---------- the bus inside the stack: a small world with real peers

type evbSW struct {
	l      *spine.DeviceLocal
	lc, dd api.FeatureLocalInterface
	mu     sync.Mutex
	ws     map[string]*h.W
	ctr    uint64
}

func newEvbSW() *evbSW {
	l := spine.NewDeviceLocal("b", "m", "s", "c", "HEMS", model.DeviceTypeTypeEnergyManagementSystem, model.NetworkManagementFeatureSetTypeSmart)
	e1 := spine.NewEntityLocal(l, model.EntityTypeTypeCEM, spine.NewAddressEntityType([]uint{1}), 4*time.Second)
	l.AddEntity(e1)
	sw := &evbSW{l: l, ws: map[string]*h.W{}, ctr: 10}
	sw.lc = e1.GetOrAddFeature(model.FeatureTypeTypeLoadControl, model.RoleTypeClient)
	sw.dd = e1.GetOrAddFeature(model.FeatureTypeTypeDeviceDiagnosis, model.RoleTypeServer)
	sw.dd.AddFunctionType(model.FunctionTypeDeviceDiagnosisStateData, true, false)
	return sw
}

func (sw *evbSW) dev(ski string) string { return "dev-" + ski }

func (sw *evbSW) connect(ski string) {
	w := &h.W{}
	sw.mu.Lock()
	sw.ws[ski] = w
	sw.mu.Unlock()
	sw.l.SetupRemoteDevice(ski, w)
}

// call runs f (a call into the stack) under the watchdog.
func (sw *evbSW) call(f func()) bool {
	done := make(chan struct{})
	go func() { f(); close(done) }()
	select {
	case <-done:
		return true
	case <-time.After(evbWatchdog):
		atomic.StoreInt32(&evbWedged, 1)
		return false
	}
}

func (sw *evbSW) send(ski string, src, dst *model.FeatureAddressType, cl model.CmdClassifierType, ref *model.MsgCounterType, c model.CmdType) bool {
	rd := sw.l.RemoteDeviceForSki(ski)
	if rd == nil {
		return true
	}
	sw.mu.Lock()
	sw.ctr++
	ctr := sw.ctr
	sw.mu.Unlock()
	b, _ := json.Marshal(model.Datagram{Datagram: model.DatagramType{Header: model.HeaderType{AddressSource: src, AddressDestination: dst, MsgCounter: util.Ptr(model.MsgCounterType(ctr)), MsgCounterReference: ref, CmdClassifier: &cl}, Payload: model.PayloadType{Cmd: []model.CmdType{c}}}})
	return sw.call(func() { _, _ = rd.HandleSpineMesssage(b) })
}

// discover delivers the peer's detailed discovery reply (node management + a LoadControl server).
func (sw *evbSW) discover(ski string) bool {
	dev := sw.dev(ski)
	feat := func(ent []uint, fid uint, ft model.FeatureTypeType, role model.RoleType) model.NodeManagementDetailedDiscoveryFeatureInformationType {
		return model.NodeManagementDetailedDiscoveryFeatureInformationType{Description: &model.NetworkManagementFeatureDescriptionDataType{FeatureAddress: h.FA(dev, ent, fid), FeatureType: &ft, Role: &role}}
	}
	ent := func(e []uint, et model.EntityTypeType) model.NodeManagementDetailedDiscoveryEntityInformationType {
		return model.NodeManagementDetailedDiscoveryEntityInformationType{Description: &model.NetworkManagementEntityDescriptionDataType{EntityAddress: &model.EntityAddressType{Device: util.Ptr(model.AddressDeviceType(dev)), Entity: spine.NewAddressEntityType(e)}, EntityType: &et}}
	}
	disc := &model.NodeManagementDetailedDiscoveryDataType{
		DeviceInformation:  &model.NodeManagementDetailedDiscoveryDeviceInformationType{Description: &model.NetworkManagementDeviceDescriptionDataType{DeviceAddress: &model.DeviceAddressType{Device: util.Ptr(model.AddressDeviceType(dev))}}},
		EntityInformation:  []model.NodeManagementDetailedDiscoveryEntityInformationType{ent([]uint{0}, model.EntityTypeTypeDeviceInformation), ent([]uint{1}, model.EntityTypeTypeEVSE)},
		FeatureInformation: []model.NodeManagementDetailedDiscoveryFeatureInformationType{feat([]uint{0}, 0, model.FeatureTypeTypeNodeManagement, model.RoleTypeSpecial), feat([]uint{1}, 1, model.FeatureTypeTypeLoadControl, model.RoleTypeServer)},
	}
	one := model.MsgCounterType(1)
	return sw.send(ski, h.FA(dev, []uint{0}, 0), h.FA("HEMS", []uint{0}, 0), model.CmdClassifierTypeReply, &one, model.CmdType{NodeManagementDetailedDiscoveryData: disc})
}

// notify delivers a LoadControl limit notification of the peer (the stack publishes a data-change event).
func (sw *evbSW) notify(ski string, id uint) bool {
	limits := &model.LoadControlLimitListDataType{LoadControlLimitData: []model.LoadControlLimitDataType{{LimitId: util.Ptr(model.LoadControlLimitIdType(id)), IsLimitActive: util.Ptr(true)}}}
	return sw.send(ski, h.FA(sw.dev(ski), []uint{1}, 1), sw.lc.Address(), model.CmdClassifierTypeNotify, nil, model.CmdType{LoadControlLimitListData: limits})
}

// wire: what the stack's internal (core level) handler sends to a peer once its discovery reply is in:
// the node-management subscription request and the use-case read.
func (sw *evbSW) wire(ski string) (subReq, ucRead bool) {
	sw.mu.Lock()
	w := sw.ws[ski]
	sw.mu.Unlock()
	if w == nil {
		return
	}
	w.Mu.Lock()
	defer w.Mu.Unlock()
	for _, m := range w.Msgs {
		var d model.Datagram
		if json.Unmarshal(m, &d) != nil || len(d.Datagram.Payload.Cmd) == 0 || d.Datagram.Header.CmdClassifier == nil {
			continue
		}
		c := d.Datagram.Payload.Cmd[0]
		if *d.Datagram.Header.CmdClassifier == model.CmdClassifierTypeCall && c.NodeManagementSubscriptionRequestCall != nil {
			subReq = true
		}
		if *d.Datagram.Header.CmdClassifier == model.CmdClassifierTypeRead && c.NodeManagementUseCaseData != nil {
			ucRead = true
		}
	}
	return
}

func (sw *evbSW) close(base int) {
	for _, rdv := range sw.l.RemoteDevices() {
		ski := rdv.Ski()
		evbGuard(func() { sw.l.RemoveRemoteDeviceConnection(ski) })
	}
	if atomic.LoadInt32(&evbWedged) == 0 {
		h.Settle(base)
	}
}

// evbHeldStack: an application handler is still inside HandleEvent (held by
// the harness) for a data-change event the stack published; meanwhile the
// stack must go on publishing — a second inbound notify of the same peer and
// a publication from another goroutine return — and then the held handler
// calls back into the stack with calls that publish themselves
// (RemoveRemoteDeviceConnection of another peer, a nested Publish) and others
// (SetData, RequestRemoteData, reads). Everything must return.
func evbHeldStack(r *h.Report, base int) bool {
	ops := []string{"held-application-handler: connect A, B; notify A (handler held inside HandleEvent); notify A again and Publish from other goroutines; handler removes peer B, writes data, publishes"}
	r.Eval("held-application-handler", "")
	sw := newEvbSW()
	defer sw.close(base)
	sw.connect("evbA")
	sw.connect("evbB")
	if !sw.discover("evbA") || !sw.discover("evbB") {
		r.SpecFail("stack-blocked", ops, "HandleSpineMesssage (discovery reply) did not return")
		return false
	}
	evbSettle(base)
	inside, goOn := make(chan struct{}), make(chan struct{})
	var once sync.Once
	release := func() { once.Do(func() { close(goOn) }) }
	defer release()
	var events, held, finished, nested, other int32
	var self *evbFuncH
	self = &evbFuncH{f: func(p api.EventPayload) {
		switch {
		case p.Ski == evbPrefix+"from-held":
			atomic.AddInt32(&nested, 1)
			return
		case p.Ski == evbPrefix+"other":
			atomic.AddInt32(&other, 1)
			return
		case p.Ski != "evbA" || p.EventType != api.EventTypeDataChange || p.Function != model.FunctionTypeLoadControlLimitListData:
			return
		}
		atomic.AddInt32(&events, 1)
		if !atomic.CompareAndSwapInt32(&held, 0, 1) {
			return
		}
		close(inside)
		<-goOn
		// call back into the stack from inside the handler, with calls that publish events themselves
		sw.l.RemoveRemoteDeviceConnection("evbB")
		sw.dd.SetData(model.FunctionTypeDeviceDiagnosisStateData, &model.DeviceDiagnosisStateDataType{OperatingState: util.Ptr(model.DeviceDiagnosisOperatingStateTypeNormalOperation)})
		_ = p.Feature.DataCopy(model.FunctionTypeLoadControlLimitListData)
		_, _ = p.LocalFeature.RequestRemoteData(model.FunctionTypeLoadControlLimitListData, nil, nil, p.Feature)
		spine.Events.Publish(api.EventPayload{Ski: evbPrefix + "from-held", EventType: api.EventTypeDataChange})
		atomic.AddInt32(&finished, 1)
	}}
	_ = spine.Events.Subscribe(self)
	defer evbGuard(func() { _ = spine.Events.Unsubscribe(self) })
	if !sw.notify("evbA", 1) {
		r.SpecFail("stack-blocked", ops, "HandleSpineMesssage (notify) did not return")
		return false
	}
	select {
	case <-inside:
	case <-time.After(evbWatchdog):
		r.SpecFail("not-delivered", ops, "the data-change event of the inbound notify did not reach the application handler")
		return true
	}
	// the handler is inside HandleEvent; the stack and other publishers must not wait for it
	if !sw.notify("evbA", 2) {
		r.SpecFail("publish-waits-for-application-handler", ops, fmt.Sprintf("an application handler is still handling the first data-change event (held); a second inbound notify (HandleSpineMesssage -> Publish) did not return within %v. Goroutines inside the bus:\n%s", evbWatchdog, evbDump()))
		return false
	}
	if !sw.call(func() {
		spine.Events.Publish(api.EventPayload{Ski: evbPrefix + "other", EventType: api.EventTypeDataChange})
	}) {
		r.SpecFail("publish-waits-for-application-handler", ops, fmt.Sprintf("an application handler is still inside HandleEvent (held); Publish from another goroutine did not return within %v. Goroutines inside the bus:\n%s", evbWatchdog, evbDump()))
		return false
	}
	release()
	if !evbSettle(base) {
		r.SpecFail("reentrant-handler-blocked", ops, fmt.Sprintf("an application handler that removes another peer's connection (which publishes), writes local data, sends a request and publishes from inside HandleEvent, after further events went through, did not return. Goroutines inside the bus:\n%s", evbDump()))
		return false
	}
	if e, f, n, o := atomic.LoadInt32(&events), atomic.LoadInt32(&finished), atomic.LoadInt32(&nested), atomic.LoadInt32(&other); e != 2 || f != 1 || n != 1 || o != 1 {
		r.SpecFail("reentrant-not-served", ops, fmt.Sprintf("data-change events delivered %d (want 2), held handler finished %d (want 1), its own publication delivered %d (want 1), the other goroutine's %d (want 1)", e, f, n, o))
	}
	if sw.l.RemoteDeviceForSki("evbB") != nil {
		r.SpecFail("reentrant-not-served", ops, "RemoveRemoteDeviceConnection called from inside the handler had no effect")
	}
	return true
}

// evbLifecycle: connection life cycle. The local device must be a core level
// handler of the bus whenever a peer is connected: after EVERY (re)connection
// and discovery reply the internal handler has sent the node-management
// subscription request and the use-case read to that peer, and it has done so
// before any application handler of the "device added" event runs.
func evbLifecycle(r *h.Report, base int, rng interface{ Intn(int) int }, n int) bool {
	sw := newEvbSW()
	defer sw.close(base)
	skis := []string{"evbA", "evbB", "evbC"}
	type seen struct{ sub, uc bool }
	var mu sync.Mutex
	atStart := map[string]seen{}
	obs := &evbFuncH{f: func(p api.EventPayload) {
		if p.EventType != api.EventTypeDeviceChange || p.ChangeType != api.ElementChangeAdd {
			return
		}
		if _, ok := p.Data.(*model.NodeManagementDetailedDiscoveryDataType); !ok {
			return
		}
		s, u := sw.wire(p.Ski)
		mu.Lock()
		atStart[p.Ski] = seen{s, u}
		mu.Unlock()
	}}
	obs.all = true
	_ = spine.Events.Subscribe(obs)
	defer evbGuard(func() { _ = spine.Events.Unsubscribe(obs) })
	connected := map[string]bool{}
	var ops []string
	step := func(connect bool, ski string) bool {
		if connect {
			ops = append(ops, "lifecycle "+strconv.Itoa(n)+": connect "+ski+" + discovery reply")
			mu.Lock()
			delete(atStart, ski)
			mu.Unlock()
			sw.connect(ski)
			connected[ski] = true
			if !sw.discover(ski) {
				r.SpecFail("stack-blocked", ops, "HandleSpineMesssage (discovery reply) did not return")
				return false
			}
			if !evbSettle(base) {
				r.SpecFail("reentrant-handler-blocked", ops, "handlers of the discovery events did not finish")
				return false
			}
			sub, uc := sw.wire(ski)
			mu.Lock()
			st, ran := atStart[ski]
			mu.Unlock()
			switch {
			case !sub || !uc:
				r.SpecFail("internal-core-handler-not-served", ops, fmt.Sprintf("peer %s is connected and its discovery reply is in, but the stack's internal core handler did not act on the device-added event: node-management subscription request sent=%v, use-case read sent=%v (the local device is not subscribed to the bus while a peer is connected)", ski, sub, uc))
			case !ran:
				r.SpecFail("not-delivered", ops, "the device-added event of "+ski+" did not reach the application handler")
			case !st.sub || !st.uc:
				r.SpecFail("application-before-core", ops, fmt.Sprintf("the application handler of the device-added event of %s started before the internal core handler had finished (subscription request on the wire=%v, use-case read=%v at that moment)", ski, st.sub, st.uc))
			}
			r.Eval("lifecycle:connect", "")
			return true
		}
		ops = append(ops, "lifecycle "+strconv.Itoa(n)+": disconnect "+ski)
		delete(connected, ski)
		if !sw.call(func() { sw.l.RemoveRemoteDeviceConnection(ski) }) {
			r.SpecFail("stack-blocked", ops, "RemoveRemoteDeviceConnection did not return")
			return false
		}
		evbSettle(base)
		r.Eval("lifecycle:disconnect", "")
		return true
	}
	// fixed spine of every sequence: connect one or two, disconnect ALL, connect the same SKI again, then a different one;
	// random steps before, between and after
	random := func(k int) bool {
		for i := 0; i < k; i++ {
			ski := skis[rng.Intn(3)]
			if !step(!connected[ski], ski) {
				return false
			}
		}
		return true
	}
	dropAll := func() bool {
		for _, ski := range skis {
			if connected[ski] && !step(false, ski) {
				return false
			}
		}
		return true
	}
	first := skis[rng.Intn(3)]
	if !random(rng.Intn(3)) || (!connected[first] && !step(true, first)) || !random(rng.Intn(2)) || !dropAll() {
		return false
	}
	if !step(true, first) || !random(rng.Intn(3)) || !dropAll() {
		return false
	}
	other := skis[(rng.Intn(2)+1+indexOf(skis, first))%3]
	return step(true, other) && random(rng.Intn(4))
}

func indexOf(l []string, x string) int {
	for i, y := range l {
		if y == x {
			return i
		}
	}
	return 0
}

// evbConcurrentSubscribe: several goroutines subscribe the SAME handler at the
// same moment (both levels); "subscribing twice has no additional effect"
// must hold for simultaneous calls too: the next publication reaches the
// handler exactly once.
func evbConcurrentSubscribe(r *h.Report, base int, n int) bool {
	ops := []string{fmt.Sprintf("concurrent-subscribe %d: 16 goroutines subscribe one handler at the same time, then one publication", n)}
	r.Eval("concurrent-subscribe", "")
	for lvl := 0; lvl < 2; lvl++ {
		w := newEvbWorld()
		x := w.hs[evbKey{lvl, 1}]
		start := make(chan struct{})
		var wg sync.WaitGroup
		for g := 0; g < 16; g++ {
			wg.Add(1)
			go func() {
				defer wg.Done()
				<-start
				evbSub(x)
			}()
		}
		close(start)
		wg.Wait()
		ski := fmt.Sprintf("%scs%d-%d", evbPrefix, n, lvl)
		if !w.publish(ski) {
			r.SpecFail("publish-blocked", ops, "Publish did not return")
			return false
		}
		if !evbSettle(base) {
			r.SpecFail("reentrant-handler-blocked", ops, "handlers did not finish")
			return false
		}
		set := map[evbKey]bool{{lvl, 1}: true}
		w.judge(r, ops, ski, set, set, set)
		w.cleanup()
	}
	return true
}

// evbQueued (deterministic, no model): two goroutines publish at the same
// time and a core handler of the first publication (un)subscribes — itself,
// another core handler, an application handler — while the second publisher is
// queued inside Publish. Both publications must return (watchdog) and reach
// every handler whose subscription did not change exactly once.
func evbQueued(r *h.Report, base int, n int) bool {
	type variant struct {
		name string
		k    evbKey
		on   bool
	}
	vs := []variant{{"unsubscribes itself", evbKey{0, 1}, false}, {"subscribes itself again", evbKey{0, 1}, true}, {"unsubscribes another core handler", evbKey{0, 2}, false},
		{"subscribes a core handler", evbKey{0, 3}, true}, {"unsubscribes an application handler", evbKey{1, 1}, false}, {"subscribes an application handler", evbKey{1, 2}, true}}
	for vi, v := range vs {
		ops := []string{fmt.Sprintf("queued-publisher %d: sub 0 1; sub 0 2; sub 1 1; two publishers at once, core handler 0/1 %s while the second is queued", n, v.name)}
		w := newEvbWorld()
		set := map[evbKey]bool{{0, 1}: true, {0, 2}: true, {1, 1}: true}
		for k := range set {
			evbSub(w.hs[k])
		}
		ski1, ski2 := fmt.Sprintf("%sq%d-%d-a", evbPrefix, n, vi), fmt.Sprintf("%sq%d-%d-b", evbPrefix, n, vi)
		x := w.hs[v.k]
		overlapped, queued, ok := w.overlap(ski1, ski2, func() {
			if v.on {
				evbSub(x)
			} else {
				evbUnsub(x)
			}
		})
		if !ok {
			r.SpecFail(evbDeadlockKey, ops, fmt.Sprintf("core handler 0/1 %s from inside HandleEvent while a second publisher is queued (seen parked: %v): a Publish did not return within %v. Goroutines inside the bus:\n%s", v.name, queued, evbWatchdog, evbDump()))
			return false
		}
		if !evbSettle(base) {
			r.SpecFail("reentrant-handler-blocked", ops, "application handlers did not finish")
			return false
		}
		if !overlapped {
			r.SpecFail("not-delivered", ops, "the first publication did not reach the subscribed core handler 0/1")
		}
		ever := map[evbKey]bool{}
		for k := range set {
			ever[k] = true
		}
		w.judge(r, ops, ski1, set, ever, map[evbKey]bool{})
		w.mu.Lock()
		w.open[ski2] = v.k
		w.mu.Unlock()
		w.judge(r, ops, ski2, set, ever, map[evbKey]bool{})
		w.cleanup()
		kind := "queued-publisher"
		if !queued {
			kind += ":unobserved"
		}
		r.Eval(kind, "")
	}
	return true
}

// ---------- concurrent round (SPEC monitor only)

type evbCH struct {
	level, id int
	got       sync.Map // ski -> *int32
	reent     bool
	budget    *int64   // invocations left before the handlers stop re-entering the bus (keeps a broken bus from exploding)
	toggle    []*evbCH // a re-entrant CORE handler subscribes / unsubscribes these (both levels) from inside HandleEvent
	selfTog   bool     // a CORE handler that unsubscribes and re-subscribes itself from inside HandleEvent
	k         int64
	hold      chan struct{} // an APPLICATION handler whose first invocation stays inside HandleEvent until this is closed
	held      int32
}

func evbCSub(x *evbCH) {
	if x.level == 0 {
		_ = spine.VerifSubscribeCore(x)
	} else {
		_ = spine.Events.Subscribe(x)
	}
}

func evbCUnsub(x *evbCH) {
	if x.level == 0 {
		_ = spine.VerifUnsubscribeCore(x)
	} else {
		_ = spine.Events.Unsubscribe(x)
	}
}

func (x *evbCH) HandleEvent(p api.EventPayload) {
	if !strings.HasPrefix(p.Ski, evbPrefix) {
		return
	}
	atomic.AddInt64(&evbInflight, 1)
	defer atomic.AddInt64(&evbInflight, -1)
	v, _ := x.got.LoadOrStore(p.Ski, new(int32))
	atomic.AddInt32(v.(*int32), 1)
	if atomic.AddInt64(x.budget, -1) < 0 {
		return
	}
	if x.level == 0 && (x.reent || x.selfTog) {
		// call back into the bus from inside a CORE handler, i.e. on the publishing goroutine while it holds
		// muHandle and other publishers are queued behind it ((un)subscription only: a core handler must not publish)
		if x.selfTog {
			evbCUnsub(x)
			evbCSub(x)
		}
		if len(x.toggle) > 0 {
			n := int(atomic.AddInt64(&x.k, 1))
			t := x.toggle[n%len(x.toggle)]
			if (n/len(x.toggle))%2 == 0 {
				evbCSub(t)
			} else {
				evbCUnsub(t)
			}
			evbCSub(x) // itself: no effect
		}
		return
	}
	if x.hold != nil && x.level == 1 && atomic.CompareAndSwapInt32(&x.held, 0, 1) {
		// stays inside HandleEvent for the rest of the round: no publication may wait for it
		select {
		case <-x.hold:
		case <-time.After(20 * evbWatchdog):
		}
		return
	}
	if x.reent && x.level == 1 { // call back into the bus from inside an application handler
		_ = spine.Events.Subscribe(x)
		if !strings.HasPrefix(p.Ski, evbPrefix+"n") {
			spine.Events.Publish(api.EventPayload{Ski: evbPrefix + "n" + strings.TrimPrefix(p.Ski, evbPrefix), EventType: api.EventTypeDataChange})
		}
	}
}

func (x *evbCH) n(ski string) int {
	if v, ok := x.got.Load(ski); ok {
		return int(atomic.LoadInt32(v.(*int32)))
	}
	return 0
}

type evbSpan struct {
	on         bool  // subscribe (true) or unsubscribe
	start, end int64 // logical clock before the call and after it returned
}

// evbConcurrent: P goroutines publish N events each while three goroutines
// subscribe and unsubscribe one churning handler each; one stable application
// handler re-subscribes itself and publishes from inside HandleEvent.
// SPEC: stable handlers get every publication exactly once (the core one
// before Publish returns), a never-subscribed handler nothing, a churning
// handler at most once — exactly once when it was subscribed during the whole
// Publish call, nothing when Publish was called after its unsubscription had
// returned and returned before its next subscription was called.
func evbConcurrent(r *h.Report, base int, round, P, N int) bool {
	ops := []string{fmt.Sprintf("concurrent round %d: %d publishers x %d publications, 3 churning handlers, 1 re-entrant application handler, 2 re-entrant core handlers", round, P, N)}
	stable := []*evbCH{{level: 0, id: 1}, {level: 1, id: 2, reent: true}, {level: 1, id: 3}}
	churn := []*evbCH{{level: 0, id: 4}, {level: 1, id: 5}, {level: 1, id: 6}}
	absent := &evbCH{level: 1, id: 7}
	// handlers (un)subscribed from inside a core handler, and a core handler that (un)subscribes itself: at most once each
	toggled := []*evbCH{{level: 0, id: 9}, {level: 1, id: 10}}
	selfT := &evbCH{level: 0, id: 11, selfTog: true}
	stable = append(stable, &evbCH{level: 0, id: 8, reent: true, toggle: toggled})
	loose := append([]*evbCH{selfT}, toggled...)
	budget := int64(P*N) * 2 * 10 * 4 // four times what a correct bus can deliver (outer + nested publication, ten handlers)
	for _, x := range append(append(append([]*evbCH{absent}, stable...), churn...), loose...) {
		x.budget = &budget
	}
	sub := func(x *evbCH) {
		if x.level == 0 {
			_ = spine.VerifSubscribeCore(x)
		} else {
			_ = spine.Events.Subscribe(x)
		}
	}
	unsub := func(x *evbCH) {
		if x.level == 0 {
			_ = spine.VerifUnsubscribeCore(x)
		} else {
			_ = spine.Events.Unsubscribe(x)
		}
	}
	for _, x := range stable {
		sub(x)
	}
	sub(selfT)
	defer evbGuard(func() {
		for _, x := range append(append(append([]*evbCH{}, stable...), churn...), loose...) {
			unsub(x)
		}
	})
	var clock int64
	spans := make([][]evbSpan, len(churn))
	stop := make(chan struct{})
	stable[2].hold = stop // application handler 1/3: its first invocation is held until the publishers are done
	var cwg sync.WaitGroup
	for c := range churn {
		cwg.Add(1)
		go func(c int) {
			defer cwg.Done()
			rng := h.Rng(int64(1500 + 10*round + c))
			on := false
			for {
				select {
				case <-stop:
					return
				default:
				}
				on = !on
				s := atomic.AddInt64(&clock, 1)
				if on {
					sub(churn[c])
				} else {
					unsub(churn[c])
				}
				e := atomic.AddInt64(&clock, 1)
				spans[c] = append(spans[c], evbSpan{on: on, start: s, end: e})
				// pacing only (keeps the span lists small); no outcome depends on it
				time.Sleep(time.Duration(5+rng.Intn(60)) * time.Microsecond)
			}
		}(c)
	}
	type pubSpan struct{ start, end int64 }
	pubs := make([]pubSpan, P*N)
	var coreLate, completed int64
	var wg sync.WaitGroup
	for g := 0; g < P; g++ {
		wg.Add(1)
		go func(g int) {
			defer wg.Done()
			for i := 0; i < N; i++ {
				n := g*N + i
				ski := evbPrefix + strconv.Itoa(n)
				s := atomic.AddInt64(&clock, 1)
				spine.Events.Publish(api.EventPayload{Ski: ski, EventType: api.EventTypeDataChange})
				// the stable core handler has run when Publish returns
				if stable[0].n(ski) != 1 {
					atomic.AddInt64(&coreLate, 1)
				}
				pubs[n] = pubSpan{s, atomic.AddInt64(&clock, 1)}
				atomic.AddInt64(&completed, 1)
			}
		}(g)
	}
	done := make(chan struct{})
	go func() { wg.Wait(); close(done) }()
	// progress watchdog: with several publishers at work, no publication completing for evbWatchdog means the bus is wedged
	last, lastAt := int64(-1), time.Now()
wait:
	for {
		select {
		case <-done:
			break wait
		case <-time.After(100 * time.Millisecond):
		}
		if c := atomic.LoadInt64(&completed); c != last {
			last, lastAt = c, time.Now()
		} else if time.Since(lastAt) > evbWatchdog {
			close(stop)
			atomic.StoreInt32(&evbWedged, 1)
			r.SpecFail("publish-blocked", ops, fmt.Sprintf("%d goroutines publishing while core handlers (un)subscribe handlers of both levels and themselves, an application handler re-subscribes and publishes, and three handlers churn: no Publish returned for %v after %d of %d publications — the bus is wedged. Goroutines inside the bus:\n%s", P, evbWatchdog, last, P*N, evbDump()))
			return false
		}
	}
	close(stop)
	cwg.Wait()
	if !evbSettle(base) {
		r.SpecFail("reentrant-handler-blocked", ops, "application handlers did not finish after the concurrent round")
		return false
	}
	if coreLate > 0 {
		r.SpecFail("core-not-finished-at-return", ops, fmt.Sprintf("%d publications returned before the stable core handler had been served exactly once", coreLate))
	}
	must, mustNot := 0, 0
	for n := 0; n < P*N; n++ {
		ski := evbPrefix + strconv.Itoa(n)
		for _, x := range stable {
			if c := x.n(ski); c != 1 {
				key := "not-delivered"
				if c > 1 {
					key = "delivered-twice"
				}
				r.SpecFail(key, ops, fmt.Sprintf("stable handler %d/%d got %s %d times", x.level, x.id, ski, c))
			}
			// the publication made from inside the re-entrant handler
			if c := x.n(evbPrefix + "n" + strconv.Itoa(n)); c != 1 {
				key := "not-delivered"
				if c > 1 {
					key = "delivered-twice"
				}
				r.SpecFail(key, ops, fmt.Sprintf("stable handler %d/%d got the publication made inside a handler for %s %d times", x.level, x.id, ski, c))
			}
		}
		if absent.n(ski) != 0 {
			r.SpecFail("delivered-to-never-subscribed", ops, "a handler that never subscribed got "+ski)
		}
		for _, x := range loose {
			if c := x.n(ski); c > 1 {
				r.SpecFail("delivered-twice", ops, fmt.Sprintf("handler %d/%d ((un)subscribed from inside a core handler) got %s %d times", x.level, x.id, ski, c))
			}
		}
		for c, x := range churn {
			got := x.n(ski)
			if got > 1 {
				r.SpecFail("delivered-twice", ops, fmt.Sprintf("churning handler %d/%d got %s %d times", x.level, x.id, ski, got))
			}
			// position of the publication in the handler's own (sequential) history
			sp := spans[c]
			i := sort.Search(len(sp), func(i int) bool { return sp[i].end > pubs[n].start }) // first call not finished before Publish was called
			// calls before i returned before Publish was called; call i (if any) overlaps or follows
			stateBefore := i > 0 && sp[i-1].on
			untouched := i == len(sp) || sp[i].start > pubs[n].end // no call of this handler overlaps the publication
			if untouched && stateBefore {
				must++
				if got != 1 {
					r.SpecFail("not-delivered", ops, fmt.Sprintf("churning handler %d/%d was subscribed during the whole Publish of %s and got it %d times", x.level, x.id, ski, got))
				}
			}
			if untouched && !stateBefore {
				mustNot++
				if got != 0 {
					key := "delivered-after-unsubscribe"
					if i == 0 {
						key = "delivered-to-never-subscribed"
					}
					r.SpecFail(key, ops, fmt.Sprintf("churning handler %d/%d got %s, published after its unsubscription had returned and before it subscribed again", x.level, x.id, ski))
				}
			}
		}
	}
	r.Eval("concurrent-round", "")
	r.Dist["concurrent:publications"] += P * N
	r.Dist["concurrent:churn-must-deliver"] += must
	r.Dist["concurrent:churn-must-not-deliver"] += mustNot
	return true
}

const evbRule = "sequential: random histories of subscribe/unsubscribe on both levels, publications, (un)subscription from inside the first core handler, (un)subscription and publication from inside an application handler, two publishers at once with the first core handler (un)subscribing while the second publisher is parked inside Publish (pubq), an application handler held inside HandleEvent while another goroutine publishes and then publishing itself (pubheld), on the process-wide spine.Events, compared op by op with Spine.Bus (core deliveries in order | application deliveries as a set); non-trivial = a history with a publication that reached both levels and an action performed inside an application handler (distinct by op text). Concurrent rounds and re-entrancy scenarios: SPEC monitor only."

func evbIsScenarioReplay(ops []string) bool {
	if len(ops) == 0 {
		return false
	}
	for _, p := range []string{"concurrent", "reentrant", "stack", "application", "queued-publisher", "held-application-handler", "lifecycle"} {
		if strings.HasPrefix(ops[0], p) {
			return true
		}
	}
	return false
}

// evbSequential: corpus, scenarios, seeded histories against the model.
func evbSequential(r *h.Report) bool {
	d := h.StartDriver("drv_bus")
	defer d.Close()
	d.Ask("reset")
	base := h.Baseline()
	if ops := h.ReplayOps(r.Component); ops != nil {
		if evbIsScenarioReplay(ops) {
			if evbScenarios(r, base) {
				evbConcurrent(r, base, 0, 8, h.Scale(1000, 4000))
			}
			return false
		}
		if len(ops) > 0 && strings.HasPrefix(ops[0], "shared ") {
			evbSharedSeq(r, d, ops, base)
			return false
		}
		evbRunHistory(r, d, ops, base)
		return false
	}
	// corpus: the shapes named by the property statement
	corpus := [][]string{
		{"sub 1 1", "sub 1 1", "pub", "unsub 1 1", "pub"},                                                                                   // double subscription, nothing after unsubscribe
		{"sub 0 1", "sub 0 2", "sub 1 1", "sub 1 2", "pub", "pubunsub 0 2", "pub", "pubsub 0 2", "pub"},                                     // core order, (un)subscription inside a core handler
		{"sub 1 1", "sub 0 1", "pubapp pub", "pubapp unsub 1 1", "pub", "pubapp sub 1 1", "pub"},                                            // re-entrant application handler
		{"sub 1 1", "pubapp sub 1 2", "pub", "pubapp unsub 1 2", "pub", "pubapp pub", "unsub 1 1", "pub"},                                   // handler (un)subscribes another
		{"pub", "pubsub 1 1", "pubapp pub", "sub 0 3", "pubsub 1 1", "pub", "pubunsub 0 3", "pub"},                                          // nothing subscribed; core subscribes an application handler
		{"sub 0 1", "sub 0 2", "sub 1 1", "pubq unsub 0 2", "pubq sub 1 2", "pubq unsub 0 1", "pub", "pubq sub 0 1", "pubq sub 0 1", "pub"}, // two publishers at once, core handler (un)subscribes while the second is queued
		{"sub 1 1", "sub 1 2", "sub 0 1", "pubheld", "pub", "unsub 1 1", "pubheld", "unsub 1 2", "pubheld"},                                 // an application handler is held inside HandleEvent while others publish, then publishes itself
	}
	for _, c := range corpus {
		if !evbRunHistory(r, d, c, base) {
			return false
		}
	}
	// EXHAUSTIVE grid: every sequence of `depth` operations over subscribe / unsubscribe x {core, application} x {handler 1,
	// handler 2} and publish, followed by one publication that shows the handler list — all ways in which de-duplication
	// (same level AND same handler) and removal (exactly that pair) can go wrong on two handlers at two levels
	tr0, nt0, ev0 := r.Traces, r.Dist["history:nontrivial"], r.Evaluations
	alphabet := []string{"sub 0 1", "sub 0 2", "sub 1 1", "sub 1 2", "unsub 0 1", "unsub 0 2", "unsub 1 1", "unsub 1 2", "pub"}
	depth := h.Scale(3, 4)
	idx := make([]int, depth)
	for {
		ops := make([]string, 0, depth+1)
		for _, i := range idx {
			ops = append(ops, alphabet[i])
		}
		ops = append(ops, "pub")
		if !evbRunHistory(r, d, ops, base) {
			return false
		}
		if r.MismatchN > 0 || len(r.SpecFailures) > 0 {
			break
		}
		k := depth - 1
		for k >= 0 {
			idx[k]++
			if idx[k] < len(alphabet) {
				break
			}
			idx[k] = 0
			k--
		}
		if k < 0 {
			break
		}
	}
	// ... and ONE handler object at both levels: identity on the bus is the pair (level, handler)
	if r.MismatchN == 0 && len(r.SpecFailures) == 0 {
		if !evbShared(r, d, base) {
			return false
		}
	}
	exhTraces, exhNontrivial := r.Traces-tr0, r.Dist["history:nontrivial"]-nt0
	r.Info["exhaustive-grid"] = fmt.Sprintf("all %d-operation sequences over %d operations + final publication: %d histories, %d evaluations", depth, len(alphabet), exhTraces, r.Evaluations-ev0)
	if !evbScenarios(r, base) {
		return false
	}
	rng := h.Rng(15)
	hist := h.Scale(2000, 40000)
	for i := 0; i < hist; i++ {
		if !evbRunHistory(r, d, evbGenHistory(rng, 20+rng.Intn(40)), base) {
			return false
		}
		if r.MismatchN > 3 {
			break
		}
	}
	if len(r.Mismatches) > 0 {
		mm := r.Mismatches[0]
		small := h.Shrink(mm.Ops, func(ops []string) bool {
			q := h.Quiet()
			evbRunAny(q, d, ops, base)
			return q.MismatchN > 0
		})
		q := h.Quiet()
		evbRunAny(q, d, small, base)
		if q.MismatchN > 0 {
			r.ReplaceMismatch(0, small, q.Mismatches[0].Impl, q.Mismatches[0].Model)
		}
	}
	for _, sf := range append([]h.SpecFailure{}, r.SpecFailures...) {
		if len(sf.Ops) < 4 || strings.Contains(sf.Key, "blocked") {
			continue
		}
		key := sf.Key
		small := h.Shrink(sf.Ops, func(ops []string) bool {
			q := h.Quiet()
			evbRunAny(q, d, ops, base)
			return q.HasSpecFail(key)
		})
		r.ReplaceSpecFailOps(key, small)
	}
	pubs := r.Dist["pub"] + r.Dist["pubsub"] + r.Dist["pubunsub"]
	appTotal, appDone := 0, 0
	for k, n := range r.Dist {
		if strings.HasPrefix(k, "pubq") || k == "pubheld" {
			pubs += n
		}
		if strings.HasPrefix(k, "pubapp-") {
			appTotal += n
			pubs += n
			if strings.HasSuffix(k, ":performed") {
				appDone += n
			}
		}
	}
	if r.MismatchN > 0 {
		return true // the generation was cut short; the floors say nothing
	}
	r.Floor("publications among the operations", pubs, r.Evaluations, 0.30)
	r.Floor("actions performed inside an application handler", appDone, appTotal, 0.40)
	r.Floor("histories with both levels reached and a re-entrant action (generated histories)", r.Dist["history:nontrivial"]-exhNontrivial, r.Traces-exhTraces, 0.50)
	return true
}

// evbRounds: the concurrent rounds (monitor only).
func evbRounds(r *h.Report, base int) bool {
	rounds := h.Scale(4, 10)
	n := h.Scale(1000, 4000)
	if evbRaceEnabled {
		n = h.Scale(400, 2000)
	}
	for round := 0; round < rounds; round++ {
		if !evbConcurrent(r, base, round, 8, n) {
			return false
		}
	}
	r.Floor("concurrent: publications a churning handler had to receive", r.Dist["concurrent:churn-must-deliver"], 3*r.Dist["concurrent:publications"], 0.02)
	r.Floor("concurrent: publications a churning handler must not receive", r.Dist["concurrent:churn-must-not-deliver"], 3*r.Dist["concurrent:publications"], 0.02)
	return true
}

// TestEventBus: sequential differential + scenarios + concurrent monitor.
func TestEventBus(t *testing.T) {
	r := h.NewReport("eventbus", evbRule)
	defer r.Write()
	if os.Getenv("VERIF_EVB_ONLY") == "rounds" { // self-test aid: what do the concurrent rounds find on their own?
		evbRounds(r, h.Baseline())
		return
	}
	if !evbSequential(r) {
		return
	}
	if k := r.SpecFailKeys(); len(k) > 0 {
		r.Info["concurrent-rounds"] = "skipped: the sequential part already found spec failures " + strings.Join(k, ",")
		return
	}
	evbRounds(r, h.Baseline())
}

// TestEventBusRace: the scenarios and the concurrent monitor once more, meant
// to be run under the race detector (props/C15.py: "race": True). A race the
// detector reports inside spine/events.go is a spec failure of C15 (the
// delivery guarantees cannot hold with an unsynchronised handler list); races
// elsewhere belong to C17 and are only counted in the report's info.
func TestEventBusRace(t *testing.T) {
	r := h.NewReport("eventbus-race", "scenarios and concurrent rounds of TestEventBus under the race detector (SPEC monitor only)")
	defer r.Write()
	r.Info["race-detector-enabled"] = evbRaceEnabled
	ok := true
	stderr := evbCaptureStderr(func() {
		ok = t.Run("monitor", func(t *testing.T) {
			base := h.Baseline()
			if !evbScenarios(r, base) {
				return
			}
			if k := r.SpecFailKeys(); len(k) > 0 {
				r.Info["concurrent-rounds"] = "skipped: the scenarios already found spec failures " + strings.Join(k, ",")
				return
			}
			evbRounds(r, base)
		})
	})
	if !ok || strings.Contains(stderr, "WARNING: DATA RACE") {
		inBus, other := 0, 0
		first := ""
		for _, blk := range strings.Split(stderr, "==================") {
			if !strings.Contains(blk, "WARNING: DATA RACE") {
				continue
			}
			if strings.Contains(blk, "spine/events.go") {
				inBus++
				if first == "" {
					first = blk
				}
			} else {
				other++
			}
		}
		r.Info["races-outside-the-bus"] = other
		if inBus > 0 {
			if len(first) > 3000 {
				first = first[:3000]
			}
			r.SpecFail("data-race-in-event-bus", []string{"concurrent rounds under the race detector"}, fmt.Sprintf("%d race reports involve spine/events.go; first: %s", inBus, first))
		}
	}
}

func evbScenarios(r *h.Report, base int) bool {
	r.Eval("scenarios", "")
	for i := 0; i < h.Scale(5, 40); i++ {
		if !evbHeldStack(r, base) {
			return false
		}
	}
	for i := 0; i < h.Scale(300, 2000); i++ {
		if !evbConcurrentSubscribe(r, base, i) {
			return false
		}
	}
	lrng := h.Rng(1515)
	for i := 0; i < h.Scale(15, 150); i++ {
		if !evbLifecycle(r, base, lrng, i) {
			return false
		}
	}
	for i := 0; i < h.Scale(20, 200); i++ {
		if !evbReentrant(r, base, i) {
			return false
		}
	}
	if !evbAsync(r, base) {
		return false
	}
	for i := 0; i < h.Scale(5, 50); i++ {
		if !evbQueued(r, base, i) {
			return false
		}
	}
	for i := 0; i < h.Scale(10, 100); i++ {
		if !evbStack(r, base) {
			return false
		}
	}
	return true
}

// evbCaptureStderr runs f with file descriptor 2 redirected into a temporary
// file (the race detector writes its reports there), echoes what was written
// to the real stderr and returns it.
func evbCaptureStderr(f func()) string {
	tmp, err := os.CreateTemp("", "evb-stderr-*")
	if err != nil {
		f()
		return ""
	}
	defer os.Remove(tmp.Name())
	saved, err := syscall.Dup(2)
	if err != nil {
		f()
		return ""
	}
	if err := syscall.Dup2(int(tmp.Fd()), 2); err != nil {
		syscall.Close(saved)
		f()
		return ""
	}
	func() {
		defer func() {
			_ = syscall.Dup2(saved, 2)
			syscall.Close(saved)
		}()
		f()
	}()
	tmp.Close()
	b, _ := os.ReadFile(tmp.Name())
	if len(b) > 0 {
		os.Stderr.Write(b)
	}
	return string(b)
}
