package comp

// C04 / C11 — correspondence of Spine.Heap (Lean: the function-data store with Go's
// slice sharing made explicit, on top of the flagged update-engine family
// Spine.UpdateF) with spine.FunctionData / model.UpdateList, plus the SPEC
// monitors of C04 (write protection, all-or-nothing remote writes) and C11
// (stable snapshots, non-persisting and failed updates are no-ops), both judged
// on the implementation's own behaviour without consulting the model.
//
// This file: list-type discovery (reflection over the repo's own tables), the
// abstract <-> concrete value codec, op text format, the SPEC monitors.
// heap_run_test.go: history runner, generators, corpus, TestHeap.
// heap_world_test.go: the same monitors through real datagrams (composed world).

import (
	"encoding/json"
	"fmt"
	"reflect"
	"sort"
	"strconv"
	"strings"

	"github.com/enbility/spine-go/api"
	"github.com/enbility/spine-go/model"
	"github.com/enbility/spine-go/spine"

	"verifharness/h"
)

// ---------------------------------------------------------------- list types

type hpKey struct {
	idx  int
	kind byte // u uint, s string, t struct (UpdateHelper)
}

type hpType struct {
	fn       model.FunctionType
	listT    reflect.Type // T: struct with one slice field
	itemT    reflect.Type
	cmdField int          // field of model.CmdType carrying *T
	selT     reflect.Type // selector struct, nil if the filter table has none for fn
	selField int          // field of model.FilterType
	elT      reflect.Type
	elField  int
	n        int
	names    []string
	keys     []hpKey
	flag     int   // index of the writecheck field, -1 if none
	dom      []int // value domain of item field i: 3 carries 0..2, 2 bool, 1 unit
	selMap   []int // selector field j -> item field (by name), -1 none
	selUse   []bool
	selDom   []int
	elMap    []int
	elN      int
	shape    string // driver line
	vals     []int  // indices of fields that are neither key nor flag
	// probed on the implementation (not the model): a filter-less remote write to an existing store does not
	// take the replace fast path but goes through the engine (the tree has the C04a repair)
	remoteFullViaEngine bool
}

func hpScalar(k reflect.Kind) bool {
	switch k {
	case reflect.Uint, reflect.Uint8, reflect.Uint16, reflect.Uint32, reflect.Uint64,
		reflect.Int, reflect.Int8, reflect.Int16, reflect.Int32, reflect.Int64, reflect.String, reflect.Bool:
		return true
	}
	return false
}

// hpCarrier: how a value of type t carries an abstract number. Returns the
// domain (3: injective on 0..2, 2: bool, 1: cannot carry) .
var hpDomCache = map[reflect.Type]int{}
var hpFieldCache = map[reflect.Type]int{}

func hpDomOf(t reflect.Type, depth int) int {
	if d, ok := hpDomCache[t]; ok {
		return d
	}
	d := 1
	switch t.Kind() {
	case reflect.Uint, reflect.Uint8, reflect.Uint16, reflect.Uint32, reflect.Uint64,
		reflect.Int, reflect.Int8, reflect.Int16, reflect.Int32, reflect.Int64, reflect.String, reflect.Float32, reflect.Float64:
		d = 3
	case reflect.Bool:
		d = 2
	case reflect.Ptr, reflect.Slice:
		if depth < 6 {
			d = hpDomOf(t.Elem(), depth+1)
		}
	case reflect.Struct:
		best, bi := 1, -1
		if depth < 6 {
			for i := 0; i < t.NumField(); i++ {
				if !t.Field(i).IsExported() {
					continue
				}
				if fd := hpDomOf(t.Field(i).Type, depth+1); fd > best {
					best, bi = fd, i
					if fd == 3 {
						break
					}
				}
			}
		}
		hpFieldCache[t] = bi
		d = best
	}
	hpDomCache[t] = d
	return d
}

// hpEnc builds a value of type t that carries n.
func hpEnc(t reflect.Type, n int) reflect.Value {
	v := reflect.New(t).Elem()
	switch t.Kind() {
	case reflect.Uint, reflect.Uint8, reflect.Uint16, reflect.Uint32, reflect.Uint64:
		v.SetUint(uint64(n))
	case reflect.Int, reflect.Int8, reflect.Int16, reflect.Int32, reflect.Int64:
		v.SetInt(int64(n))
	case reflect.Float32, reflect.Float64:
		v.SetFloat(float64(n))
	case reflect.String:
		v.SetString("s" + strconv.Itoa(n))
	case reflect.Bool:
		v.SetBool(n%2 == 1)
	case reflect.Ptr:
		p := reflect.New(t.Elem())
		p.Elem().Set(hpEnc(t.Elem(), n))
		return p
	case reflect.Slice:
		s := reflect.MakeSlice(t, 1, 1)
		s.Index(0).Set(hpEnc(t.Elem(), n))
		return s
	case reflect.Struct:
		hpDomOf(t, 0)
		if i := hpFieldCache[t]; i >= 0 {
			v.Field(i).Set(hpEnc(t.Field(i).Type, n))
		}
	}
	return v
}

// hpDec reads the number a value carries (-2: not decodable, i.e. an unexpected shape).
func hpDec(v reflect.Value) int {
	switch v.Kind() {
	case reflect.Uint, reflect.Uint8, reflect.Uint16, reflect.Uint32, reflect.Uint64:
		return int(v.Uint())
	case reflect.Int, reflect.Int8, reflect.Int16, reflect.Int32, reflect.Int64:
		return int(v.Int())
	case reflect.Float32, reflect.Float64:
		return int(v.Float())
	case reflect.String:
		s := v.String()
		if len(s) < 2 || s[0] != 's' {
			return -2
		}
		n, err := strconv.Atoi(s[1:])
		if err != nil {
			return -2
		}
		return n
	case reflect.Bool:
		return h_b2i(v.Bool())
	case reflect.Ptr:
		if v.IsNil() {
			return -2
		}
		return hpDec(v.Elem())
	case reflect.Slice:
		if v.Len() == 0 {
			return 0
		}
		return hpDec(v.Index(0))
	case reflect.Struct:
		hpDomOf(v.Type(), 0)
		if i := hpFieldCache[v.Type()]; i >= 0 {
			return hpDec(v.Field(i))
		}
		return 0
	}
	return -2
}

func h_b2i(b bool) int {
	if b {
		return 1
	}
	return 0
}

// hpDiscover finds every registered list function whose data type the generic
// model covers, from the repo's own tables (CmdType / FilterType tags, the
// function factory). skipped[fn] says why a function is left out.
func hpDiscover() (map[model.FunctionType]*hpType, map[string]string) {
	types := map[model.FunctionType]*hpType{}
	skipped := map[string]string{}
	cmdT := reflect.TypeOf(model.CmdType{})
	fltT := reflect.TypeOf(model.FilterType{})
	updater := reflect.TypeOf((*model.Updater)(nil)).Elem()
	helper := reflect.TypeOf((*model.UpdateHelper)(nil)).Elem()
	for _, fd := range spine.CreateFunctionData[api.FunctionDataInterface](model.FeatureTypeTypeGeneric) {
		fn := fd.FunctionType()
		if !fd.SupportsPartialWrite() {
			continue
		}
		t := &hpType{fn: fn, cmdField: -1, selField: -1, elField: -1, flag: -1}
		for i := 0; i < cmdT.NumField(); i++ {
			sf := cmdT.Field(i)
			if sf.Name == "Function" || sf.Name == "Filter" || sf.Type.Kind() != reflect.Ptr {
				continue
			}
			if model.EEBusTags(sf)[model.EEBusTagFunction] == string(fn) {
				t.cmdField = i
				t.listT = sf.Type.Elem()
				break
			}
		}
		if t.listT == nil {
			skipped[string(fn)] = "no CmdType field"
			continue
		}
		if !reflect.PointerTo(t.listT).Implements(updater) {
			skipped[string(fn)] = "not an Updater"
			continue
		}
		if t.listT.Kind() != reflect.Struct || t.listT.NumField() != 1 || t.listT.Field(0).Type.Kind() != reflect.Slice ||
			t.listT.Field(0).Type.Elem().Kind() != reflect.Struct {
			skipped[string(fn)] = "not a struct with exactly one slice-of-struct field"
			continue
		}
		t.itemT = t.listT.Field(0).Type.Elem()
		t.n = t.itemT.NumField()
		ok := true
		nflag := 0
		for i := 0; i < t.n && ok; i++ {
			sf := t.itemT.Field(i)
			t.names = append(t.names, sf.Name)
			if sf.Type.Kind() != reflect.Ptr && sf.Type.Kind() != reflect.Slice {
				skipped[string(fn)] = "item field " + sf.Name + " is not nilable"
				ok = false
				break
			}
			t.dom = append(t.dom, hpDomOf(sf.Type, 0))
			tags := model.EEBusTags(sf)
			if sf.Type.Kind() == reflect.Ptr {
				if _, isKey := tags[model.EEBusTagKey]; isKey {
					var kind byte
					switch ek := sf.Type.Elem().Kind(); {
					case ek == reflect.Uint:
						kind = 'u'
					case ek == reflect.String:
						kind = 's'
					case ek == reflect.Struct && sf.Type.Implements(helper):
						kind = 't'
					}
					if kind == 0 || t.dom[i] != 3 {
						skipped[string(fn)] = "key field " + sf.Name + " of a kind outside the model"
						ok = false
						break
					}
					t.keys = append(t.keys, hpKey{i, kind})
				}
				if _, isFlag := tags[model.EEBusTagWriteCheck]; isFlag {
					nflag++
					t.flag = i
					if sf.Type.Elem().Kind() != reflect.Bool {
						skipped[string(fn)] = "writecheck field is not a bool"
						ok = false
					}
				}
			}
		}
		if !ok {
			continue
		}
		if nflag != 1 {
			t.flag = -1
		}
		for i := 0; i < fltT.NumField(); i++ {
			sf := fltT.Field(i)
			if sf.Name == "CmdControl" || sf.Name == "FilterId" || sf.Type.Kind() != reflect.Ptr {
				continue
			}
			tags := model.EEBusTags(sf)
			if tags[model.EEBusTagFunction] != string(fn) || sf.Type.Elem().Kind() != reflect.Struct {
				continue
			}
			switch tags[model.EEBusTagType] {
			case string(model.EEBusTagTypeTypeSelector):
				if t.selT == nil {
					t.selT, t.selField = sf.Type.Elem(), i
				}
			case string(model.EEbusTagTypeTypeElements):
				if t.elT == nil {
					t.elT, t.elField = sf.Type.Elem(), i
				}
			}
		}
		idxOf := func(name string) int {
			for i, n := range t.names {
				if n == name {
					return i
				}
			}
			return -1
		}
		if t.selT != nil {
			for j := 0; j < t.selT.NumField(); j++ {
				sf := t.selT.Field(j)
				i := idxOf(sf.Name)
				use := sf.Type.Kind() == reflect.Ptr && hpScalar(sf.Type.Elem().Kind())
				if use && i >= 0 && t.itemT.Field(i).Type != sf.Type {
					use = false
				}
				if sf.Type.Kind() != reflect.Ptr {
					// SelectorMatch skips non-pointer selector fields: never set, never compared
					i = -1
				}
				t.selMap = append(t.selMap, i)
				t.selUse = append(t.selUse, use)
				t.selDom = append(t.selDom, hpDomOf(sf.Type, 0))
			}
		}
		if t.elT != nil {
			t.elN = t.elT.NumField()
			for j := 0; j < t.elN; j++ {
				t.elMap = append(t.elMap, idxOf(t.elT.Field(j).Name))
			}
		}
		for i := 0; i < t.n; i++ {
			isKey := false
			for _, k := range t.keys {
				if k.idx == i {
					isKey = true
				}
			}
			if !isKey && i != t.flag {
				t.vals = append(t.vals, i)
			}
		}
		// value fields that can carry three values first (the corpus and the grid write into vals[0])
		sort.SliceStable(t.vals, func(a, b int) bool { return t.dom[t.vals[a]] > t.dom[t.vals[b]] })
		var ks []string
		for _, k := range t.keys {
			ks = append(ks, fmt.Sprintf("%d:%c", k.idx, k.kind))
		}
		keyS := "-"
		if len(ks) > 0 {
			keyS = strings.Join(ks, ",")
		}
		flagS := "-"
		if t.flag >= 0 {
			flagS = strconv.Itoa(t.flag)
		}
		t.shape = fmt.Sprintf("shape %d %s %s %s %d %s", t.n, keyS, flagS, hpMapS(t.selMap), t.elN, hpMapS(t.elMap))
		// the per-type UpdateList must hand back the list (three wrappers return the Boolean `persist`
		// instead - C02's wiring finding; such a function is left to C02 until it is repaired)
		probe := make([]int, t.n)
		for i := range probe {
			probe[i] = -1
		}
		for _, k := range t.keys {
			probe[k.idx] = 0
		}
		var ret any
		func() {
			defer func() { _ = recover() }()
			ret, _ = fd.UpdateDataAny(false, false, t.encList([][]int{probe}), nil, nil)
		}()
		if ret == nil || reflect.TypeOf(ret) != t.listT.Field(0).Type {
			skipped[string(fn)] = fmt.Sprintf("UpdateList returns %T instead of the list", ret)
			continue
		}
		types[fn] = t
	}
	return types, skipped
}

func hpMapS(m []int) string {
	if len(m) == 0 {
		return "."
	}
	return hpItemS(m)
}

// ---------------------------------------------------------------- abstract values and their text

func hpItemS(a []int) string {
	p := make([]string, len(a))
	for i, x := range a {
		if x < 0 {
			p[i] = "-"
		} else {
			p[i] = strconv.Itoa(x)
		}
	}
	return strings.Join(p, ",")
}

func hpListS(l [][]int) string {
	if len(l) == 0 {
		return "."
	}
	p := make([]string, len(l))
	for i, a := range l {
		p[i] = hpItemS(a)
	}
	return strings.Join(p, ";")
}

func hpParseItem(s string) []int {
	if s == "" {
		return []int{}
	}
	parts := strings.Split(s, ",")
	a := make([]int, len(parts))
	for i, p := range parts {
		if p == "-" {
			a[i] = -1
		} else {
			n, err := strconv.Atoi(p)
			if err != nil {
				panic("bad item " + s)
			}
			a[i] = n
		}
	}
	return a
}

func hpParseList(s string) [][]int {
	if s == "." {
		return nil
	}
	var l [][]int
	for _, p := range strings.Split(s, ";") {
		l = append(l, hpParseItem(p))
	}
	return l
}

func hpParseOptItem(s string) []int {
	if s == "N" {
		return nil
	}
	return hpParseItem(s)
}

func hpOptItemS(a []int) string {
	if a == nil {
		return "N"
	}
	return hpItemS(a)
}

func hpCloneList(l [][]int) [][]int {
	var c [][]int
	for _, a := range l {
		c = append(c, append([]int{}, a...))
	}
	return c
}

func hpEqItem(a, b []int) bool {
	if len(a) != len(b) {
		return false
	}
	for i := range a {
		if a[i] != b[i] {
			return false
		}
	}
	return true
}

func hpEqList(a, b [][]int) bool {
	if len(a) != len(b) {
		return false
	}
	for i := range a {
		if !hpEqItem(a[i], b[i]) {
			return false
		}
	}
	return true
}

// ---------------------------------------------------------------- codec

func (t *hpType) encItem(a []int) reflect.Value {
	v := reflect.New(t.itemT).Elem()
	for i, x := range a {
		if x < 0 || i >= t.n {
			continue
		}
		v.Field(i).Set(hpEnc(t.itemT.Field(i).Type, x))
	}
	return v
}

// encList builds a *T the way a caller of the API would.
func (t *hpType) encList(l [][]int) any {
	p := reflect.New(t.listT)
	if len(l) > 0 {
		s := reflect.MakeSlice(t.listT.Field(0).Type, 0, len(l))
		for _, a := range l {
			s = reflect.Append(s, t.encItem(a))
		}
		p.Elem().Field(0).Set(s)
	}
	return p.Interface()
}

func (t *hpType) decItem(v reflect.Value) []int {
	a := make([]int, t.n)
	for i := 0; i < t.n; i++ {
		f := v.Field(i)
		if f.IsNil() {
			a[i] = -1
		} else {
			a[i] = hpDec(f)
		}
	}
	return a
}

// decAny reads a *T, a []item or nil through the values themselves (a deep read).
func (t *hpType) decAny(x any) [][]int {
	if x == nil {
		return nil
	}
	v := reflect.ValueOf(x)
	if v.Kind() == reflect.Ptr {
		if v.IsNil() {
			return nil
		}
		v = v.Elem()
		if v.Type() != t.listT {
			return [][]int{{-2}}
		}
		v = v.Field(0)
	}
	if v.Kind() != reflect.Slice || v.Type().Elem() != t.itemT {
		return [][]int{{-2}}
	}
	var l [][]int
	for i := 0; i < v.Len(); i++ {
		l = append(l, t.decItem(v.Index(i)))
	}
	return l
}

// filter builds the *FilterType argument. kind N: nil, E: cmdControl only, F: with data.
func (t *hpType) filter(del bool, kind string, sel, el []int) *model.FilterType {
	if kind == "N" {
		return nil
	}
	f := &model.FilterType{CmdControl: &model.CmdControlType{}}
	if del {
		f.CmdControl.Delete = &model.ElementTagType{}
	} else {
		f.CmdControl.Partial = &model.ElementTagType{}
	}
	if kind == "E" {
		return f
	}
	fv := reflect.ValueOf(f).Elem()
	if sel != nil {
		s := reflect.New(t.selT)
		for j, x := range sel {
			if x >= 0 {
				s.Elem().Field(j).Set(hpEnc(t.selT.Field(j).Type, x))
			}
		}
		fv.Field(t.selField).Set(s)
	}
	if el != nil {
		e := reflect.New(t.elT)
		for j, x := range el {
			if x >= 0 {
				ft := t.elT.Field(j).Type
				switch ft.Kind() {
				case reflect.Ptr:
					e.Elem().Field(j).Set(reflect.New(ft.Elem()))
				case reflect.Slice:
					e.Elem().Field(j).Set(reflect.MakeSlice(ft, 0, 0))
				}
			}
		}
		fv.Field(t.elField).Set(e)
	}
	return f
}

// ---------------------------------------------------------------- one UpdateData call

type hpWrite struct {
	remote, persist bool
	items           [][]int
	fpk, fdk        string // N nil, E without data, F with data
	fps, fpe        []int  // nil = absent
	fds, fde        []int
}

func (w *hpWrite) line() string {
	return fmt.Sprintf("upd %d %d %s %s %s %s %s %s %s", h_b2i(w.remote), h_b2i(w.persist), hpListS(w.items),
		w.fpk, hpOptItemS(w.fps), hpOptItemS(w.fpe), w.fdk, hpOptItemS(w.fds), hpOptItemS(w.fde))
}

func hpParseWrite(f []string) *hpWrite {
	if len(f) != 10 || f[0] != "upd" {
		panic("bad upd op: " + strings.Join(f, " "))
	}
	return &hpWrite{remote: f[1] == "1", persist: f[2] == "1", items: hpParseList(f[3]),
		fpk: f[4], fps: hpParseOptItem(f[5]), fpe: hpParseOptItem(f[6]),
		fdk: f[7], fds: hpParseOptItem(f[8]), fde: hpParseOptItem(f[9])}
}

// ---- the SPEC's reading of a write (independent of the model): which part does what

func (t *hpType) hasIds(a []int) bool {
	for _, k := range t.keys {
		if a[k.idx] < 0 {
			return false
		}
	}
	return true
}

func (t *hpType) keyOf(a []int) string {
	var p []string
	for _, k := range t.keys {
		if a[k.idx] < 0 {
			return ""
		}
		p = append(p, strconv.Itoa(a[k.idx]))
	}
	if len(p) == 0 {
		return ""
	}
	return strings.Join(p, "|")
}

func (t *hpType) writable(a []int) bool { return t.flag < 0 || a[t.flag] == 1 }

// matches: the element carries every field the selector names, with that value
func (t *hpType) matches(sel []int, a []int) bool {
	for j, x := range sel {
		if x < 0 || j >= len(t.selMap) || t.selMap[j] < 0 {
			continue
		}
		if a[t.selMap[j]] != x {
			return false
		}
	}
	return true
}

func (w *hpWrite) isFull() bool { return w.fpk == "N" && w.fdk == "N" && w.persist }

// viaEngine: does the call run through model.UpdateList (attribution only; the SPEC's reading of a
// filter-less persisting write stays "replace")
func (t *hpType) viaEngine(w *hpWrite) bool {
	return !w.isFull() || (w.remote && t.remoteFullViaEngine)
}

// partialPart: "", "selector", "noop" (partial filter with elements only), "idless", "merge"
func (t *hpType) partialPart(w *hpWrite) string {
	if w.fpk == "F" {
		if w.fps != nil {
			return "selector"
		}
		return "noop"
	}
	if len(w.items) > 0 && !t.hasIds(w.items[0]) {
		return "idless"
	}
	return "merge"
}

// deletePart: "", "del-sel", "del-el", "del-sel-el"
func (w *hpWrite) deletePart() string {
	if w.fdk != "F" {
		return ""
	}
	switch {
	case w.fds != nil && w.fde != nil:
		return "del-sel-el"
	case w.fds != nil:
		return "del-sel"
	case w.fde != nil:
		return "del-el"
	}
	return ""
}

func (t *hpType) shapeName(w *hpWrite) string {
	if w.isFull() {
		return "full"
	}
	s := t.partialPart(w)
	if d := w.deletePart(); d != "" {
		s = d + "+" + s
	}
	return s
}

// engine function a part of the write runs through (names of model/update.go)
func hpPartialFn(part string) string {
	switch part {
	case "selector":
		return "copyToSelectedData"
	case "idless":
		return "copyToAllData"
	case "merge":
		return "Merge"
	}
	return part
}

// namedEl: item fields the delete elements name
func (t *hpType) namedEl(w *hpWrite) map[int]bool {
	m := map[int]bool{}
	for j, x := range w.fde {
		if x >= 0 && j < len(t.elMap) && t.elMap[j] >= 0 {
			m[t.elMap[j]] = true
		}
	}
	return m
}

// addressed: does the write address element a (the SPEC's reading, DESIGN §8 C02/C04)
func (t *hpType) addressed(w *hpWrite, a []int) bool {
	if w.isFull() {
		return true
	}
	switch w.deletePart() {
	case "del-el":
		return true
	case "del-sel", "del-sel-el":
		if t.matches(w.fds, a) {
			return true
		}
	}
	switch t.partialPart(w) {
	case "selector":
		return t.matches(w.fps, a)
	case "idless":
		return true
	case "merge":
		k := t.keyOf(a)
		for _, u := range w.items {
			if t.hasIds(u) && t.keyOf(u) == k {
				return true
			}
		}
	}
	return false
}

// ---------------------------------------------------------------- attribution of an observed change

// hpExplain names the engine functions whose in-place writes explain the change
// old -> new of one retained value under write w, judged from the shape of the
// op alone; "?" = not explainable by an in-place write of this op.
func (t *hpType) explain(w *hpWrite, old, new [][]int) []string {
	set := map[string]bool{}
	if len(old) != len(new) {
		return []string{"?"}
	}
	named := map[int]bool{}
	if d := w.deletePart(); d == "del-el" || d == "del-sel-el" {
		named = t.namedEl(w)
	}
	part := t.partialPart(w)
	for i := range old {
		for j := range old[i] {
			if j >= len(new[i]) || old[i][j] == new[i][j] {
				continue
			}
			switch {
			case new[i][j] < 0 && named[j]:
				set["RemoveElementFromItem"] = true
			case t.viaEngine(w) && (part == "selector" || part == "idless") && len(w.items) > 0 && j < len(w.items[0]) && w.items[0][j] == new[i][j]:
				set[hpPartialFn(part)] = true
			default:
				set["?"] = true
			}
		}
	}
	var r []string
	for k := range set {
		r = append(r, k)
	}
	sort.Strings(r)
	return r
}

// ---------------------------------------------------------------- SPEC monitor C04

type hpVerdict int

const (
	hpOK hpVerdict = iota
	hpErr
	hpPanic
)

// hpC04 judges one remote write from the statement of C04: before / after are
// the data of the function read through the public API, v the answer.
func (t *hpType) c04(rep specSink, ops []string, w *hpWrite, before, after [][]int, v hpVerdict) {
	// a peer's write always persists (executeWrite); remoteWrite && !persist is not a write a peer can send
	if !w.remote || !w.persist || v == hpPanic {
		return
	}
	shape := t.shapeName(w)
	// clause 1a: every element whose flag is not true is still there, identical
	if t.flag >= 0 {
		used := make([]bool, len(after))
		for _, e := range before {
			if t.writable(e) {
				continue
			}
			found := false
			for i, a := range after {
				if !used[i] && hpEqItem(a, e) {
					used[i], found = true, true
					break
				}
			}
			if !found {
				key := "C04/unwritable-modified:" + shape
				if !t.viaEngine(w) {
					key = "C04/fastpath-full-remote-write"
				}
				rep.SpecFail(key, ops, fmt.Sprintf("%s: element %s (flag not true) is gone or changed after a remote write; before=%s after=%s", t.fn, hpItemS(e), hpListS(before), hpListS(after)))
				break
			}
		}
		// clause 1b: no flag altered (elements identified by a complete identifier unique on both sides)
		cnt := func(l [][]int) map[string]int {
			m := map[string]int{}
			for _, e := range l {
				m[t.keyOf(e)]++
			}
			return m
		}
		cb, ca := cnt(before), cnt(after)
		for _, a := range after {
			k := t.keyOf(a)
			if k == "" || ca[k] != 1 || cb[k] != 1 {
				continue
			}
			for _, e := range before {
				if t.keyOf(e) == k && e[t.flag] != a[t.flag] {
					key := "C04/flag-altered:" + shape
					switch {
					case !t.viaEngine(w):
						key = "C04/fastpath-full-remote-write"
					case a[t.flag] < 0 && t.namedEl(w)[t.flag] && w.deletePart() != "" && w.deletePart() != "del-sel":
						key = "C04/flag-altered:deleteFilteredData"
					case len(w.items) > 0 && w.items[0][t.flag] == a[t.flag] && (t.partialPart(w) == "selector" || t.partialPart(w) == "idless"):
						key = "C04/flag-altered:" + hpPartialFn(t.partialPart(w))
					}
					rep.SpecFail(key, ops, fmt.Sprintf("%s: flag of element %s altered by a remote write (%s -> %s)", t.fn, k, hpItemS(e), hpItemS(a)))
				}
			}
		}
	}
	// clause 3: an error result leaves the data exactly as it was
	if v == hpErr && !hpEqList(before, after) {
		fns := t.explain(w, before, after)
		for _, fn := range fns {
			if fn == "RemoveElementFromItem" {
				fn = "deleteFilteredData"
			}
			if fn == "?" {
				fn = shape
			}
			rep.SpecFail("C04/rejected-but-applied:"+fn, ops, fmt.Sprintf("%s: write answered with an error and yet the data changed: before=%s after=%s", t.fn, hpListS(before), hpListS(after)))
		}
	}
	// clause 4: success has applied all changes
	if v == hpOK {
		if why := t.notApplied(w, before, after); why != "" {
			fn := shape
			if shape == "merge" || strings.HasSuffix(shape, "+merge") {
				fn = "Merge"
			}
			rep.SpecFail("C04/success-but-not-applied:"+fn, ops, fmt.Sprintf("%s: write answered with success but %s; before=%s after=%s", t.fn, why, hpListS(before), hpListS(after)))
		}
		// clause 2 (first half): elements the write does not address do not change
		used := make([]bool, len(after))
		for _, e := range before {
			if t.addressed(w, e) {
				continue
			}
			found := false
			for i, a := range after {
				if !used[i] && hpEqItem(a, e) {
					used[i], found = true, true
					break
				}
			}
			if !found {
				rep.SpecFail("C04/unaddressed-changed:"+shape, ops, fmt.Sprintf("%s: element %s is not addressed by the write and changed; before=%s after=%s", t.fn, hpItemS(e), hpListS(before), hpListS(after)))
				break
			}
		}
	}
}

// c04Lean: clauses 3 and 4 of C04 judged by the compiled Lean SPEC functions (the very definitions the theorems
// c04_success_all_applied_store / c04_error_unchanged_exact are stated with) on the IMPLEMENTATION's own data.
//   - success: the data after the write must be partialApplied (delPhaseApplied before) - the complete application;
//   - error:   inside the exact region (no delete elements, no writable element addressed on an in-place path) the
//     data must be unchanged. Outside it the known findings rejected-but-applied:* live (judged by c04 above).
//
// The driver must carry the shape of t and the probed cfg (true for x.d, x.d2 and the world's store drivers).
func (t *hpType) c04Lean(d *h.Driver, rep specSink, ops []string, w *hpWrite, before, after [][]int, v hpVerdict) {
	if d == nil || !w.remote || !w.persist || v == hpPanic || !t.viaEngine(w) {
		return
	}
	for _, l := range [][][]int{before, after} {
		if len(l) > 12 { // beyond insertion sort the order of equal keys is Go's choice
			return
		}
	}
	line := fmt.Sprintf("judge %d %s %s %s %s %s %s %s %s %s", h_b2i(v == hpOK), hpListS(before), hpListS(after), hpListS(w.items),
		w.fpk, hpOptItemS(w.fps), hpOptItemS(w.fpe), w.fdk, hpOptItemS(w.fds), hpOptItemS(w.fde))
	ans := d.Ask(line)
	shape := t.shapeName(w)
	if e, ok := rep.(interface{ Eval(string, string) }); ok {
		cls := ans
		if i := strings.Index(ans, " expect="); i >= 0 {
			cls = ans[:i]
		}
		e.Eval("lean-judge:"+strings.ReplaceAll(cls, " ", ","), "")
	}
	switch {
	case ans == "fast":
	case strings.HasPrefix(ans, "applied=1"), strings.HasPrefix(ans, "region=out"), strings.HasSuffix(ans, "unchanged=1"):
	case strings.HasPrefix(ans, "applied=0"):
		rep.SpecFail("C04/success-but-not-applied:"+shape, ops, fmt.Sprintf("%s: write answered with success but the data is not the complete application of the write (c04_success_all_applied_store): before=%s after=%s %s", t.fn, hpListS(before), hpListS(after), ans))
	case strings.HasPrefix(ans, "region=in"):
		rep.SpecFail("C04/rejected-but-applied-outside-known-region:"+shape, ops, fmt.Sprintf("%s: write answered with an error, no delete elements and no writable element addressed on an in-place path, and yet the data changed (c04_error_unchanged_exact): before=%s after=%s", t.fn, hpListS(before), hpListS(after)))
	default:
		panic("drv_heap judge: " + ans + " for " + line)
	}
}

// notApplied: "" if every change the write asks for is visible in after (weak
// reading: the flag field is exempt because clause 1 forbids altering it;
// ambiguous selectors only checked when exactly one element matches).
func (t *hpType) notApplied(w *hpWrite, before, after [][]int) string {
	if w.isFull() {
		if !hpEqList(w.items, after) {
			return "the data is not the written list"
		}
		return ""
	}
	part := t.partialPart(w)
	overl := map[int]bool{} // fields the partial part sets (may legitimately re-fill deleted fields)
	if (part == "idless" || part == "selector") && len(w.items) > 0 {
		for j, x := range w.items[0] {
			if x >= 0 {
				overl[j] = true
			}
		}
	}
	rekeyed := map[string]bool{}
	if part == "merge" {
		for _, u := range w.items {
			rekeyed[t.keyOf(u)] = true
		}
	}
	// if the partial part of the same write sets a field the delete selector looks at, which elements
	// "matched" is not decidable from before / after alone: the delete part is not judged
	delPart := w.deletePart()
	for j, x := range w.fds {
		if x >= 0 && j < len(t.selMap) && t.selMap[j] >= 0 && overl[t.selMap[j]] {
			delPart = ""
		}
	}
	switch delPart {
	case "del-sel":
		for _, a := range after {
			if t.matches(w.fds, a) && !rekeyed[t.keyOf(a)] {
				// the element may have come to match only through the partial part of the same write
				stillOld := false
				for _, e := range before {
					if hpEqItem(e, a) {
						stillOld = true
					}
				}
				if stillOld {
					return "element " + hpItemS(a) + " matches the delete selector and is still there"
				}
			}
		}
	case "del-el", "del-sel-el":
		named := t.namedEl(w)
		for _, a := range after {
			if w.fds != nil && !t.matches(w.fds, a) {
				continue
			}
			if part == "merge" && rekeyed[t.keyOf(a)] {
				continue
			}
			for j := range named {
				if j == t.flag || overl[j] {
					continue
				}
				if a[j] >= 0 {
					return fmt.Sprintf("field %s of element %s was to be deleted and is still set", t.names[j], hpItemS(a))
				}
			}
		}
	}
	switch part {
	case "merge":
		for _, u := range w.items {
			if !t.hasIds(u) {
				continue
			}
			k := t.keyOf(u)
			found := false
			for _, a := range after {
				if t.keyOf(a) != k {
					continue
				}
				ok := true
				for j, x := range u {
					if x >= 0 && j != t.flag && a[j] != x {
						ok = false
					}
				}
				if ok {
					found = true
				}
			}
			if !found {
				return "no element with identifier " + k + " carries the written fields of " + hpItemS(u)
			}
		}
	case "idless":
		for _, a := range after {
			for j, x := range w.items[0] {
				if x >= 0 && j != t.flag && a[j] != x {
					return fmt.Sprintf("element %s does not carry %s=%d written to all elements", hpItemS(a), t.names[j], x)
				}
			}
		}
	case "selector":
		if len(w.items) == 0 {
			return ""
		}
		// delete elements that clear a field the partial selector looks at change what it matches: not judged
		for j, x := range w.fps {
			if x >= 0 && j < len(t.selMap) && t.selMap[j] >= 0 && t.namedEl(w)[t.selMap[j]] {
				return ""
			}
		}
		// elements that matched before the partial phase (after the delete phase) - by identifier
		var m [][]int
		for _, e := range before {
			if t.matches(w.fps, e) && !(w.deletePart() == "del-sel" && t.matches(w.fds, e)) {
				m = append(m, e)
			}
		}
		if len(m) != 1 || t.keyOf(m[0]) == "" {
			return ""
		}
		k := t.keyOf(m[0])
		// the selected element is re-found by its identifier: that needs the identifier to be unique and
		// not to be overwritten by the write itself
		nk := 0
		for _, e := range before {
			if t.keyOf(e) == k {
				nk++
			}
		}
		for _, key := range t.keys {
			if w.items[0][key.idx] >= 0 {
				nk = 2
			}
		}
		if nk != 1 {
			return ""
		}
		for _, a := range after {
			if t.keyOf(a) != k {
				continue
			}
			for j, x := range w.items[0] {
				if x >= 0 && j != t.flag && a[j] != x {
					return fmt.Sprintf("the selected element %s does not carry %s=%d", hpItemS(a), t.names[j], x)
				}
			}
		}
	}
	return ""
}

// specSink is the part of h.Report the monitors need (so that a quiet report can stand in).
type specSink interface {
	SpecFail(key string, ops []string, detail string)
}

// ---------------------------------------------------------------- retained values (C11)

type hpHandle struct {
	id   string // the model's struct id
	kind string // input | copy | ret | payload
	val  any
	abs  [][]int // content at hand-out, resp. after the last reported change
	js   string  // JSON text of the same
}

func hpJSON(v any) string {
	b, err := json.Marshal(v)
	if err != nil {
		return "json-error:" + err.Error()
	}
	return string(b)
}

// c11Handles: every retained value must still read what it read at hand-out.
func (t *hpType) c11Handles(rep specSink, ops []string, w *hpWrite, hs []*hpHandle) {
	for _, hd := range hs {
		js := hpJSON(hd.val)
		if js == hd.js {
			continue
		}
		now := t.decAny(hd.val)
		var keys []string
		for _, fn := range t.explain(w, hd.abs, now) {
			switch {
			case fn != "?":
				keys = append(keys, "C11/inplace:"+fn)
			case hd.kind == "input" || hd.kind == "payload":
				keys = append(keys, "C11/fastpath-pointer-shared")
			default:
				keys = append(keys, "C11/snapshot-changed:"+hd.kind+":"+t.shapeName(w))
			}
		}
		if len(keys) == 0 {
			keys = []string{"C11/snapshot-changed:" + hd.kind + ":" + t.shapeName(w)}
		}
		for _, k := range keys {
			rep.SpecFail(k, ops, fmt.Sprintf("%s: a retained value (%s, handle %s) read %s at hand-out and reads %s after %s", t.fn, hd.kind, hd.id, hpListS(hd.abs), hpListS(now), w.line()))
		}
		hd.abs, hd.js = now, js
	}
}

// c11Store: a non-persisting update and a failed update leave the stored data as it was.
func (t *hpType) c11Store(rep specSink, ops []string, w *hpWrite, before, after [][]int, v hpVerdict) {
	if v == hpPanic || hpEqList(before, after) {
		return
	}
	if !w.persist || v == hpErr {
		for _, fn := range t.explain(w, before, after) {
			if fn == "?" {
				fn = t.shapeName(w)
			}
			if !w.persist {
				rep.SpecFail("C11/nonpersist-modifies-store:"+fn, ops, fmt.Sprintf("%s: update requested without persistence changed the stored data: before=%s after=%s", t.fn, hpListS(before), hpListS(after)))
			}
			if v == hpErr {
				rep.SpecFail("C11/failed-modifies-store:"+fn, ops, fmt.Sprintf("%s: update reported as failed changed the stored data: before=%s after=%s", t.fn, hpListS(before), hpListS(after)))
			}
		}
	}
}
