package comp

// C16 — heartbeat: (A) correspondence of Spine.HB (Lean, start/stop as events) with
// spine.HeartbeatManager, sequentially and under schedules driven through the two yield points
// (`StopHeartbeat.running`, `StartHeartbeat.stopped-old`), with a SPEC monitor for "no panic,
// never two streams"; (B) a real-time SPEC monitor on live heartbeats with real subscriptions
// (monotone counter, current timestamp, period <= announced timeout, every refresh notified to
// every subscriber, stop / RemoveEntity final), tied to Spine.HB.period; (C) unparked
// concurrent start/stop/IsHeartbeatRunning from several goroutines.

import (
	"encoding/json"
	"fmt"
	"math/rand"
	"runtime"
	"sort"
	"strconv"
	"strings"
	"sync"
	"sync/atomic"
	"testing"
	"time"

	"github.com/enbility/spine-go/api"
	"github.com/enbility/spine-go/model"
	"github.com/enbility/spine-go/spine"
	"github.com/enbility/spine-go/util"
	"verifharness/h"
)

const (
	hbtSiteStop  = "StopHeartbeat.running"
	hbtSiteStart = "StartHeartbeat.stopped-old"

	hbtKeyDouble = "C16/double-close-panic"
	hbtKeyTwo    = "C16/two-streams"
)

var hbtWorldSeq int64

// ---------- part A: start / stop as events

type hbtWorld struct {
	l  *spine.DeviceLocal
	e  *spine.EntityLocal
	f  api.FeatureLocalInterface
	hm api.HeartbeatManagerInterface
	g0 int // goroutines before any heartbeat existed

	attached bool // the entity is in the device's list (AddEntity called, RemoveEntity not since)
	added    bool // AddFunctionType(heartbeat) has been called
}

// newHbtWorld: a device and an entity with a device-diagnosis server feature; attach = AddEntity is called at once
// (otherwise it is an op of the history: the heartbeat may be started on an entity the device does not list).
func newHbtWorld(timeout time.Duration, attach bool) *hbtWorld {
	w := &hbtWorld{}
	w.l = spine.NewDeviceLocal("b", "m", "s", "c", "HEMS", model.DeviceTypeTypeEnergyManagementSystem, model.NetworkManagementFeatureSetTypeSmart)
	w.e = spine.NewEntityLocal(w.l, model.EntityTypeTypeCEM, spine.NewAddressEntityType([]uint{1}), timeout)
	if attach {
		w.l.AddEntity(w.e)
		w.attached = true
	}
	w.f = w.e.GetOrAddFeature(model.FeatureTypeTypeDeviceDiagnosis, model.RoleTypeServer)
	w.hm = w.e.HeartbeatManager()
	return w
}

type hbtTask struct {
	t    *h.Task
	kind string // start | stop
	at   string // site it is parked at; "" = blocked or running
}

type hbtResult struct {
	evals    []string
	executed []string
	mismatch *h.Mismatch
	spec     []h.SpecFailure
	agreed   bool
	note     string
}

func (res *hbtResult) fail(key, detail string) {
	for _, s := range res.spec {
		if s.Key == key {
			return
		}
	}
	res.spec = append(res.spec, h.SpecFailure{Key: key, Ops: append([]string{}, res.executed...), Detail: detail})
}

func (res *hbtResult) hasKey(key string) bool {
	for _, s := range res.spec {
		if s.Key == key {
			return true
		}
	}
	return false
}

type hbtRun struct {
	w       *hbtWorld
	d       *h.Driver // nil: SPEC only (probe phase)
	split   bool      // the tree is the member as written: operations are driven event by event
	tasks   map[int]*hbtTask
	res     *hbtResult
	panics  int
	tainted bool  // two streams or a panic were seen: the sequential expectations no longer apply
	overlap bool  // two start operations overlapped in this history (one began before the other had returned)
	blocked bool  // some task neither parked nor ended within the bound (serialised by a lock)
	asking  int64 // IsHeartbeatRunning questions that have not returned (they are goroutines too)
}

func (x *hbtRun) live() int {
	n := 0
	for _, t := range x.tasks {
		if !t.t.IsDone() {
			n++
		}
	}
	return n
}

// streams counts the heartbeat goroutines, waiting (bounded) for the count to become want (want < 0: no wish).
func (x *hbtRun) streams(want int, bound time.Duration) int {
	dead := time.Now().Add(bound)
	for {
		n := runtime.NumGoroutine() - x.w.g0 - x.live() - int(atomic.LoadInt64(&x.asking))
		if n == want || want < 0 || time.Now().After(dead) {
			return n
		}
		time.Sleep(50 * time.Microsecond)
	}
}

func hbtTitle(kind string) string {
	if kind == "start" {
		return "Start"
	}
	return "Stop"
}

// hbtGoroutines: the goroutine count at a quiescent point (a goroutine that is only about to exit, like the reader
// of the previous driver call, is not counted)
func hbtGoroutines() int {
	n := runtime.NumGoroutine()
	// until the count has not fallen for a while (longer when the machine is busy: a goroutine that has been told to
	// end may wait for a processor)
	quiet := 6 + int(h.Lateness(time.Now().Add(-20*time.Millisecond), time.Now())/(100*time.Microsecond))
	if quiet > 200 {
		quiet = 200
	}
	for i := 0; i < quiet; i++ {
		time.Sleep(30 * time.Microsecond)
		if m := runtime.NumGoroutine(); m < n {
			n, i = m, 0
		}
	}
	return n
}

func hbtField(ans, name string) string {
	for _, f := range strings.Fields(ans) {
		if strings.HasPrefix(f, name+"=") {
			return strings.TrimPrefix(f, name+"=")
		}
	}
	return ""
}

func (x *hbtRun) notePanic(t *hbtTask) {
	if t.t.Panic == nil {
		return
	}
	x.panics++
	x.tainted = true
	msg := fmt.Sprint(t.t.Panic)
	switch {
	case strings.Contains(msg, "close of closed channel"):
		x.res.fail(hbtKeyDouble, fmt.Sprintf("%sHeartbeat panicked: %s (two operations both passed the running check before either closed the stop channel)", hbtTitle(t.kind), msg))
	case strings.Contains(msg, "close of nil channel"):
		x.res.fail("C16/close-nil-panic", fmt.Sprintf("%sHeartbeat panicked: %s", hbtTitle(t.kind), msg))
	default:
		x.res.fail("C16/panic", fmt.Sprintf("%sHeartbeat panicked: %s", hbtTitle(t.kind), msg))
	}
	t.t.Panic = nil
}

// wait lets a task run to its next park or its end.
func (x *hbtRun) wait(t *hbtTask) {
	site, done, ok := t.t.Wait(300 * time.Millisecond)
	switch {
	case !ok:
		t.at = ""
		x.blocked = true
	case done:
		t.at = ""
		x.notePanic(t)
	default:
		t.at = site
	}
}

// compare asks the model the lines, waits for the goroutine count it predicts and compares.
func (x *hbtRun) compare(op, kind string, quiescentWant int, lines ...string) bool {
	x.res.evals = append(x.res.evals, kind)
	ans := ""
	if x.d != nil {
		for _, l := range lines {
			ans = x.d.Ask(l)
		}
	}
	want := quiescentWant
	if x.d != nil {
		want, _ = strconv.Atoi(hbtField(ans, "streams"))
	}
	n := x.streams(want, 2*time.Second)
	if want < 0 {
		time.Sleep(5 * time.Millisecond)
		n = x.streams(-1, 0)
	}
	run := -1
	if x.split || x.live() == 0 {
		run = x.isRunning()
	}
	// SPEC, no model: with no operation in flight there is at most one stream, and it runs iff the manager says so
	if x.live() == 0 && !x.tainted {
		if n > 1 {
			n = x.streams(1, 10*time.Millisecond+4*h.Lateness(time.Now().Add(-50*time.Millisecond), time.Now())) // a goroutine that is only slow to exit is not a second stream
		}
		// a surplus stream after two start operations overlapped is the "two concurrent streams" clause; the same
		// symptom without overlapping starts is something else and gets a key of its own
		surplus := func(key, detail string) {
			x.tainted = true
			if x.overlap {
				x.res.fail(hbtKeyTwo, detail+" - two StartHeartbeat calls overlapped earlier in this history, one stream was orphaned")
			} else {
				x.res.fail(key, detail)
			}
		}
		switch {
		case strings.HasPrefix(op, "removeentity") && (run == 1 || n > 0):
			surplus("C16/heartbeat-survives-remove-entity", fmt.Sprintf("after RemoveEntity returned (%s) IsHeartbeatRunning=%d and %d heartbeat goroutine(s) keep running", kind, run, n))
		case n > 1:
			surplus("C16/two-streams-without-overlapping-starts", fmt.Sprintf("%d heartbeat goroutines are running with no start or stop in flight (IsHeartbeatRunning=%d)", n, run))
		case run == 1 && n == 0:
			x.res.fail("C16/running-without-stream", "IsHeartbeatRunning reports true and no heartbeat goroutine exists")
		case run == 0 && n > 0:
			surplus("C16/stream-survives-stop", fmt.Sprintf("IsHeartbeatRunning reports false and %d heartbeat goroutine(s) keep running", n))
		}
		if quiescentWant >= 0 && !x.tainted && n != quiescentWant {
			x.res.fail("C16/start-stop-effect", fmt.Sprintf("after %s: %d heartbeat goroutine(s), expected %d", op, n, quiescentWant))
		}
	}
	if x.d == nil {
		return true
	}
	impl := fmt.Sprintf("run=%d streams=%d panic=%d", run, n, h.B2i(x.panics > 0))
	mdl := fmt.Sprintf("run=%s streams=%s panic=%s", hbtField(ans, "run"), hbtField(ans, "streams"), hbtField(ans, "panic"))
	if run < 0 {
		mdl = fmt.Sprintf("run=-1 streams=%s panic=%s", hbtField(ans, "streams"), hbtField(ans, "panic"))
	}
	if impl != mdl {
		x.res.mismatch = &h.Mismatch{Ops: append([]string{}, x.res.executed...), Impl: impl, Model: mdl, Note: "heartbeat op " + op + " as " + strings.Join(lines, "; ")}
		return false
	}
	return true
}

func (x *hbtRun) seqLines(kind string) []string {
	if !x.split {
		return []string{kind + "Atomic"}
	}
	if kind == "stop" {
		return []string{"stopCheck 0", "stopClose 0"}
	}
	return []string{"stopCheck 0", "stopClose 0", "startMake 0", "startSpawn 0"}
}

func (x *hbtRun) exec(op string) bool {
	f := strings.Fields(op)
	id := 0
	if len(f) > 1 {
		id, _ = strconv.Atoi(f[1])
	}
	w := x.w
	switch f[0] {
	case "add":
		// AddFunctionType(heartbeat) initialises the data and starts the heartbeat
		if w.added {
			return true
		}
		w.added = true
		x.res.executed = append(x.res.executed, op)
		if pan := h.Recover(func() { w.f.AddFunctionType(model.FunctionTypeDeviceDiagnosisHeartbeatData, true, false) }); pan != nil {
			x.panics++
			x.tainted = true
			x.res.fail("C16/panic-sequential", fmt.Sprintf("AddFunctionType(heartbeat) panicked: %v", pan))
		}
		return x.compare(op, "add", 1, x.seqLines("start")...)
	case "addentity":
		// AddEntity does not touch the heartbeat; it decides what RemoveEntity finds in the device's list
		if w.attached {
			return true
		}
		w.attached = true
		x.res.executed = append(x.res.executed, op)
		if pan := h.Recover(func() { w.l.AddEntity(w.e) }); pan != nil {
			x.panics++
			x.tainted = true
			x.res.fail("C16/panic-sequential", fmt.Sprintf("AddEntity panicked: %v", pan))
		}
		return x.compare(op, "addentity", -1, "obs")
	case "start", "stop":
		if x.live() > 0 && !x.split {
			return true
		}
		if f[0] == "start" && !w.added {
			return true // precondition: the heartbeat function exists before the heartbeat is started by hand
		}
		x.res.executed = append(x.res.executed, op)
		var pan any
		if f[0] == "start" {
			x.noteStart()
			pan = h.Recover(func() { _ = w.hm.StartHeartbeat() })
		} else {
			pan = h.Recover(func() { w.hm.StopHeartbeat() })
		}
		if pan != nil {
			t := &hbtTask{t: &h.Task{Panic: pan}, kind: f[0]}
			x.panics++
			x.tainted = true
			x.res.fail("C16/panic-sequential", fmt.Sprintf("%sHeartbeat panicked with no other operation in flight: %v", hbtTitle(t.kind), pan))
		}
		want := -1
		if x.live() == 0 {
			want = h.B2i(f[0] == "start")
		}
		return x.compare(op, f[0], want, x.seqLines(f[0])...)
	case "isrunning":
		if x.live() > 0 && !x.split {
			return true
		}
		x.res.executed = append(x.res.executed, op)
		return x.compare(op, "isrunning", -1, "obs")
	case "gstart", "gstop", "gremove":
		if x.tasks[id] != nil || id == 0 {
			return true
		}
		if f[0] == "gstart" && !w.added {
			return true
		}
		kind := strings.TrimPrefix(f[0], "g")
		x.res.executed = append(x.res.executed, op)
		if kind == "start" {
			x.noteStart()
		}
		call := func() { w.hm.StopHeartbeat() }
		switch kind {
		case "start":
			call = func() { _ = w.hm.StartHeartbeat() }
		case "remove":
			// RemoveEntity from a goroutine of its own: towards the heartbeat it is a StopHeartbeat
			kind = "stop"
			w.attached = false
			call = func() { w.l.RemoveEntity(w.e) }
		}
		if !x.split {
			// repaired member: the operation is one critical section; run it to its end in a goroutine of its own
			t := &hbtTask{t: h.Go(call), kind: kind}
			x.tasks[id] = t
			x.waitDone(t)
			delete(x.tasks, id)
			return x.compare(op, f[0]+":atomic", -1, kind+"Atomic")
		}
		t := &hbtTask{t: h.Go(call, hbtSiteStop, hbtSiteStart), kind: kind}
		x.tasks[id] = t
		x.wait(t)
		// model: the running check of the (inner) StopHeartbeat
		if !x.compare(op, f[0], -1, fmt.Sprintf("stopCheck %d", id)) {
			return false
		}
		if x.d != nil {
			checked := false
			for _, c := range strings.Split(hbtField(x.d.Ask("obs"), "checked"), ",") {
				if c == strconv.Itoa(id) {
					checked = true
				}
			}
			if checked != (t.at == hbtSiteStop) {
				x.res.mismatch = &h.Mismatch{Ops: append([]string{}, x.res.executed...), Impl: "parked at " + t.at, Model: fmt.Sprintf("saw running = %v", checked), Note: "where the operation stands after its running check"}
				return false
			}
		}
		if t.t.IsDone() {
			delete(x.tasks, id)
		}
		return true
	case "step":
		t := x.tasks[id]
		if t == nil || !x.split {
			return true
		}
		if t.at == "" {
			// blocked on a lock (not the member as written): just see whether it got further
			x.wait(t)
			return true
		}
		x.res.executed = append(x.res.executed, op)
		from := t.at
		t.t.Release()
		x.wait(t)
		done := t.t.IsDone()
		if done {
			delete(x.tasks, id)
		}
		switch from {
		case hbtSiteStop:
			return x.compare(op, "step:close", -1, fmt.Sprintf("stopClose %d", id))
		default:
			return x.compare(op, "step:spawn", -1, fmt.Sprintf("startMake %d", id), fmt.Sprintf("startSpawn %d", id))
		}
	case "removeentity":
		// whatever the device's list says about the entity: towards the heartbeat RemoveEntity is a StopHeartbeat
		if x.live() > 0 && !x.split {
			return true
		}
		x.res.executed = append(x.res.executed, op)
		kind := "removeentity:detached"
		if w.attached {
			kind = "removeentity:attached"
		}
		w.attached = false
		if pan := h.Recover(func() { w.l.RemoveEntity(w.e) }); pan != nil {
			x.panics++
			x.tainted = true
			if strings.Contains(fmt.Sprint(pan), "close of closed channel") {
				x.res.fail(hbtKeyDouble, fmt.Sprintf("RemoveEntity panicked: %v (its StopHeartbeat and another operation both passed the running check)", pan))
			} else {
				x.res.fail("C16/panic-sequential", fmt.Sprintf("RemoveEntity panicked: %v", pan))
			}
		}
		want := -1
		if x.live() == 0 {
			want = 0
		}
		return x.compare(op, kind, want, x.seqLines("stop")...)
	}
	return true
}

// isRunning asks IsHeartbeatRunning without trusting it to return: in a tree where an operation parked at a
// yield point holds the manager's lock the question blocks until that operation is released (-1 = no answer).
func (x *hbtRun) isRunning() int {
	if x.blocked && x.live() > 0 {
		return -1
	}
	ch := make(chan bool, 1)
	atomic.AddInt64(&x.asking, 1)
	go func() {
		v := x.w.hm.IsHeartbeatRunning()
		atomic.AddInt64(&x.asking, -1)
		ch <- v
	}()
	select {
	case v := <-ch:
		return h.B2i(v)
	case <-time.After(300 * time.Millisecond):
		x.blocked = true
		return -1
	}
}

// noteStart: a StartHeartbeat begins; does it overlap one that has not returned yet?
func (x *hbtRun) noteStart() {
	for _, t := range x.tasks {
		if t.kind == "start" && !t.t.IsDone() {
			x.overlap = true
		}
	}
}

func (x *hbtRun) waitDone(t *hbtTask) {
	for i := 0; i < 20 && !t.t.IsDone(); i++ {
		if t.at != "" {
			t.t.Release()
		}
		x.wait(t)
	}
}

// runHbtHistory executes one op list in a fresh world (10 min timeout: no refresh interferes).
func runHbtHistory(d *h.Driver, split bool, ops []string) *hbtResult {
	res := &hbtResult{}
	w := newHbtWorld(10*time.Minute, false)
	w.g0 = hbtGoroutines()
	x := &hbtRun{w: w, d: d, split: split, tasks: map[int]*hbtTask{}, res: res}
	if d != nil {
		d.Ask("reset")
	}
	// a history that does not say when the heartbeat function is added starts with the ordinary life cycle
	explicit := false
	for _, op := range ops {
		if op == "add" {
			explicit = true
		}
	}
	if !explicit {
		ops = append([]string{"addentity", "add"}, ops...)
	}
	ok := true
	for _, op := range ops {
		if !ok {
			break
		}
		ok = x.exec(op)
	}
	// end every operation still in flight, then stop
	var ids []int
	for id := range x.tasks {
		ids = append(ids, id)
	}
	sort.Ints(ids)
	for round := 0; round < 4 && x.live() > 0; round++ {
		for _, id := range ids {
			if t := x.tasks[id]; t != nil {
				if ok && x.split && t.at != "" {
					ok = x.exec(fmt.Sprintf("step %d", id))
				} else {
					x.waitDone(t)
					if t.t.IsDone() {
						delete(x.tasks, id)
					}
				}
			}
		}
	}
	if ok && x.live() == 0 {
		ok = x.exec("stop")
	} else {
		h.Recover(func() { w.hm.StopHeartbeat() })
	}
	if x.blocked {
		res.note = "an operation neither reached a yield point nor ended within 300 ms (serialised by a lock)"
	}
	res.agreed = ok && res.mismatch == nil
	return res
}

func genHbtHistory(rng *rand.Rand) []string {
	var ops []string
	// life cycle of the entity: the heartbeat function may be added (which starts the heartbeat) before the device
	// lists the entity, after, or on an entity that was listed and removed again
	switch x := rng.Intn(100); {
	case x < 40:
		ops = []string{"addentity", "add"}
	case x < 60:
		ops = []string{"add", "addentity"}
	case x < 75:
		ops = []string{"add"}
	case x < 85:
		ops = []string{"addentity", "removeentity", "add"}
	default:
		ops = []string{"removeentity", "stop", "addentity", "isrunning", "add"}
	}
	n := 6 + rng.Intn(18)
	next := 0
	var open []int
	for i := 0; i < n; i++ {
		switch x := rng.Intn(118); {
		case x >= 100 && x < 110:
			ops = append(ops, "removeentity")
		case x >= 110 && x < 115:
			ops = append(ops, "addentity")
		case x >= 115:
			if len(open) < 3 {
				next++
				open = append(open, next)
				ops = append(ops, fmt.Sprintf("gremove %d", next))
			}
		case x < 18:
			ops = append(ops, "start")
		case x < 36:
			ops = append(ops, "stop")
		case x < 42:
			ops = append(ops, "isrunning")
		case x < 58 && len(open) < 3:
			next++
			open = append(open, next)
			ops = append(ops, fmt.Sprintf("gstart %d", next))
		case x < 72 && len(open) < 3:
			next++
			open = append(open, next)
			ops = append(ops, fmt.Sprintf("gstop %d", next))
		default:
			if len(open) == 0 {
				ops = append(ops, []string{"start", "stop"}[rng.Intn(2)])
				continue
			}
			k := rng.Intn(len(open))
			ops = append(ops, fmt.Sprintf("step %d", open[k]))
			if rng.Intn(2) == 0 {
				open = append(open[:k], open[k+1:]...) // a stop needs one step, a start up to two
			}
		}
	}
	if rng.Intn(6) == 0 {
		ops = append(ops, "removeentity")
	}
	return ops
}

// hbtEnumerate: all schedules of k overlapping operations (each start or stop), from a running and from a stopped
// heartbeat: an operation is begun and then stepped through its yield points (a step of an operation that has
// already ended is skipped).
func hbtEnumerate(k int) [][]string {
	var out [][]string
	for kinds := 0; kinds < 1<<k; kinds++ {
		var seqs [][]string
		for i := 0; i < k; i++ {
			g := "gstop"
			if kinds>>i&1 == 1 {
				g = "gstart"
			}
			seqs = append(seqs, []string{fmt.Sprintf("%s %d", g, i+1), fmt.Sprintf("step %d", i+1), fmt.Sprintf("step %d", i+1)})
		}
		for _, init := range [][]string{nil, {"stop"}} {
			hbtMerges(seqs, func(m []string) {
				out = append(out, append(append([]string{}, init...), m...))
			})
		}
	}
	return out
}

var (
	hbtWitnessDouble = []string{"gstop 1", "gstop 2", "step 1", "step 2"}
	hbtWitnessTwo    = []string{"stop", "gstart 1", "gstart 2", "step 1", "step 2"}
)

func hbtCorpus() [][]string {
	return [][]string{
		hbtWitnessDouble, hbtWitnessTwo,
		{"gstart 1", "gstart 2", "step 1", "step 2", "step 1", "step 2"}, // two starts on a running heartbeat: the inner stops double-close
		{"start", "start", "start", "start", "start", "isrunning", "stop", "stop", "isrunning"},
		{"stop", "stop", "start", "isrunning", "removeentity", "isrunning"},
		{"gstop 1", "step 1", "gstart 2", "step 2", "step 2", "isrunning"},
		{"gstop 1", "gstart 2", "step 2", "step 1", "step 2"},
		{"gstop 1", "start", "step 1", "isrunning"}, // a stop that saw the old stream closes the new one
		// RemoveEntity must stop the heartbeat whatever the device's list says about the entity
		{"addentity", "add", "removeentity", "isrunning", "start", "isrunning", "removeentity", "isrunning"},
		{"add", "isrunning", "removeentity", "isrunning"},                             // started before AddEntity was ever called
		{"add", "addentity", "removeentity", "removeentity", "start", "removeentity"}, // repeated
		{"addentity", "add", "removeentity", "addentity", "start", "removeentity", "start", "stop", "removeentity"},
		{"removeentity", "addentity", "add", "stop", "removeentity", "start", "gremove 1", "step 1", "isrunning"},
		{"addentity", "add", "gremove 1", "gstop 2", "step 1", "step 2"}, // RemoveEntity and StopHeartbeat overlapping
	}
}

// hbtProbe: which member is the tree under test? Runs the two witnesses on the real code, SPEC monitor only.
func hbtProbe(r *h.Report) (stopSplit, startSplit bool) {
	rd := runHbtHistory(nil, true, hbtWitnessDouble)
	rt := runHbtHistory(nil, true, hbtWitnessTwo)
	stopSplit, startSplit = rd.hasKey(hbtKeyDouble), rt.hasKey(hbtKeyTwo)
	detail := func(res *hbtResult) string {
		var s []string
		for _, f := range res.spec {
			s = append(s, f.Key+": "+f.Detail)
		}
		if res.note != "" {
			s = append(s, res.note)
		}
		return strings.Join(s, " | ")
	}
	r.SetFlag("stopCheckCloseSplit", stopSplit, hbtWitnessDouble, detail(rd))
	r.SetFlag("startNotAtomic", startSplit, hbtWitnessTwo, detail(rt))
	for _, res := range []*hbtResult{rd, rt} {
		for _, s := range res.spec {
			r.SpecFail(s.Key, s.Ops, s.Detail)
		}
	}
	return
}

// ---------- part B: live heartbeats, real time

type hbtNote struct {
	t       time.Time
	ctr     uint64
	ts      time.Time
	tsErr   bool
	tsRaw   string    // the timestamp as it stands on the wire
	tsOwn   time.Time // ... read by the harness's own reader (hbtParseStamp), not by the stack's GetTime
	tsOwnOk bool
	timeout time.Duration
	src     string // entity/feature the notification says it comes from
	dst     string
}

type hbtWriter struct {
	mu    sync.Mutex
	notes []hbtNote
	slow  time.Duration // every heartbeat notification takes this long to send (widens overlaps between entities)

	// a writer that can be held: when armed, the next heartbeat notification blocks inside
	// WriteShipMessageWithPayload (the refresh is then "in flight" inside SetData) until released
	armed   int32
	held    chan struct{}
	release chan struct{}
	done    int32       // heartbeat notifications whose write has returned
	rets    []time.Time // per recorded notification: when its write returned (zero while it is being written)
}

func newHbtWriter() *hbtWriter {
	return &hbtWriter{held: make(chan struct{}, 1), release: make(chan struct{})}
}

func (w *hbtWriter) WriteShipMessageWithPayload(m []byte) {
	t := time.Now()
	var d model.Datagram
	if err := json.Unmarshal(m, &d); err != nil || len(d.Datagram.Payload.Cmd) == 0 {
		return
	}
	hb := d.Datagram.Payload.Cmd[0].DeviceDiagnosisHeartbeatData
	if hb == nil || d.Datagram.Header.CmdClassifier == nil || *d.Datagram.Header.CmdClassifier != model.CmdClassifierTypeNotify {
		return
	}
	defer atomic.AddInt32(&w.done, 1)
	n := hbtNote{t: t}
	if hb.HeartbeatCounter != nil {
		n.ctr = *hb.HeartbeatCounter
	}
	if hb.Timestamp != nil {
		ts, err := hb.Timestamp.GetTime()
		n.ts, n.tsErr = ts, err != nil
		n.tsRaw = string(*hb.Timestamp)
		n.tsOwn, n.tsOwnOk = hbtParseStamp(n.tsRaw)
	} else {
		n.tsErr = true
	}
	if hb.HeartbeatTimeout != nil {
		n.timeout, _ = hb.HeartbeatTimeout.GetTimeDuration()
	}
	n.src, n.dst = h.AddrS(d.Datagram.Header.AddressSource), h.AddrS(d.Datagram.Header.AddressDestination)
	w.mu.Lock()
	w.notes = append(w.notes, n)
	w.rets = append(w.rets, time.Time{})
	idx := len(w.rets) - 1
	w.mu.Unlock()
	defer func() {
		w.mu.Lock()
		w.rets[idx] = time.Now()
		w.mu.Unlock()
	}()
	if w.slow > 0 {
		time.Sleep(w.slow)
	}
	if atomic.CompareAndSwapInt32(&w.armed, 1, 0) {
		w.held <- struct{}{}
		<-w.release
	}
}

func (w *hbtWriter) count() int {
	w.mu.Lock()
	defer w.mu.Unlock()
	return len(w.notes)
}

type hbtSample struct {
	t       time.Time
	ctr     uint64
	timeout time.Duration
	tsRaw   string // the timestamp text of the feature's own data
}

// hbtParseStamp: the instant a timestamp text denotes, read by the harness itself (ISO 8601 / RFC 3339: a literal
// 'Z' or no designator = UTC, an explicit offset is honoured). Deliberately not the stack's own GetTime: a writer and
// a reader of the stack that err the same way would cancel out.
func hbtParseStamp(s string) (time.Time, bool) {
	for _, l := range []string{time.RFC3339Nano, "2006-01-02T15:04:05.999999999"} {
		if t, err := time.ParseInLocation(l, s, time.UTC); err == nil {
			return t, true
		}
	}
	return time.Time{}, false
}

// hbtZone: for the whole of TestHeartbeat the process's local time zone is a fixed zone two hours east of UTC (the
// sandbox runs in UTC, where local wall-clock time and UTC coincide and a timestamp taken from the local clock but
// labelled 'Z' cannot be told from a correct one). Set before any goroutine of the test exists; the harness itself
// only subtracts instants (zone-free).
func hbtZone() func() {
	old := time.Local
	time.Local = time.FixedZone("VERIF+02", 2*60*60)
	return func() { time.Local = old }
}

type hbtSpan struct{ a, b time.Time }

// hbtSubscribe connects a peer with a device-diagnosis client feature and lets it subscribe to the feature.
func hbtSubscribe(w *hbtWorld, ski, dev string, wr *hbtWriter) {
	hbtSubscribeTo(w.l, ski, dev, wr, w.f.Address())
}

// hbtSubscribeTo: one peer whose device-diagnosis client feature subscribes to each of the given server features.
func hbtSubscribeTo(l *spine.DeviceLocal, ski, dev string, wr *hbtWriter, servers ...*model.FeatureAddressType) {
	if wr == nil {
		// a peer whose connection cannot be written to: every send to it fails
		l.SetupRemoteDevice(ski, nil)
	} else {
		l.SetupRemoteDevice(ski, wr)
	}
	rdev := l.RemoteDeviceForSki(ski)
	inject := func(d model.DatagramType) {
		b, _ := json.Marshal(model.Datagram{Datagram: d})
		_, _ = rdev.HandleSpineMesssage(b)
	}
	ft, role := model.FeatureTypeTypeDeviceDiagnosis, model.RoleTypeClient
	nt, nr := model.FeatureTypeTypeNodeManagement, model.RoleTypeSpecial
	dd := &model.NodeManagementDetailedDiscoveryDataType{
		DeviceInformation: &model.NodeManagementDetailedDiscoveryDeviceInformationType{Description: &model.NetworkManagementDeviceDescriptionDataType{DeviceAddress: &model.DeviceAddressType{Device: util.Ptr(model.AddressDeviceType(dev))}}},
		EntityInformation: []model.NodeManagementDetailedDiscoveryEntityInformationType{
			{Description: &model.NetworkManagementEntityDescriptionDataType{EntityAddress: &model.EntityAddressType{Entity: spine.NewAddressEntityType([]uint{0})}, EntityType: util.Ptr(model.EntityTypeTypeDeviceInformation)}},
			{Description: &model.NetworkManagementEntityDescriptionDataType{EntityAddress: &model.EntityAddressType{Entity: spine.NewAddressEntityType([]uint{1})}, EntityType: util.Ptr(model.EntityTypeTypeEVSE)}}},
		FeatureInformation: []model.NodeManagementDetailedDiscoveryFeatureInformationType{
			{Description: &model.NetworkManagementFeatureDescriptionDataType{FeatureAddress: h.FA(dev, []uint{0}, 0), FeatureType: &nt, Role: &nr}},
			{Description: &model.NetworkManagementFeatureDescriptionDataType{FeatureAddress: h.FA(dev, []uint{1}, 1), FeatureType: &ft, Role: &role}}},
	}
	cl := model.CmdClassifierTypeReply
	inject(model.DatagramType{Header: model.HeaderType{AddressSource: h.FA(dev, []uint{0}, 0), AddressDestination: h.FA("HEMS", []uint{0}, 0), MsgCounter: util.Ptr(model.MsgCounterType(1)), MsgCounterReference: util.Ptr(model.MsgCounterType(1)), CmdClassifier: &cl}, Payload: model.PayloadType{Cmd: []model.CmdType{{NodeManagementDetailedDiscoveryData: dd}}}})
	cc := model.CmdClassifierTypeCall
	for i, srv := range servers {
		inject(model.DatagramType{Header: model.HeaderType{AddressSource: h.FA(dev, []uint{0}, 0), AddressDestination: h.FA("HEMS", []uint{0}, 0), MsgCounter: util.Ptr(model.MsgCounterType(2 + i)), CmdClassifier: &cc}, Payload: model.PayloadType{Cmd: []model.CmdType{{NodeManagementSubscriptionRequestCall: spine.NewNodeManagementSubscriptionRequestCallType(h.FA(dev, []uint{1}, 1), srv, model.FeatureTypeTypeDeviceDiagnosis)}}}})
	}
}

// hbtMulti: several entities of one device run heartbeats side by side (equal periods tick at the same instants),
// two peers subscribe to every entity's device-diagnosis feature, one of them slow to send. Judged per (entity,
// subscriber): the subscriber receives that entity's counters 1, 2, 3, ... once each, from that entity's feature
// address, and nothing else.
func hbtMulti(periods []time.Duration, dur time.Duration) (fails [][2]string, desc string) {
	what := fmt.Sprintf("entities with heartbeat timeouts %v, two subscribers each", periods)
	fail := func(key, detail string) {
		fails = append(fails, [2]string{key, what + ": " + detail})
	}
	id := atomic.AddInt64(&hbtWorldSeq, 1)
	l := spine.NewDeviceLocal("b", "m", "s", "c", "HEMS", model.DeviceTypeTypeEnergyManagementSystem, model.NetworkManagementFeatureSetTypeSmart)
	var ents []*spine.EntityLocal
	var feats []api.FeatureLocalInterface
	var servers []*model.FeatureAddressType
	for i, T := range periods {
		e := spine.NewEntityLocal(l, model.EntityTypeTypeCEM, spine.NewAddressEntityType([]uint{uint(i + 1)}), T)
		l.AddEntity(e)
		f := e.GetOrAddFeature(model.FeatureTypeTypeDeviceDiagnosis, model.RoleTypeServer)
		ents, feats, servers = append(ents, e), append(feats, f), append(servers, f.Address())
	}
	const nSub = 2
	var wr [nSub]*hbtWriter
	// round 7: the FIRST subscriber of every feature is a peer whose connection cannot be written to - a refresh must
	// still reach everybody subscribed after it
	hbtSubscribeTo(l, fmt.Sprintf("hbt%d-dead", id), "devdead", nil, servers...)
	for p := 0; p < nSub; p++ {
		wr[p] = newHbtWriter()
		if p == 0 {
			wr[p].slow = 300 * time.Microsecond
		}
		hbtSubscribeTo(l, fmt.Sprintf("hbt%d-m%d", id, p), fmt.Sprintf("dev%d", p), wr[p], servers...)
	}
	for i, f := range feats {
		if n := len(l.SubscriptionManager().SubscriptionsOnFeature(*f.Address())); n != nSub+1 {
			fail("C16/world", fmt.Sprintf("%d subscriptions on the device-diagnosis feature of entity %d, expected %d", n, i+1, nSub+1))
			return
		}
	}
	for _, f := range feats {
		f := f
		if pan := h.Recover(func() { f.AddFunctionType(model.FunctionTypeDeviceDiagnosisHeartbeatData, true, false) }); pan != nil {
			fail("C16/panic-sequential", fmt.Sprintf("AddFunctionType(heartbeat) panicked: %v", pan))
			return
		}
	}
	t0 := time.Now()
	time.Sleep(dur)
	for _, e := range ents {
		e.HeartbeatManager().StopHeartbeat()
	}
	time.Sleep(20 * time.Millisecond)
	total := 0
	for p := 0; p < nSub; p++ {
		wr[p].mu.Lock()
		notes := append([]hbtNote{}, wr[p].notes...)
		wr[p].mu.Unlock()
		total += len(notes)
		per := map[string][]uint64{}
		for _, n := range notes {
			per[n.src] = append(per[n.src], n.ctr)
			if n.dst != "1/1" {
				fail("C16/refresh-notified-to-wrong-address", fmt.Sprintf("subscriber %d received a heartbeat addressed to %s", p, n.dst))
			}
		}
		for i, f := range feats {
			src := h.AddrS(f.Address())
			got := per[src]
			delete(per, src)
			d, _ := f.DataCopy(model.FunctionTypeDeviceDiagnosisHeartbeatData).(*model.DeviceDiagnosisHeartbeatDataType)
			last := uint64(0)
			if d != nil && d.HeartbeatCounter != nil {
				last = *d.HeartbeatCounter
			}
			ok := uint64(len(got)) == last
			for k, c := range got {
				if c != uint64(k+1) {
					ok = false
				}
			}
			if !ok {
				fail("C16/refresh-not-notified-once", fmt.Sprintf("subscriber %d received from entity %d (%s) the counters %v; the entity's heartbeat counter stands at %d (every refresh 1..%d is to be notified once, labelled with its own entity)", p, i+1, src, got, last, last))
			}
			if want := uint64(dur / (periods[i] + periods[i]/2)); last < want {
				if late := h.Lateness(t0, t0.Add(dur)); late*4 >= periods[i]/2 {
					desc += fmt.Sprintf(" [entity %d refreshed %d times in %v: not judged, reference %v late]", i+1, last, dur, late)
				} else {
					fail("C16/period-exceeds-timeout", fmt.Sprintf("entity %d refreshed %d times in %v", i+1, last, dur))
				}
			}
		}
		for src, got := range per {
			fail("C16/refresh-not-notified-once", fmt.Sprintf("subscriber %d received heartbeats labelled %s, which is no heartbeat feature of the device: counters %v", p, src, got))
		}
	}
	desc = fmt.Sprintf("%s: %d notifications in %v", what, total, dur) + desc
	return
}

// the life of a live heartbeat, as a script of operations and waits
var (
	// the ordinary life, then a heartbeat started again on the removed entity and RemoveEntity once more
	hbtScriptAttached = []string{"add", "run", "restart", "run", "stop", "silence", "start", "run", "remove", "silence", "start", "run", "remove", "silence"}
	// ... and the removed entity added again
	hbtScriptReadd = []string{"addentity", "start", "run", "remove", "silence"}
	// the heartbeat function is added - which starts the heartbeat - on an entity the device has never listed
	hbtScriptDetached = []string{"add", "run", "remove", "silence", "start", "run", "stop", "silence", "addentity", "start", "run", "remove", "remove", "silence"}
)

type hbtEv struct {
	op string
	s  hbtSpan
}

// hbtRealtime runs one live heartbeat with the given configured timeout through the script and judges the trace:
// after every operation that leaves the heartbeat running a refresh at least every announced timeout, after every
// StopHeartbeat / RemoveEntity - whatever the device's list says about the entity - at most one more refresh and
// IsHeartbeatRunning false. attach = the entity is added to the device (and two peers subscribe) before the script.
// Returns the failures (key, detail), the median refresh gap, the announced timeout and a description.
// slow > 0: the first subscriber's connection is slow - every heartbeat notification takes that long to write (the
// refresh, which notifies inside SetData, then lasts that long): the refreshes must still come one PERIOD apart, not a
// period plus the time a refresh takes.
func hbtRealtime(T time.Duration, ticks int, attach bool, script []string, slow time.Duration) (fails [][2]string, median time.Duration, announced time.Duration, desc string, indet []string, stamps [][2]int64) {
	h.JitterStart()
	P := T
	if T > 2*time.Second {
		P = T - 2*time.Second
	}
	slack := 100*time.Millisecond + T/4
	what := fmt.Sprintf("timeout %v", T)
	if !attach {
		what += ", entity not added to the device"
	}
	if slow > 0 {
		what += fmt.Sprintf(", the first subscriber takes %v to write a notification", slow)
	}
	fail := func(key, detail string) {
		fails = append(fails, [2]string{key, what + ": " + detail})
	}
	id := atomic.AddInt64(&hbtWorldSeq, 1)
	w := newHbtWorld(T, attach)
	nSub := 0
	var wr []*hbtWriter
	if attach {
		nSub = 2
		for p := 0; p < nSub; p++ {
			wr = append(wr, newHbtWriter())
			if p == 0 {
				wr[p].slow = slow
			}
			hbtSubscribe(w, fmt.Sprintf("hbt%d-%d", id, p), fmt.Sprintf("dev%d", p), wr[p])
		}
		if n := len(w.l.SubscriptionManager().SubscriptionsOnFeature(*w.f.Address())); n != nSub {
			fail("C16/world", fmt.Sprintf("%d subscriptions on the device-diagnosis feature, expected %d", n, nSub))
			return
		}
	}
	// sampler of the feature's own data
	var smu sync.Mutex
	var samples []hbtSample
	stopSampler := make(chan struct{})
	samplerDone := make(chan struct{})
	go func() {
		defer close(samplerDone)
		var last uint64
		have := false
		for {
			select {
			case <-stopSampler:
				return
			default:
			}
			d, _ := w.f.DataCopy(model.FunctionTypeDeviceDiagnosisHeartbeatData).(*model.DeviceDiagnosisHeartbeatDataType)
			if d != nil && d.HeartbeatCounter != nil && (!have || *d.HeartbeatCounter != last) {
				sm := hbtSample{t: time.Now(), ctr: *d.HeartbeatCounter}
				if d.HeartbeatTimeout != nil {
					sm.timeout, _ = d.HeartbeatTimeout.GetTimeDuration()
				}
				if d.Timestamp != nil {
					sm.tsRaw = string(*d.Timestamp)
				}
				smu.Lock()
				samples = append(samples, sm)
				smu.Unlock()
				last, have = sm.ctr, true
			}
			time.Sleep(time.Millisecond)
		}
	}()
	// a running span must be long enough to judge "a refresh at least every announced timeout"
	run := time.Duration(ticks)*P + P/2
	if min := T + slack + 200*time.Millisecond; run < min {
		run = min
	}
	silence := 2*P + 150*time.Millisecond

	var evs []hbtEv
	for _, op := range script {
		var f func()
		wantRunning := true
		switch op {
		case "run":
			time.Sleep(run)
			continue
		case "silence":
			time.Sleep(silence)
			continue
		case "add":
			f = func() { w.f.AddFunctionType(model.FunctionTypeDeviceDiagnosisHeartbeatData, true, false) }
		case "restart":
			f = func() {
				for i := 0; i < 3; i++ {
					_ = w.hm.StartHeartbeat()
				}
			}
		case "start":
			f = func() { _ = w.hm.StartHeartbeat() }
		case "stop":
			f, wantRunning = func() { w.hm.StopHeartbeat() }, false
		case "remove":
			f, wantRunning = func() { w.l.RemoveEntity(w.e) }, false
		case "addentity":
			f = func() { w.l.AddEntity(w.e) }
			wantRunning = w.hm.IsHeartbeatRunning()
		}
		a := time.Now()
		if pan := h.Recover(f); pan != nil {
			fail("C16/panic-sequential", fmt.Sprintf("%s, called with no other operation in flight, panicked: %v", op, pan))
		}
		evs = append(evs, hbtEv{op, hbtSpan{a, time.Now()}})
		if got := w.hm.IsHeartbeatRunning(); got != wantRunning {
			key := "C16/is-running-wrong"
			if op == "remove" {
				key = "C16/heartbeat-survives-remove-entity"
			}
			fail(key, fmt.Sprintf("IsHeartbeatRunning = %v after operation %d of the script (%s) returned", got, len(evs), op))
		}
	}
	close(stopSampler)
	<-samplerDone
	end := time.Now()

	smu.Lock()
	ss := append([]hbtSample{}, samples...)
	smu.Unlock()
	// the reference is the timeout the data announces (the duration text has a resolution of 100 ms: an entity
	// configured with 250 ms announces - and refreshes every - 200 ms)
	configured := T
	if len(ss) > 0 {
		T = ss[0].timeout
	}
	if T <= 0 {
		fail("C16/announced-timeout-wrong", fmt.Sprintf("the heartbeat data announces the timeout %v", T))
		return
	}
	if T > configured {
		fail("C16/announced-timeout-wrong", fmt.Sprintf("the heartbeat data announces %v, the entity was created with %v", T, configured))
	}
	slack = 100*time.Millisecond + T/4

	// running windows (from the return of an operation that leaves the heartbeat running to the next operation on the
	// heartbeat) and silent windows (from the return of StopHeartbeat / RemoveEntity to the next start)
	type window struct {
		from, to time.Time
		after    string
		n        int // position in the script's operations
	}
	var runs, silences []window
	var firstRemove time.Time
	for i, e := range evs {
		if e.op == "addentity" {
			continue
		}
		to := end
		for _, nx := range evs[i+1:] {
			if nx.op != "addentity" {
				to = nx.s.a
				break
			}
		}
		wdw := window{e.s.b, to, e.op, i + 1}
		if e.op == "stop" || e.op == "remove" {
			silences = append(silences, wdw)
		} else {
			runs = append(runs, wdw)
		}
		if e.op == "remove" && firstRemove.IsZero() {
			firstRemove = e.s.a
		}
	}
	if firstRemove.IsZero() {
		firstRemove = end
	}
	// a real-time verdict counts only if the harness's reference goroutine (own 2 ms ticker) kept time over the same
	// window: its worst lateness there must stay below a quarter of the margin; the bound itself is widened by twice
	// that lateness. Otherwise the verdict is indeterminate (machine under load), not a failure.
	rtLate := func(a, b time.Time) time.Duration {
		return h.Lateness(a.Add(-5*time.Millisecond), b.Add(5*time.Millisecond))
	}
	rtFail := func(a, b time.Time, key, detail string) {
		if late := rtLate(a, b); late*4 >= slack {
			indet = append(indet, fmt.Sprintf("%s: %s [not judged: the reference goroutine ran %v late in that window, margin %v]", what, detail, late, slack))
		} else {
			fail(key, fmt.Sprintf("%s (reference goroutine at most %v late in that window)", detail, late))
		}
	}
	// judge a sequence of refresh instants against the windows
	var gapsAll []time.Duration
	// notifications are written one subscriber after the other inside SetData: behind a subscriber whose connection
	// takes `slow` per write a notification ARRIVES up to `slow` after its refresh began (the gaps between arrivals
	// are not affected). Zero for the feature's own data.
	arrivalLag := time.Duration(0)
	judge := func(who string, times []time.Time, ctrs []uint64, wdws []window, collect bool) {
		for _, wd := range wdws {
			var in []int
			for i, t := range times {
				if t.After(wd.from) && t.Before(wd.to) {
					in = append(in, i)
				}
			}
			if lim := T + slack + arrivalLag + 2*rtLate(wd.from, wd.from.Add(T+slack)); len(in) == 0 || times[in[0]].Sub(wd.from) > lim {
				rtFail(wd.from, wd.from.Add(lim), "C16/period-exceeds-timeout", fmt.Sprintf("%s: no refresh within %v after operation %d (%s) returned", who, lim, wd.n, wd.after))
				continue
			}
			for k := 1; k < len(in); k++ {
				g := times[in[k]].Sub(times[in[k-1]])
				if collect {
					gapsAll = append(gapsAll, g)
				}
				if g > T+slack+2*rtLate(times[in[k-1]], times[in[k]]) {
					rtFail(times[in[k-1]], times[in[k]], "C16/period-exceeds-timeout", fmt.Sprintf("%s: %v between the refreshes %d and %d (timeout %v + slack %v)", who, g, ctrs[in[k-1]], ctrs[in[k]], T, slack))
				}
			}
			if wd.to.Sub(times[in[len(in)-1]]) > T+slack+2*rtLate(times[in[len(in)-1]], wd.to) {
				rtFail(times[in[len(in)-1]], wd.to, "C16/period-exceeds-timeout", fmt.Sprintf("%s: no refresh in the last %v of the running span that began with operation %d (%s)", who, T+slack, wd.n, wd.after))
			}
		}
	}
	final := func(who string, times []time.Time, grace time.Duration) {
		for _, wd := range silences {
			late := 0
			for _, t := range times {
				if t.After(wd.from.Add(grace)) && t.Before(wd.to) {
					late++
				}
			}
			if late > 1 {
				key := "C16/refresh-after-stop"
				if wd.after == "remove" {
					key = "C16/refresh-after-remove-entity"
				}
				fail(key, fmt.Sprintf("%s: %d refreshes after operation %d of the script (%s) had returned", who, late, wd.n, wd.after))
			}
		}
	}
	// the feature's own data: strictly increasing, periodic in every running window, final in every silent one
	var st []time.Time
	var sc []uint64
	for i, sm := range ss {
		st, sc = append(st, sm.t), append(sc, sm.ctr)
		if i > 0 && sm.ctr <= ss[i-1].ctr {
			fail("C16/counter-not-increasing", fmt.Sprintf("the feature's heartbeat counter went from %d to %d", ss[i-1].ctr, sm.ctr))
		}
		if sm.timeout != T {
			fail("C16/announced-timeout-wrong", fmt.Sprintf("counter %d announces the timeout %v, the first refresh announced %v", sm.ctr, sm.timeout, T))
			break
		}
	}
	// "a current timestamp", on the feature's own data (worlds without subscribers have no other witness): the text,
	// read by the harness's own reader, denotes the instant of the refresh (resolution 1 s; the sampler sees a refresh
	// within a millisecond or so - when the machine did not keep time there, the sample is not judged)
	for _, sm := range ss {
		own, ok := hbtParseStamp(sm.tsRaw)
		tol := 1500*time.Millisecond + 2*rtLate(sm.t.Add(-time.Second), sm.t)
		if !ok || own.Sub(sm.t) > tol || sm.t.Sub(own) > tol {
			fail("C16/timestamp-not-current", fmt.Sprintf("the feature's data with counter %d carries the timestamp %q, sampled at %v UTC (local zone of the process: %v)", sm.ctr, sm.tsRaw, sm.t.UTC().Format("2006-01-02T15:04:05.000Z"), time.Local))
			break
		}
	}
	judge("the feature's data", st, sc, runs, true)
	final("the feature's data", st, 2*time.Millisecond)
	gaps := append([]time.Duration{}, gapsAll...)
	// every subscriber: each refresh up to the first RemoveEntity notified exactly once (counters 1, 2, 3, ...),
	// current timestamp, periodic (windows before the first RemoveEntity), final in every silent window
	for p := 0; p < nSub; p++ {
		wr[p].mu.Lock()
		notes := append([]hbtNote{}, wr[p].notes...)
		wr[p].mu.Unlock()
		who := fmt.Sprintf("subscriber %d", p)
		var nt []time.Time
		var nc []uint64
		var before []hbtNote
		notified := map[uint64]bool{}
		for _, n := range notes {
			nt, nc = append(nt, n.t), append(nc, n.ctr)
			notified[n.ctr] = true
			if n.t.Before(firstRemove) {
				before = append(before, n)
			}
		}
		for i, n := range before {
			if i > 0 && n.ctr <= before[i-1].ctr {
				fail("C16/counter-not-increasing", fmt.Sprintf("%s received counter %d after %d", who, n.ctr, before[i-1].ctr))
			} else if n.ctr != uint64(i+1) {
				fail("C16/refresh-not-notified-once", fmt.Sprintf("%s: notification %d carries counter %d (counters received: %s)", who, i+1, n.ctr, hbtCtrs(before)))
				break
			}
		}
		for _, sm := range ss {
			if sm.t.Before(firstRemove) && !notified[sm.ctr] {
				fail("C16/refresh-not-notified-once", fmt.Sprintf("the feature's data carried counter %d, which no notification to %s carried", sm.ctr, who))
				break
			}
		}
		for _, n := range notes {
			if n.timeout != T {
				fail("C16/announced-timeout-wrong", fmt.Sprintf("%s: counter %d announces the timeout %v, the first refresh announced %v", who, n.ctr, n.timeout, T))
				break
			}
			if n.tsErr || n.ts.Sub(n.t) > 1500*time.Millisecond || n.t.Sub(n.ts) > 1500*time.Millisecond {
				fail("C16/timestamp-not-current", fmt.Sprintf("%s: counter %d carries timestamp %v, received at %v", who, n.ctr, n.ts, n.t.UTC()))
				break
			}
			if n.tsOwnOk && len(stamps) < 4 {
				stamps = append(stamps, [2]int64{n.t.UnixMilli(), n.tsOwn.UnixMilli()})
			}
			// ... and by the harness's own reading of the text on the wire, against the harness's clock in UTC
			if !n.tsOwnOk || n.tsOwn.Sub(n.t) > 1500*time.Millisecond || n.t.Sub(n.tsOwn) > 1500*time.Millisecond {
				fail("C16/timestamp-not-current", fmt.Sprintf("%s: counter %d carries the timestamp text %q, received at %v UTC (local zone of the process: %v)", who, n.ctr, n.tsRaw, n.t.UTC().Format("2006-01-02T15:04:05.000Z"), time.Local))
				break
			}
		}
		var early []window
		for _, wd := range runs {
			if !wd.to.After(firstRemove) {
				early = append(early, wd)
			}
		}
		arrivalLag = slow
		judge(who, nt, nc, early, false)
		arrivalLag = 0
		final(who, nt, 0)
	}
	sort.Slice(gaps, func(i, j int) bool { return gaps[i] < gaps[j] })
	if len(gaps) > 0 {
		median = gaps[len(gaps)/2]
	}
	// "with a period not exceeding the announced timeout": the typical gap, not only the worst one (the announced
	// value is the configured one truncated to 0.1 s; the period must follow the announcement)
	// (the median is insensitive to single late refreshes; its tolerance is 10 ms + 1 % + the reference's own median
	// lateness, and it is judged only if the reference's 99th percentile stayed below the tolerance)
	jp50, jp99, _, _ := h.JitterStats()
	if tol := 10*time.Millisecond + T/100 + 2*jp50; len(gaps) >= 3 && median > T+tol {
		detail := fmt.Sprintf("the median of %d gaps between refreshes inside running spans is %v, the data announces the timeout %v (tolerance %v)", len(gaps), median, T, tol)
		if jp99 >= tol {
			indet = append(indet, fmt.Sprintf("%s: %s [not judged: 99th percentile of the reference lateness %v]", what, detail, jp99))
		} else {
			fail("C16/period-exceeds-timeout", detail)
		}
	}
	// a slow subscriber: a loop paced by a timer armed anew after every refresh has gaps of period + refresh time; the
	// excess to look for is the write time itself, far above the scheduling noise
	if slow > 0 && len(gaps) >= 3 && median > T+slow/2 {
		detail := fmt.Sprintf("with a subscriber that takes %v to write, the median of %d gaps between refreshes is %v; the data announces the timeout %v (the period stretches by the time a refresh takes)", slow, len(gaps), median, T)
		if jp99 >= slow/4 {
			indet = append(indet, fmt.Sprintf("%s: %s [not judged: 99th percentile of the reference lateness %v]", what, detail, jp99))
		} else {
			fail("C16/period-exceeds-timeout", detail)
		}
	}
	announced = T
	max := time.Duration(0)
	if len(gaps) > 0 {
		max = gaps[len(gaps)-1]
	}
	if slow > 0 {
		what = fmt.Sprintf(" (first subscriber %v per write)", slow)
	} else {
		what = ""
	}
	desc = fmt.Sprintf("configured %v, announced %v, added to the device %v"+what+": %d refreshes, %d gaps inside running spans, median %v, max %v", configured, T, attach, len(ss), len(gaps), median, max)
	return
}

// hbtHeld: a refresh held in flight (the subscriber's writer blocks inside SetData -> Notify).
//   - StopHeartbeat while the refresh is in flight: after the release exactly that refresh completes, then silence;
//   - StartHeartbeat (a restart) while a refresh of the old stream is in flight: after the release the old stream ends
//     and one stream refreshes - never two. Runs alone (heartbeat goroutines are counted).
func hbtHeld(T time.Duration) (fails [][2]string) {
	fail := func(key, detail string) {
		fails = append(fails, [2]string{key, fmt.Sprintf("timeout %v, refresh held in flight: %s", T, detail)})
	}
	id := atomic.AddInt64(&hbtWorldSeq, 1)
	w := newHbtWorld(T, true)
	wr := newHbtWriter()
	hbtSubscribe(w, fmt.Sprintf("hbt%d-h", id), "devh", wr)
	w.g0 = hbtGoroutines()
	streams := func(want int) int {
		n := 0
		for t0 := time.Now(); time.Since(t0) < 2*time.Second; {
			if n = runtime.NumGoroutine() - w.g0; n == want {
				break
			}
			time.Sleep(100 * time.Microsecond)
		}
		return n
	}
	hold := func() bool {
		atomic.StoreInt32(&wr.armed, 1)
		select {
		case <-wr.held:
			return true
		case <-time.After(T + 2*time.Second):
			atomic.StoreInt32(&wr.armed, 0)
			fail("C16/period-exceeds-timeout", "no refresh arrived at the subscriber to be held")
			return false
		}
	}
	if pan := h.Recover(func() { w.f.AddFunctionType(model.FunctionTypeDeviceDiagnosisHeartbeatData, true, false) }); pan != nil {
		fail("C16/panic-sequential", fmt.Sprintf("AddFunctionType(heartbeat) panicked: %v", pan))
		return
	}
	// (1) a restart while a refresh of the old stream is in flight
	if !hold() {
		return
	}
	_ = w.hm.StartHeartbeat()
	wr.release <- struct{}{}
	if n := streams(1); n != 1 {
		fail("C16/restart-during-refresh-leaves-two-streams", fmt.Sprintf("StartHeartbeat was called while a refresh of the running stream was in flight; after the refresh completed %d heartbeat goroutines run", n))
	}
	c0 := wr.count()
	time.Sleep(6 * T)
	if got := wr.count() - c0; got > 8 {
		fail("C16/restart-during-refresh-leaves-two-streams", fmt.Sprintf("%d refreshes in six periods after the restart (two streams refresh side by side)", got))
	}
	// (2) a stop while a refresh is in flight: that refresh completes, nothing else
	if !hold() {
		return
	}
	w.hm.StopHeartbeat()
	c1 := wr.count() // includes the held notification
	wr.release <- struct{}{}
	time.Sleep(3 * T)
	if got := wr.count() - c1; got > 1 {
		fail("C16/refresh-after-stop", fmt.Sprintf("%d refreshes were notified after StopHeartbeat had returned with one refresh in flight", got+1))
	}
	if n := streams(0); n != 0 {
		fail("C16/stream-survives-stop", fmt.Sprintf("%d heartbeat goroutine(s) run after StopHeartbeat returned and the refresh in flight completed", n))
	}
	if w.hm.IsHeartbeatRunning() {
		fail("C16/is-running-wrong", "IsHeartbeatRunning = true after StopHeartbeat")
	}
	return
}

// hbtStale: "carrying ... a current timestamp" behind a back-pressured subscriber. The write of ONE heartbeat
// notification is held for `hold` (more than a period plus the resolution of the timestamp text, 1 s), then released;
// the following refreshes are inspected. The loop of the stream is sequential: the refresh behind notification k began
// after the write of notification k-1 returned (SetData notifies synchronously). SPEC (key timestamp-not-current),
// all instants on the harness clock, zone-free: the instant the timestamp text of notification k denotes (read by the
// harness's own reader) lies within [return of write k-1 - 1 s, arrival of notification k + 1 s]. A machine that
// stalls only moves both ends: the judgement does not depend on load. (A stream that takes the value of the ticker's
// channel - the instant the tick was DUE, one period after the held refresh began - is stale by hold - period here;
// on an undisturbed heartbeat it cannot be told from the clock.)
func hbtStale(T, hold time.Duration) (fails [][2]string, desc string, ageAfterHold time.Duration, announced time.Duration) {
	what := fmt.Sprintf("timeout %v, the write of one notification held for %v", T, hold)
	fail := func(key, detail string) { fails = append(fails, [2]string{key, what + ": " + detail}) }
	id := atomic.AddInt64(&hbtWorldSeq, 1)
	w := newHbtWorld(T, true)
	wr := newHbtWriter()
	hbtSubscribe(w, fmt.Sprintf("hbt%d-s", id), "devs", wr)
	if pan := h.Recover(func() { w.f.AddFunctionType(model.FunctionTypeDeviceDiagnosisHeartbeatData, true, false) }); pan != nil {
		fail("C16/panic-sequential", fmt.Sprintf("AddFunctionType(heartbeat) panicked: %v", pan))
		return
	}
	defer w.hm.StopHeartbeat()
	// let one ordinary refresh pass, hold the next one
	for t0 := time.Now(); wr.count() < 1 && time.Since(t0) < T+5*time.Second; {
		time.Sleep(time.Millisecond)
	}
	atomic.StoreInt32(&wr.armed, 1)
	select {
	case <-wr.held:
	case <-time.After(T + 5*time.Second):
		atomic.StoreInt32(&wr.armed, 0)
		fail("C16/period-exceeds-timeout", "no refresh arrived at the subscriber to be held")
		return
	}
	heldIdx := wr.count() - 1
	time.Sleep(hold)
	wr.release <- struct{}{}
	// the next three refreshes
	for t0 := time.Now(); wr.count() < heldIdx+4 && time.Since(t0) < 4*T+5*time.Second; {
		time.Sleep(time.Millisecond)
	}
	time.Sleep(5 * time.Millisecond)
	w.hm.StopHeartbeat()
	wr.mu.Lock()
	notes := append([]hbtNote{}, wr.notes...)
	rets := append([]time.Time{}, wr.rets...)
	wr.mu.Unlock()
	if len(notes) < heldIdx+2 {
		fail("C16/period-exceeds-timeout", fmt.Sprintf("no refresh was notified within %v after the held write was released", 4*T+5*time.Second))
		return
	}
	var ages []string
	for k := 1; k < len(notes); k++ {
		n := notes[k]
		if !n.tsOwnOk || rets[k-1].IsZero() {
			if !n.tsOwnOk {
				fail("C16/timestamp-not-current", fmt.Sprintf("counter %d carries the timestamp text %q, which the harness cannot read", n.ctr, n.tsRaw))
			}
			continue
		}
		lo, hi := rets[k-1].Add(-time.Second), n.t.Add(time.Second)
		if k-1 == heldIdx {
			// how far the denoted instant lies before the earliest instant at which this refresh can have begun
			ageAfterHold, announced = rets[k-1].Sub(n.tsOwn), n.timeout
		}
		if k > heldIdx {
			ages = append(ages, fmt.Sprintf("%d:%v", n.ctr, n.t.Sub(n.tsOwn).Round(10*time.Millisecond)))
		}
		if n.tsOwn.Before(lo) || n.tsOwn.After(hi) {
			after := ""
			if k-1 == heldIdx {
				after = fmt.Sprintf(" (the refresh that follows the one held up for %v)", hold)
			}
			fail("C16/timestamp-not-current", fmt.Sprintf("counter %d%s carries the timestamp text %q = %v UTC; the refresh began after the previous notification had been written at %v UTC and was notified at %v UTC: the timestamp is %v older than the earliest instant at which this refresh can have begun (resolution of the text: 1 s)", n.ctr, after, n.tsRaw, n.tsOwn.UTC().Format("15:04:05.000"), rets[k-1].UTC().Format("15:04:05.000"), n.t.UTC().Format("15:04:05.000"), rets[k-1].Sub(n.tsOwn).Round(10*time.Millisecond)))
		}
	}
	desc = fmt.Sprintf("%s: %d notifications, the one held was number %d; age of the timestamp at arrival of the following ones (counter:age) %v", what, len(notes), heldIdx+1, ages)
	return
}

// hbtStreams: ALL the streams of one manager, compared step by step with Spine.HBM (driver ops `m ...`): scripted
// histories in which the goroutine of an earlier start still has a refresh in flight (held inside the first
// subscriber's writer, i.e. inside SetData) while stops and further starts happen. Observation after every step:
// IsHeartbeatRunning, number of heartbeat goroutines, number of refreshes COMPLETED since the heartbeat function was
// added (a refresh has completed when the write to every subscriber has returned - whatever the order of the
// subscribers). SPEC: after a stop has returned at most one refresh completes. The steps between "hold" and "release"
// take microseconds; if the machine stalls there for a sizeable part of a period (a ticker may then fire meanwhile: a
// schedule outside A-inflight), the history is not judged (indet) and run again by the caller.
// Runs alone (heartbeat goroutines are counted).
func hbtStreams(d *h.Driver, T time.Duration, script []string) (fails [][2]string, mism *h.Mismatch, indet string) {
	what := fmt.Sprintf("timeout %v, streams %s", T, strings.Join(script, ","))
	fail := func(key, detail string) { fails = append(fails, [2]string{key, what + ": " + detail}) }
	id := atomic.AddInt64(&hbtWorldSeq, 1)
	w := newHbtWorld(T, true)
	wr := []*hbtWriter{newHbtWriter(), newHbtWriter()}
	for p := range wr {
		hbtSubscribe(w, fmt.Sprintf("hbt%d-s%d", id, p), fmt.Sprintf("devs%d", p), wr[p])
	}
	w.g0 = hbtGoroutines()
	completed := func() int {
		a, b := int(atomic.LoadInt32(&wr[0].done)), int(atomic.LoadInt32(&wr[1].done))
		if b < a {
			return b
		}
		return a
	}
	d.Ask("m reset")
	base, heldAt, held := 0, time.Time{}, false
	cur, next, heldStream := 0, 0, 0 // the model's stream numbers: started last / next to start / refresh held
	var done []string
	var stoppedAt int = -1 // completed refreshes when the last stop returned (-1: running)
	defer func() {
		if held { // never leave the heartbeat goroutine blocked
			wr[0].release <- struct{}{}
		}
		w.hm.StopHeartbeat()
	}()
	for _, op := range script {
		var lines []string
		switch op {
		case "add":
			if pan := h.Recover(func() { w.f.AddFunctionType(model.FunctionTypeDeviceDiagnosisHeartbeatData, true, false) }); pan != nil {
				fail("C16/panic-sequential", fmt.Sprintf("AddFunctionType(heartbeat) panicked: %v", pan))
				return
			}
			base = completed() // the initial data set by SetLocalFeature is notified too
			lines = []string{"m start"}
		case "start":
			_ = w.hm.StartHeartbeat()
			stoppedAt = -1
			lines = []string{"m start"}
		case "stop", "remove":
			if op == "stop" {
				w.hm.StopHeartbeat()
			} else {
				w.l.RemoveEntity(w.e)
			}
			if stoppedAt < 0 {
				stoppedAt = completed()
			}
			lines = []string{"m stop"}
		case "hold": // the next refresh of the running stream is held in flight
			atomic.StoreInt32(&wr[0].armed, 1)
			select {
			case <-wr[0].held:
				held, heldAt = true, time.Now()
			case <-time.After(T + 2*time.Second):
				atomic.StoreInt32(&wr[0].armed, 0)
				fail("C16/period-exceeds-timeout", "no refresh arrived at the subscriber to be held")
				return
			}
			lines = []string{"m tick CUR", "m take CUR"}
		case "release":
			if time.Since(heldAt) > T/3 {
				indet = fmt.Sprintf("%s: %v passed between hold and release (period %v): a ticker may have fired meanwhile, not judged", what, time.Since(heldAt), T)
				return
			}
			wr[0].release <- struct{}{}
			held = false
			lines = []string{"m store HELD", "m exit HELD"}
		case "refresh": // the running stream completes one refresh of its own
			lines = []string{"m tick CUR", "m take CUR", "m store CUR"}
		case "wait": // two periods: whatever tickers still exist fire
			time.Sleep(2*T + 50*time.Millisecond)
			lines = []string{"m obs"}
		}
		done = append(done, op)
		// CUR = the stream started last, HELD = the stream whose refresh is held
		ans := ""
		for _, l := range lines {
			l = strings.ReplaceAll(l, "CUR", strconv.Itoa(cur))
			l = strings.ReplaceAll(l, "HELD", strconv.Itoa(heldStream))
			ans = d.Ask(l)
		}
		switch op {
		case "add", "start", "stop", "remove":
			if op == "add" || op == "start" {
				cur, next = next, next+1
			}
			// a stopped stream without a refresh in flight notices its closed channel and returns at once
			for k := 0; k < next; k++ {
				ans = d.Ask(fmt.Sprintf("m exit %d", k))
			}
		case "hold":
			heldStream = cur
		}
		wantG, _ := strconv.Atoi(hbtField(ans, "goroutines"))
		wantC, _ := strconv.Atoi(hbtField(ans, "stored"))
		// wait (bounded) for what the model predicts, then compare
		var gotG, gotC int
		bound := 2 * time.Second
		if op == "refresh" {
			bound += T
		}
		for t0 := time.Now(); time.Since(t0) < bound; {
			gotG, gotC = runtime.NumGoroutine()-w.g0, completed()-base
			if gotG == wantG && gotC == wantC {
				break
			}
			time.Sleep(100 * time.Microsecond)
		}
		run := 0
		if w.hm.IsHeartbeatRunning() {
			run = 1
		}
		impl := fmt.Sprintf("run=%d goroutines=%d stored=%d", run, gotG, gotC)
		mdl := fmt.Sprintf("run=%s goroutines=%d stored=%d", hbtField(ans, "run"), wantG, wantC)
		if stoppedAt >= 0 && completed()-stoppedAt > 1 {
			fail("C16/refresh-after-stop", fmt.Sprintf("after %s: %d refreshes completed after StopHeartbeat / RemoveEntity had returned (streams of earlier starts included)", strings.Join(done, ","), completed()-stoppedAt))
			return
		}
		if impl != mdl {
			mism = &h.Mismatch{Ops: append([]string{fmt.Sprintf("streams %d", T.Milliseconds())}, done...), Impl: impl, Model: mdl, Note: "all streams of one heartbeat manager vs Spine.HBM (" + hbtField(ans, "prompt") + " = every tick came when nothing was pending)"}
			return
		}
	}
	return
}

var hbtStreamScripts = [][]string{
	// start -> refresh in flight -> stop -> start -> stop -> the refresh completes: exactly that one, then silence
	{"add", "hold", "stop", "start", "stop", "release", "wait"},
	// the same with RemoveEntity as the second stop
	{"add", "hold", "stop", "start", "remove", "release", "wait"},
	// a restart while the old stream's refresh is in flight; it completes while the new stream runs; the new stream
	// refreshes; stop: nothing more
	{"add", "hold", "start", "release", "refresh", "stop", "wait"},
	// two restarts while the first stream's refresh is in flight, then the new stream's refresh is held over a stop
	{"add", "hold", "start", "start", "release", "hold", "stop", "release", "wait"},
	// stop with the refresh in flight, release, start again, refresh, stop
	{"add", "hold", "stop", "release", "wait", "start", "refresh", "stop", "wait"},
}

func hbtCtrs(ns []hbtNote) string {
	var s []string
	for _, n := range ns {
		s = append(s, strconv.FormatUint(n.ctr, 10))
	}
	return strings.Join(s, ",")
}

// ---------- part C: unparked concurrency

func hbtHammer(rng *rand.Rand, goroutines, opsEach int) (panics []string, streamsLeft int, running bool) {
	w := newHbtWorld(10*time.Minute, true)
	w.g0 = hbtGoroutines()
	w.f.AddFunctionType(model.FunctionTypeDeviceDiagnosisHeartbeatData, true, false)
	var plans [][]int
	for g := 0; g < goroutines; g++ {
		var p []int
		for i := 0; i < opsEach; i++ {
			p = append(p, rng.Intn(5))
		}
		plans = append(plans, p)
	}
	var mu sync.Mutex
	var wg sync.WaitGroup
	for g := 0; g < goroutines; g++ {
		wg.Add(1)
		go func(plan []int) {
			defer wg.Done()
			for _, k := range plan {
				if pan := h.Recover(func() {
					switch k {
					case 0, 1:
						_ = w.hm.StartHeartbeat()
					case 2, 3:
						w.hm.StopHeartbeat()
					default:
						_ = w.hm.IsHeartbeatRunning()
					}
				}); pan != nil {
					mu.Lock()
					panics = append(panics, fmt.Sprint(pan))
					mu.Unlock()
				}
			}
		}(plans[g])
	}
	wg.Wait()
	if pan := h.Recover(func() { w.l.RemoveEntity(w.e) }); pan != nil {
		panics = append(panics, fmt.Sprint(pan))
	}
	running = w.hm.IsHeartbeatRunning()
	for t0 := time.Now(); time.Since(t0) < 2*time.Second; {
		if streamsLeft = runtime.NumGoroutine() - w.g0; streamsLeft <= 0 {
			break
		}
		time.Sleep(100 * time.Microsecond)
	}
	return
}

// ---------- the test

func TestHeartbeat(t *testing.T) {
	r := h.NewReport("heartbeat", "(A) histories of StartHeartbeat / StopHeartbeat / IsHeartbeatRunning / RemoveEntity on a real HeartbeatManager, sequentially and as goroutines parked at the two yield points and released in the order of the model's event list (up to three operations in flight), observation = (IsHeartbeatRunning, number of heartbeat goroutines, panic) compared with Spine.HB after every step; (B) live heartbeats with announced timeouts from 100 ms to seconds incl. > 2 s, two real subscribers: notify trace and sampled data judged by the SPEC monitor, median gap compared with Spine.HB.period; (C) unparked concurrent start/stop/IsHeartbeatRunning from 8 goroutines; non-trivial = distinct part-A histories (by op text) that agreed to the end")
	defer r.Write()
	defer hbtZone()() // first: no goroutine of the test exists yet
	defer hbtGuard(r, "C16")()
	defer hbtWatchdog("TestHeartbeat", time.Duration(h.Scale(6, 25))*time.Minute)()
	h.JitterStart()
	h.InstallYield()
	d := h.StartDriver("drv_hb")
	defer d.Close()

	merge := func(res *hbtResult, key string) {
		for _, k := range res.evals {
			r.Eval(k, "")
		}
		if res.mismatch != nil {
			r.Mismatch(res.mismatch.Ops, res.mismatch.Impl, res.mismatch.Model, res.mismatch.Note)
		}
		for _, s := range res.spec {
			r.SpecFail(s.Key, s.Ops, s.Detail)
		}
		if res.agreed {
			r.Traces++
			r.Case(key)
		}
	}

	if ops := h.ReplayOps("heartbeat"); ops != nil {
		if len(ops) > 0 && strings.HasPrefix(ops[0], "realtime ") {
			// realtime <ms> <ticks> <attached|detached> <script,comma,separated>
			f := strings.Fields(ops[0])
			ms, _ := strconv.Atoi(f[1])
			ticks, attach, script := 3, true, hbtScriptAttached
			slow := time.Duration(0)
			if len(f) >= 5 {
				ticks, _ = strconv.Atoi(f[2])
				attach = f[3] == "attached"
				script = strings.Split(f[4], ",")
			}
			if len(f) >= 6 && strings.HasPrefix(f[5], "slow=") {
				sm, _ := strconv.Atoi(strings.TrimPrefix(f[5], "slow="))
				slow = time.Duration(sm) * time.Millisecond
			}
			fails, _, _, desc, ind, _ := hbtRealtime(time.Duration(ms)*time.Millisecond, ticks, attach, script, slow)
			for try := 1; try < 3 && len(fails) == 0 && len(ind) > 0; try++ {
				fails, _, _, desc, ind, _ = hbtRealtime(time.Duration(ms)*time.Millisecond, ticks, attach, script, slow)
			}
			r.Info["indeterminate_under_load"] = ind
			r.Eval("realtime", "")
			for _, f := range fails {
				r.SpecFail(f[0], ops, f[1])
			}
			if len(fails) == 0 {
				r.Traces++
			}
			r.Sample(desc)
			return
		}
		if len(ops) > 0 && strings.HasPrefix(ops[0], "multi ") {
			var ps []time.Duration
			for _, x := range strings.Split(strings.Fields(ops[0])[1], ",") {
				ms, _ := strconv.Atoi(x)
				ps = append(ps, time.Duration(ms)*time.Millisecond)
			}
			fails, desc := hbtMulti(ps, 6*time.Second)
			r.Eval("multi-entity", "")
			for _, f := range fails {
				r.SpecFail(f[0], ops, f[1])
			}
			if len(fails) == 0 {
				r.Traces++
			}
			r.Sample(desc)
			return
		}
		if len(ops) > 0 && strings.HasPrefix(ops[0], "streams ") {
			ms, _ := strconv.Atoi(strings.Fields(ops[0])[1])
			fails, mism, ind := hbtStreams(d, time.Duration(ms)*time.Millisecond, ops[1:])
			for try := 1; try < 3 && ind != ""; try++ {
				fails, mism, ind = hbtStreams(d, time.Duration(ms)*time.Millisecond, ops[1:])
			}
			r.Eval("streams", "")
			for _, f := range fails {
				r.SpecFail(f[0], ops, f[1])
			}
			if mism != nil {
				r.Mismatch(mism.Ops, mism.Impl, mism.Model, mism.Note)
			}
			if len(fails) == 0 && mism == nil {
				r.Traces++
			}
			return
		}
		if len(ops) > 0 && strings.HasPrefix(ops[0], "stale ") {
			// stale <timeout ms> <hold ms>
			f := strings.Fields(ops[0])
			ms, _ := strconv.Atoi(f[1])
			hold, _ := strconv.Atoi(f[2])
			fails, desc, _, _ := hbtStale(time.Duration(ms)*time.Millisecond, time.Duration(hold)*time.Millisecond)
			r.Eval("stale-after-hold", "")
			for _, f := range fails {
				r.SpecFail(f[0], ops, f[1])
			}
			if len(fails) == 0 {
				r.Traces++
			}
			r.Sample(desc)
			return
		}
		if len(ops) > 0 && strings.HasPrefix(ops[0], "held ") {
			ms, _ := strconv.Atoi(strings.Fields(ops[0])[1])
			fails := hbtHeld(time.Duration(ms) * time.Millisecond)
			r.Eval("held", "")
			for _, f := range fails {
				r.SpecFail(f[0], ops, f[1])
			}
			if len(fails) == 0 {
				r.Traces++
			}
			return
		}
		stopSplit, startSplit := hbtProbe(r)
		merge(runHbtHistory(d, stopSplit && startSplit, ops), strings.Join(ops, "; "))
		return
	}

	// ----- probe phase
	stopSplit, startSplit := hbtProbe(r)
	split := stopSplit && startSplit
	if stopSplit != startSplit {
		r.Info["mixed_member"] = "only one of the two operations is atomic: schedules through the yield points are not explored, sequential histories and unparked concurrency only"
	}

	// ----- part A: corpus, then seeded histories
	for _, ops := range hbtCorpus() {
		merge(runHbtHistory(d, split, ops), strings.Join(ops, "; "))
	}
	if split {
		// every schedule of two overlapping operations; in the thorough tier of three
		all := hbtEnumerate(2)
		if h.Tier() == "thorough" {
			// a third of the 26 880 schedules of three operations per run; which third depends on the seed
			for i, ops := range hbtEnumerate(3) {
				if int64(i%3) == h.Seed()%3 {
					all = append(all, ops)
				}
			}
		}
		for _, ops := range all {
			merge(runHbtHistory(d, split, ops), strings.Join(ops, "; "))
		}
		r.Info["enumerated_schedules"] = len(all)
	}
	rng := h.Rng(1600)
	for i, n := 0, h.Scale(250, 2500); i < n; i++ {
		ops := genHbtHistory(rng)
		merge(runHbtHistory(d, split, ops), strings.Join(ops, "; "))
	}

	// ----- a refresh held in flight (alone: heartbeat goroutines are counted)
	for _, ms := range []int{100, 300} {
		op := []string{fmt.Sprintf("held %d", ms)}
		fails := hbtHeld(time.Duration(ms) * time.Millisecond)
		if len(fails) > 0 {
			first := fmt.Sprint(fails)
			if fails = hbtHeld(time.Duration(ms) * time.Millisecond); len(fails) == 0 {
				r.Info["held_first_run"] = first
			}
		}
		r.Eval("held", "")
		for _, f := range fails {
			r.SpecFail(f[0], op, f[1])
		}
		if len(fails) == 0 {
			r.Traces++
		}
	}

	// ----- all streams of one manager vs Spine.HBM (alone: heartbeat goroutines are counted)
	var streamsIndet []string
	for _, ms := range []int{300, h.Scale(200, 500)} {
		for _, script := range hbtStreamScripts {
			T := time.Duration(ms) * time.Millisecond
			fails, mism, ind := hbtStreams(d, T, script)
			for try := 1; try < 3 && (ind != "" || len(fails) > 0 || mism != nil); try++ {
				if ind == "" {
					streamsIndet = append(streamsIndet, fmt.Sprintf("run %d of streams %d %v: %v %v", try, ms, script, fails, mism))
				}
				fails, mism, ind = hbtStreams(d, T, script)
			}
			if ind != "" {
				streamsIndet = append(streamsIndet, ind)
				r.Eval("streams:indeterminate-under-load", "")
				continue
			}
			op := append([]string{fmt.Sprintf("streams %d", ms)}, script...)
			r.Eval("streams", "")
			for _, f := range fails {
				r.SpecFail(f[0], op, f[1])
			}
			if mism != nil {
				r.Mismatch(mism.Ops, mism.Impl, mism.Model, mism.Note)
			}
			if len(fails) == 0 && mism == nil {
				r.Traces++
				r.Case("streams " + strings.Join(script, ","))
			}
		}
	}
	r.Info["streams_first_runs"] = streamsIndet

	// ----- part B: live heartbeats, all timeouts concurrently
	type rt struct {
		ms, ticks int
		attach    bool
		script    []string
		slowMs    int // the first subscriber takes this long to write a heartbeat notification
	}
	full := append(append([]string{}, hbtScriptAttached...), hbtScriptReadd...)
	short := []string{"add", "run", "stop", "silence"}
	slowScript := []string{"add", "run", "restart", "run", "stop", "silence"}
	plan := []rt{{100, 6, true, full, 0}, {250, 4, true, hbtScriptAttached, 0}, {1000, 2, true, hbtScriptAttached, 0}, {2300, 4, true, hbtScriptAttached, 0},
		{150, 8, true, hbtScriptAttached, 0}, {1950, 4, true, short, 0},
		{100, 6, false, hbtScriptDetached, 0}, {300, 4, false, hbtScriptDetached, 0},
		// a subscriber whose connection is slow to write (150 ms per notification; timeouts <= 2 s: period = timeout)
		{400, 6, true, slowScript, 150}, {1000, 4, true, short, 150}}
	if h.Tier() == "thorough" {
		plan = append(plan, rt{350, 6, true, full, 0}, rt{500, 4, true, full, 0}, rt{2000, 2, true, hbtScriptAttached, 0}, rt{2100, 10, true, full, 0},
			rt{4000, 2, true, hbtScriptAttached, 0}, rt{6000, 2, true, hbtScriptAttached, 0}, rt{1000, 2, false, hbtScriptDetached, 0}, rt{2300, 4, false, hbtScriptDetached, 0},
			rt{300, 10, true, slowScript, 200}, rt{2000, 3, true, short, 500}, rt{2300, 6, true, short, 150})
	}
	var wg sync.WaitGroup
	var bmu sync.Mutex
	var descs, flakes, indeterminate []string
	// several entities with heartbeats side by side, two subscribers on each
	multis := [][]time.Duration{{100 * time.Millisecond, 100 * time.Millisecond, 100 * time.Millisecond}, {200 * time.Millisecond, 300 * time.Millisecond}}
	if h.Tier() == "thorough" {
		multis = append(multis, []time.Duration{100 * time.Millisecond, 100 * time.Millisecond}, []time.Duration{100 * time.Millisecond, 200 * time.Millisecond, 300 * time.Millisecond, 700 * time.Millisecond})
	}
	for _, ps := range multis {
		wg.Add(1)
		go func(ps []time.Duration) {
			defer wg.Done()
			dur := time.Duration(h.Scale(6, 20)) * time.Second
			fails, desc := hbtMulti(ps, dur)
			if len(fails) > 0 {
				f2, d2 := hbtMulti(ps, dur)
				bmu.Lock()
				flakes = append(flakes, fmt.Sprintf("first run of %v: %v", ps, fails))
				bmu.Unlock()
				fails, desc = f2, d2
			}
			var ms []string
			for _, p := range ps {
				ms = append(ms, strconv.Itoa(int(p.Milliseconds())))
			}
			bmu.Lock()
			defer bmu.Unlock()
			descs = append(descs, desc)
			r.Eval("multi-entity", "")
			op := []string{"multi " + strings.Join(ms, ",")}
			for _, f := range fails {
				r.SpecFail(f[0], op, f[1])
			}
			if len(fails) == 0 {
				r.Traces++
			}
		}(ps)
	}
	// one notification write held for a period plus more than two seconds, the following refreshes inspected
	stales := [][2]int{{400, 2600}, {1000, 3300}}
	if h.Tier() == "thorough" {
		stales = append(stales, [2]int{200, 2500}, [2]int{2300, 2700}, [2]int{700, 4000})
	}
	for _, sh := range stales {
		wg.Add(1)
		go func(ms, hold int) {
			defer wg.Done()
			fails, desc, age, announced := hbtStale(time.Duration(ms)*time.Millisecond, time.Duration(hold)*time.Millisecond)
			bmu.Lock()
			defer bmu.Unlock()
			descs = append(descs, desc)
			r.Eval("stale-after-hold", "")
			op := []string{fmt.Sprintf("stale %d %d", ms, hold)}
			for _, f := range fails {
				r.SpecFail(f[0], op, f[1])
			}
			// tie to Spine.HBS.reading (member `clock`: the clock is read inside the refresh - the regenerated fact of
			// Props/C16Gen): how far the reading of the refresh after the hold-up lies before its begin, in the model
			// (refresh 1 held for `hold`, period of the announced timeout); the text has a resolution of 1 s
			if len(fails) == 0 && announced > 0 {
				dop := fmt.Sprintf("stale clock %d %d", announced.Milliseconds(), hold)
				want, err := strconv.Atoi(d.Ask(dop))
				if err != nil {
					r.Mismatch(append(op, dop), "-", "bad-op", "driver answer")
				} else if age > time.Duration(want)*time.Millisecond+time.Second {
					r.Mismatch(append(op, dop), fmt.Sprintf("the timestamp of the refresh after the hold-up lies %v before the return of the held write", age), fmt.Sprintf("%d ms", want), "age of the reading of the refresh that follows a held one (Spine.HBS.reading, source clock)")
				}
			}
			if len(fails) == 0 {
				r.Traces++
			}
		}(sh[0], sh[1])
	}
	for _, p := range plan {
		wg.Add(1)
		go func(p rt) {
			defer wg.Done()
			T := time.Duration(p.ms) * time.Millisecond
			// a world with a failure, or with a real-time verdict that could not be judged because the machine did not
			// keep time (jitter witness), is run again in a fresh world, up to three times in all
			slow := time.Duration(p.slowMs) * time.Millisecond
			fails, median, announced, desc, ind, stamps := hbtRealtime(T, p.ticks, p.attach, p.script, slow)
			for try := 1; try < 3 && (len(fails) > 0 || len(ind) > 0); try++ {
				bmu.Lock()
				if len(fails) > 0 {
					flakes = append(flakes, fmt.Sprintf("run %d of timeout %v: %v", try, T, fails))
				}
				bmu.Unlock()
				fails, median, announced, desc, ind, stamps = hbtRealtime(T, p.ticks, p.attach, p.script, slow)
			}
			bmu.Lock()
			defer bmu.Unlock()
			if len(ind) > 0 {
				indeterminate = append(indeterminate, ind...)
				r.Eval("realtime:indeterminate-under-load", "")
			}
			descs = append(descs, desc)
			op := []string{fmt.Sprintf("realtime %d %d %s %s", p.ms, p.ticks, map[bool]string{true: "attached", false: "detached"}[p.attach], strings.Join(p.script, ","))}
			if p.slowMs > 0 {
				op[0] += fmt.Sprintf(" slow=%d", p.slowMs)
			}
			for _, f := range fails {
				r.SpecFail(f[0], op, f[1])
			}
			// tie to Spine.HBS: the instant the timestamp text denotes (read by the harness's own reader) is the one the
			// model derives from the instant of the refresh and the process's zone (resolution of the text: 1 s; the
			// notification was received a moment after the refresh)
			_, zoneS := time.Now().Zone()
			for _, st := range stamps {
				want, _ := strconv.ParseInt(d.Ask(fmt.Sprintf("stamp %d %d", st[0], zoneS)), 10, 64)
				r.Eval("stamp", "")
				if diff := st[1] - want; (diff > 1000 || diff < -1000) && len(fails) == 0 {
					r.Mismatch(append(op, fmt.Sprintf("stamp %d %d", st[0], zoneS)), fmt.Sprintf("timestamp text denotes %d ms", st[1]), fmt.Sprintf("%d ms", want), "instant denoted by the timestamp of a refresh notified at the given instant (local zone offset in s)")
					break
				}
			}
			// tie to Spine.HB.period: the measured period is the model's
			want, _ := strconv.Atoi(d.Ask(fmt.Sprintf("period %d", announced.Milliseconds())))
			if p.slowMs > 0 {
				// Spine.HBP: the gap between two refreshes that take slowMs each, for the pacing of the tree under test
				// (one ticker created before the loop: regenerated fact of Props/C16Gen)
				want, _ = strconv.Atoi(d.Ask(fmt.Sprintf("gap ticker %d %d 1", announced.Milliseconds(), p.slowMs)))
			}
			wantD := time.Duration(want) * time.Millisecond
			r.Eval("realtime", "")
			if median == 0 {
				// no two refreshes without a start or stop between them: nothing to compare (recorded in the description)
				if len(fails) == 0 {
					r.Traces++
				}
			} else if diff := median - wantD; diff > 20*time.Millisecond+wantD/10 || -diff > 20*time.Millisecond+wantD/10 {
				if _, p99, _, _ := h.JitterStats(); p99 >= 20*time.Millisecond {
					indeterminate = append(indeterminate, fmt.Sprintf("%s: median gap %v vs model period %v not compared (reference lateness p99 %v)", desc, median, wantD, p99))
				} else if len(fails) == 0 {
					r.Mismatch(op, fmt.Sprintf("median refresh gap %v", median), fmt.Sprintf("period %v", wantD), "refresh period for the announced timeout")
				}
			} else if len(fails) == 0 {
				r.Traces++
			}
		}(p)
	}
	wg.Wait()
	sort.Strings(descs)
	r.Info["realtime"] = descs
	r.Info["timing_dependent_failures_first_run"] = flakes
	if len(indeterminate) > 8 {
		indeterminate = append(indeterminate[:8], fmt.Sprintf("... and %d more", len(indeterminate)-8))
	}
	r.Info["indeterminate_under_load"] = indeterminate
	jp50, jp99, jmax, jn := h.JitterStats()
	r.Info["jitter_witness"] = fmt.Sprintf("reference goroutine with a 2 ms ticker: %d wake-ups, lateness median %v, 99th percentile %v, max %v", jn, jp50, jp99, jmax)

	// ----- part C: unparked concurrency (outcome depends on the scheduler; any panic or surviving stream counts)
	hr := h.Rng(1601)
	hpanics, hleft := 0, 0
	for i, n := 0, h.Scale(15, 150); i < n; i++ {
		panics, left, running := hbtHammer(hr, 8, 40)
		// (kept longer than the parked witnesses so that those stay the recorded, replayable witnesses of the keys)
		op := []string{"hammer", fmt.Sprintf("round %d", i), "8 goroutines", "40 random StartHeartbeat / StopHeartbeat / IsHeartbeatRunning each", "not parked", "then RemoveEntity", "outcome depends on the scheduler"}
		r.Eval("hammer", "")
		for _, p := range panics {
			hpanics++
			if strings.Contains(p, "close of closed channel") {
				r.SpecFail(hbtKeyDouble, op, "unparked concurrent start/stop: "+p)
			} else {
				r.SpecFail("C16/panic", op, "unparked concurrent start/stop: "+p)
			}
		}
		if left > 0 || running {
			hleft++
			r.SpecFail(hbtKeyTwo, op, fmt.Sprintf("after concurrent starts and stops and a final RemoveEntity %d heartbeat goroutine(s) keep running (IsHeartbeatRunning=%v): a stream was orphaned by overlapping starts", left, running))
		}
	}
	r.Info["hammer"] = map[string]int{"rounds_with_panic": hpanics, "rounds_with_surviving_stream": hleft}

	if split {
		r.Floor("steps through the yield points", r.Dist["step:close"]+r.Dist["step:spawn"], r.Evaluations, 0.10)
	}
	r.Floor("sequential starts and stops", r.Dist["start"]+r.Dist["stop"], r.Evaluations, 0.15)
}
