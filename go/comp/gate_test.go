package comp

// C03, "at the moment it is processed", on the real code for schedules the model Spine.Gate quantifies over: a write
// is split into its two moments - the gate (ProcessCmd: announced writable, binding snapshot) and the data change
// (processWrite) - by a write-approval callback of the application, which parks an admitted write until
// ApproveOrDenyWrite is called. Between the two moments the harness runs registry operations of the same and of another
// connection through the production entry points (binding request / delete calls, partial discovery notification
// "entity removed", RemoveRemoteDeviceConnection). Every event is sent to the compiled model driver drv_gate as well and
// the observations are compared; a monitor that does not consult the model judges each applied write by the statement:
// the binding was in the registry folded from the OBSERVED registry events at the moment of the gate, the function is
// announced writable, and the writer's entity and connection still exist when the data changes.

import (
	"fmt"
	"strconv"
	"strings"
	"sync"
	"testing"
	"time"

	"github.com/enbility/spine-go/api"
	"github.com/enbility/spine-go/model"
	"github.com/enbility/spine-go/spine"
	"github.com/enbility/spine-go/util"

	"verifharness/h"
)

type gateRun struct {
	r    *h.Report
	d    *h.Driver
	base int
	w    *dispWorld
	ops  []string
	mu   sync.Mutex
	park map[uint64]*api.Message // admitted writes waiting for the application's verdict, by msgCounter
	fl   api.FeatureLocalInterface
	ctr  uint64
	// SPEC side (never reads the model): the registry folded from observed events, per write what the gate moment saw
	spec     map[string]bool // "p" -> peer p's [1]/1 holds the binding on local [1]/1
	heldAt   map[int]bool
	wrAt     map[int]bool
	gone     map[int]bool // the writer's entity or connection has disappeared
	valOf    map[int]int
	diverged bool
	st       *gateStats
}

type gateStats struct{ appliedStale, discarded, refusedLateGrant int }

const gateSrv = "1/1"

func (x *gateRun) ask(line, impl string) {
	if x.diverged {
		return
	}
	got := x.d.Ask(line)
	x.r.Eval(strings.Fields(line)[0]+":"+impl, "")
	if got != impl {
		x.r.Mismatch(x.ops, impl, got, "gate op "+line)
		x.diverged = true
	}
}

func (x *gateRun) tell(line string) {
	if !x.diverged {
		x.d.Ask(line)
	}
}

func (x *gateRun) limitDigest() string {
	return x.w.digest()[fmt.Sprintf("%s#%d", h.AddrS(x.fl.Address()), dispFnID[dispFnLimit])]
}

// results written to peer p since the last call: error numbers of the results, anything else is reported
func (x *gateRun) results(p int) (errs []int, other int) {
	for q := 1; q <= dispNPeers; q++ {
		if x.w.peers[q] == nil {
			continue
		}
		for _, m := range x.w.peers[q].w.Take() {
			o := dispParseOut(m)
			if q == p && o.kind == "result" {
				errs = append(errs, o.err)
			} else if o.kind != "readReq" {
				other++
			}
		}
	}
	for _, c := range x.w.closed {
		for range c.w.Take() {
			x.r.SpecFail("C10/datagram-to-removed-connection", x.ops, fmt.Sprintf("a removed connection of peer %d was written to", c.p))
		}
	}
	return
}

func (x *gateRun) call(p int, cmd model.CmdType) (accepted bool) {
	x.ctr++
	pan := x.w.inject(p, model.DatagramType{Header: x.w.nmHeader(p, x.ctr, model.CmdClassifierTypeCall, true), Payload: model.PayloadType{Cmd: []model.CmdType{cmd}}})
	h.Settle(x.base)
	if pan != nil {
		x.r.SpecFail("C05/panic-on-well-formed-datagram", x.ops, fmt.Sprint(pan))
		return false
	}
	errs, _ := x.results(p)
	if len(errs) != 1 {
		x.r.SpecFail("C01/call-not-answered-exactly-once", x.ops, fmt.Sprintf("%d results", len(errs)))
		return false
	}
	return errs[0] == 0
}

func (x *gateRun) exec(op string) {
	f := strings.Fields(op)
	x.ops = append(x.ops, op)
	w := x.w
	p := 0
	if len(f) > 1 {
		p, _ = strconv.Atoi(f[1])
	}
	key := strconv.Itoa(p)
	cliE, cliF := []uint{1}, uint(1)
	entry := fmt.Sprintf("%s %d 1/1", gateSrv, p)
	switch f[0] {
	case "world":
		dispInit()
		x.w = dispNewWorld(dispWorldFixed)
		x.park, x.spec, x.heldAt, x.wrAt, x.gone, x.valOf = map[uint64]*api.Message{}, map[string]bool{}, map[int]bool{}, map[int]bool{}, map[int]bool{}, map[int]int{}
		x.ctr = 100
		x.fl = x.w.l.FeatureByAddress(h.FA(dispLocalDev, []uint{1}, 1))
		// the approval timer is not the subject here (C12): far beyond any scheduling delay of a loaded machine; every
		// parked write is approved, denied or cleaned up before the schedule ends
		x.fl.SetWriteApprovalTimeout(10 * time.Minute)
		_ = x.fl.AddWriteApprovalCallback(func(msg *api.Message) {
			x.mu.Lock()
			defer x.mu.Unlock()
			if msg.RequestHeader != nil && msg.RequestHeader.MsgCounter != nil {
				x.park[uint64(*msg.RequestHeader.MsgCounter)] = msg
			}
		})
		for q := 1; q <= 2; q++ {
			if a := x.w.connect(q, q); a != "-" {
				x.r.SpecFail("C01/connect-anomaly", x.ops, a)
			}
		}
		h.Settle(x.base)
		x.results(0)
		if x.d.Ask("reset") != "reset" {
			x.r.Mismatch(x.ops, "reset", "bad-op", "gate driver")
			x.diverged = true
		}
	case "grant": // binding request of peer p's [1]/1 for the local server feature [1]/1
		if x.gone[p] {
			return
		}
		free := len(x.spec) == 0
		ok := x.call(p, model.CmdType{NodeManagementBindingRequestCall: spine.NewNodeManagementBindingRequestCallType(
			h.FA(w.peers[p].dev, cliE, cliF), h.FA(dispLocalDev, []uint{1}, 1), model.FeatureTypeTypeLoadControl)})
		x.r.Eval("grant:"+strconv.FormatBool(ok), "")
		if ok != free { // C09's subject; here only the premise of the schedule
			x.r.SpecFail("C09/grant-verdict", x.ops, fmt.Sprintf("granted=%v with registry %v", ok, x.spec))
		}
		if ok {
			x.spec[key] = true
			x.tell("grant " + entry)
		}
	case "delete":
		if x.gone[p] {
			return
		}
		ok := x.call(p, model.CmdType{NodeManagementBindingDeleteCall: spine.NewNodeManagementBindingDeleteCallType(
			h.FA(w.peers[p].dev, cliE, cliF), h.FA(dispLocalDev, []uint{1}, 1))})
		x.r.Eval("delete:"+strconv.FormatBool(ok), "")
		if ok != x.spec[key] {
			x.r.SpecFail("C09/delete-verdict", x.ops, fmt.Sprintf("deleted=%v with registry %v", ok, x.spec))
		}
		if ok {
			delete(x.spec, key)
			x.tell("delete " + entry)
		}
	case "entgone": // partial discovery notification of peer p: entity [1] removed
		if x.gone[p] {
			return
		}
		st := model.NetworkManagementStateChangeTypeRemoved
		x.ctr++
		pan := w.inject(p, model.DatagramType{Header: w.nmHeader(p, x.ctr, model.CmdClassifierTypeNotify, false),
			Payload: model.PayloadType{Cmd: []model.CmdType{w.discovery(p, [][]uint{{1}}, true, &st, false)}}})
		h.Settle(x.base)
		if pan != nil {
			x.r.SpecFail("C05/panic-on-well-formed-datagram", x.ops, fmt.Sprint(pan))
		}
		x.results(0)
		x.r.Eval("entgone", "")
		delete(x.spec, key)
		x.gone[p] = true
		x.tell(fmt.Sprintf("entgone %d 1", p))
		x.tell(fmt.Sprintf("clean %d 1", p))
	case "drop":
		if !w.connected(p) {
			return
		}
		ents := w.ents()
		w.drop(p)
		h.Settle(x.base)
		x.results(0)
		x.r.Eval("drop", "")
		delete(x.spec, key)
		x.gone[p] = true
		for _, e := range ents {
			x.tell(fmt.Sprintf("entgone %d %s", p, h.EntU(e)))
			x.tell(fmt.Sprintf("clean %d %s", p, h.EntU(e)))
		}
	case "gate", "gatero": // write i of peer p = i: full limit write (announced writable) / description write (read-only)
		if x.gone[p] {
			return
		}
		i := p
		// the written value is unique in the schedule (and differs from the initial data), so "the data changed" and
		// "it holds what this write carried" identify the write that was applied
		fn, v, wr := dispFnID[dispFnLimit], int(x.ctr)+1, true
		if f[0] == "gatero" {
			fn, v, wr = dispFnID[string(model.FunctionTypeLoadControlLimitDescriptionListData)], 0, false
		}
		if _, used := x.heldAt[i]; used {
			return
		}
		x.ctr++
		ctr := x.ctr
		cls := model.CmdClassifierTypeWrite
		ack := true
		hd := model.HeaderType{AddressSource: h.FA(w.peers[p].dev, cliE, cliF), AddressDestination: h.FA(dispLocalDev, []uint{1}, 1),
			MsgCounter: util.Ptr(model.MsgCounterType(ctr)), CmdClassifier: &cls, AckRequest: &ack}
		before := x.limitDigest()
		pan := w.inject(p, model.DatagramType{Header: hd, Payload: model.PayloadType{Cmd: []model.CmdType{dispCmd(fn, v, false)}}})
		h.Settle(x.base)
		if pan != nil {
			x.r.SpecFail("C05/panic-on-well-formed-datagram", x.ops, fmt.Sprint(pan))
			return
		}
		errs, other := x.results(p)
		isParked := func() bool {
			x.mu.Lock()
			defer x.mu.Unlock()
			_, ok := x.park[ctr]
			return ok
		}
		parked := isParked()
		// the callback runs in a goroutine of its own: on a loaded machine it may not have run when the settle rule
		// gives up. Neither outcome observed yet is "not finished", never a verdict: wait (bounded) for one of the two.
		for t0 := time.Now(); !parked && len(errs) == 0 && time.Since(t0) < 20*time.Second; {
			time.Sleep(2 * time.Millisecond)
			e2, o2 := x.results(p)
			errs, other = append(errs, e2...), other+o2
			parked = isParked()
		}
		x.heldAt[i], x.wrAt[i], x.valOf[i] = x.spec[key], wr, v
		impl := "?"
		switch {
		case parked && len(errs) == 0:
			impl = "ok"
		case !parked && len(errs) == 1 && errs[0] != 0:
			impl = "denied"
		default:
			impl = fmt.Sprintf("anomaly parked=%v results=%v", parked, errs)
		}
		if other != 0 || x.limitDigest() != before {
			x.r.SpecFail("C03/gate-moment-not-silent", x.ops, fmt.Sprintf("at the gate moment: %d other messages, data changed=%v", other, x.limitDigest() != before))
		}
		// SPEC: admitted iff announced writable and bound at this moment; a refused write gets exactly one error
		if want := wr && x.spec[key]; (impl == "ok") != want || strings.HasPrefix(impl, "anomaly") {
			k := "C03/write-admitted-without-binding-or-permission"
			if want {
				k = "C03/authorised-write-refused"
			}
			x.r.SpecFail(k, x.ops, fmt.Sprintf("writable=%v bound=%v observed %s", wr, x.spec[key], impl))
		}
		x.ask(fmt.Sprintf("gate %d %s %d", i, entry, h.B2i(wr)), impl)
		if impl == "denied" {
			x.ask(fmt.Sprintf("apply %d", i), "error")
		}
		x.valOf[i] = v
		x.mu.Lock()
		if parked {
			x.park[uint64(1000+i)] = x.park[ctr]
		}
		x.mu.Unlock()
	case "apply": // the application approves write i
		i := p
		x.mu.Lock()
		msg := x.park[uint64(1000+i)]
		delete(x.park, uint64(1000+i))
		x.mu.Unlock()
		if msg == nil {
			return
		}
		before := x.limitDigest()
		x.fl.ApproveOrDenyWrite(msg, model.ErrorType{ErrorNumber: 0})
		h.Settle(x.base)
		errs, other := x.results(i)
		after := x.limitDigest()
		impl := "?"
		switch {
		case after != before && dispLimitsApplied(after, x.valOf[i], false) && len(errs) == 1 && errs[0] == 0:
			impl = "applied"
		case after == before && len(errs) == 0 && other == 0:
			impl = "gone"
		default:
			impl = fmt.Sprintf("anomaly changed=%v results=%v other=%d", after != before, errs, other)
		}
		// SPEC, without the model: the data changes only for a write that was writable and bound at its gate moment
		// and whose writer is still there; such a write is applied
		want := x.heldAt[i] && x.wrAt[i] && !x.gone[i]
		if after != before && !(x.heldAt[i] && x.wrAt[i]) {
			x.r.SpecFail("C03/applied-without-binding-at-the-gate-moment", x.ops, impl)
		} else if after != before && x.gone[i] {
			x.r.SpecFail("C03/pending-write-applied-after-writer-disappeared", x.ops, impl)
		} else if (impl == "applied") != want {
			x.r.SpecFail("C03/admitted-write-not-applied-on-approval", x.ops, impl)
		}
		x.r.Case(fmt.Sprintf("apply:%s:bound-now=%v", impl, x.spec[strconv.Itoa(i)]))
		if impl == "applied" && !x.spec[strconv.Itoa(i)] {
			x.st.appliedStale++
		}
		if impl == "gone" {
			x.st.discarded++
		}
		x.ask(fmt.Sprintf("apply %d", i), impl)
	default:
		panic("unknown gate op " + op)
	}
}

func (x *gateRun) finish() {
	// stop the approval timers of writes still parked
	x.mu.Lock()
	msgs := x.park
	x.park = map[uint64]*api.Message{}
	x.mu.Unlock()
	for _, m := range msgs {
		x.fl.ApproveOrDenyWrite(m, model.ErrorType{ErrorNumber: 1})
	}
	for p := 1; p <= dispNPeers; p++ {
		if x.w != nil && x.w.connected(p) {
			x.w.drop(p)
		}
	}
	h.Settle(x.base)
	if !x.diverged {
		x.r.Traces++
	}
}

func gateRunOps(r *h.Report, d *h.Driver, base int, st *gateStats, ops []string) *gateRun {
	x := &gateRun{r: r, d: d, base: base, st: st}
	for _, op := range ops {
		x.exec(op)
	}
	x.finish()
	return x
}

func TestGate(t *testing.T) {
	dispInit()
	r := h.NewReport("gate", "schedules of one or two remote writes split into gate moment and data change (write approval callback parks an admitted "+
		"write) interleaved with binding request / delete calls of both peers, partial 'entity removed' notifications and RemoveRemoteDeviceConnection; "+
		"every event compared with Spine.Gate (drv_gate) and judged by the statement on the observed registry events: data changes only for a write "+
		"that was writable and bound at its gate moment and whose writer still exists")
	defer r.Write()
	d := h.StartDriver("drv_gate")
	defer d.Close()
	ev := &dispEvents{}
	_ = spine.Events.Subscribe(ev)
	defer func() { _ = spine.Events.Unsubscribe(ev) }()
	base := 1 << 30
	gateRunOps(h.Quiet(), d, base, &gateStats{}, []string{"world", "grant 1", "gate 1", "delete 1", "apply 1"})
	base = h.Baseline()

	if ops := h.ReplayOps("gate"); ops != nil {
		gateRunOps(r, d, base, &gateStats{}, ops)
		return
	}
	// corpus: the schedules of the non-vacuity example of Spine/Props/C03.lean and their neighbours
	corpus := [][]string{
		{"world", "grant 1", "gate 1", "delete 1", "apply 1"},                        // processed while bound: applied
		{"world", "grant 1", "delete 1", "gate 1", "grant 1", "apply 1"},             // a later grant does not authorise
		{"world", "grant 1", "gate 1", "entgone 1", "apply 1"},                       // the writer's entity disappears
		{"world", "grant 1", "gate 1", "drop 1", "apply 1"},                          // the writer's connection disappears
		{"world", "grant 1", "gate 1", "gate 2", "delete 1", "apply 2", "apply 1"},   // two writers, only the bound one
		{"world", "grant 1", "gate 1", "entgone 2", "drop 2", "apply 1"},             // another peer's disappearance is irrelevant
		{"world", "grant 1", "gatero 1", "apply 1"},                                  // bound, function read-only
		{"world", "grant 1", "gate 1", "delete 1", "grant 2", "gate 2", "apply 1", "apply 2"}, // both applied, each bound at its own moment
	}
	st := &gateStats{}
	for _, ops := range corpus {
		gateRunOps(r, d, base, st, ops)
	}
	// seeded schedules
	rng := h.Rng(77)
	n := h.Scale(1000, 12000)
	alphabet := []string{"grant 1", "grant 2", "delete 1", "delete 2", "gate 1", "gate 2", "apply 1", "apply 2", "entgone 1", "entgone 2", "drop 1", "drop 2", "gatero 1"}
	weights := []int{5, 3, 5, 2, 6, 4, 5, 4, 1, 1, 1, 1, 1}
	tot := 0
	for _, wt := range weights {
		tot += wt
	}
	for s := 0; s < n && r.MismatchN == 0; s++ {
		ops := []string{"world"}
		if rng.Intn(4) != 0 {
			ops = append(ops, "grant 1")
		}
		for k, l := 0, 3+rng.Intn(6); k < l; k++ {
			v := rng.Intn(tot)
			for j, wt := range weights {
				if v < wt {
					ops = append(ops, alphabet[j])
					break
				}
				v -= wt
			}
		}
		ops = append(ops, "apply 1", "apply 2")
		gateRunOps(r, d, base, st, ops)
	}
	if r.MismatchN == 0 && len(r.SpecFailKeys()) == 0 {
		r.Floor("schedules in which a write is applied after its binding was deleted (gate before delete)", st.appliedStale, n, 0.005)
		r.Floor("schedules in which a pending write is discarded (writer gone)", st.discarded, n, 0.005)
	}
}
