package comp

// C13 — correspondence of Spine.Snd (Lean) with spine.Sender, plus the SPEC
// monitor of the property evaluated on the implementation's own trace.

import (
	"encoding/json"
	"fmt"
	"reflect"
	"sort"
	"strconv"
	"strings"
	"sync"
	"sync/atomic"
	"testing"
	"time"

	"github.com/enbility/spine-go/api"
	"github.com/enbility/spine-go/model"
	"github.com/enbility/spine-go/spine"
	"github.com/enbility/spine-go/util"
	"verifharness/h"
)

// sndW records like h.W and lets a test look at the stack from inside the write, i.e. while the send is in flight.
type sndW struct {
	h.W
	pre  func(m []byte) // called before the bytes are recorded: the counter is drawn, the datagram not yet on the connection
	hook func(m []byte) // called after the bytes are recorded: the datagram is on the connection, the send has not returned
}

func (w *sndW) WriteShipMessageWithPayload(m []byte) {
	if w.pre != nil {
		w.pre(m)
	}
	w.W.WriteShipMessageWithPayload(m)
	if w.hook != nil {
		w.hook(m)
	}
}

// sndCounterOf reads the message counter of a written datagram (0: none).
func sndCounterOf(m []byte) uint64 {
	var dg model.Datagram
	if json.Unmarshal(m, &dg) != nil || dg.Datagram.Header.MsgCounter == nil {
		return 0
	}
	return uint64(*dg.Datagram.Header.MsgCounter)
}

// sndRespSerialised is set once a response processed from inside a request's write did not return before the
// request did (a tree in which the response path waits for the request mutex): from then on the harness does not
// wait inside the write and the step is the sequence "request; response".
var sndRespSerialised bool

// requestInFlight runs call (a Request of some kind) and, while its datagram is on the connection and the call has
// not returned, processes a response referencing ref (0: the request's own counter) on another goroutine — what
// the connection's reader goroutine does when the peer answers at once. It returns the reference used (0: nothing
// was written, so nothing was answered) and whether the response was processed inside the write.
func (sw *sndWorld) requestInFlight(ref uint64, call func()) (used uint64, inside bool) {
	doneCh := make(chan struct{})
	fired := false
	sw.w.hook = func(m []byte) {
		c := sndCounterOf(m)
		if c == 0 {
			return
		}
		used = ref
		if ref == 0 {
			used = c
		}
		fired = true
		go func() {
			sw.s.ProcessResponseForMsgCounterReference(util.Ptr(model.MsgCounterType(used)))
			close(doneCh)
		}()
		if sndRespSerialised {
			return
		}
		select {
		case <-doneCh:
			inside = true
		case <-time.After(20 * time.Second):
			sndRespSerialised = true
		}
	}
	call()
	sw.w.hook = nil
	if fired && !inside {
		select {
		case <-doneCh:
		case <-time.After(20 * time.Second):
		}
	}
	return used, inside
}

// probeInsertAfterWrite runs the witness of the family flag on the tree under test: a request answered while it is
// being written, then the identical request. As written (insertion after the write) the second one is withheld.
func probeInsertAfterWrite() (on bool, witness []string, detail string) {
	sw := newSndWorld()
	dest := h.FA("rem", []uint{1}, 1)
	cmd := []model.CmdType{sndCmd(1)}
	var c1, c2 *model.MsgCounterType
	sw.requestInFlight(0, func() { c1, _ = sw.s.Request(model.CmdClassifierTypeRead, sw.local, dest, false, cmd) })
	w1 := sw.wire()
	c2, _ = sw.s.Request(model.CmdClassifierTypeRead, sw.local, dest, false, cmd)
	w2 := sw.wire()
	on = len(w1) == 1 && len(w2) == 0
	detail = fmt.Sprintf("request written as %v (returned %v), answered in flight; identical request wrote %v", w1, ctrS(c1), w2)
	if c2 != nil {
		detail += fmt.Sprintf(" and returned %d", *c2)
	}
	return on, []string{"reqf 0 1 0", "req 0 1"}, detail
}

func ctrS(c *model.MsgCounterType) string {
	if c == nil {
		return "nil"
	}
	return fmt.Sprint(*c)
}

type sndWorld struct {
	w      *sndW
	s      api.SenderInterface
	local  *model.FeatureAddressType
	hashes map[string]int // canonical request identity (the key line below) -> id of the SPEC monitor
	devs   map[string]int // device address -> abstract id (1..)
	atoms  []model.CmdType // distinct commands met so far (compared with reflect.DeepEqual); id = index + 1
}

func newSndWorld() *sndWorld {
	w := &sndW{}
	return &sndWorld{w: w, s: spine.NewSender(w), local: h.FA("loc", []uint{1}, 1), hashes: map[string]int{}, devs: map[string]int{}}
}

// hashID is the harness's own notion of "identical request (same destination, same command)": the destination's
// device, entity path and feature, and the command LIST — every command, in order, and how many. It is computed from
// the fields (not through model.FeatureAddressType.String, not through one json.Marshal of the list, which is what
// the code under test hashes), commands are compared with reflect.DeepEqual. Returns the id the SPEC monitor uses and
// the structured key for the model ("<device> <feature> <entity,…|-> <cmd,…|->", Spine.SndK.Key; 0 = absent).
func (sw *sndWorld) hashID(dest *model.FeatureAddressType, cmd []model.CmdType) (int, string) {
	dev, feat := 0, 0
	if dest.Device != nil {
		d := string(*dest.Device)
		if _, ok := sw.devs[d]; !ok {
			sw.devs[d] = len(sw.devs) + 1
		}
		dev = sw.devs[d]
	}
	if dest.Feature != nil {
		feat = int(*dest.Feature) + 1
	}
	ent := "-"
	if len(dest.Entity) > 0 {
		var es []string
		for _, e := range dest.Entity {
			es = append(es, strconv.Itoa(int(e)))
		}
		ent = strings.Join(es, ",")
	}
	cs := "-"
	if len(cmd) > 0 {
		var ids []string
		for _, c := range cmd {
			id := 0
			for i := range sw.atoms {
				if reflect.DeepEqual(sw.atoms[i], c) {
					id = i + 1
					break
				}
			}
			if id == 0 {
				sw.atoms = append(sw.atoms, c)
				id = len(sw.atoms)
			}
			ids = append(ids, strconv.Itoa(id))
		}
		cs = strings.Join(ids, ",")
	}
	k := fmt.Sprintf("%d %d %s %s", dev, feat, ent, cs)
	if _, ok := sw.hashes[k]; !ok {
		sw.hashes[k] = len(sw.hashes) + 1
	}
	return sw.hashes[k], k
}

// sndKDests: destinations that differ from each other in exactly one component or in several (device, entity path,
// feature; absent device / feature, empty and longer entity paths, numbers whose decimal renderings share digits).
// The first three are the destinations of the ops `req` / `reqf` / `nest` / `nestreq`.
func sndKDests() []*model.FeatureAddressType {
	fa := func(dev string, ent []uint, feat int) *model.FeatureAddressType {
		a := &model.FeatureAddressType{Entity: []model.AddressEntityType{}}
		if dev != "" {
			a.Device = util.Ptr(model.AddressDeviceType(dev))
		}
		for _, e := range ent {
			a.Entity = append(a.Entity, model.AddressEntityType(e))
		}
		if feat >= 0 {
			a.Feature = util.Ptr(model.AddressFeatureType(feat))
		}
		return a
	}
	return []*model.FeatureAddressType{
		h.FA("rem", []uint{1}, 1), h.FA("rem", []uint{1}, 2), h.FA("rem", []uint{2}, 1),
		fa("rem2", []uint{1}, 1), fa("", []uint{1}, 1), fa("rem", []uint{1}, -1), fa("rem", nil, 1),
		fa("rem", []uint{1, 1}, 1), fa("rem", []uint{1, 2}, 1), fa("rem", []uint{2, 1}, 1), fa("rem", []uint{11}, 1),
		fa("rem", []uint{1}, 11), fa("rem", []uint{1, 1}, -1), fa("rem", []uint{1}, 0), fa("rem", []uint{0}, 1),
	}
}

// sndCmdList parses "1.2.3" (commands sndCmd(1), sndCmd(2), sndCmd(3)) or "-" (an empty command list).
func sndCmdList(s string) []model.CmdType {
	out := []model.CmdType{}
	if s == "-" {
		return out
	}
	for _, x := range strings.Split(s, ".") {
		c, _ := strconv.Atoi(x)
		out = append(out, sndCmd(c))
	}
	return out
}

var sndClassifiers = []model.CmdClassifierType{model.CmdClassifierTypeRead, model.CmdClassifierTypeCall, model.CmdClassifierTypeWrite}

// wire returns the counters of the datagrams written since the last call.
func (sw *sndWorld) wire() []uint64 {
	var out []uint64
	for _, m := range sw.w.Take() {
		var d model.Datagram
		if err := json.Unmarshal(m, &d); err != nil || d.Datagram.Header.MsgCounter == nil {
			out = append(out, 0)
			continue
		}
		out = append(out, uint64(*d.Datagram.Header.MsgCounter))
	}
	return out
}

func sndCmd(c int) model.CmdType {
	switch c % 4 {
	case 0:
		return model.CmdType{LoadControlLimitListData: &model.LoadControlLimitListDataType{}}
	case 1:
		return model.CmdType{MeasurementListData: &model.MeasurementListDataType{}}
	case 2:
		return model.CmdType{DeviceDiagnosisHeartbeatData: &model.DeviceDiagnosisHeartbeatDataType{HeartbeatCounter: util.Ptr(uint64(c))}}
	}
	return model.CmdType{SetpointListData: &model.SetpointListDataType{LoadControlLimitListDataFiller(c)}}
}

// LoadControlLimitListDataFiller only exists to vary the command text.
func LoadControlLimitListDataFiller(c int) []model.SetpointDataType {
	return []model.SetpointDataType{{SetpointId: util.Ptr(model.SetpointIdType(c))}}
}

// specSnd is the SPEC state of C13, independent of the model: the requests
// that were written and have not been answered since.
type specSnd struct {
	unanswered map[int]uint64 // hash -> counter of the written, unanswered request
	wire       []uint64
	seen       map[uint64]bool
	notifies   []uint64 // counters of notifications, in order
	promoted   bool     // some lookup hit happened (LRU promotion possible)
	overtaken  map[uint64]bool // requests answered while they were being written (before Request returned)
	okWithheld int             // withholdings the SPEC accepts (identical request unanswered, its counter returned)
}

func newSpecSnd() *specSnd {
	return &specSnd{unanswered: map[int]uint64{}, seen: map[uint64]bool{}, overtaken: map[uint64]bool{}}
}

// answer: a response referencing ref was processed.
func (sp *specSnd) answer(ref uint64) bool {
	hit := false
	for hid, c := range sp.unanswered {
		if c == ref {
			delete(sp.unanswered, hid)
			hit = true
		}
	}
	return hit
}

func (sp *specSnd) onWire(r *h.Report, ops []string, cs []uint64) {
	for _, c := range cs {
		if sp.seen[c] {
			r.SpecFail("counter-reused", ops, fmt.Sprintf("counter %d written twice", c))
		}
		if n := len(sp.wire); n > 0 && c <= sp.wire[n-1] {
			r.SpecFail("counter-not-increasing", ops, fmt.Sprintf("counter %d after %d in sequential use", c, sp.wire[n-1]))
		}
		sp.seen[c] = true
		sp.wire = append(sp.wire, c)
	}
}

func runSenderHistory(r *h.Report, d *h.Driver, ops []string, corpus bool) {
	sw := newSndWorld()
	sp := newSpecSnd()
	d.Ask("reset")
	d.Mark()
	var done []string
	withheld, hits := 0, 0
	diverged := false
	kdests := sndKDests()
	dests := kdests[:3]
	reqHdr := func(ctr uint64) *model.HeaderType {
		return &model.HeaderType{AddressSource: dests[0], AddressDestination: sw.local, MsgCounter: util.Ptr(model.MsgCounterType(ctr))}
	}
	for _, op := range ops {
		f := strings.Fields(op)
		var impl, line, kind string
		var impl2, line2 string // second model op of a compound step
		nontrivial := ""
		switch f[0] {
		case "req", "reqf", "reqm", "reqmf", "sub", "unsub", "bind", "unbind":
			di, _ := strconv.Atoi(f[1])
			ci, _ := strconv.Atoi(f[2])
			dest := dests[di%len(dests)]
			var ctr *model.MsgCounterType
			var err error
			var hid int
			var key string
			var flownRef uint64
			flownInside := false
			multi := ""
			switch f[0] {
			case "reqm", "reqmf":
				// reqm <dest> <c1.c2.…|-> <classifier>: a request whose payload carries 0, 1 or several commands, to one of
				// the destinations of sndKDests, with a classifier chosen independently of the commands (the classifier is
				// not part of the identity: "same destination, same command"); reqmf … <ref>: answered while in flight
				dest = kdests[di%len(kdests)]
				cmd := sndCmdList(f[2])
				hid, key = sw.hashID(dest, cmd)
				cl, _ := strconv.Atoi(f[3])
				cls := sndClassifiers[cl%len(sndClassifiers)]
				if f[0] == "reqm" {
					ctr, err = sw.s.Request(cls, sw.local, dest, cl%2 == 1, cmd)
				} else {
					rf, _ := strconv.Atoi(f[4])
					flownRef, flownInside = sw.requestInFlight(uint64(rf), func() { ctr, err = sw.s.Request(cls, sw.local, dest, cl%2 == 1, cmd) })
				}
				multi = fmt.Sprintf("reqm:%dcmd", len(cmd))
			case "req":
				cmd := []model.CmdType{sndCmd(ci)}
				hid, key = sw.hashID(dest, cmd)
				cls := []model.CmdClassifierType{model.CmdClassifierTypeRead, model.CmdClassifierTypeCall}[ci%2]
				ctr, err = sw.s.Request(cls, sw.local, dest, ci%3 == 0, cmd)
			case "reqf":
				// reqf <dest> <cmd> <ref>: the peer's response referencing <ref> (0: this request's own counter) is processed
				// by another goroutine while the request is being written, i.e. before Request has returned
				rf, _ := strconv.Atoi(f[3])
				cmd := []model.CmdType{sndCmd(ci)}
				hid, key = sw.hashID(dest, cmd)
				cls := []model.CmdClassifierType{model.CmdClassifierTypeRead, model.CmdClassifierTypeCall}[ci%2]
				flownRef, flownInside = sw.requestInFlight(uint64(rf), func() { ctr, err = sw.s.Request(cls, sw.local, dest, ci%3 == 0, cmd) })
			case "sub":
				ft := []model.FeatureTypeType{model.FeatureTypeTypeLoadControl, model.FeatureTypeTypeMeasurement}[ci%2]
				cmd := []model.CmdType{{NodeManagementSubscriptionRequestCall: spine.NewNodeManagementSubscriptionRequestCallType(sw.local, dest, ft)}}
				hid, key = sw.hashID(spine.NodeManagementAddress(dest.Device), cmd)
				ctr, err = sw.s.Subscribe(sw.local, dest, ft)
			case "unsub":
				cmd := []model.CmdType{{NodeManagementSubscriptionDeleteCall: spine.NewNodeManagementSubscriptionDeleteCallType(sw.local, dest)}}
				hid, key = sw.hashID(spine.NodeManagementAddress(dest.Device), cmd)
				ctr, err = sw.s.Unsubscribe(sw.local, dest)
			case "bind":
				ft := []model.FeatureTypeType{model.FeatureTypeTypeLoadControl, model.FeatureTypeTypeMeasurement}[ci%2]
				cmd := []model.CmdType{{NodeManagementBindingRequestCall: spine.NewNodeManagementBindingRequestCallType(sw.local, dest, ft)}}
				hid, key = sw.hashID(spine.NodeManagementAddress(dest.Device), cmd)
				ctr, err = sw.s.Bind(sw.local, dest, ft)
			case "unbind":
				cmd := []model.CmdType{{NodeManagementBindingDeleteCall: spine.NewNodeManagementBindingDeleteCallType(sw.local, dest)}}
				hid, key = sw.hashID(spine.NodeManagementAddress(dest.Device), cmd)
				ctr, err = sw.s.Unbind(sw.local, dest)
			}
			line = "reqk " + key
			if f[0] == "reqf" || f[0] == "reqmf" {
				if flownRef == 0 || flownInside {
					line = fmt.Sprintf("reqkf %s %s", key, f[len(f)-1])
				} else {
					// the response path waited for the request to finish: request, then response
					line2, impl2 = fmt.Sprintf("resp %d", flownRef), "ok"
				}
			}
			wire := sw.wire()
			done = append(done, op)
			if err != nil || ctr == nil {
				impl = fmt.Sprintf("error %v", err)
			} else {
				impl = fmt.Sprintf("%d %d", *ctr, len(wire))
			}
			// SPEC
			sp.onWire(r, done, wire)
			if ctr != nil {
				prev, pending := sp.unanswered[hid]
				if len(wire) == 0 && pending && uint64(*ctr) == prev {
					sp.okWithheld++
				}
				switch {
				case len(wire) == 0 && !pending && sp.overtaken[uint64(*ctr)]:
					r.SpecFail("answer-overtakes-insert", done, fmt.Sprintf("request hash %d withheld (returned %d) although request %d was answered — the response was processed while the request was being written, before it was remembered", hid, *ctr, *ctr))
				case len(wire) == 0 && !pending:
					r.SpecFail("withheld-without-identical-unanswered", done, fmt.Sprintf("request hash %d withheld (returned %d) although no identical request is unanswered", hid, *ctr))
				case len(wire) == 0 && pending && uint64(*ctr) != prev:
					r.SpecFail("withheld-wrong-counter", done, fmt.Sprintf("withheld request returned %d, the unanswered identical request has %d", *ctr, prev))
				case len(wire) == 1 && wire[0] != uint64(*ctr):
					r.SpecFail("returned-counter-not-on-wire", done, fmt.Sprintf("returned %d, wrote %d", *ctr, wire[0]))
				case len(wire) > 1:
					r.SpecFail("request-written-twice", done, fmt.Sprintf("%d datagrams for one request", len(wire)))
				}
				if len(wire) == 1 {
					sp.unanswered[hid] = wire[0]
					kind = "req:sent"
				} else {
					kind = "req:withheld"
					withheld++
				}
				if multi != "" {
					r.Eval(multi+":"+strings.TrimPrefix(kind, "req:"), "")
				}
				if flownRef != 0 {
					// the response arrived after the datagram was on the connection
					if flownInside && len(wire) == 1 && flownRef == wire[0] {
						sp.overtaken[flownRef] = true
					}
					if sp.answer(flownRef) {
						hits++
					}
					if flownInside {
						kind += ":answered-in-flight"
					}
				}
			}
			// SPEC: "the memory of unanswered requests stays bounded" - any fixed bound satisfies the
			// statement; the monitor uses 64 (the code's own bound, 21, is the model's business)
			if n := spine.VerifReqCacheLen(sw.s); n > 64 {
				r.SpecFail("request-memory-unbounded", done, fmt.Sprintf("%d unanswered requests remembered", n))
			}
		case "resp":
			ref, _ := strconv.Atoi(f[1])
			line = op
			sw.s.ProcessResponseForMsgCounterReference(util.Ptr(model.MsgCounterType(ref)))
			impl = "ok"
			done = append(done, op)
			hit := sp.answer(uint64(ref))
			kind = "resp:miss"
			if hit {
				kind = "resp:hit"
				hits++
			}
		case "other":
			k, _ := strconv.Atoi(f[1])
			line = "other"
			var err error
			switch k % 4 {
			case 0:
				err = sw.s.ResultSuccess(reqHdr(uint64(k)), sw.local)
			case 1:
				err = sw.s.ResultError(reqHdr(uint64(k)), sw.local, model.NewErrorTypeFromString("x"))
			case 2:
				err = sw.s.Reply(reqHdr(uint64(k)), sw.local, sndCmd(k))
			case 3:
				_, err = sw.s.Write(sw.local, dests[k%3], sndCmd(k))
			}
			wire := sw.wire()
			done = append(done, op)
			sp.onWire(r, done, wire)
			if err != nil || len(wire) != 1 {
				impl = fmt.Sprintf("error %v wire=%v", err, wire)
			} else {
				impl = fmt.Sprint(wire[0])
			}
			kind = "other"
		case "notify":
			line = "notify"
			ctr, err := sw.s.Notify(sw.local, dests[0], sndCmd(len(done)))
			wire := sw.wire()
			done = append(done, op)
			sp.onWire(r, done, wire)
			if err != nil || ctr == nil || len(wire) != 1 || wire[0] != uint64(*ctr) {
				impl = fmt.Sprintf("error %v wire=%v", err, wire)
			} else {
				impl = fmt.Sprint(wire[0])
				sp.notifies = append(sp.notifies, wire[0])
			}
			kind = "notify"
		case "notifyq":
			// a notification that the peer answers at once: the lookup by counter happens on another goroutine while
			// Notify is still inside the connection's write ("Notify stores the datagram before sending")
			line = "notify"
			inflight := "none"
			sw.w.hook = func(m []byte) {
				var dg model.Datagram
				if json.Unmarshal(m, &dg) != nil || dg.Datagram.Header.MsgCounter == nil {
					return
				}
				c := *dg.Datagram.Header.MsgCounter
				res := make(chan bool, 1)
				go func() {
					got, err := sw.s.DatagramForMsgCounter(c)
					res <- err == nil && got.Header.MsgCounter != nil && *got.Header.MsgCounter == c
				}()
				select {
				case ok := <-res:
					inflight = strconv.Itoa(h.B2i(ok))
				case <-time.After(3 * time.Second):
					inflight = "blocked"
				}
			}
			ctr, err := sw.s.Notify(sw.local, dests[0], sndCmd(len(done)))
			sw.w.hook = nil
			wire := sw.wire()
			done = append(done, op)
			sp.onWire(r, done, wire)
			if err != nil || ctr == nil || len(wire) != 1 || wire[0] != uint64(*ctr) {
				impl = fmt.Sprintf("error %v wire=%v", err, wire)
			} else {
				impl = fmt.Sprint(wire[0])
				sp.notifies = append(sp.notifies, wire[0])
				line2, impl2 = fmt.Sprintf("get %d", wire[0]), inflight
				if inflight == "0" {
					r.SpecFail("notification-not-retrievable-while-in-flight", done, fmt.Sprintf("notification %d is on the connection and DatagramForMsgCounter(%d) does not find it", wire[0], wire[0]))
				}
			}
			kind = "notify:answered-in-flight"
		case "nest":
			// nest <k1> <k2> [<k3>]: OVERLAPPING sends, scheduled through the connection's writer: send k1 has drawn its
			// counter and is about to hand its bytes to the connection when send k2 runs to completion on another
			// goroutine (and k3 inside k2 likewise). Event order of Spine.Ctr: take 1, take 2, emit 2, emit 1.
			// kinds: o<k> other send, n notify, r<d>.<c> request (never inside a request: it would wait for the mutex)
			kinds := f[1:]
			seen := make([]uint64, len(kinds)) // counter in the bytes each call handed over (0: wrote nothing)
			ret := make([]string, len(kinds))
			lns := make([]string, len(kinds))
			hids := make([]int, len(kinds))
			var order []int // emission order
			var run func(i int)
			run = func(i int) {
				fired := false
				sw.w.pre = func(m []byte) {
					sw.w.pre = nil
					fired = true
					seen[i] = sndCounterOf(m)
					if i+1 < len(kinds) {
						fin := make(chan struct{})
						go func() { defer close(fin); run(i + 1) }()
						select {
						case <-fin:
						case <-time.After(20 * time.Second):
							ret[i+1] = "blocked"
						}
					}
					order = append(order, i)
				}
				k := kinds[i]
				switch k[0] {
				case 'o':
					n, _ := strconv.Atoi(k[1:])
					lns[i] = "other"
					var err error
					switch n % 4 {
					case 0:
						err = sw.s.ResultSuccess(reqHdr(uint64(n)), sw.local)
					case 1:
						err = sw.s.ResultError(reqHdr(uint64(n)), sw.local, model.NewErrorTypeFromString("x"))
					case 2:
						err = sw.s.Reply(reqHdr(uint64(n)), sw.local, sndCmd(n))
					case 3:
						_, err = sw.s.Write(sw.local, dests[n%3], sndCmd(n))
					}
					if ret[i] == "" {
						ret[i] = fmt.Sprint(seen[i])
						if err != nil {
							ret[i] = "error " + err.Error()
						}
					}
				case 'n':
					lns[i] = "notify"
					c, err := sw.s.Notify(sw.local, dests[0], sndCmd(len(done)+i))
					if ret[i] == "" {
						ret[i] = ctrS(c)
						if err != nil || c == nil || uint64(*c) != seen[i] {
							ret[i] = fmt.Sprintf("error %v returned %s wrote %d", err, ctrS(c), seen[i])
						}
					}
				case 'r':
					dc := strings.Split(k[1:], ".")
					di, _ := strconv.Atoi(dc[0])
					ci, _ := strconv.Atoi(dc[1])
					cmd := []model.CmdType{sndCmd(ci)}
					dest := dests[di%len(dests)]
					var key string
					hids[i], key = sw.hashID(dest, cmd)
					lns[i] = "reqk " + key
					c, err := sw.s.Request(model.CmdClassifierTypeRead, sw.local, dest, false, cmd)
					if ret[i] == "" {
						ret[i] = fmt.Sprintf("%s %d", ctrS(c), h.B2i(seen[i] != 0))
						if err != nil || (seen[i] != 0 && (c == nil || uint64(*c) != seen[i])) {
							ret[i] = fmt.Sprintf("error %v returned %s wrote %d", err, ctrS(c), seen[i])
						}
					}
				}
				if !fired {
					// the call wrote nothing (a withheld request): the remaining sends run after it
					sw.w.pre = nil
					if i+1 < len(kinds) {
						run(i + 1)
					}
				}
			}
			run(0)
			wire := sw.wire()
			done = append(done, op)
			// SPEC: uniqueness on the connection, and the bytes reach the connection in the order the writer was entered last-in first-out
			var want []uint64
			for _, i := range order {
				want = append(want, seen[i])
			}
			if fmt.Sprint(wire) != fmt.Sprint(want) {
				r.SpecFail("datagram-carries-another-counter-than-drawn", done, fmt.Sprintf("overlapping sends handed over %v, the connection recorded %v", want, wire))
			}
			for _, c := range wire {
				if sp.seen[c] {
					r.SpecFail("counter-reused", done, fmt.Sprintf("counter %d written twice (overlapping sends)", c))
				}
				sp.seen[c] = true
			}
			// counters are drawn in call order: whoever entered first has the smaller counter, and the step as a whole continues the sequence
			prevC := uint64(0)
			if n := len(sp.wire); n > 0 {
				prevC = sp.wire[n-1]
			}
			for i := range kinds {
				if seen[i] == 0 {
					continue
				}
				if seen[i] <= prevC {
					r.SpecFail("counter-not-increasing", done, fmt.Sprintf("send %d of the overlapping group drew %d after %d", i, seen[i], prevC))
				}
				prevC = seen[i]
			}
			if prevC != 0 {
				sp.wire = append(sp.wire, prevC)
			}
			for i, k := range kinds {
				switch {
				case k[0] == 'n' && seen[i] != 0:
					sp.notifies = append(sp.notifies, seen[i])
				case k[0] == 'r':
					prev, pending := sp.unanswered[hids[i]]
					if seen[i] == 0 && (!pending || !strings.HasPrefix(ret[i], fmt.Sprint(prev)+" ")) && !strings.HasPrefix(ret[i], "error") && ret[i] != "blocked" {
						key := "withheld-without-identical-unanswered"
						if c, _ := strconv.Atoi(strings.Fields(ret[i])[0]); sp.overtaken[uint64(c)] {
							key = "answer-overtakes-insert"
						}
						r.SpecFail(key, done, fmt.Sprintf("request hash %d withheld (%s) inside an overlapping group; unanswered: %v %v", hids[i], ret[i], prev, pending))
					}
					if seen[i] != 0 {
						sp.unanswered[hids[i]] = seen[i]
					}
				}
			}
			kind = "nest"
			// model: the calls in the order they were entered
			line, impl = lns[0], ret[0]
			for i := 1; i < len(kinds); i++ {
				if diverged {
					break
				}
				r.Eval("nest:inner", "")
				if wantA := d.Ask(line); impl != wantA {
					r.Mismatch(done, impl, wantA, "sender op "+op+" as "+line)
					diverged = true
				}
				line, impl = lns[i], ret[i]
			}
		case "nestreq":
			// nestreq <d> <c>: a request is being written (counter drawn, mutex held) when ANOTHER goroutine issues the
			// identical request. Spine.SndEv: the second reqBegin is not enabled while the first holds the mutex; once the
			// first has finished, the second is withheld with the first's counter (nothing was answered in between).
			di, _ := strconv.Atoi(f[1])
			ci, _ := strconv.Atoi(f[2])
			dest := dests[di%len(dests)]
			cmd := []model.CmdType{sndCmd(ci)}
			hid, key := sw.hashID(dest, cmd)
			var c2 *model.MsgCounterType
			fin := make(chan struct{})
			early := false
			sw.w.pre = func(m []byte) {
				sw.w.pre = nil
				go func() {
					defer close(fin)
					c2, _ = sw.s.Request(model.CmdClassifierTypeRead, sw.local, dest, false, cmd)
				}()
				select {
				case <-fin:
					early = true // entered and left Request while the first caller was inside: not one critical section
				case <-time.After(300 * time.Millisecond):
				}
			}
			c1, err := sw.s.Request(model.CmdClassifierTypeRead, sw.local, dest, false, cmd)
			fired := sw.w.pre == nil
			sw.w.pre = nil
			if fired {
				select {
				case <-fin:
				case <-time.After(20 * time.Second):
				}
			} else {
				// the outer request was withheld (nothing written): the second one runs afterwards
				c2, _ = sw.s.Request(model.CmdClassifierTypeRead, sw.local, dest, false, cmd)
			}
			wire := sw.wire()
			done = append(done, op)
			for _, c := range wire {
				if sp.seen[c] {
					r.SpecFail("counter-reused", done, fmt.Sprintf("counter %d written twice", c))
				}
				sp.seen[c] = true
				sp.wire = append(sp.wire, c)
			}
			if len(wire) >= 1 {
				sp.unanswered[hid] = wire[len(wire)-1]
			}
			if early && len(wire) == 1 && c2 != nil {
				// a withheld twin although the first request was not yet on the connection when it was looked up cannot
				// happen; what can is a second datagram (len(wire) == 2), reported through the model below
				_ = c2
			}
			kind = "nestreq"
			r.Eval("nest:inner", "")
			line, impl = "reqk "+key, fmt.Sprintf("%s %d", ctrS(c1), h.B2i(fired))
			if err != nil {
				impl = "error " + err.Error()
			}
			if wantA := d.Ask(line); impl != wantA && !diverged {
				r.Mismatch(done, impl, wantA, "sender op "+op+" (first caller) as "+line)
				diverged = true
			}
			// second caller: in the model it runs after the first has finished
			line, impl = "reqk "+key, fmt.Sprintf("%s %d", ctrS(c2), h.B2i(len(wire) == 2 || (!fired && len(wire) == 1)))
			if early {
				impl += " (entered Request while the first caller held the request mutex)"
			}
		case "get":
			c, _ := strconv.Atoi(f[1])
			line = op
			dg, err := sw.s.DatagramForMsgCounter(model.MsgCounterType(c))
			done = append(done, op)
			found := err == nil && dg.Header.MsgCounter != nil && uint64(*dg.Header.MsgCounter) == uint64(c)
			impl = strconv.Itoa(h.B2i(found))
			// SPEC: any of the last 100 notifications is retrievable
			last := sp.notifies
			if len(last) > 100 {
				last = last[len(last)-100:]
			}
			among := false
			for _, n := range last {
				if n == uint64(c) {
					among = true
				}
			}
			if among && !found {
				key := "last100:lost-without-promotion"
				if sp.promoted {
					key = "lru-promotion"
				}
				r.SpecFail(key, done, fmt.Sprintf("notification %d is among the last 100 (%d sent) and cannot be retrieved", c, len(sp.notifies)))
			}
			if found {
				sp.promoted = true
				kind = "get:hit"
			} else {
				kind = "get:miss"
			}
		default:
			panic("bad op " + op)
		}
		r.Eval(kind, nontrivial)
		if diverged {
			continue // the model is off for the rest of this history; the SPEC monitor goes on
		}
		want := d.Ask(line)
		if impl != want {
			r.Mismatch(done, impl, want, "sender op "+op+" as "+line)
			diverged = true
			continue
		}
		if line2 != "" {
			if want := d.Ask(line2); impl2 != want {
				r.Mismatch(done, impl2, want, "sender op "+op+" as "+line2)
				diverged = true
			}
		}
	}
	if diverged {
		return
	}
	r.Traces++
	if withheld > 0 && hits > 0 {
		r.Case(strings.Join(ops, "; "))
	}
}

func genSenderHistory(rng interface{ Intn(int) int }, n int) []string {
	var ops []string
	issued := 0
	nd, nc := 1+rng.Intn(3), 2+rng.Intn(24)
	if rng.Intn(4) == 0 {
		nc = 30 + rng.Intn(20) // more than 20 distinct unanswered requests
	}
	// requests with 0..3 commands over a small pool: few destinations that differ in one component, few commands, so
	// that equal prefixes with different tails, different lengths and permutations meet while unanswered
	nkd := len(sndKDests())
	pool := make([]int, 1+rng.Intn(4))
	for i := range pool {
		pool[i] = rng.Intn(nkd)
	}
	na := 2 + rng.Intn(2)
	mlist := func() string {
		l := []int{1, 1, 2, 2, 2, 3, 3, 0}[rng.Intn(8)]
		if l == 0 {
			return "-"
		}
		var cs []string
		for j := 0; j < l; j++ {
			cs = append(cs, strconv.Itoa(rng.Intn(na)))
		}
		return strings.Join(cs, ".")
	}
	for i := 0; i < n; i++ {
		switch x := rng.Intn(100); {
		case x < 45 && rng.Intn(3) == 0:
			if rng.Intn(8) == 0 {
				ops = append(ops, fmt.Sprintf("reqmf %d %s %d 0", pool[rng.Intn(len(pool))], mlist(), rng.Intn(3)))
			} else {
				ops = append(ops, fmt.Sprintf("reqm %d %s %d", pool[rng.Intn(len(pool))], mlist(), rng.Intn(3)))
			}
			issued++
		case x < 45:
			if y := rng.Intn(8); y == 0 {
				// answered while in flight: mostly by the response to this very request, sometimes to another counter
				ref := 0
				if rng.Intn(4) == 0 {
					ref = 1 + rng.Intn(issued+2)
				}
				ops = append(ops, fmt.Sprintf("reqf %d %d %d", rng.Intn(nd), rng.Intn(nc), ref))
			} else {
				ops = append(ops, fmt.Sprintf("req %d %d", rng.Intn(nd), rng.Intn(nc)))
			}
			issued++
		case x < 53:
			k := []string{"sub", "unsub", "bind", "unbind"}[rng.Intn(4)]
			ops = append(ops, fmt.Sprintf("%s %d %d", k, rng.Intn(nd), rng.Intn(2)))
			issued++
		case x < 70:
			lo := 0
			if issued > 12 && rng.Intn(3) > 0 {
				lo = issued - 12
			}
			ops = append(ops, fmt.Sprintf("resp %d", 1+lo+rng.Intn(issued-lo+2)))
		case x < 76:
			ops = append(ops, fmt.Sprintf("other %d", rng.Intn(8)))
			issued++
		case x < 80:
			// two or three overlapping sends; a request only outermost or inside a non-request
			pick := func(allowReq bool) string {
				switch y := rng.Intn(5); {
				case y < 2:
					return fmt.Sprintf("o%d", rng.Intn(8))
				case y < 4 || !allowReq:
					return "n"
				}
				return fmt.Sprintf("r%d.%d", rng.Intn(nd), rng.Intn(nc))
			}
			k1 := pick(true)
			k2 := pick(k1[0] != 'r')
			op := "nest " + k1 + " " + k2
			issued += 2
			if rng.Intn(2) == 0 {
				op += " " + pick(k1[0] != 'r' && k2[0] != 'r')
				issued++
			}
			ops = append(ops, op)
		case x < 92:
			if rng.Intn(3) == 0 {
				ops = append(ops, "notifyq")
			} else {
				ops = append(ops, "notify")
			}
			issued++
		default:
			ops = append(ops, fmt.Sprintf("get %d", 1+rng.Intn(issued+2)))
		}
	}
	return ops
}

func sndDestS(a *model.FeatureAddressType) string {
	d, f := "<nil>", "<nil>"
	if a.Device != nil {
		d = string(*a.Device)
	}
	if a.Feature != nil {
		f = strconv.Itoa(int(*a.Feature))
	}
	return fmt.Sprintf("device %s entity %v feature %s", d, a.Entity, f)
}

// sndLists: all command lists of length 0..maxLen over the commands 1..atoms ("-" = empty).
func sndLists(atoms, maxLen int) []string {
	out := []string{"-"}
	level := []string{""}
	for l := 1; l <= maxLen; l++ {
		var next []string
		for _, p := range level {
			for a := 1; a <= atoms; a++ {
				x := strconv.Itoa(a)
				if p != "" {
					x = p + "." + x
				}
				next = append(next, x)
			}
		}
		out = append(out, next...)
		level = next
	}
	return out
}

// sndPairGrid: for every ordered pair (A, B) of requests — destination of sndKDests x command list — a fresh Sender
// gets A and then, A unanswered, B. SPEC: B is withheld only if B is identical to A (same destination, same command
// list), and then with A's counter. No model involved (the monitor alone judges; identity = index equality, the
// destinations and lists of the grid are pairwise different by construction).
func sndPairGrid(r *h.Report, lists []string) {
	kd := sndKDests()
	cmds := make([][]model.CmdType, len(lists))
	for i, l := range lists {
		cmds[i] = sndCmdList(l)
	}
	local := h.FA("loc", []uint{1}, 1)
	reported := 0
	for da := range kd {
		for la := range lists {
			for db := range kd {
				for lb := range lists {
					w := &h.W{}
					s := spine.NewSender(w)
					c1, err1 := s.Request(model.CmdClassifierTypeRead, local, kd[da], false, cmds[la])
					n1 := len(w.Take())
					c2, err2 := s.Request(model.CmdClassifierTypeRead, local, kd[db], false, cmds[lb])
					n2 := len(w.Take())
					r.Eval("pairgrid", "")
					same := da == db && la == lb
					ops := []string{fmt.Sprintf("reqm %d %s 0", da, lists[la]), fmt.Sprintf("reqm %d %s 0", db, lists[lb])}
					switch {
					case err1 != nil || err2 != nil || c1 == nil || c2 == nil || n1 != 1:
						if reported < 3 {
							r.Mismatch(ops, fmt.Sprintf("first request: %s wrote %d err %v; second: %s wrote %d err %v", ctrS(c1), n1, err1, ctrS(c2), n2, err2), "1 1 ; (2 1 | 1 0)", "pair grid: a request failed")
							reported++
						}
					case n2 == 0 && !same:
						r.SpecFail("withheld-without-identical-unanswered", ops, fmt.Sprintf("request B (destination %s, %d commands %s) withheld with counter %d although the only unanswered request is A (destination %s, %d commands %s): a different request", sndDestS(kd[db]), len(cmds[lb]), lists[lb], *c2, sndDestS(kd[da]), len(cmds[la]), lists[la]))
					case n2 == 0 && *c2 != *c1:
						r.SpecFail("withheld-wrong-counter", ops, fmt.Sprintf("withheld request returned %d, the unanswered identical request has %d", *c2, *c1))
					case n2 == 1 && same && reported < 3:
						r.Mismatch(ops, "identical unanswered request written again", "withheld", "pair grid")
						reported++
					case n2 > 1:
						r.SpecFail("request-written-twice", ops, fmt.Sprintf("%d datagrams for one request", n2))
					}
				}
			}
		}
	}
}

func lruWitness() []string {
	var ops []string
	for i := 0; i < 100; i++ {
		ops = append(ops, "notify")
	}
	return append(ops, "get 1", "notify", "get 2")
}

func TestSender(t *testing.T) {
	r := h.NewReport("sender", "random histories of Request/Subscribe/Bind/Unsubscribe/Unbind, responses, other sends, Notify and DatagramForMsgCounter on one real Sender, compared op by op with Spine.Snd; non-trivial = a history with at least one withheld duplicate and at least one response that answered an open request (distinct by op text)")
	defer r.Write()
	d := h.StartDriver("drv_snd")
	defer d.Close()
	// probe phase: which member of the family is the tree under test?
	on, wit, det := probeInsertAfterWrite()
	r.SetFlag("insertAfterWrite", on, wit, det)
	if !on {
		d.Ask("cfg insertfirst 1")
	}
	// the member the translator reads off the source (Spine.Generated.Sender.requestRemembersBeforeWrite) must be the
	// member the probe finds on the running code
	if static := d.Ask("member"); (static == "after-window") != on {
		r.Mismatch(wit, fmt.Sprintf("probed: an answered-in-flight request stays remembered = %v (%s)", on, det), "source says: "+static, "family member: static fact vs dynamic probe")
	}
	if ops := h.ReplayOps("sender"); ops != nil {
		runSenderHistory(r, d, ops, true)
		return
	}
	// corpus first: the LRU witness (known finding) and the eviction edge
	runSenderHistory(r, d, lruWitness(), true)
	// a request answered while it is being written, then the identical request (known finding answer-overtakes-insert
	// on the member as written), then a response to ANOTHER open request inside the window, which is harmless
	runSenderHistory(r, d, []string{"reqf 0 1 0", "req 0 1", "resp 1", "req 0 1", "req 0 2", "reqf 0 3 3", "req 0 2", "req 0 3", "reqf 0 1 0", "reqf 0 1 0"}, true)
	// overlapping sends of every kind, scheduled through the writer: counters in call order, bytes last-in first-out
	runSenderHistory(r, d, []string{"nest o0 o1", "nest o2 o3 n", "nest n n n", "nest r0.1 o3", "nest r0.1 n", "nest n r0.2 o1", "nest o3 r0.2 n", "req 0 1", "req 0 2", "nest r0.3 n o2", "get 3", "get 6", "resp 9", "nest r0.1 o0", "nestreq 1 5", "req 1 5", "resp 19", "nestreq 1 5", "nestreq 1 5"}, true)
	// 30 requests each answered in flight: the stale entries stay within the bound, the oldest are evicted
	var stale []string
	for i := 0; i < 30; i++ {
		stale = append(stale, fmt.Sprintf("reqf %d %d 0", i%3, 700+i))
	}
	for i := 0; i < 30; i++ {
		stale = append(stale, fmt.Sprintf("req %d %d", i%3, 700+i))
	}
	runSenderHistory(r, d, stale, true)
	var ev []string
	for i := 0; i < 25; i++ {
		ev = append(ev, fmt.Sprintf("req 0 %d", 100+i))
	}
	ev = append(ev, "req 0 100", "req 0 101", "req 0 124", "resp 24", "req 0 123")
	runSenderHistory(r, d, ev, true)
	var many []string
	for i := 0; i < 150; i++ {
		many = append(many, fmt.Sprintf("req %d %d", i%3, 200+i))
	}
	runSenderHistory(r, d, many, true)
	// answered requests must not count against the bound: 120 requests each answered, then 150 distinct open ones
	var answered []string
	for i := 0; i < 120; i++ {
		answered = append(answered, fmt.Sprintf("req %d %d", i%3, 400+i), fmt.Sprintf("resp %d", i+1))
	}
	for i := 0; i < 150; i++ {
		answered = append(answered, fmt.Sprintf("req %d %d", i%3, 600+i))
	}
	runSenderHistory(r, d, answered, true)
	// the last 100 notifications stay retrievable when other sends (writes, replies, results) are interleaved:
	// 60 notifications, 8 other sends, 40 notifications, then every notification counter is looked up, oldest first
	var mixed []string
	for i := 0; i < 60; i++ {
		mixed = append(mixed, "notify")
	}
	for i := 0; i < 8; i++ {
		mixed = append(mixed, fmt.Sprintf("other %d", i))
	}
	for i := 0; i < 40; i++ {
		mixed = append(mixed, "notify")
	}
	for c := 1; c <= 108; c++ {
		if c <= 60 || c > 68 {
			mixed = append(mixed, fmt.Sprintf("get %d", c))
		}
	}
	runSenderHistory(r, d, mixed, true)
	// every notification looked up while it is being written, below and beyond the cache size, then all of the last 100 again
	var fly []string
	for i := 0; i < 130; i++ {
		fly = append(fly, "notifyq")
	}
	for c := 31; c <= 130; c++ {
		fly = append(fly, fmt.Sprintf("get %d", c))
	}
	runSenderHistory(r, d, fly, true)
	// ---- request identity: "identical request (same destination, same command)" with 0..3 commands per payload
	// the seeded-class shapes by hand: equal first command and different tail, different number of commands, the same
	// commands in another order, the empty list, the same list under another classifier (identical: withheld), then
	// answered and sent again; single-command `req` and multi-command `reqm` forms of the same request meet
	runSenderHistory(r, d, []string{"reqm 0 1.2 0", "reqm 0 1.3 0", "reqm 0 1 0", "reqm 0 1.2.3 1", "reqm 0 2.1 0", "reqm 0 - 0",
		"reqm 0 1.2 2", "req 0 1", "reqm 0 1 1", "reqm 0 - 1", "reqm 1 1.2 0", "reqm 3 1.2 0", "reqm 4 1.2 0", "reqm 5 1.2 0",
		"reqm 6 1.2 0", "reqm 7 1.2 0", "resp 1", "reqm 0 1.2 0", "reqm 0 1.3 0", "reqmf 0 2.2 0 0", "reqm 0 2.2 0", "reqm 0 2 0",
		"reqmf 0 2.2 0 3", "reqm 0 1 0", "resp 3", "reqm 0 1 2", "reqm 0 1.1 0", "reqm 0 1.1.1 0", "reqm 0 1.1 1"}, true)
	lists := sndLists(2, 3)
	nkd := len(sndKDests())
	// every list to one destination, twice (the second round is withheld list by list), half of them answered, once more
	for di := 0; di < nkd; di++ {
		var ops []string
		for round := 0; round < 3; round++ {
			for li, l := range lists {
				ops = append(ops, fmt.Sprintf("reqm %d %s %d", di, l, (li+round)%3))
			}
			if round == 1 {
				for c := 1; c <= len(lists); c += 2 {
					ops = append(ops, fmt.Sprintf("resp %d", c))
				}
			}
		}
		runSenderHistory(r, d, ops, true)
	}
	// one list to every destination, twice
	for _, l := range lists {
		var ops []string
		for round := 0; round < 2; round++ {
			for di := 0; di < nkd; di++ {
				ops = append(ops, fmt.Sprintf("reqm %d %s %d", di, l, round))
			}
		}
		runSenderHistory(r, d, ops, true)
	}
	// EXHAUSTIVE: every ordered pair of requests (destination x command list) on a fresh Sender, the first unanswered:
	// the second is withheld iff it is the identical request (judged by the SPEC; the "if" direction is the model's)
	sndPairGrid(r, sndLists(h.Scale(2, 3), 3))
	rng := h.Rng(13)
	hist := h.Scale(150, 1500)
	for i := 0; i < hist; i++ {
		n := 50 + rng.Intn(350)
		if rng.Intn(5) == 0 {
			// long notify-heavy history so that the LRU fills
			ops := genSenderHistory(rng, n)
			for j := 0; j < 120; j++ {
				ops = append(ops, "notify")
			}
			ops = append(ops, genSenderHistory(rng, 60)...)
			runSenderHistory(r, d, ops, false)
			continue
		}
		runSenderHistory(r, d, genSenderHistory(rng, n), false)
	}
	// minimise the witnesses of unlisted spec failures and of the first mismatch
	for _, sf := range append([]h.SpecFailure{}, r.SpecFailures...) {
		if sf.Key == "lru-promotion" || sf.Key == "answer-overtakes-insert" || len(sf.Ops) < 4 {
			continue
		}
		key := sf.Key
		small := h.Shrink(sf.Ops, func(ops []string) bool {
			q := h.Quiet()
			runSenderHistory(q, d, ops, true)
			return q.HasSpecFail(key)
		})
		r.ReplaceSpecFailOps(key, small)
	}
	if len(r.Mismatches) > 0 {
		mm := r.Mismatches[0]
		small := h.Shrink(mm.Ops, func(ops []string) bool {
			q := h.Quiet()
			runSenderHistory(q, d, ops, true)
			return q.MismatchN > 0
		})
		q := h.Quiet()
		runSenderHistory(q, d, small, true)
		if q.MismatchN > 0 {
			r.ReplaceMismatch(0, small, q.Mismatches[0].Impl, q.Mismatches[0].Model)
		}
	}
	r.Floor("withheld requests", r.Dist["req:withheld"], r.Dist["req:withheld"]+r.Dist["req:sent"], 0.05)
	r.Floor("responses that hit", r.Dist["resp:hit"], r.Dist["resp:hit"]+r.Dist["resp:miss"], 0.05)
	r.Floor("lookups that hit", r.Dist["get:hit"], r.Dist["get:hit"]+r.Dist["get:miss"], 0.05)
	if sndRespSerialised {
		// a tree in which the response path waits for a request in progress: there is no "in flight", every such step
		// ran as "request; response"
		r.Info["response-path"] = "serialised with Request on this tree: a response processed from inside a request's write returned only after the request"
	} else {
		r.Floor("requests answered while in flight", r.Dist["req:sent:answered-in-flight"], r.Dist["req:sent"]+r.Dist["req:sent:answered-in-flight"], 0.03)
	}

	// concurrent senders on the real Sender (monitor; the all-schedules claim rests on c13_unique / c13_monotone_nonoverlap
	// and on the deterministic overlapping groups above): every way of sending, responses and lookups from 8 goroutines.
	//  - counters on the connection pairwise distinct;
	//  - "counters strictly increase in issue order whenever calls do not overlap": every call is stamped with a logical
	//    clock before it starts and after it returns; if A returned before B started, A's counter is below B's;
	//  - concurrent identical requests: one datagram, one counter, whatever the schedule (Request is one critical section).
	conc := h.Scale(20, 200)
	type sndCall struct {
		start, end int64
		ctr        uint64
		what       string
	}
	for round := 0; round < conc; round++ {
		sw := newSndWorld()
		var tick atomic.Int64
		var lastBy sync.Map // goroutine -> counter it handed to the connection last
		sw.w.pre = func(m []byte) { lastBy.Store(h.Goid(), sndCounterOf(m)) }
		calls := make([][]sndCall, 8)
		var wg sync.WaitGroup
		for g := 0; g < 8; g++ {
			wg.Add(1)
			go func(g int) {
				defer wg.Done()
				me := h.Goid()
				hdr := &model.HeaderType{AddressSource: h.FA("rem", []uint{1}, 1), AddressDestination: sw.local, MsgCounter: util.Ptr(model.MsgCounterType(g))}
				for i := 0; i < 50; i++ {
					lastBy.Delete(me)
					k := (g*7 + i + round) % 12
					start := tick.Add(1)
					switch k {
					case 0:
						sw.s.Request(model.CmdClassifierTypeRead, sw.local, h.FA("rem", []uint{1}, uint(g)), false, []model.CmdType{sndCmd(i)})
					case 1:
						sw.s.Notify(sw.local, h.FA("rem", []uint{1}, 1), sndCmd(i))
					case 2:
						sw.s.Write(sw.local, h.FA("rem", []uint{1}, 1), sndCmd(i))
					case 3:
						sw.s.ResultSuccess(hdr, sw.local)
					case 4:
						sw.s.ResultError(hdr, sw.local, model.NewErrorTypeFromString("x"))
					case 5:
						sw.s.Reply(hdr, sw.local, sndCmd(i))
					case 6:
						sw.s.Subscribe(sw.local, h.FA("rem", []uint{1}, uint(i%5)), model.FeatureTypeTypeLoadControl)
					case 7:
						sw.s.Bind(sw.local, h.FA("rem", []uint{1}, uint(i%5)), model.FeatureTypeTypeLoadControl)
					case 8:
						sw.s.Unsubscribe(sw.local, h.FA("rem", []uint{1}, uint(i%5)))
					case 9:
						sw.s.Unbind(sw.local, h.FA("rem", []uint{1}, uint(i%5)))
					case 10:
						sw.s.ProcessResponseForMsgCounterReference(util.Ptr(model.MsgCounterType(1 + (g*50+i)%97)))
					case 11:
						sw.s.DatagramForMsgCounter(model.MsgCounterType(1 + (g*50+i)%97))
					}
					end := tick.Add(1)
					if c, ok := lastBy.Load(me); ok && c.(uint64) != 0 {
						calls[g] = append(calls[g], sndCall{start, end, c.(uint64), fmt.Sprintf("g%d/%d kind %d", g, i, k)})
					}
				}
			}(g)
		}
		wg.Wait()
		what := []string{fmt.Sprintf("concurrent round %d: 8 goroutines x 50 operations of 12 kinds", round)}
		cs := sw.wire()
		sort.Slice(cs, func(i, j int) bool { return cs[i] < cs[j] })
		for i := 1; i < len(cs); i++ {
			if cs[i] == cs[i-1] {
				r.SpecFail("counter-reused", what, fmt.Sprintf("counter %d written twice", cs[i]))
			}
		}
		var all []sndCall
		for _, c := range calls {
			all = append(all, c...)
		}
		if len(all) != len(cs) {
			r.SpecFail("datagram-carries-another-counter-than-drawn", what, fmt.Sprintf("%d sends handed bytes over, %d datagrams recorded", len(all), len(cs)))
		}
		// sweep in start order, keeping the largest counter among the calls that have already returned
		byStart := append([]sndCall{}, all...)
		sort.Slice(byStart, func(i, j int) bool { return byStart[i].start < byStart[j].start })
		byEnd := append([]sndCall{}, all...)
		sort.Slice(byEnd, func(i, j int) bool { return byEnd[i].end < byEnd[j].end })
		var maxDone sndCall
		j := 0
		for _, b := range byStart {
			for j < len(byEnd) && byEnd[j].end < b.start {
				if byEnd[j].ctr > maxDone.ctr {
					maxDone = byEnd[j]
				}
				j++
			}
			if maxDone.ctr >= b.ctr {
				r.SpecFail("counter-not-increasing", what, fmt.Sprintf("%s returned (clock %d) with counter %d before %s started (clock %d), which got counter %d", maxDone.what, maxDone.end, maxDone.ctr, b.what, b.start, b.ctr))
				break
			}
		}
		r.Eval("concurrent-round", "")

		// 8 goroutines issue the same 6 requests at once, nothing is answered
		sw = newSndWorld()
		got := make([][]uint64, 8)
		for g := 0; g < 8; g++ {
			wg.Add(1)
			go func(g int) {
				defer wg.Done()
				for i := 0; i < 6; i++ {
					q := (i + g) % 6
					c, _ := sw.s.Request(model.CmdClassifierTypeRead, sw.local, h.FA("rem", []uint{1}, uint(q)), false, []model.CmdType{sndCmd(q)})
					if c != nil {
						got[g] = append(got[g], uint64(q)<<32|uint64(*c))
					}
				}
			}(g)
		}
		wg.Wait()
		if n := len(sw.wire()); n != 6 {
			r.SpecFail("withheld-without-identical-unanswered", what, fmt.Sprintf("8 goroutines issued the same 6 unanswered requests concurrently: %d datagrams written, not 6 (a request was withheld without its twin being on the connection, or written twice)", n))
		}
		ctrOf := map[uint64]uint64{}
		for g := range got {
			for _, qc := range got[g] {
				q, c := qc>>32, qc&0xffffffff
				if p, ok := ctrOf[q]; ok && p != c {
					r.SpecFail("withheld-wrong-counter", what, fmt.Sprintf("concurrent identical requests %d returned counters %d and %d", q, p, c))
				}
				ctrOf[q] = c
			}
		}
		r.Eval("concurrent-identical-requests", "")
	}
}
