package comp

// C09, schedule clause — concurrent binding requests for one server feature on
// different connections, driven through the yield point "AddBinding.checked"
// (spine.VerifYield): every request runs in its own goroutine, parks at the
// site and is released in the order given by the event list. Compared event by
// event with Spine.Bind; the SPEC monitor checks "at no time more than one
// binding per server feature" on the implementation's registry.

import (
	"encoding/json"
	"fmt"
	"strconv"
	"strings"
	"sync"
	"sync/atomic"
	"testing"
	"time"

	"github.com/enbility/spine-go/model"
	"github.com/enbility/spine-go/spine"
	"github.com/enbility/spine-go/util"
	"verifharness/h"
)

type bschedOp struct {
	peer           int
	ctr            uint64
	parked, done   chan struct{}
	release        chan struct{}
	started, ended bool
	isParked       bool
}

// the local LoadControl servers requests can aim at; the model numbers them 1, 2
var bschedServers = map[int][2]uint{1: {1, 1}, 2: {2, 1}}

const bschedWait = 5 * time.Second

// runBindSchedule executes one event list. ops[0] = "peers N"; events:
// "check k p srv" (start request k of peer p for server srv), "insert k" (release it), "entries srv".
func runBindSchedule(r *h.Report, d *h.Driver, ev *regEvents, base int, ops []string) {
	np := 2
	if f := strings.Fields(ops[0]); len(f) == 2 && f[0] == "peers" {
		np, _ = strconv.Atoi(f[1])
	}
	w := newRegWorld(np, ev, base)
	var cur *bschedOp
	spine.VerifYield = func(site string) {
		if site != "AddBinding.checked" || cur == nil {
			return
		}
		o := cur
		o.parked <- struct{}{}
		<-o.release
	}
	all := map[int]*bschedOp{}
	defer func() {
		// never leave a goroutine parked
		for _, o := range all {
			if o.isParked {
				close(o.release)
				<-o.done
			}
		}
		spine.VerifYield = nil
		w.close()
	}()
	if d != nil {
		d.Ask("reset")
	}
	result := func(o *bschedOp) string {
		w.out = append(w.out, w.log.take()...)
		return "ret " + w.resultFor(o.peer, o.ctr)
	}
	oks := 0
	done := []string{ops[0]}
	for _, op := range ops[1:] {
		f := strings.Fields(op)
		if len(f) == 0 {
			continue
		}
		atoi := func(i int) int { n, _ := strconv.Atoi(f[i]); return n }
		var impl, line, kind string
		done = append(done, op)
		switch f[0] {
		case "check":
			k, p, srv := atoi(1), atoi(2), atoi(3)
			if all[k] != nil || p > np || bschedServers[srv] == [2]uint{} {
				continue
			}
			line = fmt.Sprintf("check %d %d %d", k, srv, p)
			w.ctr[p]++
			o := &bschedOp{peer: p, ctr: w.ctr[p], parked: make(chan struct{}), done: make(chan struct{}), release: make(chan struct{}), started: true}
			all[k] = o
			cc := model.CmdClassifierTypeCall
			ack := true
			s := bschedServers[srv]
			b, _ := json.Marshal(model.Datagram{Datagram: model.DatagramType{Header: model.HeaderType{AddressSource: h.FA(regDev(p), []uint{0}, 0), AddressDestination: h.FA("HEMS", []uint{0}, 0),
				MsgCounter: util.Ptr(model.MsgCounterType(o.ctr)), CmdClassifier: &cc, AckRequest: &ack}, Payload: model.PayloadType{Cmd: []model.CmdType{{
				NodeManagementBindingRequestCall: spine.NewNodeManagementBindingRequestCallType(regAddr(p, "1", 1), regAddr(99, fmt.Sprint(s[0]), s[1]), model.FeatureTypeTypeLoadControl)}}}}})
			cur = o
			rd := w.rds[p]
			go func() {
				defer close(o.done)
				h.Recover(func() { _, _ = rd.HandleSpineMesssage(b) })
			}()
			select {
			case <-o.parked:
				o.isParked = true
				impl = "parked"
			case <-o.done:
				o.ended = true
				impl = result(o)
			case <-time.After(bschedWait):
				impl = "blocked"
			}
			cur = nil
			kind = "check:" + impl
		case "insert":
			k := atoi(1)
			line = op
			o := all[k]
			switch {
			case o == nil || o.ended || !o.isParked:
				impl = "-"
			default:
				o.isParked = false
				close(o.release)
				select {
				case <-o.done:
					o.ended = true
					impl = result(o)
				case <-time.After(bschedWait):
					impl = "blocked"
				}
			}
			kind = "insert:" + impl
		case "entries":
			srv := atoi(1)
			line = op
			s := bschedServers[srv]
			var cl []string
			for _, e := range w.l.BindingManager().BindingsOnFeature(*h.FA("HEMS", []uint{s[0]}, s[1])) {
				for q := 1; q <= np; q++ {
					if e.ClientFeature.Device().Ski() == regSki(q) {
						cl = append(cl, strconv.Itoa(q))
					}
				}
			}
			impl = regoJoin(cl)
			kind = "entries"
		default:
			panic("bad op " + op)
		}
		if impl == "ret ok" {
			oks++
		}
		// SPEC (C09): at no time, under any interleaving of requests from different peers, does a local server
		// feature have more than one binding; every granted request is one registered binding
		total := 0
		for srv, s := range bschedServers {
			n := len(w.l.BindingManager().BindingsOnFeature(*h.FA("HEMS", []uint{s[0]}, s[1])))
			total += n
			if n > 1 {
				r.SpecFail("C09/two-bindings-under-interleaving", done, fmt.Sprintf("after %s the server feature %d/%d (server %d) has %d bindings", op, s[0], s[1], srv, n))
			}
		}
		if total != oks {
			r.SpecFail("C09/granted-requests-differ-from-registry", done, fmt.Sprintf("after %s: %d requests answered with success, %d bindings registered", op, oks, total))
		}
		if impl == "blocked" {
			r.Mismatch(done, impl, "", "a request neither reached the yield point nor returned within "+bschedWait.String()+" — if the yield call now sits inside a critical section, move it in front of the section")
			return
		}
		r.Eval(kind, "")
		if d != nil {
			if want := d.Ask(line); impl != want {
				r.Mismatch(done, impl, want, "schedule event "+op+" as "+line)
				return
			}
		}
	}
	w.settle()
	if evs := ev.take(); evs["bind+"] != oks {
		r.SpecFail("C09/change-event", done, fmt.Sprintf("%d requests granted, %d add events", oks, evs["bind+"]))
	}
	r.Traces++
}

// bschedInterleavings: all event lists over requests 1..n in which every check precedes its insert
func bschedInterleavings(n int) [][]string {
	var out [][]string
	var rec func(cur []string, checked, inserted []bool)
	rec = func(cur []string, checked, inserted []bool) {
		if len(cur) == 2*n {
			out = append(out, append([]string{}, cur...))
			return
		}
		for k := 0; k < n; k++ {
			if !checked[k] {
				checked[k] = true
				rec(append(cur, fmt.Sprintf("c%d", k+1)), checked, inserted)
				checked[k] = false
			} else if !inserted[k] {
				inserted[k] = true
				rec(append(cur, fmt.Sprintf("i%d", k+1)), checked, inserted)
				inserted[k] = false
			}
		}
	}
	rec(nil, make([]bool, n), make([]bool, n))
	return out
}

// bschedOps turns an abstract interleaving into ops; request k is sent by peer k for server srv[k-1]
func bschedOps(il []string, srv []int) []string {
	ops := []string{fmt.Sprintf("peers %d", len(srv))}
	for _, e := range il {
		k, _ := strconv.Atoi(e[1:])
		if e[0] == 'c' {
			ops = append(ops, fmt.Sprintf("check %d %d %d", k, k, srv[k-1]))
		} else {
			ops = append(ops, fmt.Sprintf("insert %d", k))
		}
		if len(il) <= 6 {
			ops = append(ops, "entries 1", "entries 2")
		}
	}
	return append(ops, "entries 1", "entries 2")
}

var bschedWitness = []string{"peers 2", "check 1 1 1", "check 2 2 1", "insert 1", "insert 2", "entries 1"}

func TestBindSchedule(t *testing.T) {
	r := h.NewReport("bindsched", "all interleavings of the check and insert halves of 2 and 3 (thorough: 4) concurrent binding requests sent on different connections for the same or for two server features, each request a goroutine parked at the yield point AddBinding.checked and released in the order of the event list; compared event by event with Spine.Bind (member selected by probing the witness schedule); non-trivial = every interleaving (distinct by event list)")
	defer r.Write()
	ev := &regEvents{}
	_ = spine.Events.Subscribe(ev)
	defer func() { _ = spine.Events.Unsubscribe(ev) }()
	d := h.StartDriver("drv_bind")
	defer d.Close()
	base := h.Baseline()
	// probe the witness schedule check1 check2 insert1 insert2 on the real code
	member := 0
	{
		q := h.Quiet()
		runBindSchedule(q, nil, ev, base, bschedWitness)
		two := q.HasSpecFail("C09/two-bindings-under-interleaving")
		switch {
		case two:
			member = 0
		case q.Dist["check:parked"] > 0:
			member = 1
		default:
			member = 2
		}
		r.SetFlag("bindCheckSeparate", two, bschedWitness, "AddBinding checks for an existing binding and inserts in separate critical sections")
		r.Info["model_member"] = []string{"as written: check and insert separate", "repaired: one critical section after the yield point", "repaired: yield point not reached"}[member]
	}
	if a := d.Ask(fmt.Sprintf("cfg %d", member)); a != "cfg" {
		panic("drv_bind: " + a)
	}
	run := func(ops []string) {
		before := r.Traces
		runBindSchedule(r, d, ev, base, ops)
		if r.Traces > before {
			r.Case(strings.Join(ops, "; "))
		}
	}
	if ops := h.ReplayOps("bindsched"); ops != nil {
		run(ops)
		return
	}
	run(bschedWitness)
	for _, srv := range [][]int{{1, 1}, {1, 2}} {
		for _, il := range bschedInterleavings(2) {
			run(bschedOps(il, srv))
		}
	}
	for _, srv := range [][]int{{1, 1, 1}, {1, 1, 2}} {
		for _, il := range bschedInterleavings(3) {
			run(bschedOps(il, srv))
		}
	}
	if h.Tier() == "thorough" {
		for _, srv := range [][]int{{1, 1, 1, 1}, {1, 1, 2, 2}} {
			for _, il := range bschedInterleavings(4) {
				run(bschedOps(il, srv))
			}
		}
	}
	// free-running search for a failing schedule where no yield point sits in the window: N peers bind the same unbound
	// server feature through a barrier, many rounds; SPEC: never more than one binding, exactly one request granted
	{
		const n = 4
		w := newRegWorld(n, ev, base)
		rounds := h.Scale(4000, 40000)
		srv := h.FA("HEMS", []uint{1}, 1)
		for round := 0; round < rounds; round++ {
			var start int32
			var wg sync.WaitGroup
			ctrs := map[int]uint64{}
			for p := 1; p <= n; p++ {
				w.ctr[p]++
				ctrs[p] = w.ctr[p]
				cc := model.CmdClassifierTypeCall
				ack := true
				b, _ := json.Marshal(model.Datagram{Datagram: model.DatagramType{Header: model.HeaderType{AddressSource: h.FA(regDev(p), []uint{0}, 0), AddressDestination: h.FA("HEMS", []uint{0}, 0),
					MsgCounter: util.Ptr(model.MsgCounterType(ctrs[p])), CmdClassifier: &cc, AckRequest: &ack}, Payload: model.PayloadType{Cmd: []model.CmdType{{
					NodeManagementBindingRequestCall: spine.NewNodeManagementBindingRequestCallType(regAddr(p, "1", 1), regAddr(99, "1", 1), model.FeatureTypeTypeLoadControl)}}}}})
				rd := w.rds[p]
				wg.Add(1)
				go func() {
					defer wg.Done()
					for atomic.LoadInt32(&start) == 0 {
					}
					h.Recover(func() { _, _ = rd.HandleSpineMesssage(b) })
				}()
			}
			atomic.StoreInt32(&start, 1)
			wg.Wait()
			w.out = w.log.take()
			oks := 0
			var winners []int
			for p := 1; p <= n; p++ {
				if w.resultFor(p, ctrs[p]) == "ok" {
					oks++
					winners = append(winners, p)
				}
			}
			nb := len(w.l.BindingManager().BindingsOnFeature(*srv))
			r.Eval("stress-round", "")
			if nb > 1 || oks != 1 || nb != oks {
				r.SpecFail("C09/two-bindings-under-free-running-requests", []string{fmt.Sprintf("stress: %d peers bind the unbound server feature 1/1 at once, round %d of %d", n, round, rounds)},
					fmt.Sprintf("%d requests answered with success, %d bindings on the feature afterwards", oks, nb))
				break
			}
			for _, p := range winners {
				w.call(p, model.CmdType{NodeManagementBindingDeleteCall: spine.NewNodeManagementBindingDeleteCallType(regAddr(p, "1", 1), regAddr(99, "1", 1))})
			}
			if left := len(w.l.BindingManager().BindingsOnFeature(*srv)); left != 0 {
				r.SpecFail("C09/delete-did-not-remove", []string{fmt.Sprintf("stress round %d", round)}, fmt.Sprintf("%d bindings left after the winner's delete", left))
				break
			}
			w.out = nil
			w.log.take()
		}
		w.close()
		ev.take()
	}
	r.Exhaustive = true
	r.Floor("requests parked at the yield point or completed", r.Dist["check:parked"]+r.Dist["check:ret ok"]+r.Dist["check:ret err"], r.Dist["check:parked"]+r.Dist["check:ret ok"]+r.Dist["check:ret err"]+r.Dist["check:blocked"], 0.99)
}
