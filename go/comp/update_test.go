package comp

// C02 — correspondence of the update-engine model (Spine.updateList / updateStore, lean/Spine/Update.lean)
// with the real per-type UpdateList methods, spine.FunctionData, FeatureLocal.UpdateData and reply / notify
// datagrams, for EVERY list type that implements model.Updater; plus the SPEC monitor of the property
// (updSpecKV below: data as a map identifier -> item, the cmdOption rules as overlay / restrict / erase),
// which never consults the model.
//
// Ops (also the replay format):
//   case <Type> direct r=<0|1> p=<0|1> old=<items> new=<items> fp=<filter> fd=<filter>     one call of the per-type UpdateList on a fresh store
//   case <Type> tricky …   the same with adversarial concrete identifier values (updTrickyFill); `hist <Type> fd-tricky` likewise
//   hist <Type> <fd|local|reply|notify>                                                    a fresh store / feature for the steps that follow
//   step r=<0|1> p=<0|1> new=<items> fp=<filter> fd=<filter>                               one update on that store (old = what the API returns before)
// items: `.` empty list, `;` between items, `,` between fields, `-` absent field; filter: N | E | F:<sel|N>:<el|N>.

import (
	"encoding/json"
	"fmt"
	"math/rand"
	"reflect"
	"runtime/debug"
	"sort"
	"strconv"
	"strings"
	"testing"
	"time"

	"github.com/enbility/spine-go/api"
	"github.com/enbility/spine-go/model"
	"github.com/enbility/spine-go/spine"
	"github.com/enbility/spine-go/util"
	"verifharness/h"
)

// ---------------------------------------------------------------- abstract values

type updItem []int // one entry per field, -1 = absent
type updList []updItem

type updFilter struct {
	kind    byte    // 'N' nil, 'E' present without selector and elements, 'F'
	sel, el updItem // nil = absent
}

func updItemS(a updItem) string {
	p := make([]string, len(a))
	for i, x := range a {
		if x < 0 {
			p[i] = "-"
		} else {
			p[i] = strconv.Itoa(x)
		}
	}
	return strings.Join(p, ",")
}

func updListS(l updList) string {
	if len(l) == 0 {
		return "."
	}
	p := make([]string, len(l))
	for i, a := range l {
		p[i] = updItemS(a)
	}
	return strings.Join(p, ";")
}

func updFilterS(f updFilter) string {
	if f.kind != 'F' {
		return string(f.kind)
	}
	s, e := "N", "N"
	if f.sel != nil {
		s = updItemS(f.sel)
	}
	if f.el != nil {
		e = updItemS(f.el)
	}
	return "F:" + s + ":" + e
}

func updParseItem(s string) updItem {
	if s == "" {
		return updItem{}
	}
	var a updItem
	for _, p := range strings.Split(s, ",") {
		if p == "-" {
			a = append(a, -1)
		} else {
			v, err := strconv.Atoi(p)
			if err != nil {
				panic("bad item " + s)
			}
			a = append(a, v)
		}
	}
	return a
}

func updParseList(s string) updList {
	if s == "." {
		return nil
	}
	var l updList
	for _, p := range strings.Split(s, ";") {
		l = append(l, updParseItem(p))
	}
	return l
}

func updParseFilter(s string) updFilter {
	if s == "N" || s == "E" {
		return updFilter{kind: s[0]}
	}
	p := strings.Split(s, ":")
	if len(p) != 3 || p[0] != "F" {
		panic("bad filter " + s)
	}
	f := updFilter{kind: 'F'}
	if p[1] != "N" {
		f.sel = updParseItem(p[1])
	}
	if p[2] != "N" {
		f.el = updParseItem(p[2])
	}
	return f
}

func updCloneList(l updList) updList {
	var o updList
	for _, a := range l {
		o = append(o, append(updItem{}, a...))
	}
	return o
}

// ---------------------------------------------------------------- reflective codec abstract <-> concrete

type updCodec struct {
	ptr     map[uintptr]int // identity of every pointer / slice the codec allocated -> abstract value
	byValue bool            // decode by value only (after a JSON round trip identities mean nothing)
	tricky  bool            // identifier fields get adversarial concrete values (updTrickyFill): separators, empty strings, max uint
}

func newUpdCodec() *updCodec { return &updCodec{ptr: map[uintptr]int{}} }

func updSetScalar(v reflect.Value, n int) bool {
	switch v.Kind() {
	case reflect.Uint, reflect.Uint8, reflect.Uint16, reflect.Uint32, reflect.Uint64:
		v.SetUint(uint64(n))
	case reflect.Int, reflect.Int8, reflect.Int16, reflect.Int32, reflect.Int64:
		v.SetInt(int64(n))
	case reflect.String:
		v.SetString("s" + strconv.Itoa(n))
	case reflect.Bool:
		v.SetBool(n%2 == 1)
	default:
		return false
	}
	return true
}

// fill puts n into the first leaf of v (depth first); struct-typed keys thereby carry the value inside
// (DeviceAddressType.Device = "s<n>").
func updFill(v reflect.Value, n int, depth int) bool {
	if depth > 6 {
		return false
	}
	switch v.Kind() {
	case reflect.Ptr:
		p := reflect.New(v.Type().Elem())
		ok := updFill(p.Elem(), n, depth+1)
		// an empty struct carries nothing but is a legitimate non-nil value
		if ok || (p.Elem().Kind() == reflect.Struct && depth == 0) {
			v.Set(p)
			return ok
		}
		return false
	case reflect.Slice:
		s := reflect.MakeSlice(v.Type(), 1, 1)
		ok := updFill(s.Index(0), n, depth+1)
		v.Set(s)
		return ok
	case reflect.Struct:
		for i := 0; i < v.NumField(); i++ {
			if v.Field(i).CanSet() && updFill(v.Field(i), n, depth+1) {
				return true
			}
		}
		return false
	}
	return updSetScalar(v, n)
}

// value-based decoding (after a JSON round trip the pointer identities are gone)
func updRead(v reflect.Value, depth int) (int, bool) {
	if depth > 6 {
		return 0, false
	}
	switch v.Kind() {
	case reflect.Ptr:
		if v.IsNil() {
			return 0, false
		}
		return updRead(v.Elem(), depth+1)
	case reflect.Slice:
		if v.Len() == 0 {
			return 0, false
		}
		return updRead(v.Index(0), depth+1)
	case reflect.Struct:
		for i := 0; i < v.NumField(); i++ {
			if n, ok := updRead(v.Field(i), depth+1); ok {
				return n, true
			}
		}
		return 0, false
	case reflect.Uint, reflect.Uint8, reflect.Uint16, reflect.Uint32, reflect.Uint64:
		return int(v.Uint()), true
	case reflect.Int, reflect.Int8, reflect.Int16, reflect.Int32, reflect.Int64:
		return int(v.Int()), true
	case reflect.String:
		n, err := strconv.Atoi(strings.TrimPrefix(v.String(), "s"))
		return n, err == nil
	case reflect.Bool:
		return h.B2i(v.Bool()), true
	}
	return 0, false
}

// updTrickyFill: the concrete value of an IDENTIFIER field for abstract value n when the codec is in tricky mode.
// The code identifies items by a STRING built from the identifier parts (hashKey: decimal numbers, strings and
// address texts joined with '|'); the model identifies them by the tuple of abstract values. The palettes below
// map distinct abstract values to distinct concrete values chosen to provoke collisions of that string if there
// were any: numbers whose decimal texts are prefixes / concatenations of each other and the largest uint (the
// palette is monotone, so the numeric order is the model's), strings that are empty, are or contain the separator
// or look like numbers, addresses whose device part contains the punctuation of the address text.
func updTrickyFill(f reflect.Value, n int) bool {
	if f.Kind() != reflect.Ptr {
		return false
	}
	p := reflect.New(f.Type().Elem())
	e := p.Elem()
	dev := func(sv string) reflect.Value {
		v := reflect.New(reflect.TypeOf(model.AddressDeviceType("")))
		v.Elem().SetString(sv)
		return v
	}
	ents := func(l ...uint) []model.AddressEntityType {
		var o []model.AddressEntityType
		for _, x := range l {
			o = append(o, model.AddressEntityType(x))
		}
		return o
	}
	switch e.Kind() {
	case reflect.Uint:
		pal := []uint64{1, 11, 111, ^uint64(0)}
		if n >= len(pal) {
			return false
		}
		e.SetUint(pal[n])
	case reflect.String:
		pal := []string{"", "|", "a|b", "1", "1|2", "0|"}
		if n >= len(pal) {
			return false
		}
		e.SetString(pal[n])
	case reflect.Struct:
		switch v := p.Interface().(type) {
		case *model.DeviceAddressType:
			pal := []string{"d", "|", "d|", "d:[1]:"}
			if n >= len(pal) {
				return false
			}
			v.Device = dev(pal[n]).Interface().(*model.AddressDeviceType)
		case *model.EntityAddressType:
			switch n {
			case 0:
				v.Device, v.Entity = dev("d").Interface().(*model.AddressDeviceType), ents(1)
			case 1:
				v.Device = dev("d:[1]:").Interface().(*model.AddressDeviceType)
			case 2:
				v.Device, v.Entity = dev("d").Interface().(*model.AddressDeviceType), ents(1, 1)
			case 3:
				v.Device, v.Entity = dev("d").Interface().(*model.AddressDeviceType), ents(11)
			default:
				return false
			}
		case *model.FeatureAddressType:
			one, eleven := model.AddressFeatureType(1), model.AddressFeatureType(11)
			switch n {
			case 0:
				v.Device, v.Entity, v.Feature = dev("d").Interface().(*model.AddressDeviceType), ents(1), &one
			case 1:
				v.Device, v.Entity, v.Feature = dev("d").Interface().(*model.AddressDeviceType), ents(1), &eleven
			case 2:
				v.Device, v.Entity = dev("d").Interface().(*model.AddressDeviceType), ents(1, 1)
			case 3:
				v.Device = dev("d:[1]:1").Interface().(*model.AddressDeviceType)
			default:
				return false
			}
		default:
			return false
		}
	default:
		return false
	}
	f.Set(p)
	return true
}

// field sets field f (pointer or slice typed) to the canonical non-nil value indexed by n.
func (c *updCodec) field(f reflect.Value, n int) {
	updFill(f, n, 0)
	if f.IsNil() {
		panic("codec: cannot build a value of type " + f.Type().String())
	}
	if f.Type().Elem().Size() > 0 && !c.byValue {
		c.ptr[f.Pointer()] = n
	}
}

func (c *updCodec) item(s *h.UpdShape, a updItem) reflect.Value {
	it := reflect.New(s.ItemT).Elem()
	for i, x := range a {
		if x >= 0 && i < it.NumField() {
			if c.tricky && updIsKey(s, i) && updTrickyFill(it.Field(i), x) {
				c.ptr[it.Field(i).Pointer()] = x
				continue
			}
			c.field(it.Field(i), x)
		}
	}
	return it
}

func updIsKey(s *h.UpdShape, i int) bool {
	for _, k := range s.Keys {
		if k.Idx == i {
			return true
		}
	}
	return false
}

// list builds a *ListT holding the items (nil slice for the empty list).
func (c *updCodec) list(s *h.UpdShape, l updList) reflect.Value {
	p := reflect.New(s.ListT)
	if len(l) > 0 {
		sl := reflect.MakeSlice(reflect.SliceOf(s.ItemT), 0, len(l))
		for _, a := range l {
			sl = reflect.Append(sl, c.item(s, a))
		}
		p.Elem().FieldByName(s.ListField).Set(sl)
	}
	return p
}

func (c *updCodec) decItem(it reflect.Value) updItem {
	a := make(updItem, it.NumField())
	for j := 0; j < it.NumField(); j++ {
		f := it.Field(j)
		switch {
		case f.IsNil():
			a[j] = -1
		case f.Type().Elem().Size() == 0:
			a[j] = 0
		default:
			if x, ok := c.ptr[f.Pointer()]; ok {
				a[j] = x
			} else if x, ok := updRead(f, 0); ok {
				a[j] = x
			} else {
				a[j] = 99999 // undecodable: shows up as a disagreement
			}
		}
	}
	return a
}

func (c *updCodec) decSlice(sl reflect.Value) updList {
	var l updList
	for i := 0; i < sl.Len(); i++ {
		l = append(l, c.decItem(sl.Index(i)))
	}
	return l
}

// decAny decodes a *ListT, a ListT-slice or nil
func (c *updCodec) decAny(s *h.UpdShape, v any) (updList, bool) {
	if v == nil {
		return nil, true
	}
	rv := reflect.ValueOf(v)
	if rv.Kind() == reflect.Ptr && rv.Type().Elem() == s.ListT {
		if rv.IsNil() {
			return nil, true
		}
		return c.decSlice(rv.Elem().FieldByName(s.ListField)), true
	}
	if rv.Kind() == reflect.Slice && rv.Type().Elem() == s.ItemT {
		return c.decSlice(rv), true
	}
	return nil, false
}

// filter builds the real FilterType: cmdControl partial / delete, selectors and elements of the
// function in the FilterType fields whose `fct` tag names it.
func (c *updCodec) filter(s *h.UpdShape, del bool, f updFilter) *model.FilterType {
	if f.kind == 'N' {
		return nil
	}
	ft := &model.FilterType{CmdControl: &model.CmdControlType{}}
	if del {
		ft.CmdControl.Delete = &model.ElementTagType{}
	} else {
		ft.CmdControl.Partial = &model.ElementTagType{}
	}
	if f.kind == 'E' {
		return ft
	}
	fv := reflect.ValueOf(ft).Elem()
	if f.sel != nil && s.SelT != nil {
		sv := reflect.New(s.SelT)
		for j, x := range f.sel {
			if x >= 0 && j < s.SelT.NumField() {
				if c.tricky && j < len(s.SelIdx) && s.SelIdx[j] >= 0 && updIsKey(s, s.SelIdx[j]) &&
					sv.Elem().Field(j).Type() == s.ItemT.Field(s.SelIdx[j]).Type && updTrickyFill(sv.Elem().Field(j), x%1000) {
					continue
				}
				updFill(sv.Elem().Field(j), x%1000, 0)
			}
		}
		fv.FieldByName(s.SelField).Set(sv)
	}
	if f.el != nil && s.ElT != nil {
		ev := reflect.New(s.ElT)
		for j, x := range f.el {
			if x >= 0 && j < s.ElT.NumField() {
				fl := ev.Elem().Field(j)
				switch fl.Kind() {
				case reflect.Ptr:
					fl.Set(reflect.New(fl.Type().Elem()))
				case reflect.Slice:
					fl.Set(reflect.MakeSlice(fl.Type(), 1, 1))
				}
			}
		}
		fv.FieldByName(s.ElField).Set(ev)
	}
	return ft
}

// ---------------------------------------------------------------- SPEC monitor: Spec.KV, independent of the model
//
// Data is a map identifier -> item. The rules (DESIGN §8 C02 Spec, weaker reading wherever the statement
// leaves room):
//   partial, items with identifiers : per identifier overlay (fields not mentioned kept), new identifiers added, others kept
//   partial, one identifier-less item: laid over every stored item
//   partial + selector               : laid over the matching item (decided when at most one matches), others unchanged
//   delete + selector                : matching items removed;  delete + elements: named fields cleared in every (matching) item
//   delete combined with partial     : delete first
// and the result has one item per identifier, is ordered by the numeric identifier, and applying the same
// update again changes nothing.  undecided() names the inputs the SPEC does not judge.

type updSpecKV struct{ s *h.UpdShape }

func (k updSpecKV) key(it updItem) (string, bool) {
	var p []string
	complete := true
	for _, kk := range k.s.Keys {
		if it[kk.Idx] < 0 {
			complete = false
			p = append(p, "-")
		} else {
			p = append(p, strconv.Itoa(it[kk.Idx]))
		}
	}
	return strings.Join(p, "|"), complete
}

func (k updSpecKV) keyless(it updItem) bool {
	for _, kk := range k.s.Keys {
		if it[kk.Idx] >= 0 {
			return false
		}
	}
	return true
}

func (k updSpecKV) wellFormedData(l updList) bool {
	seen := map[string]bool{}
	for _, it := range l {
		if len(it) != k.s.N {
			return false
		}
		key, complete := k.key(it)
		if !complete || seen[key] {
			return false
		}
		seen[key] = true
	}
	return true
}

// selector field j names item field i (or nothing)
func (k updSpecKV) selField(j int) int {
	if j < len(k.s.SelMap) && k.s.SelMap[j] >= 0 {
		return k.s.SelMap[j]
	}
	return -1
}

func (k updSpecKV) selDefined(sel, it updItem) bool {
	for j, v := range sel {
		if i := k.selField(j); v >= 0 && i >= 0 && (i >= len(it) || it[i] < 0) {
			return false
		}
	}
	return true
}

func (k updSpecKV) matches(sel, it updItem) bool {
	for j, v := range sel {
		if i := k.selField(j); v >= 0 && i >= 0 && (i >= len(it) || it[i] != v) {
			return false
		}
	}
	return true
}

func (k updSpecKV) namedFields(el updItem) map[int]bool {
	m := map[int]bool{}
	for j, v := range el {
		if v >= 0 && j < len(k.s.ElMap) && k.s.ElMap[j] >= 0 {
			m[k.s.ElMap[j]] = true
		}
	}
	return m
}

func updSpecOverlay(u, old updItem) updItem {
	o := append(updItem{}, old...)
	for i := range o {
		if i < len(u) && u[i] >= 0 {
			o[i] = u[i]
		}
	}
	return o
}

func (k updSpecKV) clear(el, it updItem) updItem {
	o := append(updItem{}, it...)
	for i := range k.namedFields(el) {
		if i < len(o) {
			o[i] = -1
		}
	}
	return o
}

func (k updSpecKV) afterDelete(old updList, fd updFilter) updList {
	if fd.kind != 'F' || (fd.sel == nil && fd.el == nil) {
		return old
	}
	var out updList
	for _, it := range old {
		hit := fd.sel == nil || k.matches(fd.sel, it)
		switch {
		case hit && fd.el != nil:
			out = append(out, k.clear(fd.el, it))
		case hit:
		default:
			out = append(out, it)
		}
	}
	return out
}

// undecided returns why the SPEC does not judge this input ("" = it does).
func (k updSpecKV) undecided(old, items updList, fp, fd updFilter) string {
	if len(k.s.Keys) == 0 {
		return "type-without-identifiers"
	}
	if !k.wellFormedData(old) {
		return "stored-data-not-well-formed"
	}
	for _, it := range items {
		if len(it) != k.s.N {
			return "update-items-not-well-formed"
		}
	}
	if len(items) == 1 {
		if _, c := k.key(items[0]); !c && !k.keyless(items[0]) {
			return "update-items-not-well-formed"
		}
	} else if !k.wellFormedData(items) {
		return "update-items-not-well-formed"
	}
	if (fd.kind == 'F' && fd.sel == nil && fd.el == nil) || (fp.kind == 'F' && fp.sel == nil && fp.el == nil) {
		return "filter-without-selector-and-elements"
	}
	if fd.kind == 'F' {
		if fd.sel != nil {
			for _, it := range old {
				if !k.selDefined(fd.sel, it) {
					return "delete-filter-undefined"
				}
			}
		}
		if fd.el != nil {
			if k.s.ElN != k.s.N {
				return "delete-filter-undefined"
			}
			named := k.namedFields(fd.el)
			for _, kk := range k.s.Keys {
				if named[kk.Idx] {
					return "delete-filter-undefined"
				}
			}
		}
	}
	if fp.kind == 'F' {
		if fp.el != nil {
			return "partial-filter-with-elements"
		}
		if fp.sel != nil {
			if len(items) == 0 {
				return "selector-without-data"
			}
			cur := k.afterDelete(old, fd)
			hits := 0
			for _, it := range cur {
				if !k.selDefined(fp.sel, it) {
					return "selector-undefined"
				}
				if k.matches(fp.sel, it) {
					hits++
					for _, kk := range k.s.Keys {
						if v := items[0][kk.Idx]; v >= 0 && v != it[kk.Idx] {
							return "selector-update-rekeys"
						}
					}
				}
			}
			if hits > 1 {
				return "selector-matches-several"
			}
		}
	}
	return ""
}

// apply: the fold step of the cmdOption rules, as a map identifier -> item
func (k updSpecKV) apply(old, items updList, fp, fd updFilter) map[string]updItem {
	cur := k.afterDelete(old, fd)
	m := map[string]updItem{}
	for _, it := range cur {
		key, _ := k.key(it)
		m[key] = it
	}
	switch {
	case fp.kind == 'F' && fp.sel != nil:
		for key, it := range m {
			if k.matches(fp.sel, it) {
				m[key] = updSpecOverlay(items[0], it)
			}
		}
	case len(items) == 0:
	case k.keyless(items[0]):
		for key, it := range m {
			m[key] = updSpecOverlay(items[0], it)
		}
	default:
		for _, u := range items {
			key, _ := k.key(u)
			if it, ok := m[key]; ok {
				m[key] = updSpecOverlay(u, it)
			} else {
				m[key] = u
			}
		}
	}
	return m
}

// numeric identifier order: lexicographic on the leading key fields of kind uint
func (k updSpecKV) numLess(a, b updItem) bool {
	for _, kk := range k.s.Keys {
		if kk.Kind != "uint" || a[kk.Idx] < 0 || b[kk.Idx] < 0 {
			return false
		}
		if a[kk.Idx] != b[kk.Idx] {
			return a[kk.Idx] < b[kk.Idx]
		}
	}
	return false
}

func (k updSpecKV) ordered(l updList) bool {
	for i := range l {
		for j := i + 1; j < len(l); j++ {
			if k.numLess(l[j], l[i]) {
				return false
			}
		}
	}
	return true
}

func (k updSpecKV) mapS(m map[string]updItem) string {
	var keys []string
	for key := range m {
		keys = append(keys, key)
	}
	sort.Strings(keys)
	var p []string
	for _, key := range keys {
		p = append(p, updItemS(m[key]))
	}
	if len(p) == 0 {
		return "."
	}
	return strings.Join(p, ";")
}

func (k updSpecKV) listAsMapS(l updList) (string, bool) {
	m := map[string]updItem{}
	for _, it := range l {
		key, c := k.key(it)
		if _, dup := m[key]; dup || !c {
			return "", false
		}
		m[key] = it
	}
	return k.mapS(m), true
}

// ---------------------------------------------------------------- the world

type updWorld struct {
	r      *h.Report
	d      *h.Driver
	shapes map[string]*h.UpdShape
	order  []string
	cur    string // shape line the driver holds
	// per history
	s      *h.UpdShape
	path   string
	c      *updCodec
	fdat   api.FunctionDataInterface
	local  api.DeviceLocalInterface
	lfeat  api.FeatureLocalInterface
	rdev   api.DeviceRemoteInterface
	rfeat  api.FeatureRemoteInterface
	ctr    uint64
	base   int
	fns    map[string]bool // functions registered in the factory
	genFns map[string]bool // ... for the Generic feature type (the stack paths use Generic features)
	quiet  bool
	jsonOK map[string]bool
	stats  map[string]int
}

// updFacts: how SelectorMatch of the tree under test behaves (probed once per test run)
var updFacts = h.UpdSelFacts{NilPanics: true}

func newUpdWorld(r *h.Report, d *h.Driver) *updWorld {
	w := &updWorld{r: r, d: d, shapes: map[string]*h.UpdShape{}, fns: map[string]bool{}, genFns: map[string]bool{}, jsonOK: map[string]bool{}, stats: map[string]int{}}
	for _, s := range h.UpdShapes() {
		s.Resolve(updFacts)
		w.shapes[s.Name] = s
		w.order = append(w.order, s.Name)
	}
	for _, ft := range []model.FeatureTypeType{model.FeatureTypeTypeGeneric, model.FeatureTypeTypeNodeManagement} {
		for _, fd := range spine.CreateFunctionData[api.FunctionDataInterface](ft) {
			w.fns[string(fd.FunctionType())] = true
			if ft == model.FeatureTypeTypeGeneric {
				w.genFns[string(fd.FunctionType())] = true
			}
		}
	}
	return w
}

func (w *updWorld) ask(s *h.UpdShape, line string) string {
	if sl := s.Line(); w.cur != sl {
		if a := w.d.Ask(sl); a != "shape-ok" {
			panic("driver refused " + sl + ": " + a)
		}
		w.cur = sl
	}
	return w.d.Ask(line)
}

func updShapeName(fp, fd updFilter, items updList) string {
	switch {
	case fd.kind == 'F' && (fp.kind != 'N' || len(items) > 0):
		return "delete+partial"
	case fd.kind == 'F' && fd.sel != nil && fd.el != nil:
		return "delete+selector+elements"
	case fd.kind == 'F' && fd.sel != nil:
		return "delete+selector"
	case fd.kind == 'F':
		return "delete+elements"
	case fp.kind == 'F' && fp.sel != nil:
		return "partial+selector"
	case fp.kind == 'F':
		return "partial+elements"
	case fp.kind == 'E' || fd.kind == 'E':
		return "partial"
	}
	return "none"
}

func updArgs(f []string) map[string]string {
	m := map[string]string{}
	for _, t := range f {
		if i := strings.IndexByte(t, '='); i > 0 {
			m[t[:i]] = t[i+1:]
		}
	}
	return m
}

// updSortedItems: canonical multiset form of a list text
func updSortedItems(s string) string {
	p := strings.Split(s, ";")
	sort.Strings(p)
	return strings.Join(p, ";")
}

// updObsFields splits an observation line ("ok=1 out=… store=…" or "panic <site>") into named fields
func updObsFields(line string) map[string]string {
	m := map[string]string{}
	if strings.HasPrefix(line, "panic") {
		m["panic"] = "1"
		return m
	}
	for _, t := range strings.Fields(line) {
		if i := strings.IndexByte(t, '='); i > 0 {
			m[t[:i]] = t[i+1:]
		}
	}
	return m
}

// updSameObs compares the named fields of two observations; lists of more than 12 items as multisets
// (Go's sort is not stable beyond 12 elements)
func updSameObs(impl, want map[string]string, keys []string) bool {
	if (impl["panic"] != "") != (want["panic"] != "") {
		return false
	}
	if impl["panic"] != "" {
		return true
	}
	for _, k := range keys {
		a, b := impl[k], want[k]
		if a == b {
			continue
		}
		if strings.Count(a, ";") >= 12 && updSortedItems(a) == updSortedItems(b) {
			continue
		}
		return false
	}
	return true
}

func updObsS(m map[string]string, keys []string) string {
	if m["panic"] != "" {
		return "panic"
	}
	var p []string
	for _, k := range keys {
		p = append(p, k+"="+m[k])
	}
	return strings.Join(p, " ")
}

// judge: the SPEC monitor on one local, persisting update. `after` is what the API returns afterwards,
// reapply performs the same update again on the real store and returns the data afterwards.
func (w *updWorld) judge(done []string, shape string, old, items updList, fp, fd updFilter, after updList, fast bool, reapply func() (updList, bool)) {
	k := updSpecKV{w.s}
	why := k.undecided(old, items, fp, fd)
	w.stats["spec:"+updFirstNonEmpty(why, "decided")]++
	if why != "" {
		if why == "selector-matches-several" && !fast {
			// beyond the SPEC's map reading, the weaker reading of "confines" (theorem c02_selector_first_match): the
			// first matching item in stored order receives the overlay, every other item is exactly as before
			want := updCloneList(k.afterDelete(old, fd))
			for i, it := range want {
				if k.matches(fp.sel, it) {
					want[i] = updSpecOverlay(items[0], it)
					break
				}
			}
			if updListS(after) != updListS(want) {
				w.r.SpecFail("C02/selector-several-matches:"+shape, done, fmt.Sprintf("%s: the selector matches several items; data after the update %s, expected the first match overlaid and nothing else changed: %s", w.s.Name, updListS(after), updListS(want)))
			}
			w.stats["spec:several-matches-judged"]++
			return
		}
		if why == "update-items-not-well-formed" && !fast {
			// observation (i) of DESIGN §8 C02: duplicates inside one update end up in the store
			if _, ok := k.listAsMapS(after); !ok && k.wellFormedData(old) {
				w.stats["observation:ill-formed-update-leaves-ill-formed-data"]++
			}
		}
		return
	}
	var want map[string]updItem
	if fast {
		want = map[string]updItem{} // a full update replaces the data
		for _, it := range items {
			key, _ := k.key(it)
			want[key] = it
		}
		if len(items) == 1 && k.keyless(items[0]) {
			return
		}
	} else {
		want = k.apply(old, items, fp, fd)
	}
	got, unique := k.listAsMapS(after)
	if !unique {
		w.r.SpecFail("C02/duplicate-or-missing-identifier:"+shape, done, fmt.Sprintf("%s: after the update the data is %s - an identifier occurs twice or is incomplete", w.s.Name, updListS(after)))
		return
	}
	if got != k.mapS(want) {
		w.r.SpecFail("C02/rules:"+shape, done, fmt.Sprintf("%s: data after the update %s, the cmdOption rules give %s (as maps, in identifier order)", w.s.Name, got, k.mapS(want)))
		return
	}
	if !k.ordered(after) {
		if fast {
			w.r.SpecFail("C02/fastpath-stores-as-received", done, fmt.Sprintf("%s: a full update is stored as received; the data afterwards is %s, not ordered by identifier", w.s.Name, updListS(after)))
		} else if k.ordered(old) {
			w.r.SpecFail("C02/not-ordered:"+shape, done, fmt.Sprintf("%s: data %s is not ordered by numeric identifier", w.s.Name, updListS(after)))
		}
	}
	if reapply != nil && k.undecided(after, items, fp, fd) == "" {
		if !fast {
			// the clause can only be demanded where the rules themselves give the same data twice (a delete
			// selector that tests a field the partial part changes does not: see c02_rules_not_idempotent_witness)
			var once updList
			keys := []string{}
			for key := range want {
				keys = append(keys, key)
			}
			sort.Strings(keys)
			for _, key := range keys {
				once = append(once, want[key])
			}
			if k.undecided(once, items, fp, fd) != "" || k.mapS(k.apply(once, items, fp, fd)) != k.mapS(want) {
				w.stats["spec:rules-themselves-not-idempotent-here"]++
				return
			}
		}
		again, ok := reapply()
		// "changes nothing": the same map identifier -> item, still ordered by numeric identifier (the order of
		// items whose numeric identifier parts are equal is not determined by the statement)
		againS, uniq := k.listAsMapS(again)
		if ok && (!uniq || againS != got || (k.ordered(after) && !k.ordered(again))) {
			if fast {
				w.r.SpecFail("C02/not-idempotent:full", done, fmt.Sprintf("%s: second application gives %s, first gave %s", w.s.Name, updListS(again), updListS(after)))
			} else {
				w.r.SpecFail("C02/not-idempotent:"+shape, done, fmt.Sprintf("%s: applying the same update again changes %s into %s", w.s.Name, updListS(after), updListS(again)))
			}
		}
		w.stats["spec:idempotence-checked"]++
	}
}

func updFirstNonEmpty(a, b string) string {
	if a != "" {
		return a
	}
	return b
}

// twin: the Lean SPEC (`kv` op) must decide and compute what the Go monitor does
func (w *updWorld) twin(done []string, old, items updList, fp, fd updFilter) {
	k := updSpecKV{w.s}
	line := fmt.Sprintf("kv old=%s new=%s fp=%s fd=%s", updListS(old), updListS(items), updFilterS(fp), updFilterS(fd))
	lean := w.ask(w.s, line)
	var mine string
	if why := k.undecided(old, items, fp, fd); why != "" {
		mine = "na " + why
	} else {
		mine = "kv " + k.mapS(k.apply(old, items, fp, fd))
	}
	if strings.HasPrefix(lean, "na ") && strings.HasPrefix(mine, "na ") {
		return // both do not judge (the reasons may be found in a different order)
	}
	if strings.HasPrefix(lean, "kv ") && strings.HasPrefix(mine, "kv ") {
		// the Lean side prints in identifier order of the values, the Go side in the order of the key text
		if updSortedItems(strings.TrimPrefix(lean, "kv ")) == updSortedItems(strings.TrimPrefix(mine, "kv ")) {
			return
		}
	}
	w.r.Mismatch(done, "go-spec: "+mine, "lean-spec: "+lean, "the Go SPEC monitor and Spine.SpecKV disagree on "+line)
}

// runCase: one direct call of the per-type UpdateList on a fresh store
func (w *updWorld) runCase(op string, done []string) bool {
	f := strings.Fields(op)
	s := w.shapes[f[1]]
	if s == nil || s.Scalar || len(s.Problems) > 0 {
		panic("unknown or unsupported list type in " + op)
	}
	w.s = s
	a := updArgs(f[3:])
	remote, persist := a["r"] == "1", a["p"] == "1"
	old, items := updParseList(a["old"]), updParseList(a["new"])
	fp, fd := updParseFilter(a["fp"]), updParseFilter(a["fd"])
	shape := updShapeName(fp, fd, items)
	line := fmt.Sprintf("upd r=%s p=%s old=%s new=%s fp=%s fd=%s", a["r"], a["p"], a["old"], a["new"], a["fp"], a["fd"])
	want := w.ask(s, line)

	c := newUpdCodec()
	c.tricky = f[2] == "tricky"
	store := c.list(s, old)
	orig := reflect.ValueOf(store.Elem().FieldByName(s.ListField).Interface()) // the slice header before the call
	call := func(c *updCodec) (ret any, ok bool, pan any) {
		nw := c.list(s, items)
		fpv, fdv := c.filter(s, false, fp), c.filter(s, true, fd)
		pan = h.Recover(func() {
			ret, ok = store.Interface().(model.Updater).UpdateList(remote, persist, nw.Interface(), fpv, fdv)
		})
		return
	}
	ret, ok, pan := call(c)
	impl := map[string]string{}
	keys := []string{"ok", "out", "store", "inplace"}
	var after updList
	retOK := true
	if pan != nil {
		impl["panic"] = "1"
	} else {
		after = c.decSlice(store.Elem().FieldByName(s.ListField))
		out, isList := c.decAny(s, ret)
		if !isList {
			// what was returned is not a list: judged by the monitor below, the rest is still compared
			retOK = false
			keys = []string{"ok", "store", "inplace"}
		}
		impl["ok"], impl["out"], impl["store"], impl["inplace"] = strconv.Itoa(h.B2i(ok)), updListS(out), updListS(after), updListS(c.decSlice(orig))
	}
	outcome := "panic"
	if pan == nil {
		outcome = "ok=" + impl["ok"]
	}
	nontrivial := ""
	if pan == nil && updListS(after) != updListS(old) {
		nontrivial = op
		w.stats["changed"]++
	}
	w.r.Eval(shape+":"+outcome, nontrivial)
	w.stats["path:"+f[2]]++
	if strings.HasPrefix(want, "panic") {
		w.stats["model-panic:"+strings.TrimPrefix(want, "panic ")]++
	}
	agree := updSameObs(impl, updObsFields(want), keys)
	if !agree {
		w.r.Mismatch(done, updObsS(impl, keys), want, "per-type UpdateList of "+s.Name+" vs Spine.updateList")
	}
	if pan != nil {
		return agree
	}
	// ---- SPEC monitor (never looks at `want`; runs whether or not the model agreed)
	if !retOK {
		if _, isBool := ret.(bool); isBool {
			w.r.SpecFail("C02/updatelist-returns-persist-flag:"+s.Name, done, fmt.Sprintf("(*%s).UpdateList returned %v (%T) as the merged data instead of the list", s.Name, ret, ret))
		} else {
			w.r.SpecFail("C02/updatelist-returns-other-than-data:"+s.Name, done, fmt.Sprintf("(*%s).UpdateList returned a %T as the merged data", s.Name, ret))
		}
	} else if out, _ := c.decAny(s, ret); ok && persist && updListS(out) != updListS(after) {
		w.r.SpecFail("C02/returned-data-differs-from-stored:"+shape, done, fmt.Sprintf("%s: returned %s, stored %s", s.Name, updListS(out), updListS(after)))
	}
	if !remote {
		w.twin(done, old, items, fp, fd)
	}
	if !remote && persist {
		if !ok {
			w.r.SpecFail("C02/local-update-refused:"+shape, done, s.Name+": a local update reported failure")
		}
		w.judge(done, shape, old, items, fp, fd, after, false, func() (updList, bool) {
			c2 := newUpdCodec()
			c2.tricky = c.tricky
			for p, n := range c.ptr {
				c2.ptr[p] = n
			}
			_, _, pan := call(c2)
			if pan != nil {
				return nil, false
			}
			return c2.decSlice(store.Elem().FieldByName(s.ListField)), true
		})
	}
	return agree
}

// ---- histories through FunctionData, the local API and datagrams

func (w *updWorld) startHist(op string) {
	f := strings.Fields(op)
	s := w.shapes[f[1]]
	if s == nil || s.Scalar || len(s.Problems) > 0 {
		panic("unknown or unsupported list type in " + op)
	}
	w.s, w.path, w.c = s, strings.TrimSuffix(f[2], "-tricky"), newUpdCodec()
	w.c.tricky = strings.HasSuffix(f[2], "-tricky") // adversarial identifier values (direct FunctionData path only)
	fct := model.FunctionType(s.Fct)
	switch w.path {
	case "fd":
		w.fdat = nil
		for _, ft := range []model.FeatureTypeType{model.FeatureTypeTypeGeneric, model.FeatureTypeTypeNodeManagement} {
			for _, fd := range spine.CreateFunctionData[api.FunctionDataInterface](ft) {
				if fd.FunctionType() == fct {
					w.fdat = fd
				}
			}
		}
		if w.fdat == nil {
			panic("function " + s.Fct + " is not registered")
		}
	case "local", "reply", "notify":
		w.teardown()
		l := spine.NewDeviceLocal("b", "m", "s", "c", "HEMS", model.DeviceTypeTypeEnergyManagementSystem, model.NetworkManagementFeatureSetTypeSmart)
		e1 := spine.NewEntityLocal(l, model.EntityTypeTypeCEM, spine.NewAddressEntityType([]uint{1}), time.Second*4)
		l.AddEntity(e1)
		w.local = l
		srv := e1.GetOrAddFeature(model.FeatureTypeTypeGeneric, model.RoleTypeServer)
		srv.AddFunctionType(fct, true, true)
		e1.GetOrAddFeature(model.FeatureTypeTypeGeneric, model.RoleTypeClient)
		w.lfeat = srv
		if w.path != "local" {
			wr := &h.W{}
			l.SetupRemoteDevice("ski1", wr)
			w.rdev = l.RemoteDeviceForSki("ski1")
			feat := func(ent []uint, fid uint, ft model.FeatureTypeType, role model.RoleType) model.NodeManagementDetailedDiscoveryFeatureInformationType {
				return model.NodeManagementDetailedDiscoveryFeatureInformationType{Description: &model.NetworkManagementFeatureDescriptionDataType{FeatureAddress: h.FA("dev1", ent, fid), FeatureType: &ft, Role: &role}}
			}
			ent := func(e []uint, et model.EntityTypeType) model.NodeManagementDetailedDiscoveryEntityInformationType {
				return model.NodeManagementDetailedDiscoveryEntityInformationType{Description: &model.NetworkManagementEntityDescriptionDataType{EntityAddress: &model.EntityAddressType{Device: util.Ptr(model.AddressDeviceType("dev1")), Entity: spine.NewAddressEntityType(e)}, EntityType: &et}}
			}
			dd := &model.NodeManagementDetailedDiscoveryDataType{
				DeviceInformation: &model.NodeManagementDetailedDiscoveryDeviceInformationType{Description: &model.NetworkManagementDeviceDescriptionDataType{DeviceAddress: &model.DeviceAddressType{Device: util.Ptr(model.AddressDeviceType("dev1"))}}},
				EntityInformation: []model.NodeManagementDetailedDiscoveryEntityInformationType{ent([]uint{0}, model.EntityTypeTypeDeviceInformation), ent([]uint{1}, model.EntityTypeTypeEVSE)},
				FeatureInformation: []model.NodeManagementDetailedDiscoveryFeatureInformationType{
					feat([]uint{0}, 0, model.FeatureTypeTypeNodeManagement, model.RoleTypeSpecial),
					feat([]uint{1}, 1, model.FeatureTypeTypeGeneric, model.RoleTypeServer)},
			}
			cl := model.CmdClassifierTypeReply
			w.send(model.DatagramType{Header: model.HeaderType{AddressSource: h.FA("dev1", []uint{0}, 0), AddressDestination: h.FA("HEMS", []uint{0}, 0), MsgCounter: util.Ptr(model.MsgCounterType(1)), MsgCounterReference: util.Ptr(model.MsgCounterType(1)), CmdClassifier: &cl}, Payload: model.PayloadType{Cmd: []model.CmdType{{NodeManagementDetailedDiscoveryData: dd}}}})
			w.rfeat = w.rdev.FeatureByAddress(h.FA("dev1", []uint{1}, 1))
			if w.rfeat == nil {
				panic("remote feature was not created by the discovery reply")
			}
			w.ctr = 10
			w.c.byValue = true
			h.Settle(w.base)
		}
	default:
		panic("bad path in " + op)
	}
}

func (w *updWorld) teardown() {
	if w.local != nil && w.rdev != nil {
		w.local.RemoveRemoteDeviceConnection("ski1")
	}
	w.local, w.lfeat, w.rdev, w.rfeat = nil, nil, nil, nil
}

func (w *updWorld) send(d model.DatagramType) (pan any) {
	b, err := json.Marshal(model.Datagram{Datagram: d})
	if err != nil {
		panic(err)
	}
	return h.Recover(func() { _, _ = w.rdev.HandleSpineMesssage(b) })
}

func (w *updWorld) histData() any {
	switch w.path {
	case "fd":
		return w.fdat.DataCopyAny()
	case "local":
		return w.lfeat.DataCopy(model.FunctionType(w.s.Fct))
	}
	return w.rfeat.DataCopy(model.FunctionType(w.s.Fct))
}

func (w *updWorld) histRead() updList {
	l, ok := w.c.decAny(w.s, w.histData())
	if !ok {
		panic("DataCopy returned something that is not the list type")
	}
	return l
}

// perform one update on the current store; returns ok (no error), the panic value and its stack
func (w *updWorld) histApply(remote, persist bool, items updList, fp, fd updFilter) (ok bool, pan any, stack string) {
	s := w.s
	nw := w.c.list(s, items)
	fpv, fdv := w.c.filter(s, false, fp), w.c.filter(s, true, fd)
	fct := model.FunctionType(s.Fct)
	run := func(f func()) {
		defer func() {
			if pan = recover(); pan != nil {
				stack = string(debug.Stack())
			}
		}()
		f()
	}
	switch w.path {
	case "fd":
		run(func() {
			_, err := w.fdat.UpdateDataAny(remote, persist, nw.Interface(), fpv, fdv)
			ok = err == nil
		})
	case "local":
		run(func() {
			err := w.lfeat.UpdateData(fct, nw.Interface(), fpv, fdv)
			ok = err == nil
		})
	case "reply", "notify":
		cmd := model.CmdType{}
		reflect.ValueOf(&cmd).Elem().FieldByName(s.CmdField).Set(nw)
		if fpv != nil {
			cmd.Filter = append(cmd.Filter, *fpv)
		}
		if fdv != nil {
			cmd.Filter = append(cmd.Filter, *fdv)
		}
		if len(cmd.Filter) > 0 {
			cmd.Function = util.Ptr(fct)
		}
		w.ctr++
		cls := model.CmdClassifierTypeNotify
		hd := model.HeaderType{AddressSource: h.FA("dev1", []uint{1}, 1), AddressDestination: h.FA("HEMS", []uint{1}, 2), MsgCounter: util.Ptr(model.MsgCounterType(w.ctr)), CmdClassifier: &cls}
		if w.path == "reply" {
			cls = model.CmdClassifierTypeReply
			hd.MsgCounterReference = util.Ptr(model.MsgCounterType(w.ctr - 1))
		}
		b, err := json.Marshal(model.Datagram{Datagram: model.DatagramType{Header: hd, Payload: model.PayloadType{Cmd: []model.CmdType{cmd}}}})
		if err != nil {
			panic(err)
		}
		run(func() {
			_, err := w.rdev.HandleSpineMesssage(b)
			ok = err == nil // errors of the update go to the peer as a result message, not to the caller
		})
		h.Settle(w.base)
	}
	return
}

func (w *updWorld) runStep(op string, done []string) bool {
	f := strings.Fields(op)
	a := updArgs(f[1:])
	s := w.s
	remote, persist := a["r"] == "1", a["p"] == "1"
	if w.path != "fd" {
		remote, persist = false, true
	}
	items := updParseList(a["new"])
	fp, fd := updParseFilter(a["fp"]), updParseFilter(a["fd"])
	shape := updShapeName(fp, fd, items)
	old := w.histRead()
	fast := fp.kind == 'N' && fd.kind == 'N' && persist
	line := fmt.Sprintf("store r=%d p=%d old=%s new=%s fp=%s fd=%s", h.B2i(remote), h.B2i(persist), updListS(old), a["new"], a["fp"], a["fd"])
	want := w.ask(s, line)
	ok, pan, stack := w.histApply(remote, persist, items, fp, fd)
	notifyPanic := false
	if pan != nil && w.path == "local" && strings.Contains(stack, "NotifyOrWriteCmdType") {
		// the update itself went through; building the notification panicked
		notifyPanic = true
		w.r.SpecFail("C02/local-update-delete-filter-panics", done, fmt.Sprintf("FeatureLocal.UpdateData(%s) with a delete filter and a partial selector panics while building the notification: %v", s.Fct, pan))
		pan, ok = nil, true
	}
	impl := map[string]string{}
	keys := []string{"ok", "store"}
	if w.path == "reply" || w.path == "notify" {
		keys = []string{"store"}
	}
	var after updList
	if pan != nil {
		impl["panic"] = "1"
	} else {
		after = w.histRead()
		impl["ok"], impl["store"] = strconv.Itoa(h.B2i(ok)), updListS(after)
	}
	_ = notifyPanic
	outcome := "panic"
	if pan == nil {
		outcome = "ok=" + impl["ok"]
	}
	kind := shape + ":" + outcome
	if fast {
		kind = "full:" + outcome
	}
	nontrivial := ""
	if pan == nil && updListS(after) != updListS(old) {
		nontrivial = w.s.Name + " " + w.path + " " + updListS(old) + " " + op
		w.stats["changed"]++
	}
	w.r.Eval(kind, nontrivial)
	w.stats["path:"+w.path]++
	if strings.HasPrefix(want, "panic") {
		w.stats["model-panic:"+strings.TrimPrefix(want, "panic ")]++
	}
	agree := updSameObs(impl, updObsFields(want), keys)
	if !agree {
		w.r.Mismatch(done, updObsS(impl, keys), want, fmt.Sprintf("%s path of %s vs Spine.updateStore (old=%s)", w.path, s.Name, updListS(old)))
	}
	if pan != nil {
		return false // the store may be half-written; end this history
	}
	if !remote {
		w.twin(done, old, items, fp, fd)
	}
	if !remote && persist {
		if !ok {
			w.r.SpecFail("C02/local-update-refused:"+shape, done, s.Name+": a local update reported failure")
		}
		if fast {
			shape = "full"
		}
		w.judge(done, shape, old, items, fp, fd, after, fast, func() (updList, bool) {
			_, pan, stack := w.histApply(remote, persist, items, fp, fd)
			if pan != nil && !(w.path == "local" && strings.Contains(stack, "NotifyOrWriteCmdType")) {
				return nil, false
			}
			return w.histRead(), true
		})
	}
	return agree // a disagreement ends this history (after the monitor has judged the step)
}

// runUpdOps executes an op list; returns false when a mismatch ended it
func (w *updWorld) runUpdOps(ops []string) bool {
	var done []string
	for _, op := range ops {
		done = append(done, op)
		switch strings.Fields(op)[0] {
		case "case":
			if !w.runCase(op, []string{op}) {
				return false
			}
		case "hist":
			done = []string{op}
			w.startHist(op)
		case "step":
			if w.s == nil {
				panic("step without hist")
			}
			if !w.runStep(op, done) {
				return false
			}
		default:
			panic("bad op " + op)
		}
	}
	w.r.Traces++
	return true
}

// ---------------------------------------------------------------- generators

type updGen struct {
	rng *rand.Rand
	s   *h.UpdShape
}

func (g updGen) val(i int) int {
	switch {
	case g.s.ItemT.Field(i).Type.Elem().Size() == 0:
		return 0
	case g.s.Kinds[i] == "bool":
		return g.rng.Intn(2)
	}
	return g.rng.Intn(3)
}

func (g updGen) isKey(i int) bool {
	for _, k := range g.s.Keys {
		if k.Idx == i {
			return true
		}
	}
	return false
}

// an item with the given key values (nil = well-formed random key), other fields random
func (g updGen) item(key []int, fill float64) updItem {
	a := make(updItem, g.s.N)
	for i := range a {
		a[i] = -1
		if !g.isKey(i) && g.rng.Float64() < fill {
			a[i] = g.val(i)
		}
	}
	if g.s.Flag >= 0 {
		a[g.s.Flag] = []int{-1, 0, 1, 1, 1}[g.rng.Intn(5)]
	}
	for j, k := range g.s.Keys {
		if key != nil {
			a[k.Idx] = key[j]
		}
	}
	return a
}

func (g updGen) randKey() []int {
	k := make([]int, len(g.s.Keys))
	for i := range k {
		k[i] = g.rng.Intn(4)
		if len(g.s.Keys) > 1 && i > 0 {
			k[i] = g.rng.Intn(2)
		}
	}
	return k
}

// n items with pairwise distinct complete identifiers (fewer if the domain is exhausted)
func (g updGen) distinct(n int, fill float64, sorted bool) updList {
	seen := map[string]bool{}
	var keys [][]int
	for tries := 0; len(keys) < n && tries < 40; tries++ {
		k := g.randKey()
		ks := fmt.Sprint(k)
		if !seen[ks] {
			seen[ks] = true
			keys = append(keys, k)
		}
	}
	if sorted {
		sort.Slice(keys, func(i, j int) bool {
			for x := range keys[i] {
				if keys[i][x] != keys[j][x] {
					return keys[i][x] < keys[j][x]
				}
			}
			return false
		})
	}
	var l updList
	for _, k := range keys {
		l = append(l, g.item(k, fill))
	}
	return l
}

// any list: missing identifiers, duplicates
func (g updGen) wild(n int) updList {
	var l updList
	for i := 0; i < n; i++ {
		it := g.item(g.randKey(), 0.5)
		for _, k := range g.s.Keys {
			if g.rng.Intn(6) == 0 {
				it[k.Idx] = -1
			}
		}
		l = append(l, it)
	}
	return l
}

func (g updGen) selector(old updList, wellFormed bool) updItem {
	if g.s.SelT == nil {
		return nil
	}
	sel := make(updItem, len(g.s.SelMap))
	for j := range sel {
		sel[j] = -1
	}
	var cands []int
	for j, k := range g.s.SelKind {
		if k == h.SelEq || !wellFormed {
			cands = append(cands, j)
		}
	}
	if len(cands) == 0 {
		if wellFormed {
			return sel // the empty selector matches everything
		}
		return nil
	}
	n := 1
	if g.rng.Intn(4) == 0 {
		n = 2
	}
	if !wellFormed && g.rng.Intn(8) == 0 {
		n = 0
	}
	for x := 0; x < n; x++ {
		j := cands[g.rng.Intn(len(cands))]
		if wellFormed && x == 0 && g.rng.Intn(4) > 0 {
			// prefer an identifier field
			for _, jj := range cands {
				if i := g.s.SelMap[jj]; i >= 0 && i < g.s.N && g.isKey(i) && g.rng.Intn(2) == 0 {
					j = jj
					break
				}
			}
		}
		v := g.rng.Intn(4)
		if i := g.s.SelMap[j]; i >= 0 && i < g.s.N {
			v = g.val(i)
			if g.isKey(i) {
				v = g.rng.Intn(4)
			}
			if len(old) > 0 && g.rng.Intn(4) > 0 {
				if w := old[g.rng.Intn(len(old))][i]; w >= 0 {
					v = w
				}
			}
		}
		if g.s.SelKind[j] == h.SelNever {
			v += 1000 // a value of another type: never equal to the item's
		}
		sel[j] = v
	}
	return sel
}

func (g updGen) elements(wellFormed bool) updItem {
	if g.s.ElT == nil {
		return nil
	}
	el := make(updItem, g.s.ElN)
	for j := range el {
		el[j] = -1
	}
	n := 1 + g.rng.Intn(2)
	for x := 0; x < n; x++ {
		j := g.rng.Intn(len(el))
		i := -1
		if j < len(g.s.ElMap) {
			i = g.s.ElMap[j]
		}
		if wellFormed && (i < 0 || g.isKey(i)) {
			continue
		}
		el[j] = 0
	}
	return el
}

// one update of the given filter shape against `old`
func (g updGen) update(shape string, old updList, wellFormed bool) (items updList, fp, fd updFilter) {
	fp, fd = updFilter{kind: 'N'}, updFilter{kind: 'N'}
	data := func() updList {
		if !wellFormed {
			return g.wild(g.rng.Intn(4))
		}
		switch g.rng.Intn(6) {
		case 0:
			return updList{g.item(nil, 0.6)} // identifier-less
		case 1:
			return nil
		}
		l := g.distinct(1+g.rng.Intn(3), 0.5, g.rng.Intn(3) > 0)
		// prefer identifiers that exist
		for i := range l {
			if len(old) > 0 && g.rng.Intn(2) == 0 {
				src := old[g.rng.Intn(len(old))]
				dup := false
				for _, k := range g.s.Keys {
					if src[k.Idx] < 0 {
						dup = true
					}
				}
				for j := range l {
					same := j != i
					for _, k := range g.s.Keys {
						if l[j][k.Idx] != src[k.Idx] {
							same = false
						}
					}
					dup = dup || same
				}
				if !dup {
					for _, k := range g.s.Keys {
						l[i][k.Idx] = src[k.Idx]
					}
				}
			}
		}
		return l
	}
	one := func() updList {
		// the single item of a selector update: no identifiers, or (ill-formed) anything
		if !wellFormed && g.rng.Intn(3) == 0 {
			return g.wild(g.rng.Intn(3))
		}
		return updList{g.item(nil, 0.6)}
	}
	delF := func(kind int) updFilter {
		f := updFilter{kind: 'F'}
		if kind == 0 || kind == 2 {
			f.sel = g.selector(old, wellFormed)
		}
		if kind == 1 || kind == 2 {
			f.el = g.elements(wellFormed)
		}
		if f.sel == nil && f.el == nil {
			f.kind = 'E'
		}
		return f
	}
	switch shape {
	case "none":
		items = data()
	case "partial":
		items = data()
		fp.kind = 'E'
	case "partial+selector":
		items = one()
		fp = updFilter{kind: 'F', sel: g.selector(old, wellFormed)}
		if fp.sel == nil {
			fp.kind = 'E'
		}
	case "delete+selector":
		fd = delF(0)
		if g.rng.Intn(3) == 0 {
			fp.kind = 'E'
		}
	case "delete+elements":
		fd = delF(1)
		if g.rng.Intn(3) == 0 {
			fp.kind = 'E'
		}
	case "delete+selector+elements":
		fd = delF(2)
		if g.rng.Intn(3) == 0 {
			fp.kind = 'E'
		}
	case "delete+partial":
		fd = delF(g.rng.Intn(3))
		if g.rng.Intn(3) == 0 {
			items = one()
			fp = updFilter{kind: 'F', sel: g.selector(old, wellFormed)}
			if fp.sel == nil {
				fp.kind = 'E'
			}
		} else {
			items = data()
			fp.kind = 'E'
			if len(items) == 0 {
				items = g.distinct(1, 0.5, true)
			}
		}
	case "partial+elements":
		items = one()
		fp = updFilter{kind: 'F', el: g.elements(false)}
		if fp.el == nil {
			fp.kind = 'E'
		}
	}
	return
}

var updShapesAll = []string{"none", "partial", "partial+selector", "delete+selector", "delete+elements", "delete+selector+elements", "delete+partial"}

func (g updGen) stored(wellFormed bool) updList {
	if !wellFormed {
		return g.wild(g.rng.Intn(6))
	}
	return g.distinct(g.rng.Intn(6), 0.5, g.rng.Intn(5) > 0)
}

func (g updGen) caseOp(shape string) string {
	wellFormed := g.rng.Intn(10) < 7
	old := g.stored(wellFormed)
	items, fp, fd := g.update(shape, old, wellFormed)
	remote, persist := g.rng.Intn(10) < 3, g.rng.Intn(10) < 8
	return fmt.Sprintf("case %s direct r=%d p=%d old=%s new=%s fp=%s fd=%s", g.s.Name, h.B2i(remote), h.B2i(persist), updListS(old), updListS(items), updFilterS(fp), updFilterS(fd))
}

// a history: a full update first (mostly), then n updates; `known` is the generator's own idea of the
// stored data, used only to aim selectors and identifiers at existing items
func (g updGen) history(path string, n int) []string {
	ops := []string{fmt.Sprintf("hist %s %s", g.s.Name, path)}
	known := updList{}
	k := updSpecKV{g.s}
	for i := 0; i < n; i++ {
		wellFormed := g.rng.Intn(10) < 8
		shape := updShapesAll[g.rng.Intn(len(updShapesAll))]
		if i == 0 && g.rng.Intn(4) > 0 {
			shape = "none"
		}
		items, fp, fd := g.update(shape, known, wellFormed)
		remote, persist := false, true
		if path == "fd" {
			remote, persist = g.rng.Intn(10) < 2, g.rng.Intn(10) < 9
		}
		if shape == "none" && persist && wellFormed && g.rng.Intn(3) > 0 {
			// a full update: complete distinct identifiers, mostly ordered
			items = g.distinct(g.rng.Intn(5), 0.5, g.rng.Intn(4) > 0)
		}
		ops = append(ops, fmt.Sprintf("step r=%d p=%d new=%s fp=%s fd=%s", h.B2i(remote), h.B2i(persist), updListS(items), updFilterS(fp), updFilterS(fd)))
		// follow the SPEC loosely to keep `known` close to the store
		if persist && !remote {
			if fp.kind == 'N' && fd.kind == 'N' {
				known = updCloneList(items)
			} else if k.undecided(known, items, fp, fd) == "" {
				m := k.apply(known, items, fp, fd)
				var ks []string
				for key := range m {
					ks = append(ks, key)
				}
				sort.Strings(ks)
				var nk updList
				for _, key := range ks {
					nk = append(nk, m[key])
				}
				known = nk
			}
		}
	}
	return ops
}

// ---- bounded exhaustive enumeration (thorough tier): every (stored, update) pair of lists of length <= 2 over a
// small item universe (identifier values incl. absent, one payload field present/absent, write flag), under
// every filter variant the shape offers; capped per type by a fixed stride so that the tier stays in budget.

func updEnumerate(s *h.UpdShape, fullUpTo, maxCases int) (ops []string, total int) {
	isKey := map[int]bool{}
	for _, k := range s.Keys {
		isKey[k.Idx] = true
	}
	payload := -1
	for i := 0; i < s.N; i++ {
		if !isKey[i] && i != s.Flag && s.ItemT.Field(i).Type.Elem().Size() > 0 {
			payload = i
			break
		}
	}
	// key tuples: first key in {-,0,1,2} for single-key types, {-,0,1} x {0,1}... for multi-key types
	tuples := [][]int{{}}
	for j := range s.Keys {
		vals := []int{-1, 0, 1, 2}
		if len(s.Keys) > 1 {
			vals = []int{-1, 0, 1}
			if j > 0 {
				vals = []int{0, 1}
			}
		}
		var nt [][]int
		for _, t := range tuples {
			for _, v := range vals {
				nt = append(nt, append(append([]int{}, t...), v))
			}
		}
		tuples = nt
	}
	var universe []updItem
	for _, t := range tuples {
		pv := []int{-1}
		if payload >= 0 {
			pv = []int{-1, 0}
		}
		for _, p := range pv {
			it := make(updItem, s.N)
			for i := range it {
				it[i] = -1
			}
			for j, k := range s.Keys {
				it[k.Idx] = t[j]
			}
			if payload >= 0 {
				it[payload] = p
			}
			if s.Flag >= 0 {
				it[s.Flag] = 1
			}
			universe = append(universe, it)
			if s.Flag >= 0 && p == 0 && len(universe)%4 == 0 {
				// a few items that refuse remote writes
				it2 := append(updItem{}, it...)
				it2[s.Flag] = 0
				universe = append(universe, it2)
			}
		}
	}
	var lists []updList
	lists = append(lists, nil)
	for _, a := range universe {
		lists = append(lists, updList{a})
	}
	for _, a := range universe {
		for _, b := range universe {
			lists = append(lists, updList{a, b})
		}
	}
	// filter variants
	type fv struct{ fp, fd updFilter }
	none := updFilter{kind: 'N'}
	variants := []fv{{none, none}, {updFilter{kind: 'E'}, none}}
	var sels []updItem
	for j, k := range s.SelKind {
		if k == h.SelIgnored && len(sels) > 0 {
			continue
		}
		for _, v := range []int{0, 1} {
			sel := make(updItem, len(s.SelMap))
			for x := range sel {
				sel[x] = -1
			}
			sel[j] = v
			if k == h.SelNever {
				sel[j] = v + 1000
			}
			sels = append(sels, sel)
		}
		if len(sels) >= 4 {
			break
		}
	}
	var el updItem
	if s.ElT != nil && payload >= 0 {
		el = make(updItem, s.ElN)
		for x := range el {
			el[x] = -1
		}
		for j, i := range s.ElMap {
			if i == payload {
				el[j] = 0
			}
		}
	}
	for _, sel := range sels {
		variants = append(variants, fv{updFilter{kind: 'F', sel: sel}, none}, fv{none, updFilter{kind: 'F', sel: sel}})
	}
	if el != nil {
		variants = append(variants, fv{none, updFilter{kind: 'F', el: el}})
		if len(sels) > 0 {
			variants = append(variants, fv{none, updFilter{kind: 'F', sel: sels[0], el: el}}, fv{updFilter{kind: 'E'}, updFilter{kind: 'F', sel: sels[0], el: el}})
		}
	}
	if len(sels) > 0 {
		variants = append(variants, fv{updFilter{kind: 'E'}, updFilter{kind: 'F', sel: sels[0]}})
		if len(sels) > 1 {
			variants = append(variants, fv{updFilter{kind: 'F', sel: sels[1]}, updFilter{kind: 'F', sel: sels[0]}})
		}
	}
	remotes := []int{0}
	if s.Flag >= 0 {
		remotes = []int{0, 1}
	}
	total = len(lists) * len(lists) * len(variants) * len(remotes)
	stride := 1
	if total > fullUpTo {
		stride = (total + maxCases - 1) / maxCases
		// a stride coprime to the inner loop sizes spreads the sample over all dimensions
		for stride%2 == 0 || stride%3 == 0 || stride%5 == 0 || stride%7 == 0 {
			stride++
		}
	}
	n := 0
	for _, old := range lists {
		for _, nw := range lists {
			for _, v := range variants {
				for _, r := range remotes {
					n++
					if n%stride != 0 {
						continue
					}
					ops = append(ops, fmt.Sprintf("case %s direct r=%d p=1 old=%s new=%s fp=%s fd=%s", s.Name, r, updListS(old), updListS(nw), updFilterS(v.fp), updFilterS(v.fd)))
				}
			}
		}
	}
	return ops, total
}

var updRepresentative = []string{
	"LoadControlLimitListDataType",                      // one numeric key, write flag, struct fields
	"DeviceConfigurationKeyValueListDataType",           // one key, write flag last
	"SetpointListDataType",                              // write flag in the middle, many struct fields
	"ElectricalConnectionPermittedValueSetListDataType", // two keys, slice field
	"ElectricalConnectionCharacteristicListDataType",    // three keys
	"MeasurementListDataType",                           // numeric + string key
	"NetworkManagementEntityDescriptionListDataType",    // struct key
	"LoadControlEventListDataType",                      // key is the second field, selector with an ignored field
	"TariffListDataType",                                // selector field naming a slice field (panics)
	"HvacSystemFunctionListDataType",                    // selector with a slice-typed field only (ignored)
	"SetpointDescriptionListDataType",                   // three keys, selector fields of other types, no elements
	"NodeManagementDestinationListDataType",             // no identifier at all
}

// updCheckClassification ties the classification of selector fields to both sides before anything is generated:
// (1) the model's selMap as the driver derives it (Spine.Tables.selMapFor of the type facts and the probed flags) must be
// the one Resolve computed for the generator and the monitor; (2) the real FilterData.SelectorMatch, called on codec
// values, must behave for every selector field of every list type as its SelKind says: same value / other value /
// item field nil -> match, no match or panic.
func updCheckClassification(w *updWorld, shapes []*h.UpdShape) {
	outcome := func(f func() bool) string {
		res := ""
		if pan := h.Recover(func() { res = map[bool]string{true: "match", false: "no-match"}[f()] }); pan != nil {
			return "panic"
		}
		return res
	}
	kinds := map[string]int{}
	for _, s := range shapes {
		if s.SelT == nil {
			continue
		}
		if got, want := w.ask(s, "selmap?"), "selmap "+strings.ReplaceAll(updItemS(updItem(s.SelMap)), "-1", "-"); got != want {
			w.r.Mismatch([]string{s.Line()}, want, got, "selMap of "+s.Name+": harness (Resolve) vs driver (Spine.Tables.selMapFor)")
		}
		for j, kind := range s.SelKind {
			kinds[s.SelType[j]+"->"+kind]++
			if s.SelT.Field(j).Type.Kind() != reflect.Ptr && s.SelT.Field(j).Type.Kind() != reflect.Slice {
				continue
			}
			itemField := -1
			if f, ok := s.ItemT.FieldByName(s.SelNames[j]); ok {
				itemField = f.Index[0]
			}
			c := newUpdCodec()
			sel := make(updItem, len(s.SelType))
			for x := range sel {
				sel[x] = -1
			}
			sel[j] = 1
			ft := c.filter(s, false, updFilter{kind: 'F', sel: sel})
			fd, err := ft.Data()
			if err != nil {
				panic(err)
			}
			mk := func(v int) reflect.Value {
				a := make(updItem, s.N)
				for x := range a {
					a[x] = -1
				}
				if itemField >= 0 {
					a[itemField] = v
				}
				it := c.item(s, a)
				p := reflect.New(s.ItemT)
				p.Elem().Set(it)
				return p
			}
			same, other, absent := mk(1), mk(2), mk(-1)
			got := outcome(func() bool { return fd.SelectorMatch(same.Interface()) }) + "," +
				outcome(func() bool { return fd.SelectorMatch(other.Interface()) }) + "," +
				outcome(func() bool { return fd.SelectorMatch(absent.Interface()) })
			onNil := "no-match"
			if updFacts.NilPanics {
				onNil = "panic"
			}
			want := map[string]string{
				h.SelIgnored:       "match,match,match",
				h.SelEq:            "match,no-match," + onNil,
				h.SelNever:         "no-match,no-match," + onNil,
				h.SelPanics:        "panic,panic,panic",
				h.SelAbsent:        "no-match,no-match,no-match",
				h.SelPresentPanics: "panic,panic,no-match",
			}[kind]
			if s.ItemT.NumField() > 0 && itemField >= 0 && s.ItemT.Field(itemField).Type.Elem().Size() == 0 && kind == h.SelEq {
				want = "match,match," + onNil // a zero-size value has one value only
			}
			if got != want {
				w.r.Mismatch([]string{fmt.Sprintf("SelectorMatch of %s.%s on an item with the field = same value, other value, nil", s.SelField, s.SelNames[j])},
					got, want, fmt.Sprintf("selector field %s.%s is classified %s/%s on this tree (nilPanics=%v structDeep=%v) but the real SelectorMatch behaves differently", s.SelField, s.SelNames[j], s.SelType[j], kind, updFacts.NilPanics, updFacts.StructDeep))
			}
			w.r.Eval("selector-field-probe", "")
		}
	}
	w.r.Info["selector_field_classification"] = kinds
}

// updIdentityProbes replays on the real code the kernel-checked statements of lean/Spine/HashKey.lean about the
// identity the code computes (hashKey): the collisions that exist (items whose identifier is incomplete — the hash
// is the longest present prefix — and the degenerate address without / with an empty device part) and a sample of
// the pairs proved distinct. Each probe merges [a] with [complete, b] through the real UpdateList and tells from the
// length of the result whether a and b were taken for one item.
func updIdentityProbes(w *updWorld) map[string]string {
	obs := map[string]string{}
	u := func(v uint) *model.ElectricalConnectionIdType { x := model.ElectricalConnectionIdType(v); return &x }
	pid := func(v uint) *model.ElectricalConnectionParameterIdType {
		x := model.ElectricalConnectionParameterIdType(v)
		return &x
	}
	cid := func(v uint) *model.ElectricalConnectionCharacteristicIdType {
		x := model.ElectricalConnectionCharacteristicIdType(v)
		return &x
	}
	mergeChar := func(a, b model.ElectricalConnectionCharacteristicDataType) int {
		st := &model.ElectricalConnectionCharacteristicListDataType{ElectricalConnectionCharacteristicData: []model.ElectricalConnectionCharacteristicDataType{a}}
		first := model.ElectricalConnectionCharacteristicDataType{ElectricalConnectionId: u(9), ParameterId: pid(9), CharacteristicId: cid(9)}
		nw := &model.ElectricalConnectionCharacteristicListDataType{ElectricalConnectionCharacteristicData: []model.ElectricalConnectionCharacteristicDataType{first, b}}
		st.UpdateList(false, true, nw, model.NewFilterTypePartial(), nil)
		return len(st.ElectricalConnectionCharacteristicData)
	}
	same := func(n int) string { return map[bool]string{true: "ONE item", false: "two items"}[n == 2] }
	ch := func(a, b, c *uint) model.ElectricalConnectionCharacteristicDataType {
		var it model.ElectricalConnectionCharacteristicDataType
		if a != nil {
			it.ElectricalConnectionId = u(*a)
		}
		if b != nil {
			it.ParameterId = pid(*b)
		}
		if c != nil {
			it.CharacteristicId = cid(*c)
		}
		return it
	}
	p := func(v uint) *uint { return &v }
	obs["(1,-,3) vs (1,-,4): incomplete identifiers with the same present prefix"] = same(mergeChar(ch(p(1), nil, p(3)), ch(p(1), nil, p(4))))
	obs["(-,2,3) vs (-,5,6): identifiers without the first part"] = same(mergeChar(ch(nil, p(2), p(3)), ch(nil, p(5), p(6))))
	obs["(1,2,-) vs (1,2,3): a prefix and its completion"] = same(mergeChar(ch(p(1), p(2), nil), ch(p(1), p(2), p(3))))
	obs["(12,3,4) vs (1,23,4): decimal texts that concatenate alike"] = same(mergeChar(ch(p(12), p(3), p(4)), ch(p(1), p(23), p(4))))
	obs["(1,2,3) vs (1,2,3): the same complete identifier"] = same(mergeChar(ch(p(1), p(2), p(3)), ch(p(1), p(2), p(3))))
	// measurement: numeric + string part
	mergeMeas := func(a, b model.MeasurementDataType) int {
		st := &model.MeasurementListDataType{MeasurementData: []model.MeasurementDataType{a}}
		first := model.MeasurementDataType{MeasurementId: util.Ptr(model.MeasurementIdType(9)), ValueType: util.Ptr(model.MeasurementValueTypeType("x"))}
		nw := &model.MeasurementListDataType{MeasurementData: []model.MeasurementDataType{first, b}}
		st.UpdateList(false, true, nw, model.NewFilterTypePartial(), nil)
		return len(st.MeasurementData)
	}
	ms := func(id uint, vt *string) model.MeasurementDataType {
		it := model.MeasurementDataType{MeasurementId: util.Ptr(model.MeasurementIdType(id))}
		if vt != nil {
			it.ValueType = util.Ptr(model.MeasurementValueTypeType(*vt))
		}
		return it
	}
	sp := func(v string) *string { return &v }
	obs["(1,\"\") vs (1,-): empty string part vs absent part"] = same(mergeMeas(ms(1, sp("")), ms(1, nil)))
	obs["(1,\"2|x\") vs (1,\"2\"): string part containing the separator"] = same(mergeMeas(ms(1, sp("2|x")), ms(1, sp("2"))))
	obs["(1,\"|\") vs (1,\"\"): separator vs empty"] = same(mergeMeas(ms(1, sp("|")), ms(1, sp(""))))
	// device description: struct key
	mergeDev := func(a, b *model.DeviceAddressType) int {
		st := &model.NetworkManagementDeviceDescriptionListDataType{NetworkManagementDeviceDescriptionData: []model.NetworkManagementDeviceDescriptionDataType{{DeviceAddress: a, Label: util.Ptr(model.LabelType("a"))}}}
		first := model.NetworkManagementDeviceDescriptionDataType{DeviceAddress: &model.DeviceAddressType{Device: util.Ptr(model.AddressDeviceType("zzz"))}}
		nw := &model.NetworkManagementDeviceDescriptionListDataType{NetworkManagementDeviceDescriptionData: []model.NetworkManagementDeviceDescriptionDataType{first, {DeviceAddress: b, Label: util.Ptr(model.LabelType("b"))}}}
		st.UpdateList(false, true, nw, model.NewFilterTypePartial(), nil)
		return len(st.NetworkManagementDeviceDescriptionData)
	}
	obs["deviceAddress{} vs deviceAddress{device:\"\"}: absent vs empty device part (degenerate addresses)"] = same(mergeDev(&model.DeviceAddressType{}, &model.DeviceAddressType{Device: util.Ptr(model.AddressDeviceType(""))}))
	obs["no deviceAddress vs deviceAddress{}: no identifier vs an address without device part"] = same(mergeDev(nil, &model.DeviceAddressType{}))
	obs["deviceAddress{device:\"d\"} vs deviceAddress{device:\"d|\"}"] = same(mergeDev(&model.DeviceAddressType{Device: util.Ptr(model.AddressDeviceType("d"))}, &model.DeviceAddressType{Device: util.Ptr(model.AddressDeviceType("d|"))}))
	// what lean/Spine/HashKey.lean proves / refutes
	want := map[string]string{
		"(1,-,3) vs (1,-,4): incomplete identifiers with the same present prefix":                           "ONE item",
		"(-,2,3) vs (-,5,6): identifiers without the first part":                                            "ONE item",
		"(1,2,-) vs (1,2,3): a prefix and its completion":                                                   "two items",
		"(12,3,4) vs (1,23,4): decimal texts that concatenate alike":                                        "two items",
		"(1,2,3) vs (1,2,3): the same complete identifier":                                                  "ONE item",
		"(1,\"\") vs (1,-): empty string part vs absent part":                                               "two items",
		"(1,\"2|x\") vs (1,\"2\"): string part containing the separator":                                    "two items",
		"(1,\"|\") vs (1,\"\"): separator vs empty":                                                         "two items",
		"deviceAddress{} vs deviceAddress{device:\"\"}: absent vs empty device part (degenerate addresses)": "ONE item",
		"no deviceAddress vs deviceAddress{}: no identifier vs an address without device part":              "ONE item",
		"deviceAddress{device:\"d\"} vs deviceAddress{device:\"d|\"}":                                       "two items",
	}
	for k, v := range obs {
		w.r.Eval("identity-probe", "")
		if want[k] != v {
			w.r.Mismatch([]string{"identity probe: " + k}, v, want[k], "the identity the real hashKey computes differs from what lean/Spine/HashKey.lean proves for this pair")
		}
	}
	return obs
}

// ---------------------------------------------------------------- the test

func TestUpdate(t *testing.T) {
	r := h.NewReport("update", "every list type implementing model.Updater x the seven filter shapes x random (stored, update) pairs through the per-type UpdateList (result, success, stored and in-place effects, panics compared with Spine.updateList), then histories of updates through spine.FunctionData, FeatureLocal.UpdateData and reply/notify datagrams compared with Spine.updateStore; SPEC monitor Spec.KV on every local persisting update; non-trivial = a case or step that changed the stored data (distinct by text)")
	defer r.Write()
	d := h.StartDriver("drv_upd")
	defer d.Close()
	// select the member of the engine family that matches the tree under test (defect flags of C04 / C05 sites)
	cfgLine, engineFlags := updProbeEngineFlags()
	if ans := d.Ask(cfgLine); ans != "cfg-ok" {
		t.Fatalf("driver refused %q: %s", cfgLine, ans)
	}
	r.Info["engine_member"] = cfgLine
	r.Info["engine_flags_probed"] = engineFlags
	deep, deepDetail := updProbeStructDeep()
	updFacts = h.UpdSelFacts{NilPanics: engineFlags["selNilPanics"], StructDeep: deep}
	if ans := d.Ask(fmt.Sprintf("selfacts %d", h.B2i(deep))); ans != "selfacts-ok" {
		t.Fatalf("driver refused selfacts: %s", ans)
	}
	r.SetFlag("selNilPanics", updFacts.NilPanics, nil, "selected item field nil or not a pointer: SelectorMatch panics (on) / no match (off); probed by update_flags_test.go")
	r.SetFlag("structDeep", deep, nil, deepDetail)
	w := newUpdWorld(r, d)
	defer w.teardown()
	w.base = h.Baseline()
	if ops := h.ReplayOps("update"); ops != nil {
		w.runUpdOps(ops)
		return
	}
	var usable []*h.UpdShape
	var skipped []string
	for _, name := range w.order {
		s := w.shapes[name]
		if s.Scalar || len(s.Problems) > 0 {
			skipped = append(skipped, fmt.Sprintf("%s %v scalar=%v", name, s.Problems, s.Scalar))
			continue
		}
		usable = append(usable, s)
	}
	updCheckClassification(w, usable)
	r.Info["identity_probes"] = updIdentityProbes(w)
	r.Info["list_types"] = len(w.order)
	r.Info["list_types_driven"] = len(usable)
	r.Info["list_types_skipped"] = skipped

	// ---- wiring (G4) facts of the tree under test, reported row by row
	rows, err := h.UpdWirings(h.ModelDir())
	if err != nil {
		panic(err)
	}
	r.Info["updatelist_methods"] = len(rows)
	static := map[string][]string{}
	for _, row := range rows {
		lf := ""
		if s := w.shapes[row.Recv]; s != nil {
			lf = s.ListField
		}
		if df := row.Defects(lf); len(df) > 0 {
			static[row.Recv] = df
		}
	}

	// ---- corpus: one witness per known finding, on every run
	for _, s := range usable {
		// every type once with a plain merge: the returned value must be the list (wiring)
		one := make(updItem, s.N)
		for i := range one {
			one[i] = -1
		}
		for _, k := range s.Keys {
			one[k.Idx] = 1
		}
		w.runUpdOps([]string{fmt.Sprintf("case %s direct r=0 p=1 old=. new=%s fp=E fd=N", s.Name, updItemS(one))})
	}
	for recv, df := range static {
		for _, x := range df {
			if x == "returns-other-than-data" && r.HasSpecFail("C02/updatelist-returns-persist-flag:"+recv) {
				continue // reproduced on the real code above, reported under that key
			}
			r.SpecFail("C02/wiring-"+x+":"+recv, []string{"wiring row of (*" + recv + ").UpdateList"}, fmt.Sprintf("the UpdateList method of %s is not wired like the others: %s", recv, x))
		}
	}
	// selectors on address-typed fields (non-comparable struct: ClientAddress of a binding entry; comparable struct
	// holding a pointer: DeviceAddress of a device description), equal to a stored item's value: panic / never a
	// match / the matching item is deleted resp. updated, depending on the SelectorMatch of the tree (probed)
	if s := w.shapes["BindingManagementEntryListDataType"]; s != nil && len(s.Problems) == 0 && s.N == 5 && len(s.SelType) == 3 {
		w.runUpdOps([]string{"case BindingManagementEntryListDataType direct r=0 p=1 old=0,1,2,-,-;1,2,1,-,- new=. fp=N fd=F:-,1,-:N"})
		w.runUpdOps([]string{"case BindingManagementEntryListDataType direct r=0 p=1 old=0,1,2,-,-;1,2,1,-,- new=-,-,-,1,- fp=F:-,-,1:N fd=N"})
		w.runUpdOps([]string{"case BindingManagementEntryListDataType direct r=0 p=1 old=0,-,2,-,-;1,2,1,-,- new=. fp=N fd=F:-,2,-:N"})
	}
	if s := w.shapes["NetworkManagementDeviceDescriptionListDataType"]; s != nil && len(s.Problems) == 0 && s.N == 11 && len(s.SelType) == 2 {
		sel := "1,-"
		if s.SelKind[0] == h.SelNever {
			sel = "1001,-"
		}
		w.runUpdOps([]string{"case NetworkManagementDeviceDescriptionListDataType direct r=0 p=1 old=0,1,-,-,-,-,-,-,-,-,-;1,2,-,-,-,-,-,-,-,-,- new=. fp=N fd=F:" + sel + ":N"})
	}
	// incomplete identifiers (DESIGN §8 C02 observation; lean/Spine/HashKey.lean c02_partial_identifier_collision): the
	// stored (1,-,3) and the incoming (1,-,2) share the hash of their present prefix; the update overwrites the stored item
	if s := w.shapes["ElectricalConnectionCharacteristicListDataType"]; s != nil && len(s.Problems) == 0 && s.N == 7 && len(s.Keys) == 3 {
		w.runUpdOps([]string{"case ElectricalConnectionCharacteristicListDataType direct r=0 p=1 old=1,-,3,-,-,0,- new=2,2,2,-,-,-,-;1,-,2,-,-,1,- fp=E fd=N"})
		w.runUpdOps([]string{"case ElectricalConnectionCharacteristicListDataType tricky r=0 p=1 old=2,0,1,-,-,0,-;1,1,0,-,-,-,- new=3,1,1,-,-,-,-;2,0,1,-,-,1,- fp=E fd=N"})
	}
	lc := "LoadControlLimitListDataType"
	w.runUpdOps([]string{"hist " + lc + " fd", "step r=0 p=1 new=2,1,-,-,-;1,1,-,-,- fp=N fd=N"})
	w.runUpdOps([]string{"hist " + lc + " local", "step r=0 p=1 new=1,1,1,-,-;2,1,0,-,- fp=N fd=N", "step r=0 p=1 new=-,-,0,-,- fp=F:1:N fd=F:2:N"})
	w.runUpdOps([]string{"hist " + lc + " local", "step r=0 p=1 new=1,1,1,-,-;2,1,0,-,- fp=N fd=N", "step r=0 p=1 new=. fp=N fd=F:2:N", "step r=0 p=1 new=. fp=N fd=F:N:-,-,0,-,-"})
	w.runUpdOps([]string{"hist " + lc + " notify", "step r=0 p=1 new=1,1,1,-,-;2,1,0,-,- fp=N fd=N", "step r=0 p=1 new=1,-,0,-,- fp=E fd=N", "step r=0 p=1 new=. fp=E fd=F:2:N"})
	w.runUpdOps([]string{"hist " + lc + " reply", "step r=0 p=1 new=1,1,1,-,-;2,1,0,-,- fp=N fd=N", "step r=0 p=1 new=-,-,0,-,- fp=F:2:N fd=N"})

	// ---- every type x every filter shape x random pairs, direct calls
	rng := h.Rng(2)
	perShape := h.Scale(40, 400)
	for _, s := range usable {
		g := updGen{rng, s}
		for _, shape := range updShapesAll {
			for i := 0; i < perShape; i++ {
				w.runUpdOps([]string{g.caseOp(shape)})
			}
		}
		for i := 0; i < perShape/4; i++ {
			w.runUpdOps([]string{g.caseOp("partial+elements")})
		}
		// the same generator with adversarial identifier values (separators, empty strings, max uint, addresses
		// whose device part contains the address punctuation): the identity the code computes (hashKey string)
		// must be the identity of the tuple
		if len(s.Keys) > 0 {
			for _, shape := range updShapesAll {
				for i := 0; i < perShape/4; i++ {
					w.runUpdOps([]string{strings.Replace(g.caseOp(shape), " direct ", " tricky ", 1)})
				}
			}
		}
	}
	// ---- histories through FunctionData (every registered type), local API and datagrams
	nHist := h.Scale(3, 24)
	for _, s := range usable {
		if !w.fns[s.Fct] {
			w.stats["not-registered-in-factory"]++
			continue
		}
		g := updGen{rng, s}
		for i := 0; i < nHist; i++ {
			w.runUpdOps(g.history("fd", 10))
		}
		if len(s.Keys) > 0 {
			w.runUpdOps(g.history("fd-tricky", 10))
		}
	}
	// JSON round trip of the codec decides which types can be driven through datagrams
	var viaJSON []*h.UpdShape
	for _, s := range usable {
		if w.genFns[s.Fct] && updJSONRoundTrips(s) {
			viaJSON = append(viaJSON, s)
		}
	}
	r.Info["list_types_driven_by_datagrams"] = len(viaJSON)
	stackHist := h.Scale(1, 4)
	for i, s := range usable {
		if !w.genFns[s.Fct] {
			continue
		}
		g := updGen{rng, s}
		// quick: every type on one of the three stack paths per run (rotating with the seed), thorough: all
		for pi, path := range []string{"local", "reply", "notify"} {
			if h.Tier() == "quick" && (i+pi+int(h.Seed()))%3 != 0 {
				continue
			}
			if path != "local" && !updJSONRoundTrips(s) {
				continue
			}
			for k := 0; k < stackHist; k++ {
				w.runUpdOps(g.history(path, 8))
			}
		}
	}
	w.teardown()

	floors := func() {
		// ---- generator floors and the input distribution. Floors guard against vacuous agreement; once the
		// run has found a disagreement they say nothing (histories end at their first mismatch, which starves
		// the later shapes) and must not turn the verdict into "machinery broken".
		if r.MismatchN > 0 {
			r.Info["floors"] = "not evaluated: the run found a model/implementation disagreement"
			info := map[string]int{}
			for k, n := range w.stats {
				info[k] = n
			}
			r.Info["stats"] = info
			return
		}
		total, okN, panN := 0, 0, 0
		for k, n := range r.Dist {
			total += n
			if strings.HasSuffix(k, ":ok=1") {
				okN += n
			}
			if strings.HasSuffix(k, ":panic") {
				panN += n
			}
		}
		r.Floor("updates that succeeded", okN, total, 0.5)
		r.Floor("updates that changed the stored data", w.stats["changed"], total, 0.25)
		local := 0
		for k, n := range w.stats {
			if strings.HasPrefix(k, "spec:") && k != "spec:idempotence-checked" && k != "spec:several-matches-judged" {
				local += n
			}
		}
		r.Floor("local persisting updates the SPEC decides", w.stats["spec:decided"], local, 0.4)
		r.Floor("decided updates checked for idempotence", w.stats["spec:idempotence-checked"], w.stats["spec:decided"], 0.8)
		if updFacts.NilPanics || engineFlags["emptySelPanics"] {
			// only a tree that still has one of the frequent panic sites of the engine owes the run panics
			r.Floor("panics predicted by the model (at least some)", panN, total, 0.005)
		} else {
			r.Info["panics_predicted_and_observed"] = panN
		}
		for _, sh := range updShapesAll {
			n := 0
			for k, c := range r.Dist {
				if strings.HasPrefix(k, sh+":") {
					n += c
				}
			}
			r.Floor("filter shape "+sh, n, total, 0.04)
		}
		info := map[string]int{}
		for k, n := range w.stats {
			info[k] = n
		}
		r.Info["stats"] = info
	}
	floors() // over the seeded random part only; the enumeration below has its own, fixed distribution
	// ---- thorough: bounded exhaustive enumeration for representative shapes
	if h.Tier() == "thorough" {
		enum := map[string]string{}
		for _, name := range updRepresentative {
			s := w.shapes[name]
			if s == nil || s.Scalar || len(s.Problems) > 0 {
				enum[name] = "not present in this tree"
				continue
			}
			// in full where the space is small enough (and for the first single-key shape with a write flag), strided otherwise
			fullUpTo := 100000
			if name == updRepresentative[0] {
				fullUpTo = 200000
			}
			ops, total := updEnumerate(s, fullUpTo, 60000)
			for _, op := range ops {
				w.runUpdOps([]string{op})
			}
			enum[name] = fmt.Sprintf("%d of %d cases (lists of length <= 2, every filter variant)", len(ops), total)
		}
		r.Info["enumerated"] = enum
	}
	// ---- shrink unlisted witnesses and the first mismatch
	if len(r.Mismatches) > 0 {
		mm := r.Mismatches[0]
		small := h.Shrink(mm.Ops, func(ops []string) bool {
			if len(ops) == 0 || strings.Fields(ops[0])[0] == "step" {
				return false
			}
			q := newUpdWorld(h.Quiet(), d)
			q.base = w.base
			defer q.teardown()
			q.runUpdOps(ops)
			return q.r.MismatchN > 0
		})
		q := newUpdWorld(h.Quiet(), d)
		q.base = w.base
		q.runUpdOps(small)
		q.teardown()
		if q.r.MismatchN > 0 {
			r.ReplaceMismatch(0, small, q.r.Mismatches[0].Impl, q.r.Mismatches[0].Model)
		}
	}
	for _, sf := range append([]h.SpecFailure{}, r.SpecFailures...) {
		if len(sf.Ops) < 3 {
			continue
		}
		key := sf.Key
		small := h.Shrink(sf.Ops, func(ops []string) bool {
			if len(ops) == 0 || strings.Fields(ops[0])[0] == "step" {
				return false
			}
			q := newUpdWorld(h.Quiet(), d)
			q.base = w.base
			defer q.teardown()
			q.runUpdOps(ops)
			return q.r.HasSpecFail(key)
		})
		r.ReplaceSpecFailOps(key, small)
	}
	all := map[string]int{}
	for k, n := range w.stats {
		all[k] = n
	}
	r.Info["stats_with_enumeration"] = all
}

// updJSONRoundTrips: can every field of the item type be decoded by value after a JSON round trip?
func updJSONRoundTrips(s *h.UpdShape) bool {
	c := newUpdCodec()
	for _, n := range []int{0, 1, 2, 3} {
		a := make(updItem, s.N)
		for i := range a {
			a[i] = n
			if s.Kinds[i] == "bool" {
				a[i] = n % 2
			}
			if s.ItemT.Field(i).Type.Elem().Size() == 0 {
				a[i] = 0
			}
		}
		v := c.list(s, updList{a})
		b, err := json.Marshal(v.Interface())
		if err != nil {
			return false
		}
		back := reflect.New(s.ListT)
		if err := json.Unmarshal(b, back.Interface()); err != nil {
			return false
		}
		got, _ := newUpdCodec().decAny(s, back.Interface())
		if updListS(got) != updListS(updList{a}) {
			return false
		}
	}
	return true
}
