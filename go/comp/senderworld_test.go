package comp

// C13 through the composed stack: requests issued by local features
// (FeatureLocal.RequestRemoteData -> Sender.Request), responses arriving as
// real datagrams (DeviceRemote.HandleSpineMesssage -> ProcessResponse...),
// replies written by the stack ("other" sends). Same model (Spine.Snd), same
// SPEC monitor as TestSender.

import (
	"encoding/json"
	"fmt"
	"strconv"
	"strings"
	"testing"
	"time"

	"github.com/enbility/spine-go/api"
	"github.com/enbility/spine-go/model"
	"github.com/enbility/spine-go/spine"
	"github.com/enbility/spine-go/util"
	"verifharness/h"
)

type sndwWorld struct {
	local  *spine.DeviceLocal
	w      *sndW
	rd     api.DeviceRemoteInterface
	lfs    []api.FeatureLocalInterface
	rfs    []api.FeatureRemoteInterface
	hashes map[string]int
	inCtr  uint64
}

var sndwFns = []model.FunctionType{model.FunctionTypeLoadControlLimitListData, model.FunctionTypeLoadControlLimitDescriptionListData, model.FunctionTypeLoadControlLimitConstraintsListData}

func newSndwWorld() *sndwWorld {
	l := spine.NewDeviceLocal("b", "m", "s", "c", "HEMS", model.DeviceTypeTypeEnergyManagementSystem, model.NetworkManagementFeatureSetTypeSmart)
	e1 := spine.NewEntityLocal(l, model.EntityTypeTypeCEM, spine.NewAddressEntityType([]uint{1}), time.Second*4)
	l.AddEntity(e1)
	sw := &sndwWorld{local: l, w: &sndW{}, hashes: map[string]int{}, inCtr: 100}
	for i := 0; i < 2; i++ {
		var f api.FeatureLocalInterface
		if i == 0 {
			f = e1.GetOrAddFeature(model.FeatureTypeTypeLoadControl, model.RoleTypeClient)
		} else {
			f = e1.GetOrAddFeature(model.FeatureTypeTypeGeneric, model.RoleTypeClient)
		}
		sw.lfs = append(sw.lfs, f)
	}
	srv := e1.GetOrAddFeature(model.FeatureTypeTypeLoadControl, model.RoleTypeServer)
	srv.AddFunctionType(model.FunctionTypeLoadControlLimitListData, true, false)
	sw.lfs = append(sw.lfs, srv)
	l.SetupRemoteDevice("ski1", sw.w)
	sw.rd = l.RemoteDeviceForSki("ski1")
	dev := "dev1"
	feat := func(ent []uint, fid uint, ft model.FeatureTypeType, role model.RoleType) model.NodeManagementDetailedDiscoveryFeatureInformationType {
		return model.NodeManagementDetailedDiscoveryFeatureInformationType{Description: &model.NetworkManagementFeatureDescriptionDataType{FeatureAddress: h.FA(dev, ent, fid), FeatureType: &ft, Role: &role}}
	}
	ent := func(e []uint, et model.EntityTypeType) model.NodeManagementDetailedDiscoveryEntityInformationType {
		return model.NodeManagementDetailedDiscoveryEntityInformationType{Description: &model.NetworkManagementEntityDescriptionDataType{EntityAddress: &model.EntityAddressType{Device: util.Ptr(model.AddressDeviceType(dev)), Entity: spine.NewAddressEntityType(e)}, EntityType: &et}}
	}
	dd := &model.NodeManagementDetailedDiscoveryDataType{
		DeviceInformation: &model.NodeManagementDetailedDiscoveryDeviceInformationType{Description: &model.NetworkManagementDeviceDescriptionDataType{DeviceAddress: &model.DeviceAddressType{Device: util.Ptr(model.AddressDeviceType(dev))}}},
		EntityInformation: []model.NodeManagementDetailedDiscoveryEntityInformationType{ent([]uint{0}, model.EntityTypeTypeDeviceInformation), ent([]uint{1}, model.EntityTypeTypeEVSE)},
		FeatureInformation: []model.NodeManagementDetailedDiscoveryFeatureInformationType{
			feat([]uint{0}, 0, model.FeatureTypeTypeNodeManagement, model.RoleTypeSpecial),
			feat([]uint{1}, 1, model.FeatureTypeTypeLoadControl, model.RoleTypeServer),
			feat([]uint{1}, 2, model.FeatureTypeTypeLoadControl, model.RoleTypeServer),
			feat([]uint{1}, 3, model.FeatureTypeTypeLoadControl, model.RoleTypeClient)},
	}
	cl := model.CmdClassifierTypeReply
	sw.inject(model.DatagramType{Header: model.HeaderType{AddressSource: h.FA(dev, []uint{0}, 0), AddressDestination: h.FA("HEMS", []uint{0}, 0), MsgCounter: util.Ptr(model.MsgCounterType(1)), MsgCounterReference: util.Ptr(model.MsgCounterType(9999)), CmdClassifier: &cl}, Payload: model.PayloadType{Cmd: []model.CmdType{{NodeManagementDetailedDiscoveryData: dd}}}})
	for _, fid := range []uint{1, 2, 3} {
		sw.rfs = append(sw.rfs, sw.rd.FeatureByAddress(h.FA(dev, []uint{1}, fid)))
	}
	return sw
}

// sndwPayloads are LEGAL cmd payloads in the JSON form the connection hands to the stack. They are written as
// text because spine-go's own marshaller never produces some of them (an endTime without startTime is always
// written as a duration, never as the absolute time the schema also allows). A response carrying any of them
// references the request's counter just the same.
var sndwPayloads = []string{
	`{"loadControlLimitListData":{"loadControlLimitData":[{"limitId":1,"isLimitActive":true,"value":{"number":5,"scale":0}}]}}`,
	`{"loadControlLimitListData":{"loadControlLimitData":[{"limitId":1,"timePeriod":{"endTime":"2035-01-01T00:00:00Z"},"value":{"number":5,"scale":0}}]}}`,
	`{"loadControlLimitListData":{"loadControlLimitData":[{"limitId":1,"timePeriod":{"endTime":"PT2H"},"value":{"number":5,"scale":0}}]}}`,
	`{"loadControlLimitListData":{"loadControlLimitData":[{"limitId":2,"timePeriod":{"startTime":"2030-01-01T00:00:00Z","endTime":"2035-01-01T00:00:00Z"}}]}}`,
	`{"loadControlLimitListData":{"loadControlLimitData":[{"limitId":2,"timePeriod":{"startTime":"PT0S","endTime":"P1D"}},{"limitId":3,"timePeriod":{"endTime":"2035-06-01T12:00:00.5+02:00"}}]}}`,
	`{"function":"loadControlLimitListData","filter":[{"cmdControl":{"partial":{}}}],"loadControlLimitListData":{"loadControlLimitData":[{"limitId":1,"isLimitActive":false}]}}`,
	`{"function":"loadControlLimitListData","filter":[{"cmdControl":{"delete":{}},"loadControlLimitListDataSelectors":{"limitId":1}},{"cmdControl":{"partial":{}}}],"loadControlLimitListData":{"loadControlLimitData":[{"limitId":2,"timePeriod":{"endTime":"2036-01-01T00:00:00Z"}}]}}`,
	`{"measurementListData":{"measurementData":[{"measurementId":1,"evaluationPeriod":{"endTime":"2035-01-01T00:00:00Z"},"value":{"number":-12345,"scale":-3}}]}}`,
	`{"loadControlLimitListData":{"loadControlLimitData":[{"limitId":1,"futureElement":{"x":[1,2]},"value":{"number":9223372036854775807,"scale":-128}}]},"futureCmdElement":true}`,
	`{"loadControlLimitListData":{"loadControlLimitData":[]}}`,
	`{"resultData":{"errorNumber":7,"description":"not now"}}`,
	`{"loadControlLimitDescriptionListData":{"loadControlLimitDescriptionData":[{"limitId":1,"limitType":"maxValueLimit","limitCategory":"obligation","unit":"W","scopeType":"activePowerLimit","label":"l","description":"d"}]}}`,
	`{"timeSeriesListData":{"timeSeriesData":[{"timeSeriesId":1,"timePeriod":{"endTime":"2035-01-01T00:00:00Z"},"timeSeriesSlot":[{"timeSeriesSlotId":1,"timePeriod":{"startTime":"PT0S","endTime":"PT15M"},"duration":"PT15M","value":{"number":1,"scale":0}}]}]}}`,
}

// injectRaw hands the stack a datagram with the given header and a cmd written as JSON text.
func (sw *sndwWorld) injectRaw(hd model.HeaderType, cmd string) any {
	return h.Recover(func() {
		hb, _ := json.Marshal(hd)
		sw.rd.HandleSpineMesssage([]byte(fmt.Sprintf(`{"datagram":{"header":%s,"payload":{"cmd":[%s]}}}`, hb, cmd)))
	})
}

func (sw *sndwWorld) inject(d model.DatagramType) any {
	return h.Recover(func() {
		b, _ := json.Marshal(model.Datagram{Datagram: d})
		sw.rd.HandleSpineMesssage(b)
	})
}

type sndwOut struct {
	ctr uint64
	cls string
}

func (sw *sndwWorld) wire() []sndwOut {
	var out []sndwOut
	for _, m := range sw.w.Take() {
		var d model.Datagram
		json.Unmarshal(m, &d)
		o := sndwOut{}
		if d.Datagram.Header.MsgCounter != nil {
			o.ctr = uint64(*d.Datagram.Header.MsgCounter)
		}
		if d.Datagram.Header.CmdClassifier != nil {
			o.cls = string(*d.Datagram.Header.CmdClassifier)
		}
		out = append(out, o)
	}
	return out
}

func (sw *sndwWorld) hashID(k string) int {
	if id, ok := sw.hashes[k]; ok {
		return id
	}
	sw.hashes[k] = len(sw.hashes) + 1
	return sw.hashes[k]
}

func runSenderWorld(r *h.Report, d *h.Driver, ops []string, base int) {
	sw := newSndwWorld()
	defer sw.local.RemoveRemoteDeviceConnection("ski1")
	h.Settle(base)
	sp := newSpecSnd()
	d.Ask("reset")
	// the set-up made the stack send its own requests (discovery read, ...): replay them into the model
	for i, o := range sw.wire() {
		line := "other"
		if o.cls == "read" || o.cls == "call" {
			line = fmt.Sprintf("req %d", 1000+i)
		}
		if got := d.Ask(line); !strings.HasPrefix(got, fmt.Sprint(o.ctr)) {
			r.Mismatch([]string{"set-up"}, fmt.Sprint(o.ctr), got, "set-up datagram "+o.cls)
			return
		}
		sp.onWire(r, []string{"set-up"}, []uint64{o.ctr})
	}
	var done []string
	withheld, hits := 0, 0
	for _, op := range ops {
		f := strings.Fields(op)
		var lines []string // model ops this step corresponds to
		var impl []string
		kind := f[0]
		switch f[0] {
		case "rrd", "rrdf":
			// rrd <localFeature> <fn> <remoteFeature>; rrdf: the peer's reply to this very request arrives as a real
			// datagram (HandleSpineMesssage on another goroutine) while the request is still being written
			li, _ := strconv.Atoi(f[1])
			fi, _ := strconv.Atoi(f[2])
			ri, _ := strconv.Atoi(f[3])
			var ctr *model.MsgCounterType
			var err *model.ErrorType
			var flown uint64
			inside := false
			if f[0] == "rrdf" {
				doneCh := make(chan struct{})
				sw.w.hook = func(m []byte) {
					c := sndCounterOf(m)
					if c == 0 || flown != 0 {
						return
					}
					flown = c
					sw.inCtr++
					cls := model.CmdClassifierTypeReply
					hd := model.HeaderType{AddressSource: sw.rfs[ri%len(sw.rfs)].Address(), AddressDestination: sw.lfs[li%2].Address(), MsgCounter: util.Ptr(model.MsgCounterType(sw.inCtr)), MsgCounterReference: util.Ptr(model.MsgCounterType(c)), CmdClassifier: &cls}
					go func() {
						sw.inject(model.DatagramType{Header: hd, Payload: model.PayloadType{Cmd: []model.CmdType{{LoadControlLimitListData: &model.LoadControlLimitListDataType{}}}}})
						close(doneCh)
					}()
					if sndRespSerialised {
						return
					}
					select {
					case <-doneCh:
						inside = true
					case <-time.After(20 * time.Second):
						sndRespSerialised = true
					}
				}
				ctr, err = sw.lfs[li%2].RequestRemoteData(sndwFns[fi%len(sndwFns)], nil, nil, sw.rfs[ri%len(sw.rfs)])
				sw.w.hook = nil
				if flown != 0 && !inside {
					select {
					case <-doneCh:
					case <-time.After(20 * time.Second):
					}
				}
				h.Settle(base)
			} else {
				ctr, err = sw.lfs[li%2].RequestRemoteData(sndwFns[fi%len(sndwFns)], nil, nil, sw.rfs[ri%len(sw.rfs)])
			}
			done = append(done, op)
			// the hash of a request covers destination and command only, not the requesting feature
			hid := sw.hashID(fmt.Sprintf("%d-%d", ri%len(sw.rfs), fi%len(sndwFns)))
			lines = []string{fmt.Sprintf("req %d", hid)}
			if f[0] == "rrdf" && (flown == 0 || inside) {
				lines = []string{fmt.Sprintf("reqf %d 0", hid)}
			}
			ws := sw.wire()
			var cs []uint64
			for _, o := range ws {
				cs = append(cs, o.ctr)
			}
			sp.onWire(r, done, cs)
			if err != nil || ctr == nil {
				impl = []string{fmt.Sprintf("error %v", err)}
				break
			}
			impl = []string{fmt.Sprintf("%d %d", *ctr, len(ws))}
			prev, pending := sp.unanswered[hid]
			switch {
			case len(ws) == 0 && !pending && sp.overtaken[uint64(*ctr)]:
				r.SpecFail("answer-overtakes-insert", done, fmt.Sprintf("stack level: request %s withheld (returned %d) although request %d was answered — the peer's reply was processed while the request was being written", op, *ctr, *ctr))
			case len(ws) == 0 && !pending:
				r.SpecFail("withheld-without-identical-unanswered", done, fmt.Sprintf("stack level: request %s withheld (returned %d) although no identical request is unanswered", op, *ctr))
			case len(ws) == 0 && pending && uint64(*ctr) != prev:
				r.SpecFail("withheld-wrong-counter", done, fmt.Sprintf("stack level: withheld request returned %d, the unanswered identical request has %d", *ctr, prev))
			case len(ws) >= 1 && ws[0].ctr != uint64(*ctr):
				r.SpecFail("returned-counter-not-on-wire", done, fmt.Sprintf("returned %d, wrote %d", *ctr, ws[0].ctr))
			}
			if len(ws) >= 1 {
				sp.unanswered[hid] = ws[0].ctr
				kind = "rrd:sent"
			} else {
				kind = "rrd:withheld"
				withheld++
			}
			if flown != 0 {
				if inside {
					sp.overtaken[flown] = true
					kind += ":answered-in-flight"
				}
				if sp.answer(flown) {
					hits++
				}
				if !inside {
					lines = append(lines, fmt.Sprintf("resp %d", flown))
					impl = append(impl, "ok")
				}
				// whatever the stack wrote while processing the reply
				for _, o := range ws[1:] {
					lines = append(lines, "other")
					impl = append(impl, fmt.Sprint(o.ctr))
				}
			}
		case "in": // in <classifier> <ref|-> : datagram from the peer's server feature 1 to local client feature
			sw.inCtr++
			cls := model.CmdClassifierType(f[1])
			var ref *model.MsgCounterType
			if f[2] != "-" {
				v, _ := strconv.Atoi(f[2])
				ref = util.Ptr(model.MsgCounterType(v))
			}
			hd := model.HeaderType{AddressSource: h.FA("dev1", []uint{1}, 1), AddressDestination: sw.lfs[0].Address(), MsgCounter: util.Ptr(model.MsgCounterType(sw.inCtr)), MsgCounterReference: ref, CmdClassifier: &cls}
			cmd := model.CmdType{LoadControlLimitListData: &model.LoadControlLimitListDataType{}}
			if cls == model.CmdClassifierTypeResult {
				cmd = model.CmdType{ResultData: &model.ResultDataType{ErrorNumber: util.Ptr(model.ErrorNumberType(0))}}
			}
			if cls == model.CmdClassifierTypeRead {
				hd.AddressSource = h.FA("dev1", []uint{1}, 3)
				hd.AddressDestination = sw.lfs[2].Address()
			}
			cmds := []model.CmdType{cmd}
			// faults: the response references the counter but its processing fails
			if len(f) > 3 {
				switch f[3] {
				case "nosrc": // source feature the peer never announced
					hd.AddressSource = h.FA("dev1", []uint{1}, 9)
				case "noent": // source entity the peer never announced
					hd.AddressSource = h.FA("dev1", []uint{7}, 1)
				case "nodst": // destination feature does not exist
					hd.AddressDestination = h.FA("HEMS", []uint{1}, 77)
				case "nofn": // a function the addressed feature does not know
					if cls != model.CmdClassifierTypeResult {
						cmds = []model.CmdType{{HvacOverrunListData: &model.HvacOverrunListDataType{}}}
					}
				case "nocmd":
					cmds = []model.CmdType{}
				}
			}
			var pan any
			if len(f) > 3 && strings.HasPrefix(f[3], "pv") {
				k, _ := strconv.Atoi(f[3][2:])
				pan = sw.injectRaw(hd, sndwPayloads[k%len(sndwPayloads)])
			} else {
				pan = sw.inject(model.DatagramType{Header: hd, Payload: model.PayloadType{Cmd: cmds}})
			}
			done = append(done, op)
			h.Settle(base)
			if pan != nil {
				r.Mismatch(done, fmt.Sprint("panic ", pan), "no panic", op)
				return
			}
			if ref != nil {
				lines = append(lines, fmt.Sprintf("resp %d", *ref))
				impl = append(impl, "ok")
				hit := false
				for hid, c := range sp.unanswered {
					if c == uint64(*ref) {
						delete(sp.unanswered, hid)
						hit = true
					}
				}
				if hit {
					hits++
					kind = "in:" + f[1] + ":hit"
				} else {
					kind = "in:" + f[1] + ":miss"
				}
				if len(f) > 3 && strings.HasPrefix(f[3], "pv") {
					kind += ":payload"
				} else if len(f) > 3 {
					kind += ":fault"
				}
			}
			ws := sw.wire()
			var cs []uint64
			for _, o := range ws {
				cs = append(cs, o.ctr)
				lines = append(lines, "other")
				impl = append(impl, fmt.Sprint(o.ctr))
			}
			sp.onWire(r, done, cs)
		default:
			panic("bad op " + op)
		}
		for i, l := range lines {
			want := d.Ask(l)
			if i >= len(impl) || impl[i] != want {
				got := "-"
				if i < len(impl) {
					got = impl[i]
				}
				r.Mismatch(done, got, want, "stack-level sender op "+op+" as "+l)
				return
			}
		}
		r.Eval(kind, "")
	}
	r.Traces++
	if withheld > 0 && hits > 0 {
		r.Case(strings.Join(ops, "; "))
	}
}

func genSenderWorld(rng interface{ Intn(int) int }, n int) []string {
	var ops []string
	issued := 0
	for i := 0; i < n; i++ {
		switch x := rng.Intn(100); {
		case x < 50:
			li := 0
			if rng.Intn(8) == 0 {
				li = 1
			}
			k := "rrd"
			if rng.Intn(8) == 0 {
				k = "rrdf"
			}
			ops = append(ops, fmt.Sprintf("%s %d %d %d", k, li, rng.Intn(3), rng.Intn(3)))
			issued++
		case x < 85:
			cls := []string{"reply", "result", "notify"}[rng.Intn(3)]
			ref := "-"
			if cls != "notify" || rng.Intn(3) == 0 {
				ref = strconv.Itoa(1 + rng.Intn(issued+2))
			}
			op := fmt.Sprintf("in %s %s", cls, ref)
			if ref != "-" && rng.Intn(4) == 0 {
				op += " " + []string{"nosrc", "noent", "nodst", "nofn", "nocmd"}[rng.Intn(5)]
			} else if rng.Intn(2) == 0 {
				op += fmt.Sprintf(" pv%d", rng.Intn(len(sndwPayloads)))
			}
			ops = append(ops, op)
		default:
			ops = append(ops, "in read -")
			issued++
		}
	}
	return ops
}

func TestSenderWorld(t *testing.T) {
	r := h.NewReport("sender-world", "random histories of FeatureLocal.RequestRemoteData (2 local features x 3 functions x 3 remote features) interleaved with real reply/result/notify/read datagrams from the peer (references hitting open, answered and unknown counters), compared per outbound datagram with Spine.Snd; non-trivial = history with a withheld duplicate and a response that answered an open request")
	defer r.Write()
	d := h.StartDriver("drv_snd")
	defer d.Close()
	base := h.Baseline()
	on, wit, det := probeInsertAfterWrite()
	r.SetFlag("insertAfterWrite", on, wit, det)
	if !on {
		d.Ask("cfg insertfirst 1")
	}
	// the member the translator reads off the source (Spine.Generated.Sender.requestRemembersBeforeWrite) must be the
	// member the probe finds on the running code
	if static := d.Ask("member"); (static == "after-window") != on {
		r.Mismatch(wit, fmt.Sprintf("probed: an answered-in-flight request stays remembered = %v (%s)", on, det), "source says: "+static, "family member: static fact vs dynamic probe")
	}
	if ops := h.ReplayOps("sender-world"); ops != nil {
		runSenderWorld(r, d, ops, base)
		return
	}
	runSenderWorld(r, d, []string{"rrd 0 0 0", "rrd 0 0 0", "rrd 0 1 0", "in reply 1", "rrd 0 0 0", "in result 2", "rrd 0 1 0", "in read -", "rrd 0 0 1"}, base)
	// the peer's reply arrives while the request is being written; the identical request afterwards
	runSenderWorld(r, d, []string{"rrdf 0 0 0", "rrd 0 0 0", "rrd 0 1 0", "rrdf 0 1 0", "in reply 5", "rrd 0 1 0", "rrdf 1 0 1", "rrd 0 0 1"}, base)
	for _, fault := range []string{"nosrc", "noent", "nodst", "nofn", "nocmd"} {
		// a response whose processing fails still answers the request: the next identical request is sent
		runSenderWorld(r, d, []string{"rrd 0 0 0", "rrd 0 0 0", "in reply 4 " + fault, "rrd 0 0 0", "in result 5 " + fault, "rrd 0 0 0"}, base)
	}
	for k := range sndwPayloads {
		// ... and so does a response with any legal payload, whatever the stack makes of the payload itself
		for _, cls := range []string{"reply", "result", "notify"} {
			runSenderWorld(r, d, []string{"rrd 0 0 0", "rrd 0 0 0", fmt.Sprintf("in %s 4 pv%d", cls, k), "rrd 0 0 0", "rrd 0 1 1", fmt.Sprintf("in %s 6 pv%d", cls, k), "rrd 0 1 1", "rrd 0 0 0"}, base)
		}
	}
	rng := h.Rng(1313)
	for i := 0; i < h.Scale(120, 1200); i++ {
		runSenderWorld(r, d, genSenderWorld(rng, 20+rng.Intn(60)), base)
	}
	if len(r.Mismatches) > 0 {
		mm := r.Mismatches[0]
		small := h.Shrink(mm.Ops, func(ops []string) bool {
			q := h.Quiet()
			runSenderWorld(q, d, ops, base)
			return q.MismatchN > 0
		})
		q := h.Quiet()
		runSenderWorld(q, d, small, base)
		if q.MismatchN > 0 {
			r.ReplaceMismatch(0, small, q.Mismatches[0].Impl, q.Mismatches[0].Model)
		}
	}
	r.Floor("withheld requests", r.Dist["rrd:withheld"], r.Dist["rrd:withheld"]+r.Dist["rrd:sent"], 0.05)
	cnt := func(sub string) int {
		n := 0
		for k, v := range r.Dist {
			if strings.HasPrefix(k, "in:") && strings.Contains(k, sub) {
				n += v
			}
		}
		return n
	}
	r.Floor("responses that hit", cnt(":hit"), cnt(":hit")+cnt(":miss"), 0.05)
	r.Floor("responses with a textual payload variant that hit an open request", cnt(":hit:payload"), cnt(":hit")+cnt(":miss"), 0.03)
}
