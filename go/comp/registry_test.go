package comp

// C08 / C09 / C10 — correspondence of the registry family Spine.Reg (Lean) with
// SubscriptionManager / BindingManager / RemoveRemoteDevice / entity removal as
// seen through real node-management datagrams from several peers with identical
// entity and feature numbering, plus the SPEC monitor of the three properties
// evaluated step by step on the implementation's own registry (the monitor
// never consults the model).

import (
	"encoding/json"
	"fmt"
	"sort"
	"strconv"
	"strings"
	"sync"
	"testing"
	"time"

	"github.com/enbility/spine-go/api"
	"github.com/enbility/spine-go/model"
	"github.com/enbility/spine-go/spine"
	"github.com/enbility/spine-go/util"
	"verifharness/h"
)

// ---------------------------------------------------------------- world

var regTypeNames = map[int]model.FeatureTypeType{0: model.FeatureTypeTypeGeneric, 1: model.FeatureTypeTypeLoadControl,
	2: model.FeatureTypeTypeSetpoint, 3: model.FeatureTypeTypeDeviceClassification, 4: model.FeatureTypeTypeDeviceDiagnosis,
	100: model.FeatureTypeTypeNodeManagement}

type regFeat struct {
	ent  string
	feat uint
	typ  int
	role string // client | server | special
}

// the announced trees (harness configuration; the Lean driver has the same tables)
var regRemoteFeats = []regFeat{{"0", 0, 100, "special"}, {"1", 1, 1, "client"}, {"1", 2, 2, "client"}, {"1", 3, 0, "client"},
	{"1", 4, 1, "server"}, {"2", 1, 1, "client"}, {"1.1", 1, 1, "client"}, {"1.1", 4, 1, "server"}}

// the entities every peer announces: [1,1] is a sub-entity of [1]
var regRemoteEnts = []string{"0", "1", "1.1", "2"}
var regLocalFeats = []regFeat{{"0", 0, 100, "special"}, {"0", 1, 3, "server"}, {"1", 1, 1, "server"}, {"1", 2, 2, "server"},
	{"1", 3, 1, "client"}, {"2", 1, 1, "server"}, {"2", 2, 4, "server"}}

func regFind(fs []regFeat, ent string, feat uint) *regFeat {
	for i := range fs {
		if fs[i].ent == ent && fs[i].feat == feat {
			return &fs[i]
		}
	}
	return nil
}

type regEntry struct {
	id   uint64
	peer int
	cdev string // device part of the client address held by the entry
	ce   string
	cf   uint
	se   string
	sf   uint
}

func (e regEntry) pair() string   { return fmt.Sprintf("%s/%d<-%d:%s/%d", e.se, e.sf, e.peer, e.ce, e.cf) }
func (e regEntry) String() string { return fmt.Sprintf("%d:%s", e.id, e.pair()) }

func regShow(es []regEntry) string {
	if len(es) == 0 {
		return "."
	}
	var p []string
	for _, e := range es {
		p = append(p, e.String())
	}
	return strings.Join(p, ",")
}

type regEvents struct {
	mu   sync.Mutex
	ev   []string
	keys []string // subscription-change events with what they name: "+p:ce/cf->se/sf" / "-…" (see registry_data_test.go)
}

func (r *regEvents) HandleEvent(p api.EventPayload) {
	var s string
	switch p.EventType {
	case api.EventTypeSubscriptionChange:
		s = "sub"
	case api.EventTypeBindingChange:
		s = "bind"
	case api.EventTypeDeviceChange:
		s = "device"
	case api.EventTypeEntityChange:
		s = "entity"
	default:
		return
	}
	switch p.ChangeType {
	case api.ElementChangeAdd:
		s += "+"
	case api.ElementChangeRemove:
		s += "-"
	default:
		s += "~"
	}
	r.mu.Lock()
	r.ev = append(r.ev, s)
	if p.EventType == api.EventTypeSubscriptionChange {
		r.keys = append(r.keys, regEventKey(p))
	}
	r.mu.Unlock()
}

func (r *regEvents) take() map[string]int {
	r.mu.Lock()
	defer r.mu.Unlock()
	m := map[string]int{}
	for _, e := range r.ev {
		m[e]++
	}
	r.ev = nil
	return m
}

type regOut struct {
	peer int
	gen  int // which connection of that peer (a reconnected SKI gets a new writer)
	d    model.DatagramType
}

// regLog records every outbound message of every connection in one global order.
type regLog struct {
	mu  sync.Mutex
	out []regOut
}

type regW struct {
	peer int
	log  *regLog
	gen  int
}

func (w *regW) WriteShipMessageWithPayload(m []byte) {
	var d model.Datagram
	_ = json.Unmarshal(m, &d)
	w.log.mu.Lock()
	w.log.out = append(w.log.out, regOut{w.peer, w.gen, d.Datagram})
	w.log.mu.Unlock()
}

func (l *regLog) take() []regOut {
	l.mu.Lock()
	defer l.mu.Unlock()
	o := l.out
	l.out = nil
	return o
}

type regWorld struct {
	l       *spine.DeviceLocal
	npeers  int
	rds     map[int]api.DeviceRemoteInterface // retained after a drop: the lists of a dropped peer stay observable
	log     *regLog
	ctr     map[int]uint64
	alive   map[int]bool
	gone    map[int]map[string]bool // entities announced as removed, per peer
	ev      *regEvents
	base    int
	val     int
	out     []regOut // written during the current step
	panicky string
	td      *tdExt // composed teardown world (TestTeardown) or nil
	bare    map[int]map[string]bool // entities known without features (announced again by an `added` entry that lists none)
	gen     map[int]int  // current connection of a peer
	variant int          // optional parts of the removal entries of the current op (bit 1: no entityType, 2: no device part, 4: description)
	late    map[int]bool // peers whose discovery reply has not arrived yet (op "discover p")
	broken  map[int]bool // peers whose connection cannot be written to (set up with a nil writer): every send to them fails
}

// regHeader parses "peers N [late:a,b] [broken:c]"
func regHeader(op string) (np int, late, broken map[int]bool) {
	np, late, broken = 2, map[int]bool{}, map[int]bool{}
	f := strings.Fields(op)
	if len(f) >= 2 && f[0] == "peers" {
		np, _ = strconv.Atoi(f[1])
		for _, t := range f[2:] {
			k := strings.Index(t, ":")
			if k < 0 {
				continue
			}
			for _, x := range strings.Split(t[k+1:], ",") {
				n, _ := strconv.Atoi(x)
				switch t[:k] {
				case "late":
					late[n] = true
				case "broken":
					broken[n] = true
				}
			}
		}
	}
	return
}

func (w *regWorld) discover(p int) {
	cl := model.CmdClassifierTypeReply
	w.inject(p, model.DatagramType{Header: model.HeaderType{AddressSource: h.FA(regDev(p), []uint{0}, 0), AddressDestination: h.FA("HEMS", []uint{0}, 0),
		MsgCounter: util.Ptr(model.MsgCounterType(1)), MsgCounterReference: util.Ptr(model.MsgCounterType(1)), CmdClassifier: &cl},
		Payload: model.PayloadType{Cmd: []model.CmdType{{NodeManagementDetailedDiscoveryData: regDiscovery(regDev(p), nil, regRemoteEnts)}}}})
	w.late[p] = false
}

// regSameDev (round 7, header token "same"): every peer announces the SAME device address "dev1" - legal: device
// addresses are chosen by the devices, connections are told apart by SKI. Set per history by runRegHistoryTd.
var regSameDev bool

func regDev(p int) string {
	if regSameDev {
		return "dev1"
	}
	return fmt.Sprintf("dev%d", p)
}
func regSki(p int) string { return fmt.Sprintf("ski%d", p) }

func regParseEnt(s string) []uint {
	var out []uint
	for _, x := range strings.Split(s, ".") {
		if n, err := strconv.Atoi(x); err == nil {
			out = append(out, uint(n))
		}
	}
	return out
}

func regDiscovery(dev string, state *model.NetworkManagementStateChangeType, ents []string) *model.NodeManagementDetailedDiscoveryDataType {
	return regDiscoveryV(dev, state, ents, 0)
}

// variant (removal entries only): bit 1 = without entityType (as real devices announce a removal), bit 2 = entityAddress
// without the device part, bit 4 = with a description text
func regDiscoveryV(dev string, state *model.NetworkManagementStateChangeType, ents []string, variant int) *model.NodeManagementDetailedDiscoveryDataType {
	etype := map[string]model.EntityTypeType{"0": model.EntityTypeTypeDeviceInformation, "1": model.EntityTypeTypeEVSE, "2": model.EntityTypeTypeEV, "1.1": model.EntityTypeTypeEV}
	dd := &model.NodeManagementDetailedDiscoveryDataType{
		DeviceInformation: &model.NodeManagementDetailedDiscoveryDeviceInformationType{Description: &model.NetworkManagementDeviceDescriptionDataType{DeviceAddress: &model.DeviceAddressType{Device: util.Ptr(model.AddressDeviceType(dev))}}},
	}
	for _, e := range ents {
		et := etype[e]
		desc := &model.NetworkManagementEntityDescriptionDataType{
			EntityAddress: &model.EntityAddressType{Device: util.Ptr(model.AddressDeviceType(dev)), Entity: spine.NewAddressEntityType(regParseEnt(e))}, EntityType: &et, LastStateChange: state}
		dd.EntityInformation = append(dd.EntityInformation, model.NodeManagementDetailedDiscoveryEntityInformationType{Description: desc})
		if state != nil && *state == model.NetworkManagementStateChangeTypeRemoved {
			if variant&1 != 0 {
				desc.EntityType = nil
			}
			if variant&2 != 0 {
				desc.EntityAddress.Device = nil
			}
			if variant&4 != 0 {
				desc.Description = util.Ptr(model.DescriptionType("going away"))
			}
			continue
		}
		for _, f := range regRemoteFeats {
			if f.ent != e {
				continue
			}
			ft := regTypeNames[f.typ]
			role := model.RoleType(f.role)
			dd.FeatureInformation = append(dd.FeatureInformation, model.NodeManagementDetailedDiscoveryFeatureInformationType{Description: &model.NetworkManagementFeatureDescriptionDataType{
				FeatureAddress: h.FA(dev, regParseEnt(e), f.feat), FeatureType: &ft, Role: &role}})
		}
	}
	return dd
}

// newRegWorld builds a real DeviceLocal with the local tree of the model and
// npeers connected peers that all announce the same tree.
func newRegWorld(npeers int, ev *regEvents, base int) *regWorld {
	return newRegWorldTd(npeers, ev, base, false, nil, nil)
}

func newRegWorldTd(npeers int, ev *regEvents, base int, td bool, late, broken map[int]bool) *regWorld {
	if late == nil {
		late = map[int]bool{}
	}
	if broken == nil {
		broken = map[int]bool{}
	}
	w := &regWorld{bare: map[int]map[string]bool{}, gen: map[int]int{}, late: late, broken: broken, npeers: npeers, rds: map[int]api.DeviceRemoteInterface{}, log: &regLog{}, ctr: map[int]uint64{}, alive: map[int]bool{},
		gone: map[int]map[string]bool{}, ev: ev, base: base}
	l := spine.NewDeviceLocal("b", "m", "s", "c", "HEMS", model.DeviceTypeTypeEnergyManagementSystem, model.NetworkManagementFeatureSetTypeSmart)
	e1 := spine.NewEntityLocal(l, model.EntityTypeTypeCEM, spine.NewAddressEntityType([]uint{1}), time.Second*4)
	l.AddEntity(e1)
	f := e1.GetOrAddFeature(model.FeatureTypeTypeLoadControl, model.RoleTypeServer)
	f.AddFunctionType(model.FunctionTypeLoadControlLimitListData, true, true)
	f = e1.GetOrAddFeature(model.FeatureTypeTypeSetpoint, model.RoleTypeServer)
	f.AddFunctionType(model.FunctionTypeSetpointListData, true, true)
	e1.GetOrAddFeature(model.FeatureTypeTypeLoadControl, model.RoleTypeClient)
	e2 := spine.NewEntityLocal(l, model.EntityTypeTypeCEM, spine.NewAddressEntityType([]uint{2}), time.Second*4)
	l.AddEntity(e2)
	f = e2.GetOrAddFeature(model.FeatureTypeTypeLoadControl, model.RoleTypeServer)
	f.AddFunctionType(model.FunctionTypeLoadControlLimitListData, true, true)
	f = e2.GetOrAddFeature(model.FeatureTypeTypeDeviceDiagnosis, model.RoleTypeServer)
	f.AddFunctionType(model.FunctionTypeDeviceDiagnosisStateData, true, false)
	w.l = l
	if td {
		w.td = newTdExt(w)
	}
	for p := 1; p <= npeers; p++ {
		if broken[p] {
			l.SetupRemoteDevice(regSki(p), nil) // "outgoing interface implementation not set": every send to this peer fails
		} else {
			l.SetupRemoteDevice(regSki(p), &regW{p, w.log, 0})
		}
		w.rds[p] = l.RemoteDeviceForSki(regSki(p))
		w.ctr[p] = 100
		w.alive[p] = true
		w.gone[p] = map[string]bool{}
		if !late[p] {
			w.discover(p)
		}
	}
	w.settle()
	w.log.take()
	ev.take()
	return w
}

func (w *regWorld) settle() { h.Settle(w.base) }

func (w *regWorld) inject(p int, d model.DatagramType) {
	b, _ := json.Marshal(model.Datagram{Datagram: d})
	if pan := h.Recover(func() { _, _ = w.rds[p].HandleSpineMesssage(b) }); pan != nil {
		w.panicky = fmt.Sprint(pan)
	}
	w.out = append(w.out, w.log.take()...)
}

func (w *regWorld) close() {
	for p := 1; p <= w.npeers; p++ {
		if w.alive[p] {
			w.l.RemoveRemoteDeviceConnection(regSki(p))
			w.alive[p] = false
		}
	}
	w.settle()
	w.ev.take()
}

// call sends a node-management call with ackRequest from peer p and returns
// ok / err / none according to the result datagram written for it.
func (w *regWorld) call(p int, c model.CmdType) string {
	w.ctr[p]++
	cc := model.CmdClassifierTypeCall
	ack := true
	w.inject(p, model.DatagramType{Header: model.HeaderType{AddressSource: h.FA(regDev(p), []uint{0}, 0), AddressDestination: h.FA("HEMS", []uint{0}, 0),
		MsgCounter: util.Ptr(model.MsgCounterType(w.ctr[p])), CmdClassifier: &cc, AckRequest: &ack}, Payload: model.PayloadType{Cmd: []model.CmdType{c}}})
	return w.resultFor(p, w.ctr[p])
}

func (w *regWorld) resultFor(p int, ctr uint64) string {
	res := "none"
	for _, o := range w.out {
		if o.peer != p || len(o.d.Payload.Cmd) == 0 {
			continue
		}
		c0 := o.d.Payload.Cmd[0]
		if c0.ResultData != nil && c0.ResultData.ErrorNumber != nil && o.d.Header.MsgCounterReference != nil && uint64(*o.d.Header.MsgCounterReference) == ctr {
			if *c0.ResultData.ErrorNumber == 0 {
				res = "ok"
			} else {
				res = "err"
			}
		}
	}
	return res
}

// addr builds a feature address; devKind 0 = device part omitted, 99 = the local device, 77 = an unknown device string,
// k = device of peer k
func regAddr(devKind int, ent string, fid uint) *model.FeatureAddressType {
	a := &model.FeatureAddressType{Entity: spine.NewAddressEntityType(regParseEnt(ent)), Feature: util.Ptr(model.AddressFeatureType(fid))}
	switch devKind {
	case 0:
	case 99:
		a.Device = util.Ptr(model.AddressDeviceType("HEMS"))
	case 77:
		a.Device = util.Ptr(model.AddressDeviceType("OTHER")) // a device string nobody has
	default:
		a.Device = util.Ptr(model.AddressDeviceType(regDev(devKind)))
	}
	return a
}

// regDecor splits the optional address decorations off an op: "sd<k>" = device part of the SERVER address
// (default 99 = the local device's name), "cd<k>" = device part of the CLIENT address of a request call (default: the
// sender's device). k as in regAddr. The model ignores them, as the code as written resolves by entity and feature.
func regDecor(f []string) (rest []string, sd, cd int) {
	sd, cd = 99, -1
	for _, t := range f {
		switch {
		case len(t) > 2 && t[:2] == "sd" && t[2] >= '0' && t[2] <= '9':
			sd, _ = strconv.Atoi(t[2:])
		case len(t) > 2 && t[:2] == "cd" && t[2] >= '0' && t[2] <= '9':
			cd, _ = strconv.Atoi(t[2:])
		default:
			rest = append(rest, t)
		}
	}
	return
}

// regCallCmd builds the node-management call of a sub / bind / unsub / unbind op (decorations stripped from f)
func regCallCmd(f []string, sd, cd int) model.CmdType {
	atoi := func(i int) int { n, _ := strconv.Atoi(f[i]); return n }
	switch f[0] {
	case "sub", "bind":
		p, ce, cf, se, sf, ty := atoi(1), f[2], uint(atoi(3)), f[4], uint(atoi(5)), atoi(6)
		if cd < 0 {
			cd = p
		}
		if f[0] == "sub" {
			return model.CmdType{NodeManagementSubscriptionRequestCall: spine.NewNodeManagementSubscriptionRequestCallType(regAddr(cd, ce, cf), regAddr(sd, se, sf), regTypeNames[ty])}
		}
		return model.CmdType{NodeManagementBindingRequestCall: spine.NewNodeManagementBindingRequestCallType(regAddr(cd, ce, cf), regAddr(sd, se, sf), regTypeNames[ty])}
	default:
		cdev, ce, cf, se, sf := atoi(2), f[3], uint(atoi(4)), f[5], uint(atoi(6))
		if f[0] == "unsub" {
			return model.CmdType{NodeManagementSubscriptionDeleteCall: spine.NewNodeManagementSubscriptionDeleteCallType(regAddr(cdev, ce, cf), regAddr(sd, se, sf))}
		}
		return model.CmdType{NodeManagementBindingDeleteCall: spine.NewNodeManagementBindingDeleteCallType(regAddr(cdev, ce, cf), regAddr(sd, se, sf))}
	}
}

func regEntriesOf[T any](list []T, q int, get func(T) (uint64, api.FeatureLocalInterface, api.FeatureRemoteInterface)) []regEntry {
	var out []regEntry
	for _, x := range list {
		id, sf, cf := get(x)
		sa, ca := sf.Address(), cf.Address()
		dev := ""
		if ca.Device != nil {
			dev = string(*ca.Device)
		}
		out = append(out, regEntry{id: id, peer: q, cdev: dev, ce: h.EntStr(ca.Entity), cf: uint(*ca.Feature), se: h.EntStr(sa.Entity), sf: uint(*sa.Feature)})
	}
	return out
}

func (w *regWorld) subsOf(q int) []regEntry {
	return regEntriesOf(w.l.SubscriptionManager().Subscriptions(w.rds[q]), q, func(e *api.SubscriptionEntry) (uint64, api.FeatureLocalInterface, api.FeatureRemoteInterface) {
		return e.Id, e.ServerFeature, e.ClientFeature
	})
}

func (w *regWorld) bindsOf(q int) []regEntry {
	return regEntriesOf(w.l.BindingManager().Bindings(w.rds[q]), q, func(e *api.BindingEntry) (uint64, api.FeatureLocalInterface, api.FeatureRemoteInterface) {
		return e.Id, e.ServerFeature, e.ClientFeature
	})
}

// snapshot: the implementation's whole registry, observed through the per-peer
// lists of every peer that was ever connected
func (w *regWorld) snapshot() (subs, binds []regEntry) {
	for q := 1; q <= w.npeers; q++ {
		subs = append(subs, w.subsOf(q)...)
		binds = append(binds, w.bindsOf(q)...)
	}
	return
}

func regHas(es []regEntry, pair string) bool {
	for _, e := range es {
		if e.pair() == pair {
			return true
		}
	}
	return false
}

// regDiff returns the entries of a missing in b (multiset difference by pair text)
func regDiff(a, b []regEntry) []regEntry {
	cnt := map[string]int{}
	for _, e := range b {
		cnt[e.pair()]++
	}
	var out []regEntry
	for _, e := range a {
		if cnt[e.pair()] > 0 {
			cnt[e.pair()]--
			continue
		}
		out = append(out, e)
	}
	return out
}

func regFunctionOf(typ int) (model.FunctionType, func(v int) (any, model.CmdType)) {
	switch typ {
	case 1:
		return model.FunctionTypeLoadControlLimitListData, func(v int) (any, model.CmdType) {
			d := &model.LoadControlLimitListDataType{LoadControlLimitData: []model.LoadControlLimitDataType{{LimitId: util.Ptr(model.LoadControlLimitIdType(1)), Value: model.NewScaledNumberType(float64(v))}}}
			return d, model.CmdType{LoadControlLimitListData: d}
		}
	case 2:
		return model.FunctionTypeSetpointListData, func(v int) (any, model.CmdType) {
			d := &model.SetpointListDataType{SetpointData: []model.SetpointDataType{{SetpointId: util.Ptr(model.SetpointIdType(1)), Value: model.NewScaledNumberType(float64(v))}}}
			return d, model.CmdType{SetpointListData: d}
		}
	case 4:
		return model.FunctionTypeDeviceDiagnosisStateData, func(v int) (any, model.CmdType) {
			d := &model.DeviceDiagnosisStateDataType{PowerSupplyCondition: util.Ptr(model.PowerSupplyConditionTypeGood), VendorStateCode: util.Ptr(model.VendorStateCodeType(fmt.Sprint("n", v)))}
			return d, model.CmdType{DeviceDiagnosisStateData: d}
		}
	case 100:
		return model.FunctionTypeNodeManagementUseCaseData, func(v int) (any, model.CmdType) {
			d := &model.NodeManagementUseCaseDataType{}
			return d, model.CmdType{NodeManagementUseCaseData: d}
		}
	}
	return model.FunctionTypeDeviceClassificationManufacturerData, func(v int) (any, model.CmdType) {
		d := &model.DeviceClassificationManufacturerDataType{DeviceName: util.Ptr(model.DeviceClassificationStringType(fmt.Sprint("n", v)))}
		return d, model.CmdType{DeviceClassificationManufacturerData: d}
	}
}

// notifications written during the step, in global order: "peer:ent/feat"
func (w *regWorld) notifies(r *h.Report, done []string, se string, sf uint, fn model.FunctionType) []string {
	var ts []string
	for _, o := range w.out {
		if o.d.Header.CmdClassifier == nil || *o.d.Header.CmdClassifier != model.CmdClassifierTypeNotify || o.d.Header.AddressDestination == nil {
			continue
		}
		dst, src := o.d.Header.AddressDestination, o.d.Header.AddressSource
		ts = append(ts, fmt.Sprintf("%d:%s/%d", o.peer, h.EntStr(dst.Entity), *dst.Feature))
		// SPEC (C08): the notification goes out on the subscriber's own connection, from the changed
		// feature, and carries the changed function's data
		if dst.Device == nil || string(*dst.Device) != regDev(o.peer) {
			r.SpecFail("C08/fanout-on-wrong-connection", done, fmt.Sprintf("notification for %v written to the connection of peer %d", dst, o.peer))
		}
		if src == nil || h.EntStr(src.Entity) != se || src.Feature == nil || uint(*src.Feature) != sf {
			r.SpecFail("C08/fanout-wrong-source", done, fmt.Sprintf("notification for a change of %s/%d has source %v", se, sf, src))
		}
		if len(o.d.Payload.Cmd) != 1 {
			r.SpecFail("C08/fanout-without-data", done, "notification without exactly one cmd")
		} else if cd, err := o.d.Payload.Cmd[0].Data(); err != nil || cd.Function == nil || *cd.Function != fn {
			r.SpecFail("C08/fanout-without-data", done, fmt.Sprintf("notification for function %s does not carry its data", fn))
		}
	}
	return ts
}

func regList(ts []string) string { return "[" + strings.Join(ts, ", ") + "]" }

// ---------------------------------------------------------------- SPEC (the property statements, on announced trees)

func regRoleOk(f *regFeat, want string) bool { return f.role == "special" || f.role == want }
func regTypeOk(f *regFeat, typ int) bool     { return f.typ == typ || f.typ == 0 }

// specRequestOk: "the addressed local feature exists with server (or special) role and the requested type, the
// requesting client feature exists on that peer with client role and matching type"
func (w *regWorld) specRequestOk(p int, ce string, cf uint, se string, sf uint, typ int) bool {
	sv, cl := regFind(regLocalFeats, se, sf), regFind(regRemoteFeats, ce, cf)
	if sv == nil || cl == nil || w.gone[p][ce] || w.bare[p][ce] {
		return false // (the features of a bare entity are not announced)
	}
	return regRoleOk(sv, "server") && regTypeOk(sv, typ) && regRoleOk(cl, "client") && regTypeOk(cl, typ)
}

func regAtoi(x string) int { n, _ := strconv.Atoi(x); return n }

func regPair(p int, ce string, cf uint, se string, sf uint) string {
	return regEntry{peer: p, ce: ce, cf: cf, se: se, sf: sf}.pair()
}

// regJudgeInvariants: clauses that hold "at any time"
func regJudgeInvariants(r *h.Report, done []string, subs, binds []regEntry) {
	for i, list := range [][]regEntry{subs, binds} {
		prop := []string{"C08", "C09"}[i]
		ids := map[uint64]bool{}
		for _, e := range list {
			if ids[e.id] {
				r.SpecFail(prop+"/id-reused", done, fmt.Sprintf("id %d occurs twice in %s", e.id, regShow(list)))
			}
			ids[e.id] = true
			if e.cdev != regDev(e.peer) {
				r.SpecFail(prop+"/list-contains-foreign-entry", done, fmt.Sprintf("the list reported for peer %d contains an entry of device %s", e.peer, e.cdev))
			}
		}
	}
	on := map[string]int{}
	for _, e := range binds {
		k := fmt.Sprintf("%s/%d", e.se, e.sf)
		on[k]++
		if on[k] == 2 {
			r.SpecFail("C09/two-bindings-on-server-feature", done, fmt.Sprintf("server feature %s has more than one binding: %s", k, regShow(binds)))
		}
	}
}

// ---------------------------------------------------------------- one history

type regStats struct {
	subOk, subAll, bindOk, bindAll, delOk, delAll, fanNon, fanAll, faults int
	wrOk, wrAll, vOk, vAll, fireOk, fireAll                               int // composed world only
	lastEvents                                                            map[string]int // removal events of the last teardown
	lastBop                                                               *regBop
	lastPasses                                                            []string // the passes of the last teardown, as model ops
	injected                                                              int
	staleDeletes                                                          int
	lastRemoved                                                           []string // entities removed by the last notification
}

// runRegHistory executes ops on a fresh world. d == nil: monitor only (probe phase).
// ops[0] = "peers N".
func runRegHistory(r *h.Report, d *h.Driver, ev *regEvents, base int, ops []string, st *regStats) {
	runRegHistoryTd(r, d, ev, base, ops, st, false)
}

// returns true when the history was abandoned because a real timer fired outside its step (composed world only)
func runRegHistoryTd(r *h.Report, d *h.Driver, ev *regEvents, base int, ops []string, st *regStats, td bool) bool {
	if len(ops) == 0 {
		return false
	}
	np, late, broken := regHeader(ops[0])
	regSameDev = false
	for _, t := range strings.Fields(ops[0])[1:] {
		if t == "same" {
			regSameDev = true
		}
	}
	defer func() { regSameDev = false }()
	w := newRegWorldTd(np, ev, base, td, late, broken)
	defer w.close()
	if w.td != nil {
		w.td.gen = st
		defer w.td.close()
	}
	if d != nil {
		if td {
			d.Ask(fmt.Sprintf("peers %d", np))
			for q := 1; q <= np; q++ {
				if late[q] {
					d.Ask(fmt.Sprintf("late %d", q))
				}
			}
		} else {
			d.Ask("reset")
			for q := 1; q <= np; q++ {
				if broken[q] {
					d.Ask(fmt.Sprintf("broken %d", q))
				}
			}
		}
	}
	done := []string{ops[0]}
	canonImpl := map[string]map[string]int{"subs": {}, "binds": {}}
	canonModel := map[string]map[string]int{"subs": {}, "binds": {}}
	wireShown := "" // the list a peer was sent over the wire in the current step ("" = none read)
	for _, op := range ops[1:] {
		f := strings.Fields(op)
		if len(f) == 0 {
			continue
		}
		var inj []string // "<teardown> @<kind>:<idx> <operation of another peer>"
		injKind, injIdx := "", 0
		for i, t := range f {
			if strings.HasPrefix(t, "@") {
				k := strings.LastIndex(t, ":")
				injKind = t[1:k]
				injIdx, _ = strconv.Atoi(t[k+1:])
				inj, f = f[i+1:], f[:i]
				break
			}
		}
		variant := 0
		for i, t := range f {
			if len(t) > 1 && t[0] == 'v' && t[1] >= '0' && t[1] <= '9' {
				variant, _ = strconv.Atoi(t[1:])
				f = append(append([]string{}, f[:i]...), f[i+1:]...)
				break
			}
		}
		tearLine := strings.Join(f, " ")
		f, sd, cdSub := regDecor(f)
		atoi := func(i int) int { n, _ := strconv.Atoi(f[i]); return n }
		requester := 0
		switch f[0] {
		case "sub", "unsub", "bind", "unbind", "write", "drop", "dropent", "wr", "read", "discover", "addent", "full", "bareent":
			requester = atoi(1)
		}
		if requester != 0 && (requester > np || !w.alive[requester]) {
			continue // a removed connection delivers nothing
		}
		if requester != 0 && w.late[requester] && f[0] != "discover" && f[0] != "drop" {
			continue // a peer whose discovery has not completed sends nothing else
		}
		if requester != 0 && w.broken[requester] && (f[0] == "write" || f[0] == "wr" || f[0] == "read") {
			continue // nothing of these is observable on a connection that cannot be written to
		}
		if f[0] == "discover" && !w.late[requester] || f[0] == "addent" && !w.gone[requester][f[2]] && !w.bare[requester][f[2]] {
			continue
		}
		if f[0] == "reconnect" {
			if q := atoi(1); q > np || w.alive[q] || w.broken[q] {
				continue
			}
		}
		preS, preB := w.snapshot()
		w.ev.takeKeys()
		var stepKeys []string // the keyed subscription-change events of this step (sub / unsub)
		w.out = nil
		w.panicky = ""
		if w.td != nil {
			w.td.before()
		}
		var impl, kind string
		done = append(done, op)
		switch f[0] {
		case "sub", "bind":
			p, ce, cf, se, sf, ty := atoi(1), f[2], uint(atoi(3)), f[4], uint(atoi(5)), atoi(6)
			impl = w.call(p, regCallCmd(f, sd, cdSub))
			w.settle()
			postS, postB := w.snapshot()
			pair := regPair(p, ce, cf, se, sf)
			if w.broken[p] {
				// the answer cannot be written to this peer: the effect on the registry stands in for it
				grew := len(postS) > len(preS)
				if f[0] == "bind" {
					grew = len(postB) > len(preB)
				}
				impl = map[bool]string{true: "ok", false: "err"}[grew]
			}
			reqOk := w.specRequestOk(p, ce, cf, se, sf, ty)
			if f[0] == "sub" {
				exp := reqOk && !regHas(preS, pair)
				switch {
				case impl == "ok" && regHas(preS, pair):
					r.SpecFail("C08/registered-pair-granted-again", done, fmt.Sprintf("%s granted although the pair is subscribed already: %s", op, regShow(preS)))
				case impl == "ok" && !exp:
					r.SpecFail("C08/subscribe-granted-wrongly", done, fmt.Sprintf("%s granted; request conditions met: %v", op, reqOk))
				case impl != "ok" && exp:
					r.SpecFail("C08/subscribe-refused-wrongly", done, fmt.Sprintf("%s answered %s although all conditions are met and the pair is not subscribed", op, impl))
				}
				added, removed := regDiff(postS, preS), regDiff(preS, postS)
				if len(removed) > 0 || (impl == "ok") != (len(added) == 1 && added[0].pair() == pair) || (impl != "ok" && len(added) > 0) {
					r.SpecFail("C08/subscribe-registry-effect", done, fmt.Sprintf("%s answered %s; added %s removed %s", op, impl, regShow(added), regShow(removed)))
				}
				if len(regDiff(postB, preB))+len(regDiff(preB, postB)) > 0 {
					r.SpecFail("C08/subscribe-touches-bindings", done, op)
				}
				st.subAll++
				st.subOk += h.B2i(exp) // floors measure the generator: what the SPEC says should happen
				kind = "sub:" + impl
			} else {
				bound := false
				for _, e := range preB {
					if e.se == se && e.sf == sf {
						bound = true
					}
				}
				exp := reqOk && !bound
				switch {
				case impl == "ok" && !exp:
					r.SpecFail("C09/bind-granted-wrongly", done, fmt.Sprintf("%s granted; request conditions met: %v, server feature already bound: %v", op, reqOk, bound))
				case impl != "ok" && exp:
					r.SpecFail("C09/bind-refused-wrongly", done, fmt.Sprintf("%s answered %s although all conditions are met and the server feature has no binding", op, impl))
				}
				added, removed := regDiff(postB, preB), regDiff(preB, postB)
				if len(removed) > 0 || (impl == "ok") != (len(added) == 1 && added[0].pair() == pair) || (impl != "ok" && len(added) > 0) {
					r.SpecFail("C09/bind-registry-effect", done, fmt.Sprintf("%s answered %s; added %s removed %s", op, impl, regShow(added), regShow(removed)))
				}
				if len(regDiff(postS, preS))+len(regDiff(preS, postS)) > 0 {
					r.SpecFail("C09/bind-touches-subscriptions", done, op)
				}
				st.bindAll++
				st.bindOk += h.B2i(exp)
				kind = "bind:" + impl
			}
			evs := w.ev.take()
			stepKeys = w.ev.takeKeys()
			if f[0] == "sub" {
				// SPEC (C08): a granted request is announced by ONE add event that names the requesting device, the client
				// feature and the server feature; a refused one by none
				wantK := "[]"
				if impl == "ok" {
					wantK = fmt.Sprintf("[+%d:%s/%d->%s/%d]", p, ce, cf, se, sf)
				}
				if regList(stepKeys) != wantK {
					r.SpecFail("C08/change-event-names-wrong-pair", done, fmt.Sprintf("%s answered %s, subscription-change events %v, expected %s", op, impl, stepKeys, wantK))
				}
			}
			want := h.B2i(impl == "ok")
			if evs[f[0]+"+"] != want {
				r.SpecFail("C"+map[string]string{"sub": "08", "bind": "09"}[f[0]]+"/change-event", done, fmt.Sprintf("%s answered %s, %d add events", op, impl, evs[f[0]+"+"]))
			}
			regJudgeInvariants(r, done, postS, postB)
		case "unsub", "unbind":
			p, cd, ce, cf, se, sf := atoi(1), atoi(2), f[3], uint(atoi(4)), f[5], uint(atoi(6))
			prop, pre := "C08", preS
			if f[0] == "unbind" {
				prop, pre = "C09", preB
			}
			impl = w.call(p, regCallCmd(f, sd, cdSub))
			w.settle()
			postS, postB := w.snapshot()
			if w.broken[p] {
				shrank := len(postS) < len(preS)
				if f[0] == "unbind" {
					shrank = len(postB) < len(preB)
				}
				impl = map[bool]string{true: "ok", false: "err"}[shrank]
			}
			post, otherPre, otherPost := postS, preB, postB
			if f[0] == "unbind" {
				post, otherPre, otherPost = postB, preS, postS
			}
			// SPEC: "a delete request removes exactly the addressed pair and fails if it does not exist";
			// the addressed pair is the requester's (an omitted device part means the sender's device);
			// a foreign device part addresses nothing the requester owns
			own := cd == 0 || cd == p
			pair := regPair(p, ce, cf, se, sf)
			exists := own && regHas(pre, pair)
			if exists && w.bare[p][ce] {
				// observation, not judged: the entry is stale — its client feature is no longer announced (the entity was
				// announced again without features) — and the code refuses a delete whose client feature it cannot find;
				// the entry goes with the entity or the connection
				exists = false
				st.staleDeletes++
			}
			removed, added := regDiff(pre, post), regDiff(post, pre)
			foreign := false
			for _, e := range removed {
				switch {
				case e.peer != p && !own:
					foreign = true
					r.SpecFail(prop+"/delete-by-named-device", done, fmt.Sprintf("%s sent by peer %d removed %s, an entry of peer %d", op, p, e, e.peer))
				case e.peer != p:
					foreign = true
					r.SpecFail(prop+"/delete-removes-other-peers-entry", done, fmt.Sprintf("%s sent by peer %d with its own / an omitted device part removed %s, an entry of peer %d", op, p, e, e.peer))
				case !own || e.pair() != pair:
					what := map[string]string{"C08": "C08/unsubscribe-removes-other-entry", "C09": "C09/unbind-removes-other-binding"}[prop]
					r.SpecFail(what, done, fmt.Sprintf("%s removed %s, which is not the addressed entry (%s, own device part: %v)", op, e, pair, own))
					foreign = true
				}
			}
			if exists && !regHas(removed, pair) {
				r.SpecFail(prop+"/delete-did-not-remove", done, fmt.Sprintf("%s answered %s and left %s in place", op, impl, pair))
			}
			if (impl == "ok") != exists && !foreign {
				r.SpecFail(prop+"/delete-result", done, fmt.Sprintf("%s answered %s; addressed entry exists: %v", op, impl, exists))
			}
			if len(added) > 0 || len(regDiff(otherPre, otherPost))+len(regDiff(otherPost, otherPre)) > 0 {
				r.SpecFail(prop+"/delete-touches-other-registry", done, op)
			}
			w.ev.take()
			stepKeys = w.ev.takeKeys()
			if f[0] == "unsub" {
				// SPEC (C08): a successful delete is announced by ONE remove event naming the addressed pair, a failed one by none
				wantK := "[]"
				if impl == "ok" {
					wantK = fmt.Sprintf("[-%d:%s/%d->%s/%d]", p, ce, cf, se, sf)
				}
				if regList(stepKeys) != wantK {
					r.SpecFail("C08/change-event-names-wrong-pair", done, fmt.Sprintf("%s answered %s, subscription-change events %v, expected %s", op, impl, stepKeys, wantK))
				}
			}
			regJudgeInvariants(r, done, postS, postB)
			st.delAll++
			st.delOk += h.B2i(exists)
			kind = f[0] + ":" + impl
		case "drop", "dropent", "full":
			p := atoi(1)
			// the entities the notification announces as removed, in its order: "dropent p a,b,c" lists them (entity 0,
			// the device information entity, may be among them: it is kept, every other one goes with the full cascade);
			// "full p a,b" is a full notification that announces only a,b: every other known entity counts as removed
			var listed, removedEnts []string
			removedSet := map[string]bool{}
			if f[0] == "dropent" {
				listed = strings.Split(f[2], ",")
			} else if f[0] == "full" {
				keep := map[string]bool{}
				for _, e := range strings.Split(f[2], ",") {
					keep[e] = true
				}
				for _, e := range regRemoteEnts {
					if !w.gone[p][e] && !keep[e] {
						listed = append(listed, e)
					}
				}
			}
			for _, e := range listed {
				if e != "0" && regFind(regRemoteFeats, e, 1) != nil && !w.gone[p][e] && !removedSet[e] {
					removedEnts = append(removedEnts, e)
					removedSet[e] = true
				}
			}
			existed := true
			st.lastRemoved = removedEnts
			var bop *regBop
			if inj != nil {
				bop = w.prepareB(inj)
				regCore.arm(injKind, injIdx, bop.fire)
			} else {
				regCore.arm("", 0, nil)
			}
			// entities of p a teardown walks over (for the attribution of a lost binding to the known any-peer defect)
			anyPeerEnts := map[string]bool{}
			var passEnts []string
			if f[0] == "drop" {
				for _, e := range regRemoteEnts {
					anyPeerEnts[e] = !w.gone[p][e]
					if !w.gone[p][e] {
						passEnts = append(passEnts, e)
					}
				}
			} else {
				for _, e := range removedEnts {
					anyPeerEnts[e] = true
				}
				passEnts = removedEnts
			}
			st.lastPasses = nil
			for _, e := range passEnts {
				st.lastPasses = append(st.lastPasses, fmt.Sprintf("subspass %d %s", p, e))
			}
			for _, e := range passEnts {
				st.lastPasses = append(st.lastPasses, fmt.Sprintf("bindspass %d %s", p, e))
			}
			if f[0] == "drop" {
				w.l.RemoveRemoteDeviceConnection(regSki(p))
				w.alive[p] = false
			} else {
				w.ctr[p]++
				nc := model.CmdClassifierTypeNotify
				cmd := model.CmdType{Function: util.Ptr(model.FunctionTypeNodeManagementDetailedDiscoveryData)}
				if f[0] == "dropent" {
					removed := model.NetworkManagementStateChangeTypeRemoved
					cmd.Filter = []model.FilterType{*model.NewFilterTypePartial()}
					cmd.NodeManagementDetailedDiscoveryData = regDiscoveryV(regDev(p), &removed, listed, variant)
				} else {
					var keep []string
					for _, e := range regRemoteEnts {
						if !w.gone[p][e] && !removedSet[e] && !(e == "0" && len(listed) > 0 && listed[0] == "0") {
							keep = append(keep, e)
						}
					}
					cmd.NodeManagementDetailedDiscoveryData = regDiscovery(regDev(p), nil, keep)
				}
				w.inject(p, model.DatagramType{Header: model.HeaderType{AddressSource: h.FA(regDev(p), []uint{0}, 0), AddressDestination: h.FA("HEMS", []uint{0}, 0),
					MsgCounter: util.Ptr(model.MsgCounterType(w.ctr[p])), CmdClassifier: &nc}, Payload: model.PayloadType{Cmd: []model.CmdType{cmd}}})
				for _, e := range removedEnts {
					w.gone[p][e] = true
					delete(w.bare[p], e)
				}
				existed = len(removedEnts) > 0
			}
			seen, fired := regCore.disarm()
			st.lastEvents = seen
			if bop != nil {
				if !fired {
					// the event point does not exist in this run: the operation follows the teardown
					bop.fire()
				}
				if !bop.join() {
					r.SpecFail("C10/operation-of-other-peer-blocked-by-teardown", done, fmt.Sprintf("%s, started while %s was in progress, had not returned %v after the teardown", bop.line, tearLine, regJoinWait))
					return false
				}
				w.out = append(w.out, w.log.take()...)
			}
			impl = "done"
			w.settle()
			postS, postB := w.snapshot()
			evs := w.ev.take()
			// SPEC (C10): all and only the entries that refer to the removed device / entity disappear
			refers := func(e regEntry) bool { return e.peer == p && (f[0] == "drop" || removedSet[e.ce]) }
			remS, remB := regDiff(preS, postS), regDiff(preB, postB)
			addS, addB := regDiff(postS, preS), regDiff(postB, preB)
			nRemS, nRemB := len(remS), len(remB)
			if bop != nil {
				remS, remB, addS, addB = bop.judge(r, done, tearLine, w, refers, preS, preB, remS, remB, addS, addB, anyPeerEnts)
				st.lastBop = bop
				kind = f[0] + "@" + injKind + ":" + bop.f[0]
				// every entry that left a registry did so with an event: count by sizes, so that an entry granted during
				// the teardown and removed again, or removed and granted again, is counted too
				gS, gB := 0, 0
				if bop.answer == "ok" && bop.f[0] == "sub" {
					gS = 1
				}
				if bop.answer == "ok" && bop.f[0] == "bind" {
					gB = 1
				}
				nRemS, nRemB = len(preS)+gS-len(postS)+len(addS), len(preB)+gB-len(postB)+len(addB)
			}
			for i, rem := range [][]regEntry{remS, remB} {
				what := []string{"subscription", "binding"}[i]
				for _, e := range rem {
					if e.peer != p {
						r.SpecFail("C10/teardown-removes-other-peers-"+what, done, fmt.Sprintf("%s removed %s %s, which belongs to peer %d", op, what, e, e.peer))
					} else if !refers(e) {
						r.SpecFail("C10/teardown-removes-other-entitys-"+what, done, fmt.Sprintf("%s removed %s %s of another entity", op, what, e))
					}
				}
			}
			for _, e := range append(append([]regEntry{}, postS...), postB...) {
				if refers(e) && existed {
					r.SpecFail("C10/teardown-leaves-entry", done, fmt.Sprintf("after %s the entry %s is still registered", op, e))
				}
			}
			if len(addS)+len(addB) > 0 {
				r.SpecFail("C10/teardown-adds-entry", done, fmt.Sprintf("%s: new entries %s %s", op, regShow(addS), regShow(addB)))
			}
			// a removal event for each registry entry that disappeared and for the device / entity
			if evs["sub-"] != nRemS || evs["bind-"] != nRemB {
				r.SpecFail("C10/teardown-events", done, fmt.Sprintf("%s removed %d subscriptions and %d bindings, events: %v", op, nRemS, nRemB, evs))
			}
			if f[0] == "drop" && evs["device-"] != 1 || f[0] != "drop" && evs["entity-"] != len(removedEnts) {
				r.SpecFail("C10/teardown-events", done, fmt.Sprintf("%s: device/entity removal events: %v", op, evs))
			}
			// the device can no longer be resolved; every other peer still can
			for q := 1; q <= np; q++ {
				bySki := w.l.RemoteDeviceForSki(regSki(q)) != nil
				byAddr := w.l.RemoteDeviceForAddress(model.AddressDeviceType(regDev(q))) != nil
				// (the device address of a peer is known from its discovery reply on)
				if w.alive[q] != bySki || (w.alive[q] && !w.late[q]) != byAddr {
					key := "C10/device-still-resolvable"
					if w.alive[q] {
						key = "C10/other-device-unresolvable"
					}
					r.SpecFail(key, done, fmt.Sprintf("after %s: peer %d connected=%v, resolvable by ski=%v by address=%v", op, q, w.alive[q], bySki, byAddr))
				}
			}
			regJudgeInvariants(r, done, postS, postB)
			if w.td != nil {
				w.td.afterTeardown(r, done, op, p, f[0] == "drop", removedEnts)
			}
			st.faults++
			if kind == "" {
				kind = f[0]
			}
		case "reconnect":
			// the removed SKI connects again: a new writer, counters restart, a fresh discovery
			p := atoi(1)
			w.gen[p]++
			w.l.SetupRemoteDevice(regSki(p), &regW{p, w.log, w.gen[p]})
			w.rds[p] = w.l.RemoteDeviceForSki(regSki(p))
			w.ctr[p], w.alive[p], w.gone[p], w.bare[p] = 100, true, map[string]bool{}, map[string]bool{}
			if w.td != nil {
				w.td.used[p] = map[uint64]bool{}
			}
			w.discover(p)
			w.settle()
			w.out = append(w.out, w.log.take()...)
			impl, kind = "done", "reconnect"
			// SPEC (C10): nothing of the old connection carries over to the new one
			postS, postB := w.snapshot()
			for _, e := range append(append([]regEntry{}, postS...), postB...) {
				if e.peer == p {
					r.SpecFail("C10/state-of-old-connection-carried-over", done, fmt.Sprintf("after %s the entry %s is registered for the new connection", op, e))
				}
			}
			if w.td != nil {
				if bits := w.td.chas(p); bits != "0 0 0 0 1" {
					r.SpecFail("C10/state-of-old-connection-carried-over", done, fmt.Sprintf("after %s the local client features' bookkeeping for the peer is %q, expected only node management's fresh subscription", op, bits))
				}
			}
			subCall := false
			for _, o := range w.out {
				if o.peer == p && o.gen == w.gen[p] && len(o.d.Payload.Cmd) > 0 && o.d.Payload.Cmd[0].NodeManagementSubscriptionRequestCall != nil {
					subCall = true
				}
			}
			if !subCall {
				r.SpecFail("C10/peer-not-served-after-its-discovery", done, fmt.Sprintf("after %s no node-management subscription call on the new connection", op))
			}
			w.ev.take()
		case "discover":
			p := atoi(1)
			w.discover(p)
			w.settle()
			w.out = append(w.out, w.log.take()...)
			impl, kind = "done", "discover"
			// SPEC (C10, "continues to be served"): once a peer's discovery reply has arrived the stack subscribes to its
			// node management and asks for its use cases — also when other connections were removed in the meantime
			subCall, ucRead := false, false
			for _, o := range w.out {
				if o.peer != p || len(o.d.Payload.Cmd) == 0 || o.d.Header.CmdClassifier == nil {
					continue
				}
				c0 := o.d.Payload.Cmd[0]
				subCall = subCall || c0.NodeManagementSubscriptionRequestCall != nil
				ucRead = ucRead || (c0.NodeManagementUseCaseData != nil && *o.d.Header.CmdClassifier == model.CmdClassifierTypeRead)
			}
			if !w.broken[p] && (!subCall || !ucRead) {
				r.SpecFail("C10/peer-not-served-after-its-discovery", done, fmt.Sprintf("after the discovery reply of peer %d: node-management subscription call sent: %v, use-case read sent: %v", p, subCall, ucRead))
			}
			if w.rds[p].FeatureByAddress(h.FA(regDev(p), []uint{1}, 1)) == nil {
				r.SpecFail("C10/peer-not-served-after-its-discovery", done, fmt.Sprintf("after the discovery reply of peer %d its announced features are unknown", p))
			}
			w.ev.take()
		case "bareent":
			// an `added` entry for entity e that lists NO features: the entity stays (or becomes) known, its features are
			// dropped, the registry entries of its former features stay
			p, e := atoi(1), f[2]
			wasGone := w.gone[p][e]
			w.ctr[p]++
			nc := model.CmdClassifierTypeNotify
			added := model.NetworkManagementStateChangeTypeAdded
			dd := regDiscovery(regDev(p), &added, []string{e})
			dd.FeatureInformation = nil
			w.inject(p, model.DatagramType{Header: model.HeaderType{AddressSource: h.FA(regDev(p), []uint{0}, 0), AddressDestination: h.FA("HEMS", []uint{0}, 0),
				MsgCounter: util.Ptr(model.MsgCounterType(w.ctr[p])), CmdClassifier: &nc}, Payload: model.PayloadType{Cmd: []model.CmdType{{
				Function: util.Ptr(model.FunctionTypeNodeManagementDetailedDiscoveryData), Filter: []model.FilterType{*model.NewFilterTypePartial()},
				NodeManagementDetailedDiscoveryData: dd}}}})
			if w.bare[p] == nil {
				w.bare[p] = map[string]bool{}
			}
			w.gone[p][e], w.bare[p][e] = false, true
			w.settle()
			impl, kind = "done", "bareent"
			evs := w.ev.take()
			if evs["entity+"] != h.B2i(wasGone) || w.rds[p].Entity(spine.NewAddressEntityType(regParseEnt(e))) == nil || w.rds[p].FeatureByAddress(h.FA(regDev(p), regParseEnt(e), 1)) != nil {
				r.SpecFail("C10/entity-added-not-processed", done, fmt.Sprintf("%s: entity-added events %d (entity was unknown: %v)", op, evs["entity+"], wasGone))
			}
			if postS, postB := w.snapshot(); len(regDiff(preS, postS))+len(regDiff(postS, preS))+len(regDiff(preB, postB))+len(regDiff(postB, preB)) > 0 {
				r.SpecFail("C10/registry-changed-by-bareent", done, op)
			}
		case "addent":
			p, e := atoi(1), f[2]
			w.ctr[p]++
			nc := model.CmdClassifierTypeNotify
			added := model.NetworkManagementStateChangeTypeAdded
			w.inject(p, model.DatagramType{Header: model.HeaderType{AddressSource: h.FA(regDev(p), []uint{0}, 0), AddressDestination: h.FA("HEMS", []uint{0}, 0),
				MsgCounter: util.Ptr(model.MsgCounterType(w.ctr[p])), CmdClassifier: &nc}, Payload: model.PayloadType{Cmd: []model.CmdType{{
				Function: util.Ptr(model.FunctionTypeNodeManagementDetailedDiscoveryData), Filter: []model.FilterType{*model.NewFilterTypePartial()},
				NodeManagementDetailedDiscoveryData: regDiscovery(regDev(p), &added, []string{e})}}}})
			wasGone := w.gone[p][e]
			w.gone[p][e] = false
			delete(w.bare[p], e)
			w.settle()
			impl, kind = "done", "addent"
			evs := w.ev.take()
			if evs["entity+"] != h.B2i(wasGone) || w.rds[p].FeatureByAddress(h.FA(regDev(p), regParseEnt(e), 1)) == nil {
				r.SpecFail("C10/entity-added-not-processed", done, fmt.Sprintf("%s: entity-added events %d, feature %s/1 known: %v", op, evs["entity+"], e, w.rds[p].FeatureByAddress(h.FA(regDev(p), regParseEnt(e), 1)) != nil))
			}
			if postS, postB := w.snapshot(); len(regDiff(preS, postS))+len(regDiff(postS, preS))+len(regDiff(preB, postB))+len(regDiff(postB, preB)) > 0 {
				r.SpecFail("C10/registry-changed-by-addent", done, op)
			}
		case "subs", "binds":
			q := atoi(1)
			if q > np {
				continue
			}
			wireShown = ""
			var api_ []regEntry
			if f[0] == "subs" {
				api_ = w.subsOf(q)
			} else {
				api_ = w.bindsOf(q)
			}
			impl = regShow(api_)
			if w.alive[q] && !w.broken[q] && !w.late[q] {
				// the list as reported to the peer itself over the wire
				var c model.CmdType
				if f[0] == "subs" {
					c = model.CmdType{NodeManagementSubscriptionData: &model.NodeManagementSubscriptionDataType{}}
				} else {
					c = model.CmdType{NodeManagementBindingData: &model.NodeManagementBindingDataType{}}
				}
				w.call(q, c)
				var wire []regEntry
				got := false
				for _, o := range w.out {
					if o.peer != q || len(o.d.Payload.Cmd) == 0 {
						continue
					}
					c0 := o.d.Payload.Cmd[0]
					if c0.NodeManagementSubscriptionData != nil {
						got = true
						for _, e := range c0.NodeManagementSubscriptionData.SubscriptionEntry {
							wire = append(wire, regEntry{id: uint64(*e.SubscriptionId), peer: regWirePeer(e.ClientAddress, e.ServerAddress), ce: h.EntStr(e.ClientAddress.Entity), cf: uint(*e.ClientAddress.Feature), se: h.EntStr(e.ServerAddress.Entity), sf: uint(*e.ServerAddress.Feature)})
						}
					}
					if c0.NodeManagementBindingData != nil {
						got = true
						for _, e := range c0.NodeManagementBindingData.BindingEntry {
							wire = append(wire, regEntry{id: uint64(*e.BindingId), peer: regWirePeer(e.ClientAddress, e.ServerAddress), ce: h.EntStr(e.ClientAddress.Entity), cf: uint(*e.ClientAddress.Feature), se: h.EntStr(e.ServerAddress.Entity), sf: uint(*e.ServerAddress.Feature)})
						}
					}
				}
				wireShown = regShow(wire)
				if !got || regShow(wire) != impl {
					r.SpecFail(map[string]string{"subs": "C08", "binds": "C09"}[f[0]]+"/reported-list-differs", done, fmt.Sprintf("list sent to peer %d: %s (reply seen: %v), registry: %s", q, regShow(wire), got, impl))
				}
			}
			regJudgeInvariants(r, done, preS, preB)
			kind = f[0]
			if impl != "." {
				kind += ":nonempty"
			}
		case "notify", "update", "write", "notifybad", "updatebad":
			var se string
			var sf uint
			var p int
			var ce string
			var cf uint
			if f[0] == "write" {
				p, ce, cf, se, sf = atoi(1), f[2], uint(atoi(3)), f[4], uint(atoi(5))
			} else {
				se, sf = f[1], uint(atoi(2))
			}
			sv := regFind(regLocalFeats, se, sf)
			typ := 1
			if sv != nil {
				typ = sv.typ
			}
			fn, mk := regFunctionOf(typ)
			w.val++
			data, cmd := mk(w.val)
			accepted := true
			storedBefore := w.regStored(se, sf, fn)
			switch f[0] {
			case "notifybad", "updatebad":
				// a change of a function the feature does not have: refused, nothing stored, nobody notified
				accepted = false
				if lf := w.l.FeatureByAddress(h.FA("HEMS", regParseEnt(se), sf)); lf != nil {
					if f[0] == "notifybad" {
						lf.SetData(model.FunctionTypeMeasurementListData, &model.MeasurementListDataType{})
					} else if e := lf.UpdateData(model.FunctionTypeMeasurementListData, &model.MeasurementListDataType{}, nil, nil); e == nil {
						r.SpecFail("C08/change-of-missing-function-accepted", done, op)
					}
				}
			case "notify":
				if lf := w.l.FeatureByAddress(h.FA("HEMS", regParseEnt(se), sf)); lf != nil {
					lf.SetData(fn, data)
					// SetData has no result: a feature without that function (the client feature [1]/3) refuses
					accepted = storedBefore != "none"
				} else {
					accepted = false
				}
			case "update":
				lf := w.l.FeatureByAddress(h.FA("HEMS", regParseEnt(se), sf))
				if lf == nil {
					accepted = false
					break
				}
				var fp *model.FilterType
				if typ == 1 || typ == 2 {
					fp = model.NewFilterTypePartial()
				}
				if e := lf.UpdateData(fn, data, fp, nil); e != nil {
					accepted = false
				}
			case "write":
				w.ctr[p]++
				wc := model.CmdClassifierTypeWrite
				ack := true
				w.inject(p, model.DatagramType{Header: model.HeaderType{AddressSource: h.FA(regDev(p), regParseEnt(ce), cf), AddressDestination: h.FA("HEMS", regParseEnt(se), sf),
					MsgCounter: util.Ptr(model.MsgCounterType(w.ctr[p])), CmdClassifier: &wc, AckRequest: &ack}, Payload: model.PayloadType{Cmd: []model.CmdType{cmd}}})
				res := w.resultFor(p, w.ctr[p])
				accepted = res == "ok"
				if !accepted {
					impl = map[string]string{"err": "denied", "none": "none"}[res]
				}
			}
			w.out = append(w.out, w.log.take()...)
			w.settle()
			ts := w.notifies(r, done, se, sf, fn)
			// SPEC (C08): every notification carries the changed function and the data the feature holds for it
			// after the change; a refused change leaves the stored data as it was
			pays := w.notifyPayloads()
			storedAfter := w.regStored(se, sf, fn)
			for i, pl := range pays {
				if pl != fmt.Sprintf("%d:%s", regFnID(fn), storedAfter) {
					r.SpecFail("C08/fanout-data-is-not-the-stored-data", done, fmt.Sprintf("%s: notification %d carries %s, the feature holds %d:%s", op, i, pl, regFnID(fn), storedAfter))
				}
			}
			if !accepted && storedAfter != storedBefore {
				r.SpecFail("C08/refused-change-stored", done, fmt.Sprintf("%s was refused, the stored data changed from %s to %s", op, storedBefore, storedAfter))
			}
			if accepted && f[0] != "update" && regFnID(fn) != 100 && storedAfter != strconv.Itoa(w.val) {
				r.SpecFail("C08/accepted-change-not-stored", done, fmt.Sprintf("%s was accepted with content %d, the feature holds %s", op, w.val, storedAfter))
			}
			if w.td == nil {
				// correspondence with Spine.RegData: targets with payload, and the store after the op
				rich := make([]string, len(ts))
				for i := range ts {
					rich[i] = ts[i] + "=" + pays[i]
				}
				if impl == "" {
					impl = regList(rich)
				}
				if impl != "none" {
					impl += " data=" + storedAfter
				}
			}
			if impl == "" {
				impl = regList(ts)
			}
			// SPEC (C08): one notification to each remote feature currently subscribed to that feature and to nobody else
			var want []string
			if accepted {
				for _, e := range preS {
					// a subscriber whose connection cannot be written to gets nothing that could be seen; every
					// other subscriber is still owed exactly one notification
					if e.se == se && e.sf == sf && !w.broken[e.peer] {
						want = append(want, fmt.Sprintf("%d:%s/%d", e.peer, e.ce, e.cf))
					}
				}
			}
			got := append([]string{}, ts...)
			sort.Strings(want)
			sort.Strings(got)
			if strings.Join(want, ",") != strings.Join(got, ",") {
				key := "C08/fanout-extra"
				if len(got) < len(want) {
					key = "C08/fanout-missing"
				}
				for i := 1; i < len(got); i++ {
					if got[i] == got[i-1] {
						key = "C08/fanout-duplicate"
					}
				}
				r.SpecFail(key, done, fmt.Sprintf("%s: notified %v, subscribed %v", op, got, want))
			}
			w.ev.take()
			st.fanAll++
			st.fanNon += h.B2i(len(want) > 0)
			kind = f[0]
			if len(ts) > 0 {
				kind += ":fanout"
			}
		default:
			if w.td == nil {
				panic("bad op " + op)
			}
			impl, kind = w.td.step(r, done, f, preS, preB)
			if impl == "skip" {
				done = done[:len(done)-1]
				continue
			}
			postS, postB := w.snapshot()
			if len(regDiff(preS, postS))+len(regDiff(postS, preS))+len(regDiff(preB, postB))+len(regDiff(postB, preB)) > 0 {
				r.SpecFail("C10/registry-changed-by-"+f[0], done, fmt.Sprintf("%s changed the registries: %s | %s -> %s | %s", op, regShow(preS), regShow(preB), regShow(postS), regShow(postB)))
			}
		}
		// SPEC (C10): no further datagram is written to a removed connection
		for _, o := range w.out {
			if (!w.alive[o.peer] || o.gen != w.gen[o.peer]) && f[0] != "drop" && f[0] != "fire" {
				r.SpecFail("C10/write-to-removed-connection", done, fmt.Sprintf("during %s a datagram was written to the removed connection of peer %d", op, o.peer))
			}
		}
		if w.panicky != "" {
			impl = "panic " + w.panicky
		}
		if w.td != nil && w.td.early {
			r.Eval("abandoned:timer-fired-early", "")
			return true
		}
		r.Eval(kind, "")
		if f[0] == "dropent" || f[0] == "full" {
			// the model is told which entities the notification removes (it keeps entity 0 itself)
			l := "0"
			if parts := strings.Fields(tearLine); f[0] == "dropent" {
				l = parts[2]
			} else if len(st.lastRemoved) > 0 {
				l = strings.Join(st.lastRemoved, ",")
			}
			tearLine = fmt.Sprintf("dropent %s %s", f[1], l)
			if inj == nil {
				op = tearLine
			}
		}
		if d != nil && inj != nil {
			st.injected++
			if !regModelBothOrders(r, d, done, w, tearLine, st.lastBop, st.lastPasses) {
				return false
			}
			continue
		}
		if d != nil {
			want := d.Ask(op)
			if f[0] == "subs" || f[0] == "binds" {
				// the property fixes that ids are pairwise distinct (monitored), not their values: a repair may draw
				// the id before or after a check. Ids are compared by order of first appearance.
				impl, want = regCanonIDs(impl, canonImpl[f[0]]), regCanonIDs(want, canonModel[f[0]])
			}
			if impl != want {
				r.Mismatch(done, impl, want, "registry op "+op)
				return false
			}
			if (f[0] == "sub" || f[0] == "unsub") && w.td == nil {
				// the subscription-change events of the call, with the device, client and server feature each names,
				// against Spine.RegEv.callEvents
				ie, me := regList(stepKeys), d.Ask("events")
				if ie != me {
					r.Mismatch(done, ie, me, "subscription-change events of "+op)
					return false
				}
				r.Eval("events:"+f[0], "")
			}
			if (f[0] == "subs" || f[0] == "binds") && wireShown != "" && w.td == nil {
				// the reply as sent over the wire against Spine.RegWire (ids by order of first appearance, as above)
				wi, wm := regCanonIDs(wireShown, canonImpl[f[0]]), regCanonIDs(d.Ask("wire "+op), canonModel[f[0]])
				if wi != wm {
					r.Mismatch(done, wi, wm, "list sent over the wire, "+op)
					return false
				}
				r.Eval("wire:"+f[0], "")
			}
		}
	}
	r.Traces++
	return false
}

// regDropBroken removes the targets "k:…" of peers with a broken send path from a model fan-out list "[a, b]"
func regDropBroken(list string, broken map[int]bool) string {
	if !strings.HasPrefix(list, "[") {
		return list
	}
	var keep []string
	for _, t := range strings.Split(strings.Trim(list, "[]"), ", ") {
		if t == "" {
			continue
		}
		k, _ := strconv.Atoi(t[:strings.Index(t, ":")])
		if !broken[k] {
			keep = append(keep, t)
		}
	}
	return regList(keep)
}

// regCanonIDs renumbers the ids of a list "id:entry,id:entry" by order of first appearance in this history.
func regCanonIDs(list string, seen map[string]int) string {
	if list == "." || list == "" {
		return list
	}
	parts := strings.Split(list, ",")
	for i, e := range parts {
		k := strings.Index(e, ":")
		if k < 0 {
			continue
		}
		if _, ok := seen[e[:k]]; !ok {
			seen[e[:k]] = len(seen) + 1
		}
		parts[i] = fmt.Sprintf("#%d%s", seen[e[:k]], e[k:])
	}
	return strings.Join(parts, ",")
}

// ---------------------------------------------------------------- generation

type regRng interface{ Intn(int) int }

// valid (client entity, client feature, server entity, server feature, type) tuples
type regTup struct {
	ce     string
	cf     int
	se     string
	sf, ty int
}

var regValid = []regTup{{"1", 1, "1", 1, 1}, {"1", 1, "2", 1, 1}, {"2", 1, "1", 1, 1}, {"2", 1, "2", 1, 1}, {"1", 2, "1", 2, 2}, {"1", 3, "1", 1, 1}, {"1", 3, "1", 2, 2},
	{"1", 3, "2", 1, 1}, {"1", 3, "2", 2, 4}, {"0", 0, "0", 0, 100}, {"1", 3, "0", 1, 3}, {"1.1", 1, "1", 1, 1}, {"1.1", 1, "2", 1, 1}}

// requests that involve a special-role (node management) feature, with matching and non-matching types: the type must
// match for a special feature as for any other (the legitimate NodeManagement -> NodeManagement pair is in regValid)
var regSpecial = []regTup{{"0", 0, "0", 0, 4}, {"0", 0, "0", 0, 1}, {"0", 0, "0", 0, 0}, {"0", 0, "1", 1, 1}, {"0", 0, "1", 1, 100}, {"0", 0, "2", 2, 4},
	{"1", 1, "0", 0, 1}, {"1", 1, "0", 0, 100}, {"1", 3, "0", 0, 100}, {"1", 3, "0", 0, 4}, {"0", 0, "0", 1, 3}, {"0", 0, "0", 1, 100}, {"0", 0, "0", 0, 100}}

// regFaultOp: a teardown op — a drop, or a discovery notification that announces entities as removed: one entity,
// several, the device information entity [0] among them at any position, or a full notification that omits some
func regFaultOp(rng regRng, p int) string {
	switch rng.Intn(10) {
	case 0, 1, 2, 3:
		return fmt.Sprintf("drop %d", p)
	case 4, 5, 6:
		// the optional parts of a removal entry vary: with / without entityType (real devices omit it), device part, description
		return fmt.Sprintf("dropent %d %s v%d", p, []string{"1", "1.1", "2"}[rng.Intn(3)], rng.Intn(8))
	case 7:
		return fmt.Sprintf("dropent %d %s v%d", p, []string{"0,1", "1,0,1.1", "0,2,1.1", "2,0", "0", "1.1,1", "0,1,1.1,2"}[rng.Intn(7)], rng.Intn(8))
	case 8:
		return fmt.Sprintf("full %d %s", p, []string{"0,2", "0,1,1.1", "1", "2,1.1", "0,1"}[rng.Intn(5)])
	}
	return fmt.Sprintf("dropent %d %s v%d", p, []string{"1,2", "1.1,2", "1,1.1"}[rng.Intn(3)], rng.Intn(8))
}

// regDecorate appends address decorations to a request: most requests name the devices as a well-behaved peer does;
// some omit the (optional) device part of the server address, some carry an unknown or another peer's device string.
func regDecorate(rng regRng, op string, np int, clientToo bool) string {
	switch rng.Intn(10) {
	case 0, 1:
		op += " sd0"
	case 2:
		op += " sd77"
	case 3:
		op += fmt.Sprintf(" sd%d", 1+rng.Intn(np))
	}
	if clientToo {
		switch rng.Intn(12) {
		case 0:
			op += " cd0"
		case 1:
			op += " cd77"
		case 2:
			op += fmt.Sprintf(" cd%d", 1+rng.Intn(np))
		}
	}
	return op
}

func genRegHistory(rng regRng, n, np int, faults bool) []string {
	head := fmt.Sprintf("peers %d", np)
	latePeer := 0
	switch rng.Intn(6) {
	case 0:
		head += fmt.Sprintf(" broken:%d", 1+rng.Intn(np)) // one peer's connection cannot be written to …
		if np == 3 && rng.Intn(2) == 0 {
			head = fmt.Sprintf("peers 3 broken:%s", []string{"1,2", "1,3", "2,3"}[rng.Intn(3)]) // … or two of three
		}
	case 1:
		latePeer = 1 + rng.Intn(np) // one peer's discovery reply arrives somewhere in the middle
		head += fmt.Sprintf(" late:%d", latePeer)
	}
	ops := []string{head}
	discoverAt := rng.Intn(n/2 + 1)
	type tup struct {
		p int
		regTup
	}
	var granted []tup // remembered requests, to aim deletes, repeated requests and writes at existing entries
	dropped := 0
	ents := []string{"1", "1", "1", "2", "2", "1.1", "3"}
	for i := 0; i < n; i++ {
		if latePeer != 0 && i == discoverAt {
			ops = append(ops, fmt.Sprintf("discover %d", latePeer))
		}
		if rng.Intn(25) == 0 {
			ops = append(ops, fmt.Sprintf("addent %d %s", 1+rng.Intn(np), []string{"1", "1.1", "2"}[rng.Intn(3)]))
		}
		if rng.Intn(15) == 0 {
			ops = append(ops, fmt.Sprintf("reconnect %d", 1+rng.Intn(np))) // skipped while that peer is connected
		}
		if rng.Intn(25) == 0 {
			ops = append(ops, fmt.Sprintf("bareent %d %s", 1+rng.Intn(np), []string{"1", "1.1", "2"}[rng.Intn(3)]))
		}
		p := 1 + rng.Intn(np)
		t := regTup{ents[rng.Intn(len(ents))], 1 + rng.Intn(4), ents[rng.Intn(len(ents))], 1 + rng.Intn(3), []int{1, 1, 1, 2, 2, 4, 0}[rng.Intn(7)]}
		if rng.Intn(10) < 7 {
			t = regValid[rng.Intn(len(regValid))]
		}
		if rng.Intn(12) == 0 {
			t = regSpecial[rng.Intn(len(regSpecial))]
		}
		if len(granted) > 0 && rng.Intn(6) == 0 {
			// somebody asks for a pair / server feature that was asked for before (duplicates, bound features)
			t = granted[rng.Intn(len(granted))].regTup
			if rng.Intn(2) == 0 {
				for _, v := range regValid {
					if v.se == t.se && v.sf == t.sf && rng.Intn(2) == 0 {
						t = v
					}
				}
			}
		}
		del := func() (int, int, regTup) {
			cd := []int{0, p, 1 + rng.Intn(np), p}[rng.Intn(4)]
			if len(granted) > 0 && rng.Intn(10) < 7 {
				g := granted[rng.Intn(len(granted))]
				if rng.Intn(4) > 0 {
					return g.p, []int{0, g.p, 1 + rng.Intn(np), g.p}[rng.Intn(4)], g.regTup
				}
				// somebody else asks, possibly naming the owner's device
				q := 1 + rng.Intn(np)
				return q, []int{0, g.p, q}[rng.Intn(3)], g.regTup
			}
			return p, cd, t
		}
		switch k := rng.Intn(24); {
		case k < 5:
			ops = append(ops, regDecorate(rng, fmt.Sprintf("sub %d %s %d %s %d %d", p, t.ce, t.cf, t.se, t.sf, t.ty), np, true))
			granted = append(granted, tup{p, t})
		case k < 8:
			q, cd, g := del()
			ops = append(ops, regDecorate(rng, fmt.Sprintf("unsub %d %d %s %d %s %d", q, cd, g.ce, g.cf, g.se, g.sf), np, false))
		case k < 12:
			ops = append(ops, regDecorate(rng, fmt.Sprintf("bind %d %s %d %s %d %d", p, t.ce, t.cf, t.se, t.sf, t.ty), np, true))
			granted = append(granted, tup{p, t})
		case k < 15:
			q, cd, g := del()
			ops = append(ops, regDecorate(rng, fmt.Sprintf("unbind %d %d %s %d %s %d", q, cd, g.ce, g.cf, g.se, g.sf), np, false))
		case k == 15 && faults && i > n/3 && dropped < np-1:
			f := regFaultOp(rng, p)
			ops = append(ops, f)
			if strings.HasPrefix(f, "drop ") {
				dropped++
			}
		case k < 18:
			ops = append(ops, fmt.Sprintf("%s %d", []string{"subs", "binds"}[rng.Intn(2)], 1+rng.Intn(np)))
		case k < 20:
			srv := [][2]int{{1, 1}, {1, 2}, {2, 1}, {2, 2}, {0, 1}}[rng.Intn(5)]
			ops = append(ops, fmt.Sprintf("%s %d %d", []string{"notify", "notify", "update"}[rng.Intn(3)], srv[0], srv[1]))
		case k < 22 && len(granted) > 0:
			// a subscribed / bound feature's server changes, or a (hopefully bound) client writes
			g := granted[rng.Intn(len(granted))]
			if rng.Intn(2) == 0 && g.se != "0" {
				ops = append(ops, fmt.Sprintf("write %d %s %d %s %d", g.p, g.ce, g.cf, g.se, g.sf))
			} else {
				ops = append(ops, fmt.Sprintf("notify %s %d", g.se, g.sf))
			}
		default:
			ops = append(ops, fmt.Sprintf("write %d %s %d %d %d", p, t.ce, t.cf, []int{1, 2}[rng.Intn(2)], 1+rng.Intn(3)))
		}
	}
	return ops
}

// regSprinkleBad: after some data changes of a history, a refused change of the same feature (a function it does not
// have) through SetData / UpdateData, and a change of the client feature [1]/3, which has no function at all
func regSprinkleBad(rng regRng, ops []string) []string {
	var out []string
	for _, op := range ops {
		out = append(out, op)
		f := strings.Fields(op)
		if (f[0] == "notify" || f[0] == "update") && rng.Intn(3) == 0 {
			out = append(out, fmt.Sprintf("%s %s %s", []string{"notifybad", "updatebad"}[rng.Intn(2)], f[1], f[2]))
			if rng.Intn(3) == 0 {
				out = append(out, []string{"notify 1 3", "update 1 3"}[rng.Intn(2)])
			}
		}
	}
	return out
}

// regObserve: the observations appended after a fault: every list of every peer, a change of every server feature
func regObserve(np int) []string {
	var ops []string
	for q := 1; q <= np; q++ {
		ops = append(ops, fmt.Sprintf("subs %d", q), fmt.Sprintf("binds %d", q))
	}
	for _, s := range [][2]int{{1, 1}, {1, 2}, {2, 1}, {2, 2}, {0, 0}} {
		ops = append(ops, fmt.Sprintf("notify %d %d", s[0], s[1]))
	}
	return ops
}

// ---------------------------------------------------------------- witnesses of the defect flags

var regWitDelSub = []string{"peers 2", "sub 1 1 1 1 1 1", "unsub 2 1 1 1 1 1", "subs 1", "notify 1 1"}
var regWitDisjunct = []string{"peers 2", "bind 1 1 3 1 1 1", "bind 1 1 3 1 2 2", "unbind 1 0 1 3 1 1", "binds 1"}
var regWitDelBind = []string{"peers 2", "bind 1 1 3 1 2 2", "bind 2 1 3 1 1 1", "unbind 2 1 1 3 1 1", "binds 1", "binds 2"}
var regWitDropAny = []string{"peers 2", "bind 2 1 1 1 1 1", "drop 1", "binds 2"}
var regWitDropEntAny = []string{"peers 2", "bind 2 1 1 1 1 1", "dropent 1 1", "binds 2", "sub 1 1 1 1 1 1", "sub 1 2 1 1 1 1", "subs 1"}

type regFlags struct{ delSub, delBind, disjunct, dropAny bool }

func (f regFlags) cfgLine() string {
	return fmt.Sprintf("cfg %d %d %d %d", h.B2i(f.delSub), h.B2i(f.delBind), h.B2i(f.disjunct), h.B2i(f.dropAny))
}

// probeRegFlags runs each flag's witness on the real code (monitor only) and
// selects the member of the model family that matches the tree under test.
func probeRegFlags(r *h.Report, ev *regEvents, base int) regFlags {
	probe := func(ops []string, key string) bool {
		q := h.Quiet()
		runRegHistory(q, nil, ev, base, ops, &regStats{})
		return q.HasSpecFail(key)
	}
	var f regFlags
	f.delSub = probe(regWitDelSub, "C08/delete-by-named-device")
	f.disjunct = probe(regWitDisjunct, "C09/unbind-removes-other-binding")
	// observable only while the disjunctive retain condition is in place (otherwise the requester's own
	// binding occupies the server feature and nothing of the named device can match)
	f.delBind = f.disjunct && probe(regWitDelBind, "C09/delete-by-named-device")
	f.dropAny = probe(regWitDropAny, "C10/teardown-removes-other-peers-binding")
	r.SetFlag("delSubByDevice", f.delSub, regWitDelSub, "RemoveSubscription matches the device address named in the request")
	r.SetFlag("delBindByDevice", f.delBind, regWitDelBind, "RemoveBinding matches the device address named in the request")
	r.SetFlag("unbindDisjunct", f.disjunct, regWitDisjunct, "RemoveBinding drops entries with the same client OR the same server")
	r.SetFlag("dropBindsAnyPeer", f.dropAny, regWitDropAny, "RemoveBindingsForEntity compares the entity address only")
	return f
}

func TestRegistry(t *testing.T) {
	r := h.NewReport("registry", "histories of subscription / binding request and delete calls (valid, duplicate, wrong role or type, unknown addresses, omitted and foreign device part), reads of the lists over the wire, data changes through SetData, UpdateData and remote writes, connection drops and entity removals, sent as real node-management datagrams by 2-3 peers with identical numbering to one real DeviceLocal; compared op by op with Spine.Reg (member selected by probing); fault enumeration: a drop or entity removal inserted at every position of a generated history; non-trivial = a history (distinct by op text) that agreed to its end")
	defer r.Write()
	ev := &regEvents{}
	_ = spine.Events.Subscribe(ev)
	defer func() { _ = spine.Events.Unsubscribe(ev) }()
	d := h.StartDriver("drv_reg")
	defer d.Close()
	if a := d.Ask("rich"); a != "rich" {
		panic("drv_reg: " + a)
	}
	base := h.Baseline()
	st := &regStats{}
	flags := probeRegFlags(r, ev, base)
	if a := d.Ask(flags.cfgLine()); a != "cfg" {
		panic("drv_reg: " + a)
	}
	run := func(ops []string) {
		before := r.Traces
		runRegHistory(r, d, ev, base, ops, st)
		if r.Traces > before {
			r.Case(strings.Join(ops, "; "))
		}
	}
	if ops := h.ReplayOps("registry"); ops != nil {
		run(ops)
		return
	}
	// corpus: the witnesses of the defect flags (known findings while unrepaired) and plain histories
	for _, wit := range [][]string{regWitDelSub, regWitDisjunct, regWitDelBind, regWitDropAny, regWitDropEntAny} {
		run(wit)
	}
	run([]string{"peers 3", "sub 1 0 0 0 0 100", "sub 2 0 0 0 0 100", "sub 3 0 0 0 0 100", "sub 1 0 0 0 0 100", "notify 0 0", "unsub 2 0 0 0 0 0", "notify 0 0", "subs 1", "subs 2", "subs 3"})
	run([]string{"peers 2", "bind 1 1 1 1 1 1", "sub 1 1 1 1 1 1", "sub 2 1 1 1 1 1", "write 1 1 1 1 1", "write 2 1 1 1 1", "update 1 1", "unbind 1 1 1 1 1 1", "write 1 1 1 1 1"})
	run([]string{"peers 2", "sub 1 1 1 1 1 2", "sub 1 1 4 1 1 1", "sub 1 1 1 1 3 1", "sub 1 3 1 1 1 1", "sub 1 1 1 3 1 1", "bind 1 1 3 2 2 4", "bind 2 1 3 2 2 4", "unbind 2 0 1 3 2 2", "binds 1"})
	// the optional device part of the SERVER address: omitted, unknown, another peer's — the addressed feature is the
	// resolved one (entity and feature), so duplicates and second bindings must still be refused
	run([]string{"peers 2", "bind 1 1 1 1 1 1", "bind 2 1 1 1 1 1 sd0", "bind 2 1 1 1 1 1 sd77", "bind 2 1 1 1 1 1 sd1", "binds 1", "binds 2", "unbind 1 0 1 1 1 1 sd0", "bind 2 1 1 1 1 1 sd0", "binds 2"})
	run([]string{"peers 2", "sub 1 1 1 1 1 1 sd0", "sub 1 1 1 1 1 1", "sub 1 1 1 1 1 1 sd77 cd0", "sub 2 1 1 1 1 1 cd1", "subs 1", "subs 2", "notify 1 1", "unsub 1 0 1 1 1 1 sd2", "subs 1"})
	// special-role (node management) features as client or server: the requested type must still match
	run([]string{"peers 2", "sub 1 0 0 0 0 100", "sub 1 0 0 0 0 4", "sub 2 0 0 1 1 1", "sub 2 0 0 1 1 100", "sub 1 1 1 0 0 1", "sub 1 1 3 0 0 100", "bind 2 0 0 2 2 4", "bind 1 0 0 0 0 1", "subs 1", "subs 2", "binds 2", "notify 1 1", "notify 0 0"})
	// one subscriber's connection cannot be written to: everybody registered after it is still notified, by every path
	run([]string{"peers 3 broken:2", "bind 3 1 1 1 1 1", "sub 1 1 1 1 1 1", "sub 2 1 1 1 1 1", "sub 3 1 1 1 1 1", "sub 2 1.1 1 1 1 1", "sub 1 1.1 1 1 1 1", "notify 1 1", "update 1 1", "write 3 1 1 1 1", "subs 2", "unsub 2 0 1 1 1 1", "notify 1 1"})
	// ordinary server features with subscribers [failing, healthy], [healthy, failing, healthy], [failing, failing, healthy]:
	// every healthy one is notified exactly once by SetData, UpdateData and an accepted remote write
	for _, hd := range []struct {
		head  string
		order []int
	}{{"peers 2 broken:1", []int{1, 2}}, {"peers 3 broken:2", []int{1, 2, 3}}, {"peers 3 broken:1,2", []int{1, 2, 3}}, {"peers 3 broken:1,3", []int{1, 2, 3}}} {
		ops := []string{hd.head}
		writer := hd.order[len(hd.order)-1]
		if hd.head == "peers 3 broken:1,3" {
			writer = 2
		}
		ops = append(ops, fmt.Sprintf("bind %d 1 1 1 1 1", writer), fmt.Sprintf("bind %d 1 2 1 2 2", writer))
		for _, q := range hd.order {
			ops = append(ops, fmt.Sprintf("sub %d 1 1 1 1 1", q), fmt.Sprintf("sub %d 1 2 1 2 2", q), fmt.Sprintf("sub %d 2 1 2 1 1", q))
		}
		ops = append(ops, "notify 1 1", "update 1 1", fmt.Sprintf("write %d 1 1 1 1", writer), "notify 1 2", "update 1 2", fmt.Sprintf("write %d 1 2 1 2", writer), "notify 2 1", "update 2 1")
		run(ops)
	}
	run([]string{"peers 2 broken:1", "sub 1 0 0 0 0 100", "sub 2 0 0 0 0 100", "sub 1 2 1 2 1 1", "sub 2 2 1 2 1 1", "notify 0 0", "notify 2 1", "drop 1", "notify 2 1"})
	// the device information entity [0] listed among the removed entities at any position, and full notifications that omit it
	for _, l := range []string{"dropent 1 0,1", "dropent 1 1,0,1.1", "dropent 1 0,1,1.1,2", "full 1 0,2", "full 1 1", "full 1 2,1.1"} {
		run([]string{"peers 2", "sub 1 1 1 1 1 1", "sub 1 1.1 1 1 1 1", "sub 1 2 1 2 1 1", "bind 1 1 1 1 1 1", "sub 2 1 1 1 1 1", "bind 2 1.1 1 2 1 1", l, "subs 1", "binds 1", "subs 2", "binds 2",
			"notify 1 1", "notify 2 1", "sub 1 2 1 1 1 1", "sub 1 1 1 1 1 1", "addent 1 1", "sub 1 1 1 1 1 1", "subs 1"})
	}
	// removal entries as real devices send them: without entityType, without the device part, with a description
	for v := 0; v < 8; v++ {
		run([]string{"peers 2", "sub 1 1 1 1 1 1", "bind 1 1.1 1 1 1 1", "sub 2 1 1 1 1 1", fmt.Sprintf("dropent 1 1,1.1 v%d", v), "subs 1", "binds 1", "bind 2 1 1 1 1 1", "binds 2", "notify 1 1"})
	}
	// an entity announced again WITHOUT features keeps its (now stale) entries until it is removed or the peer goes
	run([]string{"peers 2", "sub 1 1 1 1 1 1", "bind 1 1.1 1 1 1 1", "sub 2 1 1 1 1 1", "bareent 1 1", "subs 1", "sub 1 1 1 1 1 1", "sub 1 1 2 1 2 2", "notify 1 1", "dropent 1 1", "subs 1", "binds 1", "subs 2", "notify 1 1",
		"bareent 1 2", "bareent 1 1", "sub 1 1 1 1 1 1", "addent 1 1", "sub 1 1 1 1 1 1", "bareent 1 1.1", "binds 1", "drop 1", "subs 1", "binds 1", "subs 2"})
	run([]string{"peers 2", "sub 1 2 1 2 1 1", "bareent 1 2", "full 1 0,1,1.1", "subs 1", "sub 2 2 1 2 1 1", "bareent 2 2", "full 2 0,1,1.1,2", "subs 2", "dropent 2 0,2", "subs 2"})
	// a removed SKI connects again
	run([]string{"peers 2", "sub 1 1 1 1 1 1", "bind 1 1 1 1 1 1", "dropent 1 2", "drop 1", "reconnect 1", "subs 1", "binds 1", "sub 1 2 1 1 1 1", "sub 1 1 1 1 1 1", "bind 1 1 1 1 1 1", "notify 1 1", "write 1 1 1 1 1", "drop 2", "reconnect 2", "sub 2 1 1 1 1 1", "notify 1 1"})
	// a peer whose discovery reply arrives after another connection was removed
	run([]string{"peers 2 late:2", "sub 1 1 1 1 1 1", "drop 1", "discover 2", "sub 2 1 1 1 1 1", "subs 2", "notify 1 1", "dropent 2 1", "addent 2 1", "sub 2 1 1 1 1 1"})
	run([]string{"peers 3 late:2,3", "sub 1 1 1 1 1 1", "drop 1", "discover 2", "drop 2", "discover 3", "sub 3 1 1 1 1 1", "subs 3"})
	// parent and child entities with identical feature numbers
	run([]string{"peers 2", "sub 1 1 1 1 1 1", "sub 1 1.1 1 1 1 1", "bind 1 1.1 1 1 1 1", "sub 2 1.1 1 1 1 1", "dropent 1 1.1", "subs 1", "subs 2", "binds 1", "sub 1 1.1 1 1 1 1", "dropent 2 1", "subs 2", "notify 1 1"})
	// the three data-change paths with payload: accepted and refused changes (a function the feature does not have, a
	// feature without functions, a write that is not bound / not writable), the stored data after each
	run([]string{"peers 3", "sub 1 1 1 1 1 1", "sub 2 1 1 1 1 1", "sub 3 1.1 1 1 1 1", "sub 1 1 2 1 2 2", "sub 2 2 1 2 2 4", "bind 2 1 1 1 1 1", "notify 1 1", "notifybad 1 1", "update 1 1", "updatebad 1 1",
		"write 2 1 1 1 1", "write 1 1 1 1 1", "notify 1 1", "notify 1 2", "update 1 2", "notify 2 2", "update 2 2", "notifybad 2 2", "notify 1 3", "update 1 3", "notify 0 1", "update 0 1", "notify 0 0", "write 2 1 1 1 2",
		"unsub 2 0 1 1 1 1", "write 2 1 1 1 1", "notify 1 1"})
	// round 7: peers that announce one and the same device address (connections differ by SKI only). No list reads here: a list over the wire names clients by address and cannot tell such peers apart, so the harness could not attribute its entries
	run([]string{"peers 2 same", "sub 1 1 1 1 1 1", "sub 2 1 1 1 1 1", "notify 1 1", "update 1 1", "notify 1 1", "update 1 1", "notify 1 1", "update 1 1", "notify 1 1", "update 1 1", "unsub 1 0 1 1 1 1", "notify 1 1"})
	run([]string{"peers 3 same", "bind 3 1 1 1 1 1", "sub 1 1 1 1 1 1", "sub 2 1 1 1 1 1", "sub 3 1 1 1 1 1", "sub 1 0 0 0 0 100", "sub 2 0 0 0 0 100", "notify 1 1", "update 1 1", "write 3 1 1 1 1", "notify 0 0", "notify 1 1", "update 1 1", "write 3 1 1 1 1", "notify 1 1", "update 1 1"})
	rng := h.Rng(8)
	rngBad := h.Rng(81)
	hist := h.Scale(250, 2500)
	for i := 0; i < hist; i++ {
		np := 2 + rng.Intn(2)
		run(regSprinkleBad(rngBad, genRegHistory(rng, 20+rng.Intn(40), np, true)))
	}
	// fault enumeration (C10): a drop / entity removal at every position of a fault-free history
	bases := h.Scale(14, 120)
	for i := 0; i < bases; i++ {
		np := 2 + rng.Intn(2)
		b := genRegHistory(rng, 12+rng.Intn(28), np, false)
		for pos := 1; pos <= len(b); pos++ {
			fault := regFaultOp(rng, 1+rng.Intn(np))
			ops := append(append(append(append([]string{}, b[:pos]...), fault), regObserve(np)...), b[pos:]...)
			ops = append(ops, regObserve(np)...)
			run(ops)
		}
	}
	if regClean(r, regKnownKeys) {
		r.Floor("subscription requests the SPEC grants", st.subOk, st.subAll, 0.10)
		r.Floor("binding requests the SPEC grants", st.bindOk, st.bindAll, 0.06)
		r.Floor("delete requests that address an existing entry", st.delOk, st.delAll, 0.04)
		r.Floor("data changes with subscribers", st.fanNon, st.fanAll, 0.05)
	}
	r.Info["faults_executed"] = st.faults
	r.Info["deletes_of_stale_entries_refused_not_judged"] = st.staleDeletes
	regShrinkReport(r, func(q *h.Report, ops []string) { runRegHistory(q, d, ev, base, ops, &regStats{}) }, regKnownKeys, true)
}

var regKnownKeys = map[string]bool{"C08/delete-by-named-device": true, "C09/delete-by-named-device": true, "C09/unbind-removes-other-binding": true,
	"C10/teardown-removes-other-peers-binding": true}

// regClean: no mismatch and no spec failure beyond the corpus keys. Generator floors are only meaningful then: a
// broken implementation (which is reported as a violation anyway) also starves the success paths.
func regClean(r *h.Report, corpus map[string]bool) bool {
	if r.MismatchN > 0 {
		return false
	}
	for _, k := range r.SpecFailKeys() {
		if !corpus[k] {
			return false
		}
	}
	return true
}

// regShrinkReport minimises the witnesses of spec failures that are not among the corpus keys and of the first mismatch.
func regShrinkReport(r *h.Report, rerun func(q *h.Report, ops []string), skip map[string]bool, header bool) {
	keep := func(ops []string, cand []string) []string {
		if !header {
			return cand
		}
		// the first op ("peers N") is the world configuration and must stay
		if len(cand) == 0 || !strings.HasPrefix(cand[0], "peers") {
			return append([]string{ops[0]}, cand...)
		}
		return cand
	}
	for _, sf := range append([]h.SpecFailure{}, r.SpecFailures...) {
		if skip[sf.Key] || len(sf.Ops) < 5 {
			continue
		}
		key, orig := sf.Key, sf.Ops
		small := h.Shrink(orig, func(ops []string) bool {
			q := h.Quiet()
			rerun(q, keep(orig, ops))
			return q.HasSpecFail(key)
		})
		r.ReplaceSpecFailOps(key, keep(orig, small))
	}
	if len(r.Mismatches) > 0 {
		orig := r.Mismatches[0].Ops
		small := h.Shrink(orig, func(ops []string) bool {
			q := h.Quiet()
			rerun(q, keep(orig, ops))
			return q.MismatchN > 0
		})
		q := h.Quiet()
		rerun(q, keep(orig, small))
		if q.MismatchN > 0 {
			r.ReplaceMismatch(0, keep(orig, small), q.Mismatches[0].Impl, q.Mismatches[0].Model)
		}
	}
}
