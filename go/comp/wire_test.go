package comp

// C18 — wire format and function tables are coherent for every function.
//
// TestWireCmd : every registered function x every command shape, built with the
//   real API (ReadCmdType / ReplyCmdType / NotifyOrWriteCmdType), json.Marshal,
//   json.Unmarshal, recognised with the real CmdType.Data / ExtractFilter /
//   FilterType.Data; exhaustive; compared with the prediction of the Lean table
//   model Spine.Cmd (driver drv_cmd) and judged by a SPEC monitor that looks only
//   at what was put in and what came out.
// TestWireJson: reflectively generated values of every payload, selectors and
//   elements type (plus the envelope types) encoded and decoded by encoding/json
//   and by the Lean model Spine.Json over the regenerated schema (driver
//   drv_json), compared; SPEC: decode(encode v) is v up to absent/empty lists
//   and the re-expression of TimePeriodType's relative end time.
//
// All helper identifiers carry the prefix wir.

import (
	"bytes"
	"encoding/hex"
	"encoding/json"
	"fmt"
	"hash/fnv"
	"math"
	"math/rand"
	"reflect"
	"sort"
	"strconv"
	"strings"
	"sync"
	"testing"
	"time"

	"github.com/enbility/spine-go/api"
	"github.com/enbility/spine-go/model"
	"github.com/enbility/spine-go/spine"
	"github.com/enbility/spine-go/util"
	"verifharness/h"
)

// wirGuard makes a run that dies before its end (a panic in the harness, a driver that stops
// answering) visible: the check accepts any report that exists, so the report carries a failed floor
// "run completed" until the returned function is called at the regular end of the test.
func wirGuard(r *h.Report) (completed func()) {
	const name = "run completed"
	r.Floors[name] = "0 (the test did not reach its end)"
	r.FloorFail = append(r.FloorFail, name)
	return func() {
		r.Floors[name] = "1"
		var keep []string
		for _, f := range r.FloorFail {
			if f != name {
				keep = append(keep, f)
			}
		}
		r.FloorFail = keep
	}
}

// ---------------------------------------------------------------- the registered functions

// wirFeatureTypes: the feature type constants, as enumerated from the sources by the translator (G1,
// go/ast over model/*.go) and handed over by the driver — only the list of inputs, nothing about
// behaviour. Fallback: the constants known when the harness was written.
func wirFeatureTypes(d *h.Driver) []model.FeatureTypeType {
	var out []model.FeatureTypeType
	if d != nil {
		for _, f := range strings.Fields(d.Ask("features")) {
			out = append(out, model.FeatureTypeType(f))
		}
	}
	if len(out) == 0 {
		out = []model.FeatureTypeType{
			model.FeatureTypeTypeActuatorLevel, model.FeatureTypeTypeActuatorSwitch, model.FeatureTypeTypeAlarm,
			model.FeatureTypeTypeDataTunneling, model.FeatureTypeTypeDeviceClassification, model.FeatureTypeTypeDeviceDiagnosis,
			model.FeatureTypeTypeDirectControl, model.FeatureTypeTypeElectricalConnection, model.FeatureTypeTypeGeneric,
			model.FeatureTypeTypeHvac, model.FeatureTypeTypeLoadControl, model.FeatureTypeTypeMeasurement,
			model.FeatureTypeTypeMessaging, model.FeatureTypeTypeNetworkManagement, model.FeatureTypeTypeNodeManagement,
			model.FeatureTypeTypeOperatingConstraints, model.FeatureTypeTypePowerSequences, model.FeatureTypeTypeSensing,
			model.FeatureTypeTypeSetpoint, model.FeatureTypeTypeSmartEnergyManagementPs, model.FeatureTypeTypeTaskManagement,
			model.FeatureTypeTypeThreshold, model.FeatureTypeTypeTimeInformation, model.FeatureTypeTypeTimeTable,
			model.FeatureTypeTypeDeviceConfiguration, model.FeatureTypeTypeSupplyCondition, model.FeatureTypeTypeTimeSeries,
			model.FeatureTypeTypeTariffInformation, model.FeatureTypeTypeIncentiveTable, model.FeatureTypeTypeBill,
			model.FeatureTypeTypeIdentification, model.FeatureTypeTypeStateInformation,
		}
	}
	return out
}

type wirFn struct {
	name    string
	feature model.FeatureTypeType // one feature type that registers it
	payload reflect.Type          // T
	selT    reflect.Type          // selectors struct type the data model provides (nil: none)
	elT     reflect.Type          // elements struct type
	selFld  string                // FilterType field of that type
	elFld   string
	selKey  string // SpecFail key suffix for this function's selectors row
	elKey   string
}

// wirFilterFieldByType: FilterType field whose pointed-to type has the given name.
func wirFilterFieldByType(name string) (reflect.StructField, bool) {
	t := reflect.TypeOf(model.FilterType{})
	for i := 0; i < t.NumField(); i++ {
		sf := t.Field(i)
		if sf.Type.Kind() == reflect.Ptr && sf.Type.Elem().Name() == name {
			return sf, true
		}
	}
	return reflect.StructField{}, false
}

// wirExpected decides, from Go type names only (never from the eebus tags), which
// selectors and elements type the data model provides for a payload type P:
// *<P>SelectorsType; *<P>ElementsType or, for a list, *<I>ElementsType of its item type I.
func wirExpected(p reflect.Type) (sel, el reflect.StructField, hasSel, hasEl bool) {
	base := strings.TrimSuffix(p.Name(), "Type")
	sel, hasSel = wirFilterFieldByType(base + "SelectorsType")
	el, hasEl = wirFilterFieldByType(base + "ElementsType")
	if !hasEl && p.Kind() == reflect.Struct {
		for i := 0; i < p.NumField() && !hasEl; i++ {
			ft := p.Field(i).Type
			if ft.Kind() == reflect.Slice && ft.Elem().Kind() == reflect.Struct {
				el, hasEl = wirFilterFieldByType(strings.TrimSuffix(ft.Elem().Name(), "Type") + "ElementsType")
			}
		}
	}
	return
}

func wirFunctions(fts []model.FeatureTypeType) []*wirFn {
	byName := map[string]*wirFn{}
	for _, ft := range fts {
		var fds []api.FunctionDataCmdInterface
		h.Recover(func() { fds = spine.CreateFunctionData[api.FunctionDataCmdInterface](ft) })
		for _, fd := range fds {
			n := string(fd.FunctionType())
			if _, ok := byName[n]; ok {
				continue
			}
			f := &wirFn{name: n, feature: ft, payload: reflect.TypeOf(fd.DataCopyAny()).Elem()}
			sel, el, hs, he := wirExpected(f.payload)
			if hs {
				f.selT, f.selFld = sel.Type.Elem(), sel.Name
			}
			if he {
				f.elT, f.elFld = el.Type.Elem(), el.Name
			}
			byName[n] = f
		}
	}
	var out []*wirFn
	for _, f := range byName {
		out = append(out, f)
	}
	sort.Slice(out, func(i, j int) bool { return out[i].name < out[j].name })
	// key of a row: tag:<FilterType field>, with @<function> when several functions share the field
	users := map[string]int{}
	for _, f := range out {
		if f.selFld != "" {
			users[f.selFld]++
		}
		if f.elFld != "" {
			users[f.elFld]++
		}
	}
	for _, f := range out {
		f.selKey, f.elKey = "tag:"+f.selFld, "tag:"+f.elFld
		if users[f.selFld] > 1 {
			f.selKey += "@" + f.name
		}
		if users[f.elFld] > 1 {
			f.elKey += "@" + f.name
		}
	}
	return out
}

// wirNewFD creates a fresh function-data object of the function through the factory.
func wirNewFD(f *wirFn) api.FunctionDataCmdInterface {
	for _, fd := range spine.CreateFunctionData[api.FunctionDataCmdInterface](f.feature) {
		if string(fd.FunctionType()) == f.name {
			return fd
		}
	}
	return nil
}

// ---------------------------------------------------------------- reflective values

const wirAlphabet = "abcdefghijklmnopqrstuvwxyzABCDEFGHIJKLMNOPQRSTUVWXYZ0123456789 _-.:/+\"\\<>&'=äéπ"

func wirString(rng *rand.Rand) string {
	rs := []rune(wirAlphabet)
	n := rng.Intn(9)
	if rng.Intn(12) == 0 {
		n = 0
	}
	var b strings.Builder
	for i := 0; i < n; i++ {
		b.WriteRune(rs[rng.Intn(len(rs))])
	}
	return b.String()
}

var wirTimePeriodT = reflect.TypeOf(model.TimePeriodType{})

func wirUint(rng *rand.Rand, bits int) uint64 {
	switch rng.Intn(6) {
	case 0:
		return 0
	case 1:
		if bits == 64 {
			return math.MaxUint64
		}
		return 1<<uint(bits) - 1
	case 2:
		return rng.Uint64() >> uint(64-bits)
	}
	return uint64(rng.Intn(50))
}

func wirInt(rng *rand.Rand, bits int) int64 {
	switch rng.Intn(6) {
	case 0:
		return 0
	case 1:
		return -(1 << uint(bits-1))
	case 2:
		return 1<<uint(bits-1) - 1
	case 3:
		return int64(rng.Uint64()) >> uint(64-bits)
	}
	return int64(rng.Intn(100) - 50)
}

// wirFill fills v (settable) with a random value of its type. dense in (0,1]: how
// likely a pointer / slice field is non-nil.
func wirFill(v reflect.Value, rng *rand.Rand, dense float64, depth int) {
	t := v.Type()
	switch t.Kind() {
	case reflect.Ptr:
		if rng.Float64() < dense {
			p := reflect.New(t.Elem())
			wirFill(p.Elem(), rng, dense, depth+1)
			v.Set(p)
		}
	case reflect.Slice:
		x := rng.Float64()
		switch {
		case x >= dense:
			// nil
		case rng.Intn(5) == 0:
			v.Set(reflect.MakeSlice(t, 0, 0)) // empty, not nil
		default:
			n := 1 + rng.Intn(3)
			if depth > 3 {
				n = 1
			}
			s := reflect.MakeSlice(t, n, n)
			for i := 0; i < n; i++ {
				wirFill(s.Index(i), rng, dense, depth+1)
			}
			v.Set(s)
		}
	case reflect.Struct:
		if t == wirTimePeriodT {
			wirFillTimePeriod(v, rng)
			return
		}
		d := dense
		if nf := t.NumField(); nf > 8 {
			// big choice groups (CmdType, FilterType): a few fields only
			d = math.Min(dense, 3.0/float64(nf))
		}
		if depth > 4 {
			d = d / 2
		}
		for i := 0; i < t.NumField(); i++ {
			fd := d
			if k := t.Field(i).Type.Kind(); k != reflect.Ptr && k != reflect.Slice {
				fd = dense
			}
			wirFill(v.Field(i), rng, fd, depth+1)
		}
	case reflect.String:
		v.SetString(wirString(rng))
	case reflect.Bool:
		v.SetBool(rng.Intn(2) == 0)
	case reflect.Uint, reflect.Uint64:
		v.SetUint(wirUint(rng, 64))
	case reflect.Uint8:
		v.SetUint(wirUint(rng, 8))
	case reflect.Uint16:
		v.SetUint(wirUint(rng, 16))
	case reflect.Uint32:
		v.SetUint(wirUint(rng, 32))
	case reflect.Int, reflect.Int64:
		v.SetInt(wirInt(rng, 64))
	case reflect.Int8:
		v.SetInt(wirInt(rng, 8))
	case reflect.Int16:
		v.SetInt(wirInt(rng, 16))
	case reflect.Int32:
		v.SetInt(wirInt(rng, 32))
	default:
		panic("wirFill: unsupported kind " + t.Kind().String() + " in " + t.String())
	}
}

// ---- TimePeriodType: the one type with its own JSON. Its (un)marshaler looks at the SHAPE of the
// period: which of start / end are present and whether the end parses as a duration or a date-time.
// The generator produces every shape {none, absolute, relative, unparsable} x {…}; the classifier
// below is the harness's own (it does not call the repository's parsers).

type wirTV struct {
	kind byte    // '-' absent, 'j' unparsable, 'r' duration, 'a' date-time
	secs float64 // duration in seconds / unix time
	raw  string
}

func (t wirTV) tok() string {
	switch t.kind {
	case 'r', 'a':
		return fmt.Sprintf("%c%d", t.kind, int64(math.Round(t.secs)))
	}
	return string(t.kind)
}

// wirParseDur: ISO-8601 duration with optional sign, weeks, days, hours, minutes, (fractional) seconds.
func wirParseDur(s string) (float64, bool) {
	neg := false
	if strings.HasPrefix(s, "-") {
		neg, s = true, s[1:]
	} else if strings.HasPrefix(s, "+") {
		s = s[1:]
	}
	if !strings.HasPrefix(s, "P") || len(s) < 3 {
		return 0, false
	}
	s = s[1:]
	total, inTime, seen := 0.0, false, false
	for len(s) > 0 {
		if s[0] == 'T' {
			if inTime {
				return 0, false
			}
			inTime, s = true, s[1:]
			continue
		}
		j := 0
		for j < len(s) && (s[j] >= '0' && s[j] <= '9' || s[j] == '.') {
			j++
		}
		if j == 0 || j == len(s) {
			return 0, false
		}
		n, err := strconv.ParseFloat(s[:j], 64)
		if err != nil {
			return 0, false
		}
		var unit float64
		switch {
		case s[j] == 'W' && !inTime:
			unit = 7 * 86400
		case s[j] == 'D' && !inTime:
			unit = 86400
		case s[j] == 'H' && inTime:
			unit = 3600
		case s[j] == 'M' && inTime:
			unit = 60
		case s[j] == 'S' && inTime:
			unit = 1
		default:
			return 0, false // years and months are never generated
		}
		total += n * unit
		seen = true
		s = s[j+1:]
	}
	if !seen {
		return 0, false
	}
	if neg {
		total = -total
	}
	return total, true
}

func wirParseAbs(s string) (time.Time, bool) {
	for _, l := range []string{"2006-01-02T15:04:05Z", "2006-01-02T15:04:05.999999999Z", "2006-01-02T15:04:05", "2006-01-02T15:04:05.999999999"} {
		if t, err := time.ParseInLocation(l, s, time.UTC); err == nil {
			return t, true
		}
	}
	return time.Time{}, false
}

func wirClassifyStr(s *string) wirTV {
	if s == nil {
		return wirTV{kind: '-'}
	}
	if d, ok := wirParseDur(*s); ok {
		return wirTV{kind: 'r', secs: d, raw: *s}
	}
	if t, ok := wirParseAbs(*s); ok {
		return wirTV{kind: 'a', secs: float64(t.UnixNano()) / 1e9, raw: *s}
	}
	return wirTV{kind: 'j', raw: *s}
}

func wirClassify(a *model.AbsoluteOrRelativeTimeType) wirTV {
	if a == nil {
		return wirTV{kind: '-'}
	}
	s := string(*a)
	return wirClassifyStr(&s)
}

// wirBase: the clock reading all generated date-times are offsets of (one per process, so that the same
// seed yields the same strings within a run).
var wirBase = time.Now().UTC().Truncate(time.Second)

// wirTimeString makes a time string of the given class: "-" none, "x" unparsable, "a" date-time,
// "r" duration; off (seconds, may be negative) is the offset from now resp. the duration.
func wirTimeString(kind byte, off int64, form int) *model.AbsoluteOrRelativeTimeType {
	var s string
	switch kind {
	case '-':
		return nil
	case 'x':
		s = fmt.Sprintf("x%d", off)
	case 'a':
		s = wirBase.Add(time.Duration(off) * time.Second).Format("2006-01-02T15:04:05Z")
	case 'r':
		sign := ""
		if off < 0 {
			sign, off = "-", -off
		}
		switch form % 4 {
		case 0:
			s = fmt.Sprintf("%sPT%dS", sign, off)
		case 1:
			s = fmt.Sprintf("%sPT%dH%dM%dS", sign, off/3600, off%3600/60, off%60)
		case 2:
			s = fmt.Sprintf("%sP%dDT%dH%dS", sign, off/86400, off%86400/3600, off%3600)
		case 3:
			s = fmt.Sprintf("%sPT%dM", sign, off/60+1)
		}
	}
	v := model.AbsoluteOrRelativeTimeType(s)
	return &v
}

func wirRandOffset(rng *rand.Rand) int64 {
	off := int64(1 + rng.Intn(40*86400)) // up to 40 days: far below the 3277-day bound of C19
	if rng.Intn(3) == 0 {
		off = int64(1 + rng.Intn(7200))
	}
	if rng.Intn(4) == 0 {
		off = -off // in the past
	}
	return off
}

// wirFillTimePeriod: all 16 shapes {none, absolute, relative, unparsable} x {…}, uniformly.
func wirFillTimePeriod(v reflect.Value, rng *rand.Rand) {
	tp := v.Addr().Interface().(*model.TimePeriodType)
	kinds := []byte{'-', 'a', 'r', 'x'}
	tp.StartTime = wirTimeString(kinds[rng.Intn(4)], wirRandOffset(rng), rng.Intn(4))
	tp.EndTime = wirTimeString(kinds[rng.Intn(4)], wirRandOffset(rng), rng.Intn(4))
}

// wirHasEmptyList: does the value contain an empty, non-nil slice?
func wirHasEmptyList(v reflect.Value) bool {
	switch v.Kind() {
	case reflect.Ptr:
		return !v.IsNil() && wirHasEmptyList(v.Elem())
	case reflect.Slice:
		if !v.IsNil() && v.Len() == 0 {
			return true
		}
		for i := 0; i < v.Len(); i++ {
			if wirHasEmptyList(v.Index(i)) {
				return true
			}
		}
	case reflect.Struct:
		for i := 0; i < v.NumField(); i++ {
			if wirHasEmptyList(v.Field(i)) {
				return true
			}
		}
	}
	return false
}

// wirStrEq: both absent or both the identical string
func wirStrEq(a, b *model.AbsoluteOrRelativeTimeType) bool {
	if a == nil || b == nil {
		return a == nil && b == nil
	}
	return *a == *b
}

// wirPeriodDiff is the SPEC for one time period (x before, y after the JSON round trip started at
// now): ONLY an end-only period whose end time is a duration or a date-time may come back changed —
// a duration re-anchored against the current time (now + d, as date-time or still as duration), a
// date-time as the same instant; both within the second rounding plus the time that has passed.
// Every other shape must come back as the identical strings. "" = fine.
func wirPeriodDiff(x, y model.TimePeriodType, now time.Time) string {
	sx, ex := wirClassify(x.StartTime), wirClassify(x.EndTime)
	shape := fmt.Sprintf("time-period:start=%c,end=%c", sx.kind, ex.kind)
	if sx.kind == '-' && (ex.kind == 'r' || ex.kind == 'a') {
		ey := wirClassify(y.EndTime)
		if y.StartTime != nil {
			return shape
		}
		tol := 2.0 + time.Since(now).Seconds()
		n := float64(now.UnixNano()) / 1e9
		want := ex.secs // instant
		if ex.kind == 'r' {
			want = n + ex.secs
		}
		var got float64
		switch {
		case ey.kind == 'a':
			got = ey.secs
		case ey.kind == 'r' && ex.kind == 'r':
			got = n + ey.secs
		default:
			return shape
		}
		if math.Abs(got-want) > tol {
			return shape
		}
		return ""
	}
	if !wirStrEq(x.StartTime, y.StartTime) || !wirStrEq(x.EndTime, y.EndTime) {
		return shape
	}
	return ""
}

// wirDiff is the SPEC's equivalence of a value before (a) and after (b) the round trip: equal up to
// (i) absent versus empty lists and (ii) wirPeriodDiff for time periods. "" = equivalent, otherwise
// a short reason ("time-period:<shape>" or the path of the first difference).
func wirDiff(a, b reflect.Value, now time.Time) string {
	if a.Type() != b.Type() {
		return "type"
	}
	switch a.Kind() {
	case reflect.Ptr:
		if a.IsNil() || b.IsNil() {
			if a.IsNil() && b.IsNil() {
				return ""
			}
			return "nil-ness of " + a.Type().Elem().Name()
		}
		return wirDiff(a.Elem(), b.Elem(), now)
	case reflect.Slice:
		if a.Len() != b.Len() {
			return "length of []" + a.Type().Elem().Name()
		}
		for i := 0; i < a.Len(); i++ {
			if w := wirDiff(a.Index(i), b.Index(i), now); w != "" {
				return w
			}
		}
		return ""
	case reflect.Struct:
		if a.Type() == wirTimePeriodT {
			return wirPeriodDiff(a.Interface().(model.TimePeriodType), b.Interface().(model.TimePeriodType), now)
		}
		for i := 0; i < a.NumField(); i++ {
			if w := wirDiff(a.Field(i), b.Field(i), now); w != "" {
				if strings.HasPrefix(w, "time-period:") {
					return w
				}
				return a.Type().Name() + "." + a.Type().Field(i).Name + " " + w
			}
		}
		return ""
	default:
		if a.Interface() == b.Interface() {
			return ""
		}
		return "value"
	}
}

func wirEquiv(a, b reflect.Value, now time.Time) bool { return wirDiff(a, b, now) == "" }

// wirTPObs: one TimePeriodType inside a value, with the JSON object it was written as / read from.
type wirTPObs struct {
	val model.TimePeriodType
	jm  map[string]any
}

// wirCollectTP walks a value and its JSON tree side by side (depth first, field order) and collects
// every TimePeriodType.
func wirCollectTP(v reflect.Value, j any, out *[]wirTPObs) {
	switch v.Kind() {
	case reflect.Ptr:
		if !v.IsNil() {
			wirCollectTP(v.Elem(), j, out)
		}
	case reflect.Slice:
		arr, _ := j.([]any)
		for i := 0; i < v.Len(); i++ {
			var c any
			if i < len(arr) {
				c = arr[i]
			}
			wirCollectTP(v.Index(i), c, out)
		}
	case reflect.Struct:
		jm, _ := j.(map[string]any)
		if v.Type() == wirTimePeriodT {
			*out = append(*out, wirTPObs{val: v.Interface().(model.TimePeriodType), jm: jm})
			return
		}
		for i := 0; i < v.NumField(); i++ {
			name := strings.Split(v.Type().Field(i).Tag.Get("json"), ",")[0]
			var c any
			if jm != nil {
				c = jm[name]
			}
			wirCollectTP(v.Field(i), c, out)
		}
	}
}

func wirJStr(jm map[string]any, key string) *string {
	if jm == nil {
		return nil
	}
	if s, ok := jm[key].(string); ok {
		return &s
	}
	return nil
}

// wirTokMatch: does the observed class agree with the model's token (numbers within tol seconds)?
func wirTokMatch(tok string, t wirTV, tol float64) bool {
	if len(tok) == 0 || tok[0] != t.kind {
		return false
	}
	if t.kind == 'r' || t.kind == 'a' {
		n, err := strconv.ParseInt(tok[1:], 10, 64)
		return err == nil && math.Abs(float64(n)-t.secs) <= tol
	}
	return true
}

// ---------------------------------------------------------------- prefix notation shared with the Lean drivers

// wirShower writes a value in prefix notation. subst (by ordinal of the TimePeriodType in depth-first
// order, as wirCollectTP counts them) replaces the end time of a period by the given string: used where
// the time-period model predicts a re-expression, so that everything else is compared exactly.
type wirShower struct {
	b     strings.Builder
	ntp   int
	subst map[int]string
}

func (w *wirShower) show(v reflect.Value) {
	b := &w.b
	switch v.Kind() {
	case reflect.Ptr:
		if v.IsNil() {
			b.WriteString(" n")
			return
		}
		b.WriteString(" P")
		w.show(v.Elem())
	case reflect.Slice:
		if v.IsNil() {
			b.WriteString(" n")
			return
		}
		fmt.Fprintf(b, " L%d", v.Len())
		for i := 0; i < v.Len(); i++ {
			w.show(v.Index(i))
		}
	case reflect.Struct:
		if v.Type() == wirTimePeriodT {
			idx := w.ntp
			w.ntp++
			if e, ok := w.subst[idx]; ok {
				b.WriteString(" R2")
				w.show(v.Field(0))
				b.WriteString(" P S" + hex.EncodeToString([]byte(e)))
				return
			}
		}
		fmt.Fprintf(b, " R%d", v.NumField())
		for i := 0; i < v.NumField(); i++ {
			w.show(v.Field(i))
		}
	case reflect.String:
		b.WriteString(" S" + hex.EncodeToString([]byte(v.String())))
	case reflect.Bool:
		if v.Bool() {
			b.WriteString(" T")
		} else {
			b.WriteString(" F")
		}
	case reflect.Uint, reflect.Uint8, reflect.Uint16, reflect.Uint32, reflect.Uint64:
		b.WriteString(" N" + strconv.FormatUint(v.Uint(), 10))
	case reflect.Int, reflect.Int8, reflect.Int16, reflect.Int32, reflect.Int64:
		b.WriteString(" N" + strconv.FormatInt(v.Int(), 10))
	default:
		panic("wirShower: unsupported kind " + v.Kind().String())
	}
}

func wirVS(v reflect.Value, subst map[int]string) string {
	w := &wirShower{subst: subst}
	w.show(v)
	return strings.TrimSpace(w.b.String())
}

func wirV(v reflect.Value) string { return wirVS(v, nil) }

// wirJ turns JSON text into the prefix notation of a JSON tree, through encoding/json's tokenizer
// (keys in the order of the text, numbers verbatim).
func wirJ(text []byte) (string, error) {
	dec := json.NewDecoder(bytes.NewReader(text))
	dec.UseNumber()
	var b strings.Builder
	var val func() error
	val = func() error {
		tok, err := dec.Token()
		if err != nil {
			return err
		}
		switch x := tok.(type) {
		case nil:
			b.WriteString(" z")
		case bool:
			if x {
				b.WriteString(" T")
			} else {
				b.WriteString(" F")
			}
		case string:
			b.WriteString(" S" + hex.EncodeToString([]byte(x)))
		case json.Number:
			if strings.ContainsAny(string(x), ".eE") {
				return fmt.Errorf("non-integer number %s", x)
			}
			b.WriteString(" N" + string(x))
		case json.Delim:
			switch x {
			case '[':
				var parts []string
				for dec.More() {
					save := b
					b = strings.Builder{}
					if err := val(); err != nil {
						return err
					}
					parts = append(parts, b.String())
					b = save
				}
				if _, err := dec.Token(); err != nil {
					return err
				}
				fmt.Fprintf(&b, " A%d%s", len(parts), strings.Join(parts, ""))
			case '{':
				var parts []string
				for dec.More() {
					kt, err := dec.Token()
					if err != nil {
						return err
					}
					save := b
					b = strings.Builder{}
					if err := val(); err != nil {
						return err
					}
					parts = append(parts, " K"+hex.EncodeToString([]byte(kt.(string)))+b.String())
					b = save
				}
				if _, err := dec.Token(); err != nil {
					return err
				}
				fmt.Fprintf(&b, " O%d%s", len(parts), strings.Join(parts, ""))
			}
		}
		return nil
	}
	if err := val(); err != nil {
		return "", err
	}
	return strings.TrimSpace(b.String()), nil
}

// ---------------------------------------------------------------- TestWireCmd

var wirShapes = []string{"read", "readSel", "readEl", "reply", "full", "part", "partSel", "delSel", "delEl", "readSelEl", "replyPartial", "delSelPartSel",
	// the remaining ways of calling NotifyOrWriteCmdType in which no argument is ignored
	"partSelDelEl", "delSelDelEl", "delSelPartSelDelEl"}

func wirUsesSel(sh string) bool {
	return sh == "readSel" || sh == "partSel" || sh == "delSel" || sh == "readSelEl" || sh == "delSelPartSel" || wirCombined(sh)
}
func wirCombined(sh string) bool {
	return sh == "partSelDelEl" || sh == "delSelDelEl" || sh == "delSelPartSelDelEl"
}
func wirUsesEl(sh string) bool { return sh == "readEl" || sh == "delEl" || sh == "readSelEl" || wirCombined(sh) }
func wirUsesDelete(sh string) bool {
	return sh == "delSel" || sh == "delEl" || sh == "delSelPartSel" || wirCombined(sh)
}

// values a command is built from, generated per (function, shape) from the op's own seed
type wirArgs struct {
	data, empty, sel, sel2, el any // pointers; nil where the data model defines none
	// how an ABSENT selectors / elements argument is passed, per argument position (bit i = position
	// i): 0 the untyped nil, 1 a nil pointer of the function's selectors / elements type — what a
	// wrapper forwarding typed arguments hands over. Both mean "none" (util.IsNil).
	nilMask   int
	selT, elT reflect.Type
}

// absent: the "no selectors" (isSel) / "no elements" argument for position pos
func (a wirArgs) absent(pos int, isSel bool) any {
	t := a.elT
	if isSel {
		t = a.selT
	}
	if a.nilMask>>uint(pos)&1 == 1 && t != nil {
		return reflect.Zero(reflect.PointerTo(t)).Interface() // typed nil inside the interface
	}
	return nil
}

// wirAbsentBits: the selectors/elements argument positions (bit i = position i of the builder's `any`
// parameters) the shape leaves absent. (Until the deepening round the masks ran over 1..2^n-1 for n absent
// positions while bit i meant POSITION i, so an absent position behind a present one was never passed
// as a typed nil; now every non-empty subset of the absent positions is driven.)
func wirAbsentBits(sh string) int {
	switch sh {
	case "read":
		return 0b11
	case "readSel":
		return 0b10
	case "readEl":
		return 0b01
	case "full", "part":
		return 0b111
	case "partSel":
		return 0b101
	case "delSel":
		return 0b110
	case "delEl":
		return 0b011
	case "delSelPartSel":
		return 0b100
	case "partSelDelEl":
		return 0b001
	case "delSelDelEl":
		return 0b010
	}
	return 0
}

// wirNilMasks: every non-empty subset of the absent positions of the shape
func wirNilMasks(sh string) []int {
	bits := wirAbsentBits(sh)
	var out []int
	for m := 1; m < 8; m++ {
		if m&^bits == 0 {
			out = append(out, m)
		}
	}
	return out
}

func wirNonZero(t reflect.Type, rng *rand.Rand, avoid any) any {
	for try := 0; ; try++ {
		p := reflect.New(t)
		wirFill(p.Elem(), rng, 0.6, 0)
		zero := reflect.New(t)
		if wirEquiv(p, zero, time.Now()) && t.NumField() > 0 && try < 50 {
			continue // want something that differs from new(T) after the round trip
		}
		// must differ from `avoid` even after a JSON round trip (absent versus empty lists are the same there)
		if avoid != nil && (wirEquiv(p, reflect.ValueOf(avoid), time.Now()) || wirEquiv(reflect.ValueOf(avoid), p, time.Now())) && try < 50 {
			continue
		}
		return p.Interface()
	}
}

func wirMakeArgs(f *wirFn, rng *rand.Rand) wirArgs {
	a := wirArgs{empty: reflect.New(f.payload).Interface(), selT: f.selT, elT: f.elT}
	a.data = wirNonZero(f.payload, rng, nil)
	if f.selT != nil {
		a.sel = wirNonZero(f.selT, rng, nil)
		a.sel2 = wirNonZero(f.selT, rng, a.sel)
	}
	if f.elT != nil {
		a.el = wirNonZero(f.elT, rng, nil)
	}
	return a
}

func wirOpt(use bool, v any) any {
	if use {
		return v
	}
	return nil
}

// wirBuild calls the real API.
func wirBuild(fd api.FunctionDataCmdInterface, sh string, a wirArgs) model.CmdType {
	// ReadCmdType(partialSelector 0, elements 1); NotifyOrWriteCmdType(deleteSelector 0, partialSelector 1, _, deleteElements 2)
	switch sh {
	case "read":
		return fd.ReadCmdType(a.absent(0, true), a.absent(1, false))
	case "readSel":
		return fd.ReadCmdType(a.sel, a.absent(1, false))
	case "readEl":
		return fd.ReadCmdType(a.absent(0, true), a.el)
	case "readSelEl":
		return fd.ReadCmdType(a.sel, a.el)
	case "reply":
		return fd.ReplyCmdType(false)
	case "replyPartial":
		return fd.ReplyCmdType(true)
	case "full":
		return fd.NotifyOrWriteCmdType(a.absent(0, true), a.absent(1, true), false, a.absent(2, false))
	case "part":
		return fd.NotifyOrWriteCmdType(a.absent(0, true), a.absent(1, true), true, a.absent(2, false))
	case "partSel":
		return fd.NotifyOrWriteCmdType(a.absent(0, true), a.sel, false, a.absent(2, false))
	case "delSel":
		return fd.NotifyOrWriteCmdType(a.sel, a.absent(1, true), false, a.absent(2, false))
	case "delEl":
		return fd.NotifyOrWriteCmdType(a.absent(0, true), a.absent(1, true), false, a.el)
	case "delSelPartSel":
		return fd.NotifyOrWriteCmdType(a.sel, a.sel2, false, a.absent(2, false))
	case "partSelDelEl":
		return fd.NotifyOrWriteCmdType(a.absent(0, true), a.sel, false, a.el)
	case "delSelDelEl":
		return fd.NotifyOrWriteCmdType(a.sel, a.absent(1, true), false, a.el)
	case "delSelPartSelDelEl":
		return fd.NotifyOrWriteCmdType(a.sel, a.sel2, false, a.el)
	}
	panic("bad shape " + sh)
}

func wirShowFn(f *model.FunctionType) string {
	if f == nil {
		return "-"
	}
	if *f == "" {
		return `""`
	}
	return string(*f)
}

// wirWireKeys lists the keys of the cmd object and of its filter objects, in the order of the text.
func wirWireKeys(text []byte) (string, string, error) {
	dec := json.NewDecoder(bytes.NewReader(text))
	var raw map[string]json.RawMessage
	if err := json.Unmarshal(text, &raw); err != nil {
		return "", "", err
	}
	objKeys := func(b []byte) ([]string, error) {
		d := json.NewDecoder(bytes.NewReader(b))
		if _, err := d.Token(); err != nil {
			return nil, err
		}
		var ks []string
		for d.More() {
			kt, err := d.Token()
			if err != nil {
				return nil, err
			}
			ks = append(ks, kt.(string))
			var skip json.RawMessage
			if err := d.Decode(&skip); err != nil {
				return nil, err
			}
		}
		return ks, nil
	}
	_ = dec
	top, err := objKeys(text)
	if err != nil {
		return "", "", err
	}
	var filters []string
	if fr, ok := raw["filter"]; ok {
		var fs []json.RawMessage
		if err := json.Unmarshal(fr, &fs); err != nil {
			return "", "", err
		}
		for _, f := range fs {
			ks, err := objKeys(f)
			if err != nil {
				return "", "", err
			}
			var fm map[string]json.RawMessage
			_ = json.Unmarshal(f, &fm)
			for i, k := range ks {
				if k == "cmdControl" {
					ck, err := objKeys(fm[k])
					if err != nil {
						return "", "", err
					}
					ks[i] = "cmdControl{" + strings.Join(ck, ",") + "}"
				}
			}
			filters = append(filters, strings.Join(ks, ","))
		}
	}
	return strings.Join(top, ","), strings.Join(filters, ";"), nil
}

func wirLabel(v any, a wirArgs, now time.Time) string {
	if v == nil || reflect.ValueOf(v).IsNil() {
		return "?"
	}
	for _, c := range []struct {
		n string
		x any
	}{{"data", a.data}, {"sel", a.sel}, {"sel2", a.sel2}, {"el", a.el}, {"empty", a.empty}} {
		if c.x != nil && reflect.TypeOf(c.x) == reflect.TypeOf(v) && wirEquiv(reflect.ValueOf(c.x), reflect.ValueOf(v), now) {
			return c.n
		}
	}
	return "?"
}

func wirShowTyped(v any, a wirArgs, now time.Time) string {
	if v == nil || reflect.ValueOf(v).IsNil() {
		return "-"
	}
	return reflect.TypeOf(v).Elem().Name() + ":" + wirLabel(v, a, now)
}

type wirFilterRec struct {
	present  bool
	err      bool // FilterType.Data reported "not found"
	function string
	sel, el  any
}

func wirFilterData(f *model.FilterType) wirFilterRec {
	if f == nil {
		return wirFilterRec{}
	}
	fd, err := f.Data()
	if err != nil || fd == nil {
		return wirFilterRec{present: true, err: true}
	}
	r := wirFilterRec{present: true, sel: fd.Selector, el: fd.Elements}
	if fd.Function != nil {
		r.function = string(*fd.Function)
	}
	return r
}

func (fr wirFilterRec) show(a wirArgs, now time.Time) string {
	if !fr.present {
		return "-"
	}
	return fmt.Sprintf("(sel=%s,el=%s)", wirShowTyped(fr.sel, a, now), wirShowTyped(fr.el, a, now))
}

func wirPanicClass(p any) string {
	s := fmt.Sprint(p)
	switch {
	case strings.Contains(s, "*interface {} cannot be converted"):
		return "panic convert-iface"
	case strings.Contains(s, "cannot be converted") || strings.Contains(s, "not assignable"):
		return "panic type"
	case strings.Contains(s, "nil pointer"):
		return "panic nil-cmdcontrol"
	}
	return "panic other: " + s
}

// wirCmdOp executes one op "cmd <function> <shape> <seed>": builds with the real API, encodes,
// decodes, recognises; returns the canonical observation and evaluates the SPEC monitor.
func wirCmdOp(r *h.Report, fns map[string]*wirFn, op string) (impl string, kind string) {
	fl := strings.Fields(op)
	f := fns[fl[1]]
	sh := fl[2]
	seed, _ := strconv.ParseInt(fl[3], 10, 64)
	if f == nil {
		return "unknown-function", "unknown"
	}
	if (wirUsesSel(sh) && f.selT == nil) || (wirUsesEl(sh) && f.elT == nil) {
		return "n/a", "n/a"
	}
	mask := 0
	if len(fl) > 4 {
		mask, _ = strconv.Atoi(fl[4])
	}
	now := time.Now()
	given := wirMakeArgs(f, rand.New(rand.NewSource(seed))) // handed to the API
	a := wirMakeArgs(f, rand.New(rand.NewSource(seed)))     // the same values, never seen by the API
	given.nilMask = mask
	fd := wirNewFD(f)
	if _, e := fd.UpdateDataAny(false, true, given.data, nil, nil); e != nil {
		return "cannot-set-data", "error"
	}
	var cmd model.CmdType
	var pan any
	impl, kind, cmd, pan = wirCmdEval(r, f, sh, fd, given, a, []string{op}, now)
	if mask != 0 {
		// the same call with every absent argument as the untyped nil must build the same command
		g0 := wirMakeArgs(f, rand.New(rand.NewSource(seed)))
		fd0 := wirNewFD(f)
		fd0.UpdateDataAny(false, true, g0.data, nil, nil)
		var c0 model.CmdType
		p0 := h.Recover(func() { c0 = wirBuild(fd0, sh, g0) })
		if !wirSameBuild(cmd, pan, c0, p0) {
			r.SpecFail("C18/nil-forms-disagree:"+sh, []string{op}, fmt.Sprintf("%s %s: with absent selectors/elements passed as nil pointers of their type (positions %03b) the API builds %s, with the untyped nil %s", f.name, sh, mask, wirCmdText(cmd, pan), wirCmdText(c0, p0)))
		}
		kind = "typed-nil:" + kind
	}
	return impl, kind
}

// wirCmdEval builds one command on the given function-data instance (whatever its history), encodes,
// decodes, recognises; returns the canonical observation, and the command / panic for comparisons
// between instances; evaluates the SPEC monitor (a: the values put in, never seen by the API).
func wirCmdEval(r *h.Report, f *wirFn, sh string, fd api.FunctionDataCmdInterface, given, a wirArgs, ops []string, now time.Time) (impl string, kind string, cmd model.CmdType, pan any) {
	if p := h.Recover(func() { cmd = wirBuild(fd, sh, given) }); p != nil {
		cls := wirPanicClass(p)
		key := "C18/build-panics:" + sh
		if wirUsesDelete(sh) && cls == "panic convert-iface" {
			key = "C18/notify-delete-filter-panics"
		}
		r.SpecFail(key, ops, fmt.Sprintf("%s %s: the API panics while building the command: %v", f.name, sh, p))
		return cls, "panic:" + sh, cmd, p
	}
	impl, kind = wirCmdJudge(r, f, sh, cmd, a, ops, now)
	return impl, kind, cmd, nil
}

func wirCmdJudge(r *h.Report, f *wirFn, sh string, cmd model.CmdType, a wirArgs, ops []string, now time.Time) (impl string, kind string) {
	text, err := json.Marshal(cmd)
	if err != nil {
		r.SpecFail("C18/marshal-error", ops, err.Error())
		return "marshal-error", "error"
	}
	keys, fkeys, err := wirWireKeys(text)
	if err != nil {
		return "unparsable-json " + err.Error(), "error"
	}
	built := fmt.Sprintf("built fn=%s keys=%s filters=[%s]", wirShowFn(cmd.Function), keys, fkeys)
	var cmd2 model.CmdType
	if err := json.Unmarshal(text, &cmd2); err != nil {
		r.SpecFail("C18/unmarshal-error", ops, err.Error())
		return built + " | undecodable", "error"
	}
	var fp, fdel *model.FilterType
	if p := h.Recover(func() { fp, fdel = cmd2.ExtractFilter() }); p != nil {
		r.SpecFail("C18/extractfilter-panics", ops, fmt.Sprint(p))
		return built + " | " + wirPanicClass(p), "panic:extract"
	}
	cd, derr := cmd2.Data()
	pr, dr := wirFilterData(fp), wirFilterData(fdel)
	cmdfn := wirShowFn(cmd2.Function)
	// ---- canonical observation (same text as drv_cmd)
	switch {
	case derr != nil || cd == nil:
		impl = built + " | rec none cmdfn=" + cmdfn
	case cd.Function != nil && ((pr.present && !pr.err && pr.function != string(*cd.Function)) || (dr.present && !dr.err && dr.function != string(*cd.Function))):
		impl = built + " | rec none cmdfn=" + cmdfn
	default:
		impl = fmt.Sprintf("%s | rec fct=%s ty=%s payload=%s cmdfn=%s part=%s del=%s", built, wirShowFn(cd.Function),
			reflect.TypeOf(cd.Value).Elem().Name(), wirLabel(cd.Value, a, now), cmdfn, pr.show(a, now), dr.show(a, now))
	}
	// ---- SPEC monitor: what was put in must come out (does not consult the model)
	want := a.data
	if strings.HasPrefix(sh, "read") {
		want = a.empty
	}
	switch {
	case derr != nil || cd == nil || cd.Function == nil || string(*cd.Function) != f.name:
		got := "nothing"
		if cd != nil {
			got = wirShowFn(cd.Function)
		}
		r.SpecFail("C18/cmd-tag:"+f.name, ops, fmt.Sprintf("%s %s: after the round trip the command is recognised as function %s (json %s)", f.name, sh, got, text))
	case reflect.TypeOf(cd.Value) != reflect.PointerTo(f.payload):
		r.SpecFail("C18/cmd-type:"+f.name, ops, fmt.Sprintf("%s %s: payload recognised with type %v, registered type %v", f.name, sh, reflect.TypeOf(cd.Value), f.payload))
	case wirDiff(reflect.ValueOf(want), reflect.ValueOf(cd.Value), now) != "":
		why := wirDiff(reflect.ValueOf(want), reflect.ValueOf(cd.Value), now)
		g, _ := json.Marshal(wirPlain(reflect.ValueOf(cd.Value)))
		w, _ := json.Marshal(wirPlain(reflect.ValueOf(want)))
		key := "C18/payload-changed:" + f.payload.Name()
		if strings.HasPrefix(why, "time-period:") {
			key = "C18/" + why
		}
		r.SpecFail(key, ops, fmt.Sprintf("%s %s: payload %s came back as %s (%s); json %s", f.name, sh, w, g, why, text))
	}
	wantPartial := sh == "readSel" || sh == "readEl" || sh == "readSelEl" || sh == "replyPartial" || sh == "part" || sh == "partSel" || sh == "delSelPartSel" || sh == "partSelDelEl" || sh == "delSelPartSelDelEl"
	wantDelete := wirUsesDelete(sh)
	if pr.present != wantPartial || dr.present != wantDelete {
		r.SpecFail("C18/filter-kind:"+sh, ops, fmt.Sprintf("%s %s: partial filter %v (want %v), delete filter %v (want %v); json %s", f.name, sh, pr.present, wantPartial, dr.present, wantDelete, text))
	}
	chk := func(which string, fr wirFilterRec, wantSel, wantEl any) {
		if !fr.present {
			return
		}
		if !fr.err && fr.function != f.name {
			key := f.selKey
			if wantSel == nil {
				key = f.elKey
			}
			r.SpecFail("C18/"+key, ops, fmt.Sprintf("%s %s: the %s filter names function %q after the round trip", f.name, sh, which, fr.function))
			return
		}
		one := func(what, key, fld string, want, got any) {
			gotNil := got == nil || reflect.ValueOf(got).IsNil()
			w, _ := json.Marshal(wirPlain(reflect.ValueOf(want)))
			g, _ := json.Marshal(wirPlain(reflect.ValueOf(got)))
			if want == nil && gotNil {
				return
			}
			if want == nil {
				// nothing was put in, something comes out
				r.SpecFail("C18/filter-invented:"+what, ops, fmt.Sprintf("%s %s: no %s were given, the %s filter comes back with %s (%T); json %s", f.name, sh, what, which, g, got, text))
				return
			}
			if (want == nil) != gotNil || reflect.TypeOf(got) != reflect.TypeOf(want) {
				// dropped, invented or of another type: the tag row of the function
				r.SpecFail("C18/"+key, ops, fmt.Sprintf("%s %s: %s %s put into the %s filter came back as %s (%T); json %s", f.name, sh, what, w, which, g, got, text))
				return
			}
			if why := wirDiff(reflect.ValueOf(want), reflect.ValueOf(got), now); why != "" {
				k := "C18/filter-value:" + fld
				if strings.HasPrefix(why, "time-period:") {
					k = "C18/" + why
				}
				r.SpecFail(k, ops, fmt.Sprintf("%s %s: %s %s put into the %s filter came back as %s (%s); json %s", f.name, sh, what, w, which, g, why, text))
			}
		}
		one("selectors", f.selKey, f.selFld, wantSel, fr.sel)
		one("elements", f.elKey, f.elFld, wantEl, fr.el)
	}
	switch sh {
	case "readSel", "partSel":
		chk("partial", pr, a.sel, nil)
	case "readEl":
		chk("partial", pr, nil, a.el)
	case "readSelEl":
		chk("partial", pr, a.sel, a.el)
	case "replyPartial", "part":
		chk("partial", pr, nil, nil)
	case "delSel":
		chk("delete", dr, a.sel, nil)
	case "delEl":
		chk("delete", dr, nil, a.el)
	case "delSelPartSel":
		chk("delete", dr, a.sel, nil)
		chk("partial", pr, a.sel2, nil)
	case "partSelDelEl":
		chk("delete", dr, nil, a.el)
		chk("partial", pr, a.sel, nil)
	case "delSelDelEl":
		chk("delete", dr, a.sel, a.el)
	case "delSelPartSelDelEl":
		chk("delete", dr, a.sel, a.el)
		chk("partial", pr, a.sel2, nil)
	}
	return impl, "ok:" + sh
}


// ---- END TO END with real values (deepening, wave 2): the model `Spine.CmdJson` turns the command the
// table model builds into a VALUE of the regenerated schema's CmdType, encodes it with Spine.Json.encode,
// decodes, reads it back and recognises (theorem c18_e2e). Op "e2e <function> <shape> <seed>": the same
// with the real builders, encoding/json and the real recognisers; compared are (i) the built Go value,
// field by field (all 147 fields of CmdType, all 245 of every FilterType), (ii) the JSON tree, (iii) what
// is recognised, with the VALUES (not labels) of payload, selectors and elements.

// wirTamePeriods clears the end time of every end-only TimePeriodType: its own (un)marshaler re-expresses
// exactly those (Spine.PeriodJson, compared by TestWireJson); everything else is plain struct encoding.
func wirTamePeriods(v reflect.Value) {
	switch v.Kind() {
	case reflect.Ptr:
		if !v.IsNil() {
			wirTamePeriods(v.Elem())
		}
	case reflect.Slice:
		for i := 0; i < v.Len(); i++ {
			wirTamePeriods(v.Index(i))
		}
	case reflect.Struct:
		if v.Type() == wirTimePeriodT {
			if v.Field(0).IsNil() && !v.Field(1).IsNil() && v.Field(1).CanSet() {
				v.Field(1).Set(reflect.Zero(v.Field(1).Type()))
			}
			return
		}
		for i := 0; i < v.NumField(); i++ {
			wirTamePeriods(v.Field(i))
		}
	}
}

func wirE2EArgs(f *wirFn, seed int64) wirArgs {
	a := wirMakeArgs(f, rand.New(rand.NewSource(seed)))
	for _, x := range []any{a.data, a.empty, a.sel, a.sel2, a.el} {
		if x != nil {
			wirTamePeriods(reflect.ValueOf(x))
		}
	}
	return a
}

func wirVOrNil(x any) string {
	if x == nil || reflect.ValueOf(x).IsNil() {
		return "n"
	}
	return wirV(reflect.ValueOf(x).Elem())
}

func wirShowTypedV(v any) string {
	if v == nil || reflect.ValueOf(v).IsNil() {
		return "-"
	}
	return reflect.TypeOf(v).Elem().Name() + ":" + wirV(reflect.ValueOf(v).Elem())
}

func (fr wirFilterRec) showV() string {
	if !fr.present {
		return "-"
	}
	return fmt.Sprintf("(sel=%s,el=%s)", wirShowTypedV(fr.sel), wirShowTypedV(fr.el))
}

// wirE2EOp: returns the real observation and the model's question
func wirE2EOp(r *h.Report, fns map[string]*wirFn, op string) (impl, ask, kind string) {
	fl := strings.Fields(op)
	f := fns[fl[1]]
	sh := fl[2]
	seed, _ := strconv.ParseInt(fl[3], 10, 64)
	if f == nil {
		return "unknown-function", "", "unknown"
	}
	if (wirUsesSel(sh) && f.selT == nil) || (wirUsesEl(sh) && f.elT == nil) {
		return "n/a", "", "n/a"
	}
	given := wirE2EArgs(f, seed)
	fd := wirNewFD(f)
	if _, e := fd.UpdateDataAny(false, true, given.data, nil, nil); e != nil {
		return "cannot-set-data", "", "error"
	}
	// the model's `data` is the copy of the stored data the builders take (DataCopy)
	ask = fmt.Sprintf("e2e %s %s %s ; %s ; %s ; %s ; %s", f.name, sh, wirVOrNil(given.empty), wirVOrNil(fd.DataCopyAny()),
		wirVOrNil(given.sel), wirVOrNil(given.el), wirVOrNil(given.sel2))
	var cmd model.CmdType
	if p := h.Recover(func() { cmd = wirBuild(fd, sh, given) }); p != nil {
		return wirPanicClass(p), ask, "e2e-panic:" + sh
	}
	text, err := json.Marshal(cmd)
	if err != nil {
		return "marshal-error", ask, "error"
	}
	j, err := wirJ(text)
	if err != nil {
		return "json outside the model: " + err.Error(), ask, "error"
	}
	head := "V " + wirV(reflect.ValueOf(cmd)) + " | J " + j
	var cmd2 model.CmdType
	if err := json.Unmarshal(text, &cmd2); err != nil {
		return head + " | undecodable", ask, "error"
	}
	var fp, fdel *model.FilterType
	if p := h.Recover(func() { fp, fdel = cmd2.ExtractFilter() }); p != nil {
		return head + " | " + wirPanicClass(p), ask, "e2e-panic:extract"
	}
	cd, derr := cmd2.Data()
	pr, dr := wirFilterData(fp), wirFilterData(fdel)
	switch {
	case derr != nil || cd == nil:
		impl = head + " | rec none"
	case cd.Function != nil && ((pr.present && !pr.err && pr.function != string(*cd.Function)) || (dr.present && !dr.err && dr.function != string(*cd.Function))):
		impl = head + " | rec none"
	default:
		impl = fmt.Sprintf("%s | rec fct=%s ty=%s payload=%s part=%s del=%s", head, wirShowFn(cd.Function),
			reflect.TypeOf(cd.Value).Elem().Name(), wirVOrNil(cd.Value), pr.showV(), dr.showV())
	}
	return impl, ask, "e2e:" + sh
}

// ---- builder purity: the command a builder returns is a function of (function, stored data,
// arguments) — nothing may be carried from one call to the next on the same function-data instance.
//
// A history is a list of ops on ONE long-lived instance:
//   inst <function>        create the instance (no data stored yet)
//   set <seed>             store new data (UpdateDataAny, full, persist)
//   call <shape> <seed> [m] build a command (m: which absent arguments are typed nil pointers); it is (i) judged like any other command (model + SPEC),
//                          (ii) built a second time in a row with equal arguments — must be equal,
//                          (iii) built on a FRESH instance holding the same data — must be equal,
//                          (iv) and the command returned by the PREVIOUS call must still be what it was.

func wirSameBuild(c1 model.CmdType, p1 any, c2 model.CmdType, p2 any) bool {
	if p1 != nil || p2 != nil {
		return p1 != nil && p2 != nil && wirPanicClass(p1) == wirPanicClass(p2)
	}
	return reflect.DeepEqual(c1, c2)
}

func wirCmdText(c model.CmdType, p any) string {
	if p != nil {
		return wirPanicClass(p)
	}
	b, _ := json.Marshal(c)
	if len(b) > 600 {
		b = append(b[:600], " …"...)
	}
	return string(b)
}

// wirSeq runs a history; returns false when the model disagreed somewhere.
func wirSeq(r *h.Report, d *h.Driver, fns map[string]*wirFn, ops []string) bool {
	fl0 := strings.Fields(ops[0])
	if len(fl0) != 2 || fl0[0] != "inst" || fns[fl0[1]] == nil {
		panic("a history starts with: inst <function>; got " + ops[0])
	}
	f := fns[fl0[1]]
	fd := wirNewFD(f)
	dataSeed := int64(-1)
	agreed := true
	// the command returned by the previous call, and what it looked like when it was returned
	var prevCmd *model.CmdType
	prevSnap, prevShape := "", ""
	snap := func(c *model.CmdType) string {
		b, _ := json.Marshal(wirPlain(reflect.ValueOf(c))) // field by field, not through MarshalJSON
		return string(b)
	}
	mkData := func() any {
		if dataSeed < 0 {
			return nil
		}
		return wirMakeArgs(f, rand.New(rand.NewSource(dataSeed))).data
	}
	for i := 1; i < len(ops); i++ {
		hist := ops[:i+1]
		fl := strings.Fields(ops[i])
		switch {
		case len(fl) == 2 && fl[0] == "set":
			dataSeed, _ = strconv.ParseInt(fl[1], 10, 64)
			if _, e := fd.UpdateDataAny(false, true, mkData(), nil, nil); e != nil {
				panic("cannot set data: " + e.String())
			}
			r.Eval("seq:set", "")
		case (len(fl) == 3 || len(fl) == 4) && fl[0] == "call":
			sh := fl[1]
			seed, _ := strconv.ParseInt(fl[2], 10, 64)
			mask := 0
			if len(fl) == 4 {
				mask, _ = strconv.Atoi(fl[3])
			}
			if (wirUsesSel(sh) && f.selT == nil) || (wirUsesEl(sh) && f.elT == nil) {
				r.Eval("seq:n/a", "")
				continue
			}
			mk := func() wirArgs {
				a := wirMakeArgs(f, rand.New(rand.NewSource(seed)))
				a.nilMask = mask
				if dt := mkData(); dt != nil {
					a.data = dt
				} else {
					a.data = reflect.New(f.payload).Interface() // nothing stored: reply / notify carry new(T)
				}
				return a
			}
			now := time.Now()
			// (i) on the long-lived instance, judged in full
			impl, kind, c1, p1 := wirCmdEval(r, f, sh, fd, mk(), mk(), hist, now)
			want := d.Ask("rt " + f.name + " " + sh)
			if f.payload.NumField() == 0 || dataSeed < 0 {
				impl = strings.Replace(impl, "payload=empty", "payload=data", 1)
				want = strings.Replace(want, "payload=empty", "payload=data", 1)
			}
			r.Eval("seq:"+kind, "")
			// (ii) once more, in a row
			var c2 model.CmdType
			g2 := mk()
			p2 := h.Recover(func() { c2 = wirBuild(fd, sh, g2) })
			if !wirSameBuild(c1, p1, c2, p2) {
				r.SpecFail("C18/builder-not-idempotent:"+sh, hist, fmt.Sprintf("%s %s: two calls in a row with equal arguments build %s and then %s", f.name, sh, wirCmdText(c1, p1), wirCmdText(c2, p2)))
			}
			// (iii) on a fresh instance holding the same data
			ffd := wirNewFD(f)
			if dt := mkData(); dt != nil {
				ffd.UpdateDataAny(false, true, dt, nil, nil)
			}
			var c3 model.CmdType
			g3 := mk()
			p3 := h.Recover(func() { c3 = wirBuild(ffd, sh, g3) })
			if !wirSameBuild(c1, p1, c3, p3) {
				r.SpecFail("C18/builder-not-pure:"+sh, hist, fmt.Sprintf("%s %s: after this history the instance builds %s, a fresh instance with the same data and arguments builds %s", f.name, sh, wirCmdText(c1, p1), wirCmdText(c3, p3)))
			}
			// (iv) the command handed out by the previous call must not have changed meanwhile
			if prevCmd != nil {
				if nowSnap := snap(prevCmd); nowSnap != prevSnap {
					r.SpecFail("C18/built-command-changes-later:"+prevShape, hist, fmt.Sprintf("%s: the %s command returned by the previous call was %s and is %s after this call", f.name, prevShape, prevSnap, nowSnap))
				}
			}
			prevCmd, prevShape = nil, sh
			if p1 == nil {
				keep := c1
				prevCmd, prevSnap = &keep, snap(&keep)
			}
			if impl != want {
				// the model is stateless, so the rest of the history stays comparable: go on
				r.Mismatch(hist, impl, want, "command table model (a function of its arguments) versus the real builder on a long-lived instance")
				agreed = false
			}
		default:
			panic("bad op in history: " + ops[i])
		}
	}
	if agreed {
		r.Traces++
	}
	r.Case(strings.Join(ops, "; "))
	return agreed
}

// wirGenSeq: a history for one function: mostly calls over all shapes, data set now and then
// (the first calls run with nothing stored).
func wirGenSeq(f *wirFn, rng *rand.Rand, n int) []string {
	ops := []string{"inst " + f.name}
	for i := 0; i < n; i++ {
		switch x := rng.Intn(100); {
		case x < 12 && i > 2:
			ops = append(ops, fmt.Sprintf("set %d", rng.Int63n(1<<40)))
		case x < 30:
			ops = append(ops, fmt.Sprintf("call read %d", rng.Int63n(1<<40))) // plain reads often: after anything
		default:
			sh := wirShapes[rng.Intn(len(wirShapes))]
			if ms := wirNilMasks(sh); len(ms) > 0 && rng.Intn(2) == 0 {
				ops = append(ops, fmt.Sprintf("call %s %d %d", sh, rng.Int63n(1<<40), ms[rng.Intn(len(ms))]))
			} else {
				ops = append(ops, fmt.Sprintf("call %s %d", sh, rng.Int63n(1<<40)))
			}
		}
	}
	return ops
}

// wirIsNilTable: util.IsNil, the glue that decides "no selectors / no elements", on every form of nil.
func wirIsNilTable(r *h.Report) {
	var np *model.LoadControlLimitListDataSelectorsType
	var ns []int
	var nm map[string]int
	v := model.LoadControlLimitListDataSelectorsType{}
	for _, c := range []struct {
		name string
		x    any
		want bool
	}{
		{"untyped-nil", nil, true}, {"typed-nil-pointer", np, true}, {"nil-slice", ns, true}, {"nil-map", nm, true},
		{"pointer", &v, false}, {"pointer-to-nil-pointer", &np, false}, {"struct", v, false}, {"empty-slice", []int{}, false}, {"number", 0, false},
	} {
		got, p := false, h.Recover(func() {})
		p = h.Recover(func() { got = util.IsNil(c.x) })
		r.Eval("isnil", "")
		if p != nil || got != c.want {
			r.SpecFail("C18/isnil:"+c.name, []string{"isnil " + c.name}, fmt.Sprintf("util.IsNil(%s) = %v (panic %v), must be %v: absent selectors/elements would be treated as present (or the reverse)", c.name, got, p, c.want))
		}
	}
}

// wirConc: two goroutines build commands on one instance at the same time; every result must be what a
// fresh instance builds. "conc <function> <seed>".
func wirConc(r *h.Report, fns map[string]*wirFn, op string) {
	fl := strings.Fields(op)
	f := fns[fl[1]]
	seed, _ := strconv.ParseInt(fl[2], 10, 64)
	if f == nil {
		panic("bad op " + op)
	}
	var shapes []string
	for _, sh := range []string{"read", "readSel", "readEl", "reply", "full", "part", "partSel"} {
		if !((wirUsesSel(sh) && f.selT == nil) || (wirUsesEl(sh) && f.elT == nil)) {
			shapes = append(shapes, sh)
		}
	}
	mk := func() wirArgs { return wirMakeArgs(f, rand.New(rand.NewSource(seed))) }
	expect := map[string]model.CmdType{}
	for _, sh := range shapes {
		ffd := wirNewFD(f)
		ffd.UpdateDataAny(false, true, mk().data, nil, nil)
		g := mk()
		var c model.CmdType
		if p := h.Recover(func() { c = wirBuild(ffd, sh, g) }); p != nil {
			return // judged elsewhere
		}
		expect[sh] = c
	}
	fd := wirNewFD(f)
	fd.UpdateDataAny(false, true, mk().data, nil, nil)
	var mu sync.Mutex
	bad := ""
	var wg sync.WaitGroup
	for g := 0; g < 2; g++ {
		wg.Add(1)
		go func(g int) {
			defer wg.Done()
			for i := 0; i < 24; i++ {
				sh := shapes[(i+g*3)%len(shapes)]
				args := mk()
				var c model.CmdType
				p := h.Recover(func() { c = wirBuild(fd, sh, args) })
				if !wirSameBuild(c, p, expect[sh], nil) {
					mu.Lock()
					if bad == "" {
						bad = fmt.Sprintf("%s %s: built %s while another goroutine builds on the same instance; a fresh instance builds %s", f.name, sh, wirCmdText(c, p), wirCmdText(expect[sh], nil))
					}
					mu.Unlock()
				}
			}
		}(g)
	}
	wg.Wait()
	r.Eval("conc", "")
	if bad != "" {
		r.SpecFail("C18/builder-not-pure:concurrent", []string{op}, bad)
	} else {
		r.Traces++
	}
}

func TestWireCmd(t *testing.T) {
	r := h.NewReport("wirecmd", "every function the factory registers for any feature type x 15 command shapes (the nine of the property, read+selector+elements, partial reply, and every combination of delete selector / partial selector / delete elements: together every way of calling the three builders in which no argument is ignored), built with the real ReadCmdType/ReplyCmdType/NotifyOrWriteCmdType from reflectively generated data, selectors and elements, json.Marshal, json.Unmarshal, recognised with the real CmdType.Data/ExtractFilter/FilterType.Data; exhaustive over functions x shapes, several value seeds each, and over every way of passing the ABSENT selectors/elements arguments (untyped nil, or a nil pointer of the function's selectors/elements type, per argument position - both mean none; the command must equal the one built with untyped nils); util.IsNil on every form of nil; compared with the prediction of the Lean table model Spine.Cmd; BUILDER PURITY: per function one long-lived function-data instance driven through a seeded history of builder calls over all shapes with data stored and replaced in between (and nothing stored at first) - every command is judged as above (the model is stateless: a build is a function of function, data and arguments), built twice in a row (idempotence) and compared by reflect.DeepEqual with what a fresh instance holding the same data builds (purity), and the command returned by the previous call must be unchanged after the next call (no aliasing of returned commands); plus two goroutines building on one instance at the same time; non-trivial = distinct (function, shape, outcome) and distinct histories")
	defer r.Write()
	completed := wirGuard(r)
	d := h.StartDriver("drv_cmd")
	defer d.Close()
	fns := wirFunctions(wirFeatureTypes(d))
	byName := map[string]*wirFn{}
	var names []string
	for _, f := range fns {
		byName[f.name] = f
		names = append(names, f.name)
	}
	runE2E := func(op string) {
		impl, ask, kind := wirE2EOp(r, byName, op)
		r.Eval(kind, "")
		if ask == "" {
			return
		}
		want := d.Ask(ask)
		if impl != want {
			i := 0
			for i < len(impl) && i < len(want) && impl[i] == want[i] {
				i++
			}
			cut := func(x string) string {
				lo, hi := i-80, i+160
				if lo < 0 {
					lo = 0
				}
				if hi > len(x) {
					hi = len(x)
				}
				return fmt.Sprintf("…[%d]%s…", lo, x[lo:hi])
			}
			r.Mismatch([]string{op}, cut(impl), cut(want), "end to end: real builders + encoding/json + real recognisers versus Spine.CmdJson (cmdToV, Spine.Json.encode/decode over the schema's CmdType, cmdOfV, recognise)")
			return
		}
		r.Traces++
	}
	run := func(op string) {
		fl := strings.Fields(op)
		if len(fl) == 4 && fl[0] == "e2e" {
			runE2E(op)
			return
		}
		if (len(fl) != 4 && len(fl) != 5) || fl[0] != "cmd" {
			panic("bad op " + op)
		}
		impl, kind := wirCmdOp(r, byName, op)
		want := d.Ask("rt " + fl[1] + " " + fl[2])
		if f := byName[fl[1]]; f != nil && f.payload.NumField() == 0 {
			// a payload type without fields: "the data" and "new(T)" are the same value
			impl = strings.Replace(impl, "payload=empty", "payload=data", 1)
			want = strings.Replace(want, "payload=empty", "payload=data", 1)
		}
		r.Eval(kind, "")
		if impl != "n/a" {
			r.Case(fl[1] + " " + fl[2] + " " + strings.SplitN(impl, " keys=", 2)[0])
		}
		if impl != want {
			r.Mismatch([]string{op}, impl, want, "command table model versus the real builders and recognisers")
			return
		}
		r.Traces++
	}
	// probe phase: which member of the family is the tree? (witness: delete selector on the first
	// function whose selectors the lookup finds)
	flagOn, witness, detail := false, []string{}, ""
	for _, f := range fns {
		if f.selT == nil {
			continue
		}
		a := wirMakeArgs(f, rand.New(rand.NewSource(1)))
		fd := wirNewFD(f)
		var cmd model.CmdType
		p := h.Recover(func() { cmd = fd.NotifyOrWriteCmdType(a.sel, nil, false, nil) })
		if p != nil {
			flagOn, detail = true, fmt.Sprint(p)
			witness = []string{"cmd " + f.name + " delSel 1"}
			break
		}
		if len(cmd.Filter) == 1 {
			if fdta, err := cmd.Filter[0].Data(); err == nil && fdta.Selector != nil {
				witness = []string{"cmd " + f.name + " delSel 1"}
				break // built with the selector in place: repaired member
			}
		}
	}
	r.SetFlag("deleteByRef", flagOn, witness, detail)
	if flagOn {
		d.Ask("cfg 1")
	} else {
		d.Ask("cfg 0")
	}
	d.Mark()
	if ops := h.ReplayOps("wirecmd"); ops != nil {
		switch {
		case len(ops) > 0 && strings.HasPrefix(ops[0], "inst "):
			wirSeq(r, d, byName, ops)
		default:
			for _, op := range ops {
				if strings.HasPrefix(op, "conc ") {
					wirConc(r, byName, op)
				} else if strings.HasPrefix(op, "isnil") {
					wirIsNilTable(r)
				} else {
					run(op)
				}
			}
		}
		completed()
		return
	}
	// the function list of the regenerated table (G1) must be the one the factory yields here
	if got, want := strings.Join(names, " "), d.Ask("functions"); got != want {
		r.Mismatch([]string{"functions"}, got, want, "registered functions: harness enumeration versus regenerated table G1")
	}
	// corpus: the known rows first (one witness per known finding, reproduced on every run)
	for _, w := range [][2]string{
		{"measurementSeriesListData", "readSel"}, {"networkManagementFeatureDescriptionListData", "readSel"},
		{"sessionIdentificationListData", "readEl"}, {"sessionMeasurementRelationListData", "readEl"},
		{"setpointDescriptionListData", "readEl"}, {"electricalConnectionCharacteristicData", "readEl"},
		{"loadControlLimitListData", "delSel"}, {"loadControlLimitListData", "delEl"},
	} {
		if byName[w[0]] != nil {
			run(fmt.Sprintf("cmd %s %s 1", w[0], w[1]))
		}
	}
	// corpus: absent arguments as nil pointers of their concrete type (what forwarding wrappers pass)
	for _, w := range [][3]string{{"loadControlLimitListData", "read", "3"}, {"loadControlLimitListData", "full", "7"}, {"loadControlLimitListData", "readSel", "1"},
		{"deviceDiagnosisHeartbeatData", "read", "2"}, {"measurementListData", "partSel", "3"}} {
		if byName[w[0]] != nil {
			run(fmt.Sprintf("cmd %s %s 1 %s", w[0], w[1], w[2]))
		}
	}
	wirIsNilTable(r)
	// exhaustive: all functions x all shapes, several value seeds
	rng := h.Rng(1801)
	seeds := h.Scale(3, 40)
	applicable := 0
	for _, f := range fns {
		for _, sh := range wirShapes {
			for k := 0; k < seeds; k++ {
				run(fmt.Sprintf("cmd %s %s %d", f.name, sh, rng.Int63n(1<<40)))
			}
			// every way of passing the absent selectors / elements arguments: untyped nil (above) or a nil
			// pointer of the function's selectors / elements type, per argument position
			for _, mask := range wirNilMasks(sh) {
				for k := 0; k < h.Scale(1, 4); k++ {
					run(fmt.Sprintf("cmd %s %s %d %d", f.name, sh, rng.Int63n(1<<40), mask))
				}
			}
			// end to end with real values against Spine.CmdJson (c18_e2e)
			for k := 0; k < h.Scale(1, 8); k++ {
				run(fmt.Sprintf("e2e %s %s %d", f.name, sh, rng.Int63n(1<<40)))
			}
			if !((wirUsesSel(sh) && f.selT == nil) || (wirUsesEl(sh) && f.elT == nil)) {
				applicable++
			}
		}
	}
	// builder purity: one long-lived instance per function, seeded histories; first the order that a
	// cache of the plain read command would get wrong (restricted read, then plain read)
	for _, fn := range []string{"loadControlLimitListData", "deviceDiagnosisHeartbeatData"} {
		if f := byName[fn]; f != nil {
			sh := "readSel"
			if f.selT == nil {
				sh = "readEl"
			}
			wirSeq(r, d, byName, []string{"inst " + fn, "call read 1", "call " + sh + " 2", "call read 3", "set 4", "call reply 5", "call " + sh + " 6", "call " + sh + " 7", "call read 8", "call full 9", "call part 10", "call read 11"})
		}
	}
	steps := h.Scale(40, 400)
	srng := h.Rng(1803)
	for _, f := range fns {
		wirSeq(r, d, byName, wirGenSeq(f, srng, steps))
		wirConc(r, byName, fmt.Sprintf("conc %s %d", f.name, srng.Int63n(1<<40)))
	}
	// minimise the witnesses of purity failures (histories)
	for _, sf := range append([]h.SpecFailure{}, r.SpecFailures...) {
		if !(strings.HasPrefix(sf.Key, "C18/builder-not-") || strings.HasPrefix(sf.Key, "C18/built-command-")) || len(sf.Ops) < 4 || !strings.HasPrefix(sf.Ops[0], "inst ") {
			continue
		}
		key := sf.Key
		small := h.Shrink(sf.Ops, func(ops []string) bool {
			if len(ops) < 2 || !strings.HasPrefix(ops[0], "inst ") {
				return false
			}
			q := h.Quiet()
			wirSeq(q, d, byName, ops)
			return q.HasSpecFail(key)
		})
		r.ReplaceSpecFailOps(key, small)
	}
	calls := 0
	for k, n := range r.Dist {
		if strings.HasPrefix(k, "seq:ok:") || strings.HasPrefix(k, "seq:panic:") {
			calls += n
		}
	}
	r.Info["history steps per function"] = steps
	r.Info["builder calls in histories"] = calls
	r.Floor("builder calls in histories that were applicable", calls, len(fns)*steps, 0.5)
	r.Floor("plain reads in histories", r.Dist["seq:ok:read"], calls, 0.1)
	r.Exhaustive = true
	r.Info["functions"] = len(fns)
	r.Info["shapes"] = len(wirShapes)
	r.Info["applicable function x shape pairs"] = applicable
	nsel, nel := 0, 0
	for _, f := range fns {
		if f.selT != nil {
			nsel++
		}
		if f.elT != nil {
			nel++
		}
	}
	r.Info["functions with selectors type"] = nsel
	r.Info["functions with elements type"] = nel
	r.Floor("functions found", len(fns), 100, 1.0)
	r.Floor("applicable pairs", applicable, len(fns)*len(wirShapes), 0.6)
	completed()
}

// ---------------------------------------------------------------- TestWireJson

// wirPeriodValue builds the value of a "period" op: a TimePeriodType of the given shape, bare or nested
// in a payload (loadControlLimitListData.timePeriod). Tokens: - | x | a<±secs from now> | r<±secs>.
func wirPeriodValue(container, st, en string) reflect.Value {
	mk := func(tok string) *model.AbsoluteOrRelativeTimeType {
		if tok == "-" {
			return nil
		}
		off, _ := strconv.ParseInt(tok[1:], 10, 64)
		return wirTimeString(tok[0], off, int(off)%4)
	}
	tp := &model.TimePeriodType{StartTime: mk(st), EndTime: mk(en)}
	if container == "bare" {
		return reflect.ValueOf(tp)
	}
	id := model.LoadControlLimitIdType(1)
	return reflect.ValueOf(&model.LoadControlLimitListDataType{LoadControlLimitData: []model.LoadControlLimitDataType{{LimitId: &id, TimePeriod: tp}}})
}

// wirJsonOp executes "json <GoType> <seed> <density>" (a random value) or "period <bare|nested> <start> <end>".
func wirJsonOp(r *h.Report, d *h.Driver, types map[string]reflect.Type, op string) (kind string, ok bool) {
	fl := strings.Fields(op)
	var p reflect.Value
	switch fl[0] {
	case "json":
		t := types[fl[1]]
		seed, _ := strconv.ParseInt(fl[2], 10, 64)
		dense, _ := strconv.ParseFloat(fl[3], 64)
		if t == nil {
			panic("unknown type in op " + op)
		}
		p = reflect.New(t)
		wirFill(p.Elem(), rand.New(rand.NewSource(seed)), dense, 0)
	case "period":
		p = wirPeriodValue(fl[1], fl[2], fl[3])
	default:
		panic("bad op " + op)
	}
	return wirJsonCheck(r, d, []string{op}, p)
}

// wirJsonCheck: p (pointer to the value) through encoding/json and back; SPEC monitor; correspondence
// with Spine.Json (every field) and Spine.PeriodJson (every TimePeriodType inside).
func wirJsonCheck(r *h.Report, d *h.Driver, ops []string, p reflect.Value) (kind string, ok bool) {
	t := p.Type().Elem()
	now := time.Now()
	text, err := json.Marshal(p.Interface())
	if err != nil {
		r.SpecFail("C18/marshal-error", ops, err.Error())
		return "error", false
	}
	q := reflect.New(t)
	now2 := time.Now()
	if err := json.Unmarshal(text, q.Interface()); err != nil {
		r.SpecFail("C18/json-roundtrip:"+t.Name(), ops, fmt.Sprintf("encoding/json cannot decode its own output %s: %v", text, err))
		return "error", false
	}
	// SPEC: decode(encode v) is equivalent to v (model-free)
	if why := wirDiff(p, q, now); why != "" {
		g, _ := json.Marshal(q.Interface())
		o, _ := json.Marshal(wirPlain(p))
		key := "C18/json-roundtrip:" + t.Name()
		if strings.HasPrefix(why, "time-period:") {
			key = "C18/" + why
		}
		r.SpecFail(key, ops, fmt.Sprintf("%s: value %s is written as %s and decodes as %s (%s)", t.Name(), o, text, g, why))
	}
	// ---- correspondence, part 1: every TimePeriodType inside, against Spine.PeriodJson
	var jt any
	jd := json.NewDecoder(bytes.NewReader(text))
	jd.UseNumber()
	if err := jd.Decode(&jt); err != nil {
		r.Mismatch(ops, "unparsable json "+err.Error(), "", string(text))
		return "error", false
	}
	var tpP, tpQ []wirTPObs
	wirCollectTP(p.Elem(), jt, &tpP)
	wirCollectTP(q.Elem(), jt, &tpQ)
	if len(tpP) != len(tpQ) {
		r.Mismatch(ops, fmt.Sprintf("%d time periods decoded", len(tpQ)), fmt.Sprintf("%d time periods encoded", len(tpP)), string(text))
		return "error", false
	}
	substP, substQ := map[int]string{}, map[int]string{}
	tol := 1.5 + time.Since(now).Seconds()
	for i := range tpP {
		os, oe := wirClassify(tpP[i].val.StartTime), wirClassify(tpP[i].val.EndTime)
		ts, te := wirClassifyStr(wirJStr(tpP[i].jm, "startTime")), wirClassifyStr(wirJStr(tpP[i].jm, "endTime"))
		qs, qe := wirClassify(tpQ[i].val.StartTime), wirClassify(tpQ[i].val.EndTime)
		r.Dist[fmt.Sprintf("period start=%c end=%c", os.kind, oe.kind)]++
		if t != wirTimePeriodT {
			r.Dist["period nested in a payload"]++
		}
		ans := strings.Fields(d.Ask(fmt.Sprintf("tp %d %d %s %s", now.Unix(), now2.Unix(), os.tok(), oe.tok())))
		impl := fmt.Sprintf("enc %s %s dec %s %s", ts.tok(), te.tok(), qs.tok(), qe.tok())
		if len(ans) != 6 {
			r.Mismatch(ops, impl, strings.Join(ans, " "), "time period: driver answer")
			return "period", false
		}
		good := wirTokMatch(ans[1], ts, tol) && wirTokMatch(ans[2], te, tol) && wirTokMatch(ans[4], qs, tol) && wirTokMatch(ans[5], qe, tol)
		// where the model predicts "unchanged" the text must be the identical string (a duration of an
		// end-only period is the exception: it is written in the period library's normal form)
		endOnlyRel := os.kind == '-' && oe.kind == 'r'
		if ans[1] == os.tok() && ts.raw != os.raw {
			good = false
		}
		if ans[2] == oe.tok() && !endOnlyRel && te.raw != oe.raw {
			good = false
		}
		if ans[4] == ans[1] && qs.raw != ts.raw {
			good = false
		}
		if ans[5] == ans[2] && qe.raw != te.raw {
			good = false
		}
		if !good {
			r.Mismatch(ops, impl+fmt.Sprintf(" (start %q end %q written as %q %q decoded as %q %q)", os.raw, oe.raw, ts.raw, te.raw, qs.raw, qe.raw),
				strings.Join(ans, " "), fmt.Sprintf("TimePeriodType %d of %s: MarshalJSON/UnmarshalJSON versus Spine.PeriodJson (tolerance %.1f s); text %s", i, t.Name(), tol, text))
			return "period", false
		}
		if ans[2] != oe.tok() || endOnlyRel {
			substP[i] = te.raw // predicted re-expression: take the real string, compare the rest exactly
		}
		if ans[5] != ans[2] {
			substQ[i] = te.raw
		}
	}
	// ---- part 2: the whole value against Spine.Json: same JSON tree, same decoded value
	implJ, err := wirJ(text)
	if err != nil {
		r.Mismatch(ops, "json outside the model: "+err.Error(), "", string(text))
		return "error", false
	}
	modelJ := d.Ask("enc " + t.Name() + " " + wirVS(p.Elem(), substP))
	if implJ != modelJ {
		r.Mismatch(ops, implJ, modelJ, "encode "+t.Name()+": encoding/json versus Spine.Json.encode; text "+string(text))
		return "enc", false
	}
	implV := wirVS(q.Elem(), substQ)
	modelV := d.Ask("dec " + t.Name() + " " + implJ)
	if implV != modelV {
		r.Mismatch(ops, implV, modelV, "decode "+t.Name()+": encoding/json versus Spine.Json.decode; text "+string(text))
		return "dec", false
	}
	kind = "plain"
	if len(substP) > 0 || len(substQ) > 0 {
		kind = "with-re-expressed-period"
	} else if wirHasEmptyList(p.Elem()) {
		kind = "with-empty-list" // where decode(encode v) differs from v: the list comes back absent
	} else if bytes.Contains(text, []byte("null")) {
		kind = "with-null"
	}
	if len(text) > 2 {
		if len(r.Samples) < 6 && len(text) < 400 && len(text)%7 == 0 {
			r.Sample(t.Name() + " " + string(text))
		}
		hs := fnv.New64a()
		hs.Write([]byte(t.Name()))
		hs.Write(text)
		r.Case(strconv.FormatUint(hs.Sum64(), 36))
	}
	return kind, true
}

// wirPlain: a copy of the value in which TimePeriodType is replaced by a struct without methods, so
// that json.Marshal shows what the value holds rather than what MarshalJSON makes of it (messages only).
func wirPlain(p reflect.Value) any {
	var walk func(v reflect.Value) any
	walk = func(v reflect.Value) any {
		if !v.IsValid() {
			return nil
		}
		switch v.Kind() {
		case reflect.Ptr:
			if v.IsNil() {
				return nil
			}
			return walk(v.Elem())
		case reflect.Slice:
			if v.IsNil() {
				return nil
			}
			out := []any{}
			for i := 0; i < v.Len(); i++ {
				out = append(out, walk(v.Index(i)))
			}
			return out
		case reflect.Struct:
			m := map[string]any{}
			for i := 0; i < v.NumField(); i++ {
				if x := walk(v.Field(i)); x != nil {
					m[strings.Split(v.Type().Field(i).Tag.Get("json"), ",")[0]] = x
				}
			}
			return m
		}
		return v.Interface()
	}
	return walk(p)
}

func TestWireJson(t *testing.T) {
	r := h.NewReport("wirejson", "reflectively generated random values (pointer/slice fields nil, empty or filled; strings with quotes, backslashes, HTML and non-ASCII characters; numbers at the bounds of their Go type) of the payload, selectors and elements type of every registered function and of Datagram/HeaderType/CmdType/FilterType: encoded by encoding/json and by Spine.Json.encode over the regenerated schema (compared as JSON trees), decoded by both (compared as values); every TimePeriodType inside a value (all 16 shapes {start, end} x {absent, date-time, duration, unparsable}, bare and nested in payloads) compared with Spine.PeriodJson on the wire and after decoding; SPEC: decode(encode v) equals v up to absent/empty lists, and a time period may change ONLY if it has no start and a duration or date-time as end (the duration re-anchored against now, the date-time the same instant, within the second rounding plus elapsed time) - every other shape must come back as the identical strings; non-trivial = distinct JSON text")
	defer r.Write()
	completed := wirGuard(r)
	d := h.StartDriver("drv_json")
	defer d.Close()
	types := map[string]reflect.Type{}
	add := func(t reflect.Type) {
		if t != nil {
			types[t.Name()] = t
		}
	}
	dc := h.StartDriver("drv_cmd")
	fts := wirFeatureTypes(dc)
	dc.Close()
	for _, f := range wirFunctions(fts) {
		add(f.payload)
		add(f.selT)
		add(f.elT)
	}
	for _, x := range []any{model.Datagram{}, model.HeaderType{}, model.CmdType{}, model.FilterType{}, model.TimePeriodType{}, model.ScaledNumberType{}} {
		add(reflect.TypeOf(x))
	}
	var names []string
	for n := range types {
		names = append(names, n)
	}
	sort.Strings(names)
	run := func(op string) {
		kind, ok := wirJsonOp(r, d, types, op)
		r.Eval(kind, "")
		if ok {
			r.Traces++
		}
	}
	if ops := h.ReplayOps("wirejson"); ops != nil {
		for _, op := range ops {
			run(op)
		}
		completed()
		return
	}
	// every type must be known to the regenerated schema and well-formed there
	for _, n := range names {
		if a := d.Ask("wf " + n); a != "1" {
			r.Mismatch([]string{"wf " + n}, "type used by a registered function", a, "type missing from or ill-formed in the regenerated schema G5")
		}
	}
	// corpus: the shapes the model distinguishes
	for _, op := range []string{
		"json LoadControlStateDataType 1 1.0", "json LoadControlStateDataType 2 0.0", // fields without omitempty: null
		"json TimeSeriesDataType 3 0.5", "json Datagram 4 0.9", "json Datagram 5 0.0",
		"json ScaledNumberType 6 1.0", "json TimePeriodType 7 1.0",
	} {
		if types[strings.Fields(op)[1]] != nil {
			run(op)
		}
	}
	// corpus: every shape of a time period, bare and nested in a payload, future and past
	toks := []string{"-", "x", "a+14400", "a-86400", "r+18000", "r-86400"}
	for _, c := range []string{"bare", "nested"} {
		for _, st := range toks {
			for _, en := range toks {
				run(fmt.Sprintf("period %s %s %s", c, st, en))
			}
		}
	}
	rng := h.Rng(1802)
	per := h.Scale(200, 3000)
	for _, n := range names {
		for k := 0; k < per; k++ {
			dense := []float64{0.15, 0.4, 0.7, 0.95}[k%4]
			run(fmt.Sprintf("json %s %d %.2f", n, rng.Int63n(1<<40), dense))
		}
	}
	r.Info["types"] = len(names)
	r.Info["values per type"] = per
	tot := r.Dist["plain"] + r.Dist["with-empty-list"] + r.Dist["with-null"] + r.Dist["with-re-expressed-period"]
	r.Floor("values compared with the model", tot, r.Evaluations, 0.99)
	r.Floor("values with an empty list", r.Dist["with-empty-list"], tot, 0.02)
	r.Floor("values with a null", r.Dist["with-null"], tot, 0.001)
	r.Floor("values with a re-expressed time period", r.Dist["with-re-expressed-period"], tot, 0.001)
	// every shape of a time period must have been seen often, and not only as a bare value
	minShape, nper := 1<<30, 0
	for _, a := range "-arj" {
		for _, b := range "-arj" {
			n := r.Dist[fmt.Sprintf("period start=%c end=%c", a, b)]
			nper += n
			if n < minShape {
				minShape = n
			}
		}
	}
	r.Info["time periods seen"] = nper
	r.Info["rarest time-period shape seen"] = minShape
	r.Floor("every time-period shape (16) at least 20 times", minShape, 20, 1.0)
	r.Floor("time periods nested in payloads", r.Dist["period nested in a payload"], nper, 0.3)
	r.Floor("types", len(names), 300, 1.0)
	completed()
}
