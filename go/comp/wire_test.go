package comp

// C18 — wire format and function tables are coherent for every function.
//
// TestWireCmd : every registered function x every command shape, built with the
//   real API (ReadCmdType / ReplyCmdType / NotifyOrWriteCmdType), json.Marshal,
//   json.Unmarshal, recognised with the real CmdType.Data / ExtractFilter /
//   FilterType.Data; exhaustive; compared with the prediction of the Lean table
//   model Spine.Cmd (driver drv_cmd) and judged by a SPEC monitor that looks only
//   at what was put in and what came out.
// TestWireJson: reflectively generated values of every payload, selectors and
//   elements type (plus the envelope types) encoded and decoded by encoding/json
//   and by the Lean model Spine.Json over the regenerated schema (driver
//   drv_json), compared; SPEC: decode(encode v) is v up to absent/empty lists
//   and the re-expression of TimePeriodType's relative end time.
//
// All helper identifiers carry the prefix wir.

import (
	"bytes"
	"encoding/hex"
	"encoding/json"
	"fmt"
	"hash/fnv"
	"math"
	"math/rand"
	"reflect"
	"sort"
	"strconv"
	"strings"
	"testing"
	"time"

	"github.com/enbility/spine-go/api"
	"github.com/enbility/spine-go/model"
	"github.com/enbility/spine-go/spine"
	"verifharness/h"
)

// wirGuard makes a run that dies before its end (a panic in the harness, a driver that stops
// answering) visible: the check accepts any report that exists, so the report carries a failed floor
// "run completed" until the returned function is called at the regular end of the test.
func wirGuard(r *h.Report) (completed func()) {
	const name = "run completed"
	r.Floors[name] = "0 (the test did not reach its end)"
	r.FloorFail = append(r.FloorFail, name)
	return func() {
		r.Floors[name] = "1"
		var keep []string
		for _, f := range r.FloorFail {
			if f != name {
				keep = append(keep, f)
			}
		}
		r.FloorFail = keep
	}
}

// ---------------------------------------------------------------- the registered functions

// wirFeatureTypes: the feature type constants, as enumerated from the sources by the translator (G1,
// go/ast over model/*.go) and handed over by the driver — only the list of inputs, nothing about
// behaviour. Fallback: the constants known when the harness was written.
func wirFeatureTypes(d *h.Driver) []model.FeatureTypeType {
	var out []model.FeatureTypeType
	if d != nil {
		for _, f := range strings.Fields(d.Ask("features")) {
			out = append(out, model.FeatureTypeType(f))
		}
	}
	if len(out) == 0 {
		out = []model.FeatureTypeType{
			model.FeatureTypeTypeActuatorLevel, model.FeatureTypeTypeActuatorSwitch, model.FeatureTypeTypeAlarm,
			model.FeatureTypeTypeDataTunneling, model.FeatureTypeTypeDeviceClassification, model.FeatureTypeTypeDeviceDiagnosis,
			model.FeatureTypeTypeDirectControl, model.FeatureTypeTypeElectricalConnection, model.FeatureTypeTypeGeneric,
			model.FeatureTypeTypeHvac, model.FeatureTypeTypeLoadControl, model.FeatureTypeTypeMeasurement,
			model.FeatureTypeTypeMessaging, model.FeatureTypeTypeNetworkManagement, model.FeatureTypeTypeNodeManagement,
			model.FeatureTypeTypeOperatingConstraints, model.FeatureTypeTypePowerSequences, model.FeatureTypeTypeSensing,
			model.FeatureTypeTypeSetpoint, model.FeatureTypeTypeSmartEnergyManagementPs, model.FeatureTypeTypeTaskManagement,
			model.FeatureTypeTypeThreshold, model.FeatureTypeTypeTimeInformation, model.FeatureTypeTypeTimeTable,
			model.FeatureTypeTypeDeviceConfiguration, model.FeatureTypeTypeSupplyCondition, model.FeatureTypeTypeTimeSeries,
			model.FeatureTypeTypeTariffInformation, model.FeatureTypeTypeIncentiveTable, model.FeatureTypeTypeBill,
			model.FeatureTypeTypeIdentification, model.FeatureTypeTypeStateInformation,
		}
	}
	return out
}

type wirFn struct {
	name    string
	feature model.FeatureTypeType // one feature type that registers it
	payload reflect.Type          // T
	selT    reflect.Type          // selectors struct type the data model provides (nil: none)
	elT     reflect.Type          // elements struct type
	selFld  string                // FilterType field of that type
	elFld   string
	selKey  string // SpecFail key suffix for this function's selectors row
	elKey   string
}

// wirFilterFieldByType: FilterType field whose pointed-to type has the given name.
func wirFilterFieldByType(name string) (reflect.StructField, bool) {
	t := reflect.TypeOf(model.FilterType{})
	for i := 0; i < t.NumField(); i++ {
		sf := t.Field(i)
		if sf.Type.Kind() == reflect.Ptr && sf.Type.Elem().Name() == name {
			return sf, true
		}
	}
	return reflect.StructField{}, false
}

// wirExpected decides, from Go type names only (never from the eebus tags), which
// selectors and elements type the data model provides for a payload type P:
// *<P>SelectorsType; *<P>ElementsType or, for a list, *<I>ElementsType of its item type I.
func wirExpected(p reflect.Type) (sel, el reflect.StructField, hasSel, hasEl bool) {
	base := strings.TrimSuffix(p.Name(), "Type")
	sel, hasSel = wirFilterFieldByType(base + "SelectorsType")
	el, hasEl = wirFilterFieldByType(base + "ElementsType")
	if !hasEl && p.Kind() == reflect.Struct {
		for i := 0; i < p.NumField() && !hasEl; i++ {
			ft := p.Field(i).Type
			if ft.Kind() == reflect.Slice && ft.Elem().Kind() == reflect.Struct {
				el, hasEl = wirFilterFieldByType(strings.TrimSuffix(ft.Elem().Name(), "Type") + "ElementsType")
			}
		}
	}
	return
}

func wirFunctions(fts []model.FeatureTypeType) []*wirFn {
	byName := map[string]*wirFn{}
	for _, ft := range fts {
		var fds []api.FunctionDataCmdInterface
		h.Recover(func() { fds = spine.CreateFunctionData[api.FunctionDataCmdInterface](ft) })
		for _, fd := range fds {
			n := string(fd.FunctionType())
			if _, ok := byName[n]; ok {
				continue
			}
			f := &wirFn{name: n, feature: ft, payload: reflect.TypeOf(fd.DataCopyAny()).Elem()}
			sel, el, hs, he := wirExpected(f.payload)
			if hs {
				f.selT, f.selFld = sel.Type.Elem(), sel.Name
			}
			if he {
				f.elT, f.elFld = el.Type.Elem(), el.Name
			}
			byName[n] = f
		}
	}
	var out []*wirFn
	for _, f := range byName {
		out = append(out, f)
	}
	sort.Slice(out, func(i, j int) bool { return out[i].name < out[j].name })
	// key of a row: tag:<FilterType field>, with @<function> when several functions share the field
	users := map[string]int{}
	for _, f := range out {
		if f.selFld != "" {
			users[f.selFld]++
		}
		if f.elFld != "" {
			users[f.elFld]++
		}
	}
	for _, f := range out {
		f.selKey, f.elKey = "tag:"+f.selFld, "tag:"+f.elFld
		if users[f.selFld] > 1 {
			f.selKey += "@" + f.name
		}
		if users[f.elFld] > 1 {
			f.elKey += "@" + f.name
		}
	}
	return out
}

// wirNewFD creates a fresh function-data object of the function through the factory.
func wirNewFD(f *wirFn) api.FunctionDataCmdInterface {
	for _, fd := range spine.CreateFunctionData[api.FunctionDataCmdInterface](f.feature) {
		if string(fd.FunctionType()) == f.name {
			return fd
		}
	}
	return nil
}

// ---------------------------------------------------------------- reflective values

const wirAlphabet = "abcdefghijklmnopqrstuvwxyzABCDEFGHIJKLMNOPQRSTUVWXYZ0123456789 _-.:/+\"\\<>&'=äéπ"

func wirString(rng *rand.Rand) string {
	rs := []rune(wirAlphabet)
	n := rng.Intn(9)
	if rng.Intn(12) == 0 {
		n = 0
	}
	var b strings.Builder
	for i := 0; i < n; i++ {
		b.WriteRune(rs[rng.Intn(len(rs))])
	}
	return b.String()
}

var wirTimePeriodT = reflect.TypeOf(model.TimePeriodType{})

func wirUint(rng *rand.Rand, bits int) uint64 {
	switch rng.Intn(6) {
	case 0:
		return 0
	case 1:
		if bits == 64 {
			return math.MaxUint64
		}
		return 1<<uint(bits) - 1
	case 2:
		return rng.Uint64() >> uint(64-bits)
	}
	return uint64(rng.Intn(50))
}

func wirInt(rng *rand.Rand, bits int) int64 {
	switch rng.Intn(6) {
	case 0:
		return 0
	case 1:
		return -(1 << uint(bits-1))
	case 2:
		return 1<<uint(bits-1) - 1
	case 3:
		return int64(rng.Uint64()) >> uint(64-bits)
	}
	return int64(rng.Intn(100) - 50)
}

// wirFill fills v (settable) with a random value of its type. dense in (0,1]: how
// likely a pointer / slice field is non-nil.
func wirFill(v reflect.Value, rng *rand.Rand, dense float64, depth int) {
	t := v.Type()
	switch t.Kind() {
	case reflect.Ptr:
		if rng.Float64() < dense {
			p := reflect.New(t.Elem())
			wirFill(p.Elem(), rng, dense, depth+1)
			v.Set(p)
		}
	case reflect.Slice:
		x := rng.Float64()
		switch {
		case x >= dense:
			// nil
		case rng.Intn(5) == 0:
			v.Set(reflect.MakeSlice(t, 0, 0)) // empty, not nil
		default:
			n := 1 + rng.Intn(3)
			if depth > 3 {
				n = 1
			}
			s := reflect.MakeSlice(t, n, n)
			for i := 0; i < n; i++ {
				wirFill(s.Index(i), rng, dense, depth+1)
			}
			v.Set(s)
		}
	case reflect.Struct:
		if t == wirTimePeriodT {
			wirFillTimePeriod(v, rng)
			return
		}
		d := dense
		if nf := t.NumField(); nf > 8 {
			// big choice groups (CmdType, FilterType): a few fields only
			d = math.Min(dense, 3.0/float64(nf))
		}
		if depth > 4 {
			d = d / 2
		}
		for i := 0; i < t.NumField(); i++ {
			fd := d
			if k := t.Field(i).Type.Kind(); k != reflect.Ptr && k != reflect.Slice {
				fd = dense
			}
			wirFill(v.Field(i), rng, fd, depth+1)
		}
	case reflect.String:
		v.SetString(wirString(rng))
	case reflect.Bool:
		v.SetBool(rng.Intn(2) == 0)
	case reflect.Uint, reflect.Uint64:
		v.SetUint(wirUint(rng, 64))
	case reflect.Uint8:
		v.SetUint(wirUint(rng, 8))
	case reflect.Uint16:
		v.SetUint(wirUint(rng, 16))
	case reflect.Uint32:
		v.SetUint(wirUint(rng, 32))
	case reflect.Int, reflect.Int64:
		v.SetInt(wirInt(rng, 64))
	case reflect.Int8:
		v.SetInt(wirInt(rng, 8))
	case reflect.Int16:
		v.SetInt(wirInt(rng, 16))
	case reflect.Int32:
		v.SetInt(wirInt(rng, 32))
	default:
		panic("wirFill: unsupported kind " + t.Kind().String() + " in " + t.String())
	}
}

// TimePeriodType has custom JSON exactly when StartTime is nil and EndTime parses as a duration or
// a time. Strings starting with "x" parse as neither.
func wirFillTimePeriod(v reflect.Value, rng *rand.Rand) {
	tp := v.Addr().Interface().(*model.TimePeriodType)
	plain := func() *model.AbsoluteOrRelativeTimeType {
		s := model.AbsoluteOrRelativeTimeType("x" + wirString(rng))
		return &s
	}
	switch rng.Intn(6) {
	case 0: // both absent
	case 1: // start only
		tp.StartTime = plain()
	case 2: // both: no custom path
		tp.StartTime, tp.EndTime = plain(), plain()
	case 3: // end only, unparseable: no custom path
		tp.EndTime = plain()
	case 4: // end only, relative: re-expressed as absolute by UnmarshalJSON
		s := model.AbsoluteOrRelativeTimeType(fmt.Sprintf("PT%dS", 1+rng.Intn(50000)))
		tp.EndTime = &s
	case 5: // end only, absolute: re-expressed as relative by MarshalJSON and back
		s := model.AbsoluteOrRelativeTimeType(time.Now().UTC().Add(time.Duration(60+rng.Intn(50000)) * time.Second).Format("2006-01-02T15:04:05Z"))
		tp.EndTime = &s
	}
}

func wirCustomPeriod(tp *model.TimePeriodType) bool {
	return tp.StartTime == nil && tp.EndTime != nil && !strings.HasPrefix(string(*tp.EndTime), "x")
}

// wirHasCustom: does the value contain a TimePeriodType on the custom JSON path?
func wirHasCustom(v reflect.Value) bool {
	switch v.Kind() {
	case reflect.Ptr:
		return !v.IsNil() && wirHasCustom(v.Elem())
	case reflect.Slice:
		for i := 0; i < v.Len(); i++ {
			if wirHasCustom(v.Index(i)) {
				return true
			}
		}
	case reflect.Struct:
		if v.Type() == wirTimePeriodT {
			tp := v.Interface().(model.TimePeriodType)
			return wirCustomPeriod(&tp)
		}
		for i := 0; i < v.NumField(); i++ {
			if wirHasCustom(v.Field(i)) {
				return true
			}
		}
	}
	return false
}

// wirHasEmptyList: does the value contain an empty, non-nil slice?
func wirHasEmptyList(v reflect.Value) bool {
	switch v.Kind() {
	case reflect.Ptr:
		return !v.IsNil() && wirHasEmptyList(v.Elem())
	case reflect.Slice:
		if !v.IsNil() && v.Len() == 0 {
			return true
		}
		for i := 0; i < v.Len(); i++ {
			if wirHasEmptyList(v.Index(i)) {
				return true
			}
		}
	case reflect.Struct:
		for i := 0; i < v.NumField(); i++ {
			if wirHasEmptyList(v.Field(i)) {
				return true
			}
		}
	}
	return false
}

// wirInstant: the instant an end time written by the generator or by the code denotes.
func wirInstant(s string, now time.Time) (time.Time, bool) {
	if strings.HasPrefix(s, "PT") && strings.HasSuffix(s, "S") && !strings.ContainsAny(s[2:len(s)-1], "HM") {
		if f, err := strconv.ParseFloat(s[2:len(s)-1], 64); err == nil {
			return now.Add(time.Duration(f * float64(time.Second))), true
		}
	}
	if t, err := time.Parse(time.RFC3339, s); err == nil {
		return t, true
	}
	return time.Time{}, false
}

// wirEquiv is the SPEC's equivalence: equal up to (i) absent versus empty lists and (ii) a time
// period without start whose end time denotes the same instant (± tol).
func wirEquiv(a, b reflect.Value, now time.Time) bool {
	if a.Type() != b.Type() {
		return false
	}
	switch a.Kind() {
	case reflect.Ptr:
		if a.IsNil() || b.IsNil() {
			return a.IsNil() && b.IsNil()
		}
		return wirEquiv(a.Elem(), b.Elem(), now)
	case reflect.Slice:
		if a.Len() != b.Len() {
			return false
		}
		for i := 0; i < a.Len(); i++ {
			if !wirEquiv(a.Index(i), b.Index(i), now) {
				return false
			}
		}
		return true
	case reflect.Struct:
		if a.Type() == wirTimePeriodT {
			x, y := a.Interface().(model.TimePeriodType), b.Interface().(model.TimePeriodType)
			if wirCustomPeriod(&x) && y.StartTime == nil && y.EndTime != nil {
				ix, ok1 := wirInstant(string(*x.EndTime), now)
				iy, ok2 := wirInstant(string(*y.EndTime), now)
				if ok1 && ok2 {
					d := ix.Sub(iy)
					return d > -5*time.Second && d < 5*time.Second
				}
				return false
			}
		}
		for i := 0; i < a.NumField(); i++ {
			if !wirEquiv(a.Field(i), b.Field(i), now) {
				return false
			}
		}
		return true
	default:
		return a.Interface() == b.Interface()
	}
}

// ---------------------------------------------------------------- prefix notation shared with the Lean drivers

func wirShowV(v reflect.Value, b *strings.Builder) {
	switch v.Kind() {
	case reflect.Ptr:
		if v.IsNil() {
			b.WriteString(" n")
			return
		}
		b.WriteString(" P")
		wirShowV(v.Elem(), b)
	case reflect.Slice:
		if v.IsNil() {
			b.WriteString(" n")
			return
		}
		fmt.Fprintf(b, " L%d", v.Len())
		for i := 0; i < v.Len(); i++ {
			wirShowV(v.Index(i), b)
		}
	case reflect.Struct:
		fmt.Fprintf(b, " R%d", v.NumField())
		for i := 0; i < v.NumField(); i++ {
			wirShowV(v.Field(i), b)
		}
	case reflect.String:
		b.WriteString(" S" + hex.EncodeToString([]byte(v.String())))
	case reflect.Bool:
		if v.Bool() {
			b.WriteString(" T")
		} else {
			b.WriteString(" F")
		}
	case reflect.Uint, reflect.Uint8, reflect.Uint16, reflect.Uint32, reflect.Uint64:
		b.WriteString(" N" + strconv.FormatUint(v.Uint(), 10))
	case reflect.Int, reflect.Int8, reflect.Int16, reflect.Int32, reflect.Int64:
		b.WriteString(" N" + strconv.FormatInt(v.Int(), 10))
	default:
		panic("wirShowV: unsupported kind " + v.Kind().String())
	}
}

func wirV(v reflect.Value) string {
	var b strings.Builder
	wirShowV(v, &b)
	return strings.TrimSpace(b.String())
}

// wirJ turns JSON text into the prefix notation of a JSON tree, through encoding/json's tokenizer
// (keys in the order of the text, numbers verbatim).
func wirJ(text []byte) (string, error) {
	dec := json.NewDecoder(bytes.NewReader(text))
	dec.UseNumber()
	var b strings.Builder
	var val func() error
	val = func() error {
		tok, err := dec.Token()
		if err != nil {
			return err
		}
		switch x := tok.(type) {
		case nil:
			b.WriteString(" z")
		case bool:
			if x {
				b.WriteString(" T")
			} else {
				b.WriteString(" F")
			}
		case string:
			b.WriteString(" S" + hex.EncodeToString([]byte(x)))
		case json.Number:
			if strings.ContainsAny(string(x), ".eE") {
				return fmt.Errorf("non-integer number %s", x)
			}
			b.WriteString(" N" + string(x))
		case json.Delim:
			switch x {
			case '[':
				var parts []string
				for dec.More() {
					save := b
					b = strings.Builder{}
					if err := val(); err != nil {
						return err
					}
					parts = append(parts, b.String())
					b = save
				}
				if _, err := dec.Token(); err != nil {
					return err
				}
				fmt.Fprintf(&b, " A%d%s", len(parts), strings.Join(parts, ""))
			case '{':
				var parts []string
				for dec.More() {
					kt, err := dec.Token()
					if err != nil {
						return err
					}
					save := b
					b = strings.Builder{}
					if err := val(); err != nil {
						return err
					}
					parts = append(parts, " K"+hex.EncodeToString([]byte(kt.(string)))+b.String())
					b = save
				}
				if _, err := dec.Token(); err != nil {
					return err
				}
				fmt.Fprintf(&b, " O%d%s", len(parts), strings.Join(parts, ""))
			}
		}
		return nil
	}
	if err := val(); err != nil {
		return "", err
	}
	return strings.TrimSpace(b.String()), nil
}

// ---------------------------------------------------------------- TestWireCmd

var wirShapes = []string{"read", "readSel", "readEl", "reply", "full", "part", "partSel", "delSel", "delEl", "readSelEl", "replyPartial", "delSelPartSel"}

func wirUsesSel(sh string) bool {
	return sh == "readSel" || sh == "partSel" || sh == "delSel" || sh == "readSelEl" || sh == "delSelPartSel"
}
func wirUsesEl(sh string) bool     { return sh == "readEl" || sh == "delEl" || sh == "readSelEl" }
func wirUsesDelete(sh string) bool { return sh == "delSel" || sh == "delEl" || sh == "delSelPartSel" }

// values a command is built from, generated per (function, shape) from the op's own seed
type wirArgs struct {
	data, empty, sel, sel2, el any // pointers; nil where the data model defines none
}

func wirNonZero(t reflect.Type, rng *rand.Rand, avoid any) any {
	for try := 0; ; try++ {
		p := reflect.New(t)
		wirFill(p.Elem(), rng, 0.6, 0)
		zero := reflect.New(t)
		if wirEquiv(p, zero, time.Now()) && t.NumField() > 0 && try < 50 {
			continue // want something that differs from new(T) after the round trip
		}
		if avoid != nil && reflect.DeepEqual(p.Interface(), avoid) && try < 50 {
			continue
		}
		return p.Interface()
	}
}

func wirMakeArgs(f *wirFn, rng *rand.Rand) wirArgs {
	a := wirArgs{empty: reflect.New(f.payload).Interface()}
	a.data = wirNonZero(f.payload, rng, nil)
	if f.selT != nil {
		a.sel = wirNonZero(f.selT, rng, nil)
		a.sel2 = wirNonZero(f.selT, rng, a.sel)
	}
	if f.elT != nil {
		a.el = wirNonZero(f.elT, rng, nil)
	}
	return a
}

func wirOpt(use bool, v any) any {
	if use {
		return v
	}
	return nil
}

// wirBuild calls the real API.
func wirBuild(fd api.FunctionDataCmdInterface, sh string, a wirArgs) model.CmdType {
	switch sh {
	case "read":
		return fd.ReadCmdType(nil, nil)
	case "readSel":
		return fd.ReadCmdType(a.sel, nil)
	case "readEl":
		return fd.ReadCmdType(nil, a.el)
	case "readSelEl":
		return fd.ReadCmdType(a.sel, a.el)
	case "reply":
		return fd.ReplyCmdType(false)
	case "replyPartial":
		return fd.ReplyCmdType(true)
	case "full":
		return fd.NotifyOrWriteCmdType(nil, nil, false, nil)
	case "part":
		return fd.NotifyOrWriteCmdType(nil, nil, true, nil)
	case "partSel":
		return fd.NotifyOrWriteCmdType(nil, a.sel, false, nil)
	case "delSel":
		return fd.NotifyOrWriteCmdType(a.sel, nil, false, nil)
	case "delEl":
		return fd.NotifyOrWriteCmdType(nil, nil, false, a.el)
	case "delSelPartSel":
		return fd.NotifyOrWriteCmdType(a.sel, a.sel2, false, nil)
	}
	panic("bad shape " + sh)
}

func wirShowFn(f *model.FunctionType) string {
	if f == nil {
		return "-"
	}
	if *f == "" {
		return `""`
	}
	return string(*f)
}

// wirWireKeys lists the keys of the cmd object and of its filter objects, in the order of the text.
func wirWireKeys(text []byte) (string, string, error) {
	dec := json.NewDecoder(bytes.NewReader(text))
	var raw map[string]json.RawMessage
	if err := json.Unmarshal(text, &raw); err != nil {
		return "", "", err
	}
	objKeys := func(b []byte) ([]string, error) {
		d := json.NewDecoder(bytes.NewReader(b))
		if _, err := d.Token(); err != nil {
			return nil, err
		}
		var ks []string
		for d.More() {
			kt, err := d.Token()
			if err != nil {
				return nil, err
			}
			ks = append(ks, kt.(string))
			var skip json.RawMessage
			if err := d.Decode(&skip); err != nil {
				return nil, err
			}
		}
		return ks, nil
	}
	_ = dec
	top, err := objKeys(text)
	if err != nil {
		return "", "", err
	}
	var filters []string
	if fr, ok := raw["filter"]; ok {
		var fs []json.RawMessage
		if err := json.Unmarshal(fr, &fs); err != nil {
			return "", "", err
		}
		for _, f := range fs {
			ks, err := objKeys(f)
			if err != nil {
				return "", "", err
			}
			var fm map[string]json.RawMessage
			_ = json.Unmarshal(f, &fm)
			for i, k := range ks {
				if k == "cmdControl" {
					ck, err := objKeys(fm[k])
					if err != nil {
						return "", "", err
					}
					ks[i] = "cmdControl{" + strings.Join(ck, ",") + "}"
				}
			}
			filters = append(filters, strings.Join(ks, ","))
		}
	}
	return strings.Join(top, ","), strings.Join(filters, ";"), nil
}

func wirLabel(v any, a wirArgs, now time.Time) string {
	if v == nil || reflect.ValueOf(v).IsNil() {
		return "?"
	}
	for _, c := range []struct {
		n string
		x any
	}{{"data", a.data}, {"sel", a.sel}, {"sel2", a.sel2}, {"el", a.el}, {"empty", a.empty}} {
		if c.x != nil && reflect.TypeOf(c.x) == reflect.TypeOf(v) && wirEquiv(reflect.ValueOf(c.x), reflect.ValueOf(v), now) {
			return c.n
		}
	}
	return "?"
}

func wirShowTyped(v any, a wirArgs, now time.Time) string {
	if v == nil || reflect.ValueOf(v).IsNil() {
		return "-"
	}
	return reflect.TypeOf(v).Elem().Name() + ":" + wirLabel(v, a, now)
}

type wirFilterRec struct {
	present  bool
	err      bool // FilterType.Data reported "not found"
	function string
	sel, el  any
}

func wirFilterData(f *model.FilterType) wirFilterRec {
	if f == nil {
		return wirFilterRec{}
	}
	fd, err := f.Data()
	if err != nil || fd == nil {
		return wirFilterRec{present: true, err: true}
	}
	r := wirFilterRec{present: true, sel: fd.Selector, el: fd.Elements}
	if fd.Function != nil {
		r.function = string(*fd.Function)
	}
	return r
}

func (fr wirFilterRec) show(a wirArgs, now time.Time) string {
	if !fr.present {
		return "-"
	}
	return fmt.Sprintf("(sel=%s,el=%s)", wirShowTyped(fr.sel, a, now), wirShowTyped(fr.el, a, now))
}

func wirPanicClass(p any) string {
	s := fmt.Sprint(p)
	switch {
	case strings.Contains(s, "*interface {} cannot be converted"):
		return "panic convert-iface"
	case strings.Contains(s, "cannot be converted") || strings.Contains(s, "not assignable"):
		return "panic type"
	case strings.Contains(s, "nil pointer"):
		return "panic nil-cmdcontrol"
	}
	return "panic other: " + s
}

// wirCmdOp executes one op "cmd <function> <shape> <seed>": builds with the real API, encodes,
// decodes, recognises; returns the canonical observation and evaluates the SPEC monitor.
func wirCmdOp(r *h.Report, fns map[string]*wirFn, op string) (impl string, kind string) {
	fl := strings.Fields(op)
	f := fns[fl[1]]
	sh := fl[2]
	seed, _ := strconv.ParseInt(fl[3], 10, 64)
	if f == nil {
		return "unknown-function", "unknown"
	}
	if (wirUsesSel(sh) && f.selT == nil) || (wirUsesEl(sh) && f.elT == nil) {
		return "n/a", "n/a"
	}
	ops := []string{op}
	now := time.Now()
	given := wirMakeArgs(f, rand.New(rand.NewSource(seed))) // handed to the API
	a := wirMakeArgs(f, rand.New(rand.NewSource(seed)))     // the same values, never seen by the API
	fd := wirNewFD(f)
	if _, e := fd.UpdateDataAny(false, true, given.data, nil, nil); e != nil {
		return "cannot-set-data", "error"
	}
	var cmd model.CmdType
	if p := h.Recover(func() { cmd = wirBuild(fd, sh, given) }); p != nil {
		cls := wirPanicClass(p)
		key := "C18/build-panics:" + sh
		if wirUsesDelete(sh) && cls == "panic convert-iface" {
			key = "C18/notify-delete-filter-panics"
		}
		r.SpecFail(key, ops, fmt.Sprintf("%s %s: the API panics while building the command: %v", f.name, sh, p))
		return cls, "panic:" + sh
	}
	text, err := json.Marshal(cmd)
	if err != nil {
		r.SpecFail("C18/marshal-error", ops, err.Error())
		return "marshal-error", "error"
	}
	keys, fkeys, err := wirWireKeys(text)
	if err != nil {
		return "unparsable-json " + err.Error(), "error"
	}
	built := fmt.Sprintf("built fn=%s keys=%s filters=[%s]", wirShowFn(cmd.Function), keys, fkeys)
	var cmd2 model.CmdType
	if err := json.Unmarshal(text, &cmd2); err != nil {
		r.SpecFail("C18/unmarshal-error", ops, err.Error())
		return built + " | undecodable", "error"
	}
	var fp, fdel *model.FilterType
	if p := h.Recover(func() { fp, fdel = cmd2.ExtractFilter() }); p != nil {
		r.SpecFail("C18/extractfilter-panics", ops, fmt.Sprint(p))
		return built + " | " + wirPanicClass(p), "panic:extract"
	}
	cd, derr := cmd2.Data()
	pr, dr := wirFilterData(fp), wirFilterData(fdel)
	cmdfn := wirShowFn(cmd2.Function)
	// ---- canonical observation (same text as drv_cmd)
	switch {
	case derr != nil || cd == nil:
		impl = built + " | rec none cmdfn=" + cmdfn
	case cd.Function != nil && ((pr.present && !pr.err && pr.function != string(*cd.Function)) || (dr.present && !dr.err && dr.function != string(*cd.Function))):
		impl = built + " | rec none cmdfn=" + cmdfn
	default:
		impl = fmt.Sprintf("%s | rec fct=%s ty=%s payload=%s cmdfn=%s part=%s del=%s", built, wirShowFn(cd.Function),
			reflect.TypeOf(cd.Value).Elem().Name(), wirLabel(cd.Value, a, now), cmdfn, pr.show(a, now), dr.show(a, now))
	}
	// ---- SPEC monitor: what was put in must come out (does not consult the model)
	want := a.data
	if strings.HasPrefix(sh, "read") {
		want = a.empty
	}
	switch {
	case derr != nil || cd == nil || cd.Function == nil || string(*cd.Function) != f.name:
		got := "nothing"
		if cd != nil {
			got = wirShowFn(cd.Function)
		}
		r.SpecFail("C18/cmd-tag:"+f.name, ops, fmt.Sprintf("%s %s: after the round trip the command is recognised as function %s (json %s)", f.name, sh, got, text))
	case reflect.TypeOf(cd.Value) != reflect.PointerTo(f.payload):
		r.SpecFail("C18/cmd-type:"+f.name, ops, fmt.Sprintf("%s %s: payload recognised with type %v, registered type %v", f.name, sh, reflect.TypeOf(cd.Value), f.payload))
	case !wirEquiv(reflect.ValueOf(cd.Value), reflect.ValueOf(want), now):
		g, _ := json.Marshal(cd.Value)
		w, _ := json.Marshal(want)
		r.SpecFail("C18/payload-changed:"+f.payload.Name(), ops, fmt.Sprintf("%s %s: payload %s came back as %s", f.name, sh, w, g))
	}
	wantPartial := sh == "readSel" || sh == "readEl" || sh == "readSelEl" || sh == "replyPartial" || sh == "part" || sh == "partSel" || sh == "delSelPartSel"
	wantDelete := wirUsesDelete(sh)
	if pr.present != wantPartial || dr.present != wantDelete {
		r.SpecFail("C18/filter-kind:"+sh, ops, fmt.Sprintf("%s %s: partial filter %v (want %v), delete filter %v (want %v); json %s", f.name, sh, pr.present, wantPartial, dr.present, wantDelete, text))
	}
	chk := func(which string, fr wirFilterRec, wantSel, wantEl any) {
		if !fr.present {
			return
		}
		if !fr.err && fr.function != f.name {
			key := f.selKey
			if wantSel == nil {
				key = f.elKey
			}
			r.SpecFail("C18/"+key, ops, fmt.Sprintf("%s %s: the %s filter names function %q after the round trip", f.name, sh, which, fr.function))
			return
		}
		if (wantSel == nil) != (fr.sel == nil || reflect.ValueOf(fr.sel).IsNil()) || (wantSel != nil && !(reflect.TypeOf(fr.sel) == reflect.TypeOf(wantSel) && wirEquiv(reflect.ValueOf(fr.sel), reflect.ValueOf(wantSel), now))) {
			w, _ := json.Marshal(wantSel)
			g, _ := json.Marshal(fr.sel)
			r.SpecFail("C18/"+f.selKey, ops, fmt.Sprintf("%s %s: selectors %s put into the %s filter came back as %s (%T); json %s", f.name, sh, w, which, g, fr.sel, text))
		}
		if (wantEl == nil) != (fr.el == nil || reflect.ValueOf(fr.el).IsNil()) || (wantEl != nil && !(reflect.TypeOf(fr.el) == reflect.TypeOf(wantEl) && wirEquiv(reflect.ValueOf(fr.el), reflect.ValueOf(wantEl), now))) {
			w, _ := json.Marshal(wantEl)
			g, _ := json.Marshal(fr.el)
			r.SpecFail("C18/"+f.elKey, ops, fmt.Sprintf("%s %s: elements %s put into the %s filter came back as %s (%T); json %s", f.name, sh, w, which, g, fr.el, text))
		}
	}
	switch sh {
	case "readSel", "partSel":
		chk("partial", pr, a.sel, nil)
	case "readEl":
		chk("partial", pr, nil, a.el)
	case "readSelEl":
		chk("partial", pr, a.sel, a.el)
	case "replyPartial", "part":
		chk("partial", pr, nil, nil)
	case "delSel":
		chk("delete", dr, a.sel, nil)
	case "delEl":
		chk("delete", dr, nil, a.el)
	case "delSelPartSel":
		chk("delete", dr, a.sel, nil)
		chk("partial", pr, a.sel2, nil)
	}
	return impl, "ok:" + sh
}

func TestWireCmd(t *testing.T) {
	r := h.NewReport("wirecmd", "every function the factory registers for any feature type x 12 command shapes (the nine of the property, read+selector+elements, partial reply, delete+partial selectors), built with the real ReadCmdType/ReplyCmdType/NotifyOrWriteCmdType from reflectively generated data, selectors and elements, json.Marshal, json.Unmarshal, recognised with the real CmdType.Data/ExtractFilter/FilterType.Data; exhaustive over functions x shapes, several value seeds each; compared with the prediction of the Lean table model Spine.Cmd; non-trivial = distinct (function, shape, outcome)")
	defer r.Write()
	completed := wirGuard(r)
	d := h.StartDriver("drv_cmd")
	defer d.Close()
	fns := wirFunctions(wirFeatureTypes(d))
	byName := map[string]*wirFn{}
	var names []string
	for _, f := range fns {
		byName[f.name] = f
		names = append(names, f.name)
	}
	run := func(op string) {
		fl := strings.Fields(op)
		if len(fl) != 4 || fl[0] != "cmd" {
			panic("bad op " + op)
		}
		impl, kind := wirCmdOp(r, byName, op)
		want := d.Ask("rt " + fl[1] + " " + fl[2])
		if f := byName[fl[1]]; f != nil && f.payload.NumField() == 0 {
			// a payload type without fields: "the data" and "new(T)" are the same value
			impl = strings.Replace(impl, "payload=empty", "payload=data", 1)
			want = strings.Replace(want, "payload=empty", "payload=data", 1)
		}
		r.Eval(kind, "")
		if impl != "n/a" {
			r.Case(fl[1] + " " + fl[2] + " " + strings.SplitN(impl, " keys=", 2)[0])
		}
		if impl != want {
			r.Mismatch([]string{op}, impl, want, "command table model versus the real builders and recognisers")
			return
		}
		r.Traces++
	}
	// probe phase: which member of the family is the tree? (witness: delete selector on the first
	// function whose selectors the lookup finds)
	flagOn, witness, detail := false, []string{}, ""
	for _, f := range fns {
		if f.selT == nil {
			continue
		}
		a := wirMakeArgs(f, rand.New(rand.NewSource(1)))
		fd := wirNewFD(f)
		var cmd model.CmdType
		p := h.Recover(func() { cmd = fd.NotifyOrWriteCmdType(a.sel, nil, false, nil) })
		if p != nil {
			flagOn, detail = true, fmt.Sprint(p)
			witness = []string{"cmd " + f.name + " delSel 1"}
			break
		}
		if len(cmd.Filter) == 1 {
			if fdta, err := cmd.Filter[0].Data(); err == nil && fdta.Selector != nil {
				witness = []string{"cmd " + f.name + " delSel 1"}
				break // built with the selector in place: repaired member
			}
		}
	}
	r.SetFlag("deleteByRef", flagOn, witness, detail)
	if flagOn {
		d.Ask("cfg 1")
	} else {
		d.Ask("cfg 0")
	}
	d.Mark()
	if ops := h.ReplayOps("wirecmd"); ops != nil {
		for _, op := range ops {
			run(op)
		}
		completed()
		return
	}
	// the function list of the regenerated table (G1) must be the one the factory yields here
	if got, want := strings.Join(names, " "), d.Ask("functions"); got != want {
		r.Mismatch([]string{"functions"}, got, want, "registered functions: harness enumeration versus regenerated table G1")
	}
	// corpus: the known rows first (one witness per known finding, reproduced on every run)
	for _, w := range [][2]string{
		{"measurementSeriesListData", "readSel"}, {"networkManagementFeatureDescriptionListData", "readSel"},
		{"sessionIdentificationListData", "readEl"}, {"sessionMeasurementRelationListData", "readEl"},
		{"setpointDescriptionListData", "readEl"}, {"electricalConnectionCharacteristicData", "readEl"},
		{"loadControlLimitListData", "delSel"}, {"loadControlLimitListData", "delEl"},
	} {
		if byName[w[0]] != nil {
			run(fmt.Sprintf("cmd %s %s 1", w[0], w[1]))
		}
	}
	// exhaustive: all functions x all shapes, several value seeds
	rng := h.Rng(1801)
	seeds := h.Scale(3, 40)
	applicable := 0
	for _, f := range fns {
		for _, sh := range wirShapes {
			for k := 0; k < seeds; k++ {
				run(fmt.Sprintf("cmd %s %s %d", f.name, sh, rng.Int63n(1<<40)))
			}
			if !((wirUsesSel(sh) && f.selT == nil) || (wirUsesEl(sh) && f.elT == nil)) {
				applicable++
			}
		}
	}
	r.Exhaustive = true
	r.Info["functions"] = len(fns)
	r.Info["shapes"] = len(wirShapes)
	r.Info["applicable function x shape pairs"] = applicable
	nsel, nel := 0, 0
	for _, f := range fns {
		if f.selT != nil {
			nsel++
		}
		if f.elT != nil {
			nel++
		}
	}
	r.Info["functions with selectors type"] = nsel
	r.Info["functions with elements type"] = nel
	r.Floor("functions found", len(fns), 100, 1.0)
	r.Floor("applicable pairs", applicable, len(fns)*len(wirShapes), 0.6)
	completed()
}

// ---------------------------------------------------------------- TestWireJson

func wirJsonOp(r *h.Report, d *h.Driver, types map[string]reflect.Type, op string) (kind string, ok bool) {
	fl := strings.Fields(op)
	t := types[fl[1]]
	seed, _ := strconv.ParseInt(fl[2], 10, 64)
	dense, _ := strconv.ParseFloat(fl[3], 64)
	if t == nil {
		panic("unknown type in op " + op)
	}
	ops := []string{op}
	rng := rand.New(rand.NewSource(seed))
	p := reflect.New(t)
	wirFill(p.Elem(), rng, dense, 0)
	now := time.Now()
	text, err := json.Marshal(p.Interface())
	if err != nil {
		r.SpecFail("C18/marshal-error", ops, err.Error())
		return "error", false
	}
	q := reflect.New(t)
	if err := json.Unmarshal(text, q.Interface()); err != nil {
		r.SpecFail("C18/json-roundtrip:"+t.Name(), ops, fmt.Sprintf("encoding/json cannot decode its own output %s: %v", text, err))
		return "error", false
	}
	// SPEC: decode(encode v) is equivalent to v
	if !wirEquiv(p, q, now) {
		g, _ := json.Marshal(q.Interface())
		r.SpecFail("C18/json-roundtrip:"+t.Name(), ops, fmt.Sprintf("value %s decodes as %s", text, g))
	}
	custom := wirHasCustom(p.Elem())
	if custom {
		// TimePeriodType's own MarshalJSON re-expresses the end time: outside Spine.Json (C19)
		return "custom-json", true
	}
	// correspondence with Spine.Json: same JSON tree, same decoded value
	implJ, err := wirJ(text)
	if err != nil {
		r.Mismatch(ops, "json outside the model: "+err.Error(), "", string(text))
		return "error", false
	}
	modelJ := d.Ask("enc " + t.Name() + " " + wirV(p.Elem()))
	if implJ != modelJ {
		r.Mismatch(ops, implJ, modelJ, "encode "+t.Name()+": encoding/json versus Spine.Json.encode; text "+string(text))
		return "enc", false
	}
	implV := wirV(q.Elem())
	modelV := d.Ask("dec " + t.Name() + " " + implJ)
	if implV != modelV {
		r.Mismatch(ops, implV, modelV, "decode "+t.Name()+": encoding/json versus Spine.Json.decode; text "+string(text))
		return "dec", false
	}
	kind = "plain"
	if wirHasEmptyList(p.Elem()) {
		kind = "with-empty-list" // where decode(encode v) differs from v: the list comes back absent
	} else if bytes.Contains(text, []byte("null")) {
		kind = "with-null"
	}
	if len(text) > 2 {
		if len(r.Samples) < 6 && len(text) < 400 && seed%7 == 0 {
			r.Sample(t.Name() + " " + string(text))
		}
		hs := fnv.New64a()
		hs.Write([]byte(t.Name()))
		hs.Write(text)
		r.Case(strconv.FormatUint(hs.Sum64(), 36))
	}
	return kind, true
}

func TestWireJson(t *testing.T) {
	r := h.NewReport("wirejson", "reflectively generated random values (pointer/slice fields nil, empty or filled; strings with quotes, backslashes, HTML and non-ASCII characters; numbers at the bounds of their Go type) of the payload, selectors and elements type of every registered function and of Datagram/HeaderType/CmdType/FilterType: encoded by encoding/json and by Spine.Json.encode over the regenerated schema (compared as JSON trees), decoded by both (compared as values); SPEC: decode(encode v) equals v up to absent/empty lists and TimePeriodType's re-expressed end time; non-trivial = distinct JSON text")
	defer r.Write()
	completed := wirGuard(r)
	d := h.StartDriver("drv_json")
	defer d.Close()
	types := map[string]reflect.Type{}
	add := func(t reflect.Type) {
		if t != nil {
			types[t.Name()] = t
		}
	}
	dc := h.StartDriver("drv_cmd")
	fts := wirFeatureTypes(dc)
	dc.Close()
	for _, f := range wirFunctions(fts) {
		add(f.payload)
		add(f.selT)
		add(f.elT)
	}
	for _, x := range []any{model.Datagram{}, model.HeaderType{}, model.CmdType{}, model.FilterType{}, model.TimePeriodType{}, model.ScaledNumberType{}} {
		add(reflect.TypeOf(x))
	}
	var names []string
	for n := range types {
		names = append(names, n)
	}
	sort.Strings(names)
	run := func(op string) {
		kind, ok := wirJsonOp(r, d, types, op)
		r.Eval(kind, "")
		if ok {
			r.Traces++
		}
	}
	if ops := h.ReplayOps("wirejson"); ops != nil {
		for _, op := range ops {
			run(op)
		}
		completed()
		return
	}
	// every type must be known to the regenerated schema and well-formed there
	for _, n := range names {
		if a := d.Ask("wf " + n); a != "1" {
			r.Mismatch([]string{"wf " + n}, "type used by a registered function", a, "type missing from or ill-formed in the regenerated schema G5")
		}
	}
	// corpus: the shapes the model distinguishes
	for _, op := range []string{
		"json LoadControlStateDataType 1 1.0", "json LoadControlStateDataType 2 0.0", // fields without omitempty: null
		"json TimeSeriesDataType 3 0.5", "json Datagram 4 0.9", "json Datagram 5 0.0",
		"json ScaledNumberType 6 1.0", "json TimePeriodType 7 1.0",
	} {
		if types[strings.Fields(op)[1]] != nil {
			run(op)
		}
	}
	rng := h.Rng(1802)
	per := h.Scale(200, 3000)
	for _, n := range names {
		for k := 0; k < per; k++ {
			dense := []float64{0.15, 0.4, 0.7, 0.95}[k%4]
			run(fmt.Sprintf("json %s %d %.2f", n, rng.Int63n(1<<40), dense))
		}
	}
	r.Info["types"] = len(names)
	r.Info["values per type"] = per
	cmp := r.Dist["plain"] + r.Dist["with-empty-list"] + r.Dist["with-null"]
	tot := cmp + r.Dist["custom-json"]
	r.Floor("values compared with the model", cmp, tot, 0.7)
	r.Floor("values with an empty list", r.Dist["with-empty-list"], tot, 0.02)
	r.Floor("values with a null", r.Dist["with-null"], tot, 0.001)
	r.Floor("values on TimePeriodType's custom path", r.Dist["custom-json"], tot, 0.002)
	r.Floor("types", len(names), 300, 1.0)
	completed()
}
