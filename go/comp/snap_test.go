package comp

// C11 — the snapshot clause where the sequential store harness (heap_test.go) does not reach:
//
// (1) USE-CASE HELPERS. NodeManagementUseCaseData is not a list store: EntityLocal's helpers read it through a
//     one-level DataCopy, run a helper of package model on the copy and store it back, so every value handed out
//     earlier shares the backing arrays of BOTH list levels with what the helper works on. World: the three local
//     entities of usecase_test.go (C20's world and op language are reused). Every value ever handed out (DataCopy of
//     the feature, LocalFeatureDataCopyOfType, a struct copy of such a value) is retained, deep-copied as JSON at
//     hand-out and re-read after EVERY operation (SPEC: it reads what it read then); the store and every retained
//     value are compared op by op with the heap model Spine.UCS (driver drv_ucsnap), whose clean member is proved
//     to keep every handle stable (Spine/Props/C11Snap.lean).
//       add | avail | rm | rmall …   the EntityLocal helper (op language of usecase_test.go)
//       m <op>                       the helper of package model applied by the application to a DataCopy of its own,
//                                    which is then dropped: neither the store nor any retained value may change
//       o K <op>                     the helper of package model applied by the application to the value it was handed as
//                                    K-th (oldest = 0): that value changes, the store and every other value may not
//       snap K                       a value is handed out and retained (K = 0 DataCopy, 1 LocalFeatureDataCopyOfType,
//                                    2 struct copy of a DataCopy)
//       has E A N                    HasUseCaseSupport (compared with the model)
//     Corpus (one history per helper and per position of the element), an EXHAUSTIVE grid (3 set-ups x a snapshot x
//     every single operation over entities x actors x names, as EntityLocal helper and as scratch helper), random
//     histories.
//
// (2) THE SNAPSHOT UNDER CONCURRENCY. spine.FunctionData[T] is generic and exported: a store of a WIDE value type
//     (4096 words; its UpdateList assigns the words in place under persist, as every per-type UpdateList assigns its
//     list field) is updated by partial (in place) and full (new pointer) updates from several goroutines while
//     readers call DataCopy in a loop. SPEC: every snapshot equals one of the states the store went through, i.e.
//     all of its words are equal. Nothing is steered: this is a search (bounded in time and iterations), the
//     judgement cannot fail on a tree whose copy is made inside the critical section (static face: Props/C11Gen).

import (
	"fmt"
	"os"
	"runtime"
	"strconv"
	"strings"
	"sync"
	"sync/atomic"
	"testing"
	"time"

	"github.com/enbility/spine-go/model"
	"github.com/enbility/spine-go/spine"
	"verifharness/h"
)

const snapComponent = "snap"

var snapWithHandle int

type snapHandle struct {
	kind string
	val  *model.NodeManagementUseCaseDataType
	js   string
	at   int
}

var snapHelperOf = map[string]string{"add": "AddUseCaseSupport", "avail": "SetUseCaseAvailability", "rm": "RemoveUseCaseSupport", "rmall": "RemoveAllUseCaseSupports"}
var snapModelHelperOf = map[string]string{"add": "model.AddUseCaseSupport", "avail": "model.SetAvailability", "rm": "model.RemoveUseCaseSupport", "rmall": "model.RemoveUseCaseDataForAddress"}

// scratch: the helper of package model on a DataCopy the application took for itself
func (uw *ucsWorld) scratch(f []string) {
	d := uw.registry()
	if d == nil {
		d = &model.NodeManagementUseCaseDataType{}
	}
	uw.helperOn(d, f)
}

// helperOn: the helper of package model applied to a value the application holds
func (uw *ucsWorld) helperOn(d *model.NodeManagementUseCaseDataType, f []string) {
	e := uw.es[f[1]]
	addr := model.FeatureAddressType{Device: e.Address().Device, Entity: e.Address().Entity}
	switch f[0] {
	case "add":
		a, _ := strconv.Atoi(f[2])
		n, _ := strconv.Atoi(f[3])
		v, _ := strconv.Atoi(f[4])
		sub, _ := strconv.Atoi(f[7])
		var sc []model.UseCaseScenarioSupportType
		if f[6] != "-" {
			for _, x := range strings.Split(f[6], ",") {
				k, _ := strconv.Atoi(x)
				sc = append(sc, model.UseCaseScenarioSupportType(k))
			}
		}
		d.AddUseCaseSupport(addr, model.UseCaseActorType(ucsActors[a]), model.UseCaseNameType(ucsNames[n]),
			model.SpecificationVersionType("1.0."+strconv.Itoa(v)), ucsSubs[sub], f[5] == "1", sc)
	case "avail":
		a, _ := strconv.Atoi(f[2])
		n, _ := strconv.Atoi(f[3])
		d.SetAvailability(addr, model.UseCaseActorType(ucsActors[a]), model.UseCaseNameType(ucsNames[n]), f[4] == "1")
	case "rm":
		a, _ := strconv.Atoi(f[2])
		n, _ := strconv.Atoi(f[3])
		d.RemoveUseCaseSupport(addr, model.UseCaseActorType(ucsActors[a]), model.UseCaseNameType(ucsNames[n]))
	case "rmall":
		d.RemoveUseCaseDataForAddress(addr)
	}
}

func snapRender(d *model.NodeManagementUseCaseDataType) string {
	s, _, _ := ucsRender(d)
	return s
}

// snapHistory runs one history in a fresh world; false = stopped at a disagreement with the model
func snapHistory(r *h.Report, d *h.Driver, ops []string) bool {
	uw := newUcsWorld()
	defer uw.close()
	d.Ask("reset")
	nm := uw.l.NodeManagement()
	var hs []*snapHandle
	var done []string
	changedAny := false
	for _, op := range ops {
		f := strings.Fields(op)
		if len(f) == 0 || strings.HasPrefix(op, "#") {
			continue
		}
		done = append(done, op)
		helper := ""
		var ans string
		switch {
		case f[0] == "snap":
			k := 0
			if len(f) > 1 {
				k, _ = strconv.Atoi(f[1])
			}
			var v *model.NodeManagementUseCaseDataType
			switch k % 3 {
			case 0:
				v, _ = nm.DataCopy(model.FunctionTypeNodeManagementUseCaseData).(*model.NodeManagementUseCaseDataType)
			case 1:
				v, _ = spine.LocalFeatureDataCopyOfType[*model.NodeManagementUseCaseDataType](nm, model.FunctionTypeNodeManagementUseCaseData)
			case 2:
				if c := uw.registry(); c != nil {
					cc := *c
					v = &cc
				}
			}
			if v == nil {
				v = &model.NodeManagementUseCaseDataType{}
			}
			hs = append(hs, &snapHandle{kind: f[0], val: v, js: hpJSON(v), at: len(done)})
			ans = d.Ask("snap")
			r.Eval("uc:snap", "")
		case f[0] == "has":
			if !ucsValidOp(f) {
				panic("bad snap op " + op)
			}
			a, _ := strconv.Atoi(f[2])
			n, _ := strconv.Atoi(f[3])
			got := uw.es[f[1]].HasUseCaseSupport(model.UseCaseActorType(ucsActors[a]), model.UseCaseNameType(ucsNames[n]))
			r.Eval("uc:has", "")
			if want := d.Ask(op); want != fmt.Sprint(got) {
				r.Mismatch(done, fmt.Sprint(got), want, "HasUseCaseSupport")
				return false
			}
			continue
		case f[0] == "o":
			// the application runs a helper of package model on a value it was handed earlier: that value changes,
			// nothing else may
			if len(f) < 3 || !ucsValidOp(f[2:]) || f[2] == "has" || f[2] == "rment" {
				panic("bad snap op " + op)
			}
			k, _ := strconv.Atoi(f[1])
			if len(hs) == 0 {
				done = done[:len(done)-1]
				continue
			}
			k %= len(hs)
			op = fmt.Sprintf("o %d %s", k, strings.Join(f[2:], " "))
			done[len(done)-1] = op
			helper = snapModelHelperOf[f[2]]
			before := hpJSON(uw.registry())
			uw.helperOn(hs[k].val, f[2:])
			hs[k].js = hpJSON(hs[k].val)
			if after := hpJSON(uw.registry()); after != before {
				r.SpecFail("C11/usecase-helper-inplace:"+helper, done, fmt.Sprintf("the stored use-case data read %s and reads %s after the application ran %s on a value it was handed earlier", before, after, helper))
			}
			ans = d.Ask(op)
			r.Eval("uc:o-"+f[2], "")
		case f[0] == "m":
			if len(f) < 2 || !ucsValidOp(f[1:]) || f[1] == "has" || f[1] == "rment" {
				panic("bad snap op " + op)
			}
			helper = snapModelHelperOf[f[1]]
			before := hpJSON(uw.registry())
			uw.scratch(f[1:])
			if after := hpJSON(uw.registry()); after != before {
				r.SpecFail("C11/usecase-helper-inplace:"+helper, done, fmt.Sprintf("the stored use-case data read %s and reads %s after the application ran %s on a DataCopy of its own", before, after, helper))
			}
			ans = d.Ask(op)
			r.Eval("uc:m-"+f[1], "")
		default:
			if !ucsValidOp(f) || f[0] == "rment" {
				panic("bad snap op " + op)
			}
			helper = snapHelperOf[f[0]]
			uw.apply(f)
			ans = d.Ask(op)
			r.Eval("uc:"+f[0], "")
		}
		// SPEC: every value handed out reads what it read at hand-out
		for i, hd := range hs {
			if js := hpJSON(hd.val); js != hd.js {
				key := "C11/usecase-helper-inplace:" + helper
				if helper == "" {
					key = "C11/usecase-helper-inplace:DataCopy"
				}
				r.SpecFail(key, done, fmt.Sprintf("value %d handed out after op %d (snap kind %s) read %s and reads %s after `%s`", i, hd.at, hd.kind, hd.js, js, op))
				hd.js = js
				changedAny = true
			}
		}
		// correspondence: the store and every retained value as the model reads them
		impl := []string{snapRender(uw.registry())}
		for _, hd := range hs {
			impl = append(impl, snapRender(hd.val))
		}
		if is := strings.Join(impl, " ## "); is != ans {
			r.Mismatch(done, is, ans, "store ## retained values (oldest first)")
			return false
		}
	}
	r.Traces++
	if len(hs) > 0 {
		r.Case(strings.Join(ops, "; "))
		snapWithHandle++
	}
	_ = changedAny
	return true
}

func snapCorpus() [][]string {
	three := []string{"add 1 1 1 0 1 1,2 1", "add 2 1 1 0 1 - 1", "add 1.1 1 2 0 1 3 1"}
	with := func(tail ...string) []string { return append(append([]string{}, three...), tail...) }
	return [][]string{
		// the element removed is the first / the middle / the last of three
		with("snap 0", "rmall 1", "snap 1", "rmall 2", "rmall 1.1"),
		with("snap 1", "rmall 2", "snap 0", "rmall 1"),
		with("snap 2", "rmall 1.1", "rmall 1"),
		with("snap 0", "m rmall 1", "m rmall 2"),
		// a support removed from an element with two supports, the element dropped with its last support
		with("add 1 1 2 0 1 - 1", "snap 0", "rm 1 1 1", "snap 0", "rm 1 1 2", "m rm 2 1 1"),
		// overwrite of an existing support, a new support in an existing element, a new element
		with("snap 0", "add 1 1 1 2 0 2 2", "snap 1", "add 2 1 3 0 1 - 1", "snap 2", "add 2 2 1 0 1 - 1", "m add 1 1 1 1 1 - 1"),
		// availability
		with("snap 0", "avail 2 1 1 0", "snap 0", "avail 1 1 1 0", "m avail 1.1 1 2 0", "avail 1 1 1 1"),
		// two appends from the same base (spare capacity of the support array / of the information array)
		{"add 1 1 1 0 1 - 1", "add 1 1 2 0 1 - 1", "add 1 1 3 0 1 - 1", "rm 1 1 3", "snap 0", "add 1 1 3 1 1 - 1", "snap 0", "rm 1 1 3", "add 1 1 3 2 0 - 1"},
		{"add 1 1 1 0 1 - 1", "add 2 1 1 0 1 - 1", "add 1.1 1 1 0 1 - 1", "rmall 1.1", "snap 0", "add 1.1 2 1 0 1 - 1", "snap 0", "rmall 1.1", "add 1.1 1 2 0 1 - 1"},
		// two appends from the same base: the store's and the application's on the value it was handed before (support
		// list of one element: four names incl. the empty one; information list: four elements)
		{"add 1 1 1 0 1 - 1", "add 1 1 2 0 1 - 1", "add 1 1 3 0 1 - 1", "snap 0", "add 1 1 0 0 1 - 1", "snap 0", "o 0 add 1 1 0 2 0 - 1", "o 1 rm 1 1 2"},
		{"add 1 1 1 0 1 - 1", "add 2 1 1 0 1 - 1", "add 1.1 1 1 0 1 - 1", "snap 0", "add 1 2 1 0 1 - 1", "snap 1", "o 0 add 2 2 2 0 1 - 1", "o 1 rmall 2", "o 0 avail 1 1 1 0"},
	}
}

// every single operation of the finite op alphabet
func snapAlphabet() []string {
	var ops []string
	for _, e := range ucsEntL {
		for a := 1; a <= 2; a++ {
			for n := 1; n <= 3; n++ {
				ops = append(ops, fmt.Sprintf("add %s %d %d 2 0 3 2", e, a, n), fmt.Sprintf("avail %s %d %d 0", e, a, n),
					fmt.Sprintf("avail %s %d %d 1", e, a, n), fmt.Sprintf("rm %s %d %d", e, a, n))
			}
		}
		ops = append(ops, "rmall "+e)
	}
	return ops
}

func snapSetups() [][]string {
	return [][]string{
		{"add 1 1 1 0 1 1,2 1", "add 2 1 1 0 1 - 1", "add 1.1 1 2 0 1 3 1"},
		{"add 2 1 1 0 0 - 1", "add 2 1 2 0 1 1 1", "add 1 2 3 0 1 - 1", "add 1 1 1 0 1 - 1", "add 1.1 1 1 0 1 - 1", "add 1.1 1 3 0 0 2 1"},
		{"add 1.1 2 2 0 1 - 1", "add 1 1 1 0 1 - 1", "add 1 1 2 0 1 - 1", "add 1 1 3 0 1 - 1", "rm 1 1 3", "add 2 2 2 0 1 - 1", "add 2 1 1 0 1 - 1", "rmall 2"},
	}
}

// ---------------------------------------------------------------- (2) snapshots under concurrency

const snapWords = 4096

type snapWide struct{ W [snapWords]uint64 }

// UpdateList: what every per-type UpdateList does with its list field, with a wide value: under persist the
// receiver (the stored value) is assigned in place
func (w *snapWide) UpdateList(remoteWrite, persist bool, newList any, filterPartial, filterDelete *model.FilterType) (any, bool) {
	nv := newList.(*snapWide).W[0]
	if persist {
		for i := range w.W {
			w.W[i] = nv
		}
	}
	return newList, true
}

var _ model.Updater = (*snapWide)(nil)

func snapTorn(v *snapWide) (int, uint64, uint64) {
	for i := 1; i < snapWords; i++ {
		if v.W[i] != v.W[0] {
			return i, v.W[0], v.W[i]
		}
	}
	return -1, 0, 0
}

func snapConc(r *h.Report, op string) {
	f := strings.Fields(op)
	readers, writers, ms := 4, 2, 800
	for _, kv := range f[1:] {
		p := strings.SplitN(kv, "=", 2)
		n, _ := strconv.Atoi(p[1])
		switch p[0] {
		case "readers":
			readers = n
		case "writers":
			writers = n
		case "ms":
			ms = n
		}
	}
	fd := spine.NewFunctionData[snapWide](model.FunctionTypeLoadControlLimitListData)
	if !fd.SupportsPartialWrite() {
		r.Mismatch([]string{op}, "FunctionData[snapWide].SupportsPartialWrite() = false", "a value type implementing model.Updater supports partial updates", "concurrent snapshot phase")
		return
	}
	fd.UpdateData(false, true, &snapWide{}, nil, nil)
	partial := &model.FilterType{CmdControl: &model.CmdControlType{Partial: &model.ElementTagType{}}}
	var stop atomic.Bool
	var copies, updates atomic.Int64
	var mu sync.Mutex
	detail := ""
	var wg sync.WaitGroup
	for wi := 0; wi < writers; wi++ {
		wg.Add(1)
		go func(wi int) {
			defer wg.Done()
			nv := &snapWide{}
			for k := uint64(1); !stop.Load(); k++ {
				x := k*uint64(writers) + uint64(wi)
				for i := range nv.W {
					nv.W[i] = x
				}
				if k%16 == 0 {
					fd.UpdateData(false, true, nv, nil, nil) // full: a new pointer
				} else {
					fd.UpdateData(false, true, nv, partial, nil) // partial: in place
				}
				updates.Add(1)
				if k%64 == 0 {
					runtime.Gosched()
				}
			}
		}(wi)
	}
	for ri := 0; ri < readers; ri++ {
		wg.Add(1)
		go func() {
			defer wg.Done()
			for !stop.Load() {
				v := fd.DataCopy()
				copies.Add(1)
				if v == nil {
					continue
				}
				if i, a, b := snapTorn(v); i >= 0 {
					mu.Lock()
					if detail == "" {
						detail = fmt.Sprintf("a DataCopy taken while partial updates of the same function were running holds word 0 = %d and word %d = %d: it mixes two states of the store", a, i, b)
					}
					mu.Unlock()
					stop.Store(true)
				}
			}
		}()
	}
	deadline := time.Now().Add(time.Duration(ms) * time.Millisecond)
	hard := time.Now().Add(time.Duration(ms*8) * time.Millisecond)
	for !stop.Load() {
		time.Sleep(5 * time.Millisecond)
		now := time.Now()
		// under machine load the phase is extended (bounded) until both sides have made progress
		if now.After(deadline) && ((copies.Load() >= 2000 && updates.Load() >= 2000) || now.After(hard)) {
			break
		}
	}
	stop.Store(true)
	wg.Wait()
	r.Eval("conc:phase", "")
	r.Info["conc: DataCopy calls"] = copies.Load()
	r.Info["conc: updates"] = updates.Load()
	for i := int64(0); i < copies.Load()/1000; i++ {
		r.Eval("conc:1000-snapshots", "")
	}
	if detail != "" {
		r.SpecFail("C11/snapshot-mixes-two-states:DataCopy", []string{op}, detail)
	}
	r.Traces++
}

func TestSnap(t *testing.T) {
	r := h.NewReport(snapComponent, "use-case helpers of EntityLocal / package model on NodeManagementUseCaseData with every value ever handed out retained and re-read after every op, store and retained values compared op by op with the heap model Spine.UCS (corpus, exhaustive single-op grid after a snapshot, random histories); DataCopy of a wide-valued spine.FunctionData against concurrent partial (in place) and full updates: every snapshot is one store state; non-trivial = a history with at least one retained value")
	defer r.Write()
	ops := h.ReplayOps(snapComponent)
	if ops == nil && os.Getenv("VERIF_REPLAY") != "" {
		return // a replay of another component
	}
	d := h.StartDriver("drv_ucsnap")
	defer d.Close()
	if a := d.Ask("cfg 0 0 0"); a != "ok" {
		t.Fatalf("driver refused cfg: %s", a)
	}
	if ops != nil {
		if len(ops) > 0 && strings.HasPrefix(ops[0], "conc") {
			snapConc(r, ops[0])
		} else {
			snapHistory(r, d, ops)
		}
		return
	}
	for _, c := range snapCorpus() {
		snapHistory(r, d, c)
	}
	// exhaustive: set-up, snapshot, one operation (as EntityLocal helper and as scratch helper), a second snapshot kind
	alpha := snapAlphabet()
	grid := 0
	for si, su := range snapSetups() {
		for oi, op := range alpha {
			for _, scratch := range []bool{false, true} {
				o := op
				if scratch {
					o = "m " + op
				}
				hist := append(append([]string{}, su...), fmt.Sprintf("snap %d", (si+oi)%3), o, "snap 0", alpha[(oi*7+si)%len(alpha)])
				if !snapHistory(r, d, hist) {
					break
				}
				grid++
			}
		}
	}
	r.Info["grid histories"] = grid
	r.Exhaustive = false
	// random histories
	rng := h.Rng(1107)
	nsnap, nhist, nrmall := 0, 0, 0
	for i := 0; i < h.Scale(250, 5000); i++ {
		g := newUcsGen(rng)
		var hist []string
		n := 6 + rng.Intn(22)
		for len(hist) < n {
			switch x := rng.Intn(100); {
			case x < 18:
				hist = append(hist, fmt.Sprintf("snap %d", rng.Intn(3)))
				nsnap++
			case x < 26:
				hist = append(hist, "rmall "+ucsEntL[rng.Intn(3)])
				ucsSpecApply(g.present, []string{"rmall", hist[len(hist)-1][6:]})
				nrmall++
			default:
				op := g.op(ucsEntL, i%3 == 0)
				if op == "read" {
					continue
				}
				if !strings.HasPrefix(op, "has") {
					switch rng.Intn(12) {
					case 0, 1: // (the generator's own bookkeeping then runs ahead of the store: harmless, it only steers choices)
						op = "m " + op
					case 2:
						op = fmt.Sprintf("o %d %s", rng.Intn(4), op)
					}
				}
				hist = append(hist, op)
			}
		}
		nhist++
		if !snapHistory(r, d, hist) {
			break
		}
	}
	r.Floor("histories with a retained value", snapWithHandle, nhist+grid+len(snapCorpus()), 0.5)
	_ = nsnap
	_ = nrmall
	// shrink the witnesses of unlisted spec failures / the first mismatch
	for _, sf := range append([]h.SpecFailure{}, r.SpecFailures...) {
		if len(sf.Ops) < 4 || strings.HasPrefix(sf.Ops[0], "conc") {
			continue
		}
		key := sf.Key
		small := h.Shrink(sf.Ops, func(ops []string) bool {
			q := h.Quiet()
			snapHistory(q, d, ops)
			return q.HasSpecFail(key)
		})
		r.ReplaceSpecFailOps(key, small)
	}
	if len(r.Mismatches) > 0 && len(r.SpecFailures) == 0 {
		mm := r.Mismatches[0]
		small := h.Shrink(mm.Ops, func(ops []string) bool {
			q := h.Quiet()
			snapHistory(q, d, ops)
			return q.MismatchN > 0
		})
		q := h.Quiet()
		snapHistory(q, d, small)
		if q.MismatchN > 0 {
			r.ReplaceMismatch(0, small, q.Mismatches[0].Impl, q.Mismatches[0].Model)
		}
	}
	// (2)
	snapConc(r, fmt.Sprintf("conc words=%d readers=4 writers=2 ms=%d", snapWords, h.Scale(800, 5000)))
}
