// Command hashflow regenerates, from the tree under test, the facts about WHICH PARTS OF A REQUEST FLOW INTO
// THE DE-DUPLICATION IDENTITY of spine.Sender.Request (the "hash" remembered in the cache of unanswered requests
// and compared with on the next request): does it cover the whole destination address (device, entity, feature)
// and the entire command list, and is the identity that is looked up the one that is stored.
//
// The analysis is SEMANTIC: go/packages + go/ssa of the tree, an interprocedural, context-sensitive backward
// DATA-dependency analysis (control dependence deliberately not followed) over access paths rooted at the
// parameters of Request. Names of unexported functions / fields / variables play no role:
//   - Sender type  = the struct type of package spine whose pointer implements api.SenderInterface,
//   - root         = its method Request (exported interface method),
//   - the cache    = its field(s) of map type with model.MsgCounterType as key or as value; the identity is the
//     other side,
//   - STORE use    = identity operand of every MapUpdate on the cache reached from Request,
//   - LOOKUP use   = the operand compared (==, !=) with the identity side while ranging over the cache, and the
//     index of every lookup cache[x] when the cache is keyed by the identity,
//   - cmd          = the parameter of type []model.CmdType, destination = the *model.FeatureAddressType parameter
//     stored into HeaderType.AddressDestination.
//
// Output: <out>/SenderHash.lean (namespace Spine.Generated.SenderHash). Own Go module (needs golang.org/x/tools).
package main

import (
	"flag"
	"fmt"
	"go/constant"
	"go/token"
	"go/types"
	"os"
	"path/filepath"
	"sort"
	"strings"

	"golang.org/x/tools/go/packages"
	"golang.org/x/tools/go/ssa"
	"golang.org/x/tools/go/ssa/ssautil"
)

const modPrefix = "github.com/enbility/spine-go/"

const (
	maxDepth = 14 // call depth below Request
	maxSegs  = 8  // access path length
)

// ---------------------------------------------------------------------------------------------------------
// access paths
//
// A path is "P<i>" (i-th parameter of Request, receiver = 0) followed by segments
//   .Name      field             [k] constant index    [*] loop index    [?] other computed index
//   [lo:hi]    partial slice     #len  only the length
// and, at the end, a stack of MARKERS describing how the value is wrapped inside local storage:
//   <.Name>    stored in field Name of a local struct      <[]>  stored as element of a local array/slice/map
//   <*>        went through an opaque (external) function or object: further selections do not refine it
// Selecting .Name from p<.Name> gives p back, from p<.Other> gives nothing.
// ---------------------------------------------------------------------------------------------------------

type pset map[string]struct{}

func (s pset) add(p string) {
	if p != "" {
		s[p] = struct{}{}
	}
}
func (s pset) addAll(o pset) {
	for p := range o {
		s[p] = struct{}{}
	}
}
func (s pset) sorted() []string {
	r := make([]string, 0, len(s))
	for p := range s {
		r = append(r, p)
	}
	sort.Strings(r)
	return r
}

func nsegs(p string) int {
	return strings.Count(p, ".") + strings.Count(p, "[") + strings.Count(p, "#")
}

// access: select seg from the value described by p ("" = nothing flows)
func access(p, seg string) string {
	if strings.HasSuffix(p, "<*>") {
		return p
	}
	if strings.HasSuffix(p, ">") {
		i := strings.LastIndex(p, "<")
		m := p[i+1 : len(p)-1]
		switch {
		case seg == "#len":
			return "" // the length of a local container is not data of what it contains
		case strings.HasPrefix(seg, "[") && strings.Contains(seg, ":"):
			return p // slice of a local container
		case seg[0] == '.':
			if m == seg {
				return p[:i]
			}
			return ""
		case seg[0] == '[':
			if m == "[]" {
				return p[:i]
			}
			return ""
		}
		return ""
	}
	if strings.Contains(p, "#len") {
		return p
	}
	if nsegs(p) >= maxSegs {
		return p + "<*>"
	}
	return p + seg
}

func accessSet(s pset, seg string) pset {
	r := pset{}
	for p := range s {
		r.add(access(p, seg))
	}
	return r
}

// wrapSet: the values are stored inside local storage; chain = markers, innermost first
func wrapSet(s pset, chain string) pset {
	if chain == "" {
		return s
	}
	r := pset{}
	for p := range s {
		r.add(p + chain)
	}
	return r
}

// opaque: the value was read wholly by something we cannot look into
func opaque(p string) string {
	for strings.HasSuffix(p, ">") {
		i := strings.LastIndex(p, "<")
		p = p[:i]
	}
	return p + "<*>"
}

func opaqueSet(s pset) pset {
	r := pset{}
	for p := range s {
		r.add(opaque(p))
	}
	return r
}

// strip all markers
func strip(p string) string {
	for {
		i := strings.Index(p, "<")
		if i < 0 {
			return p
		}
		j := strings.Index(p[i:], ">")
		p = p[:i] + p[i+j+1:]
	}
}

func stripSet(s pset) pset {
	r := pset{}
	for p := range s {
		r.add(strip(p))
	}
	return r
}

// ---------------------------------------------------------------------------------------------------------
// analysis
// ---------------------------------------------------------------------------------------------------------

type ctx struct {
	fn    *ssa.Function
	env   []pset // per Param
	fv    []pset // per FreeVar
	key   string
	depth int
}

type mkey struct {
	c    *ctx
	v    ssa.Value
	kind int // 0 deps, 1 inflow
}

type dmember struct {
	v     ssa.Value
	chain string
}

type use struct {
	kind string // "store" | "lookup"
	site string
	fn   string
	deps pset
}

type an struct {
	prog *ssa.Program

	approx  map[mkey]pset
	done    map[mkey]bool
	inprog  map[mkey]bool
	changed bool

	ctxs    map[string]*ctx
	fnid    map[*ssa.Function]int
	derivC  map[ssa.Value][]dmember
	returns map[*ssa.Function][]*ssa.Return

	// anchors
	senderT     *types.Named
	cacheFields map[string]bool // names of the cache fields of the Sender struct
	recvPath    string          // "P0"

	// per pass
	walked   map[*ctx]bool
	uses     map[string]*use // kind+site
	destHits pset            // bare parameter paths stored into HeaderType.AddressDestination
	fnsSeen  map[string]bool
	cutDepth bool
}

func fnPkgPath(f *ssa.Function) string {
	if f == nil {
		return ""
	}
	if o := f.Object(); o != nil && o.Pkg() != nil {
		return o.Pkg().Path()
	}
	if f.Pkg != nil {
		return f.Pkg.Pkg.Path()
	}
	if o := f.Origin(); o != nil && o != f {
		return fnPkgPath(o)
	}
	if p := f.Parent(); p != nil {
		return fnPkgPath(p)
	}
	return ""
}

func isModuleFn(f *ssa.Function) bool {
	if f == nil || len(f.Blocks) == 0 {
		return false
	}
	return strings.HasPrefix(fnPkgPath(f)+"/", modPrefix)
}

func fieldName(x ssa.Value, idx int) string {
	t := x.Type()
	if p, ok := t.Underlying().(*types.Pointer); ok {
		t = p.Elem()
	}
	if s, ok := t.Underlying().(*types.Struct); ok && idx < s.NumFields() {
		return s.Field(idx).Name()
	}
	return fmt.Sprintf("f%d", idx)
}

func isErrorType(t types.Type) bool {
	return types.Identical(t, types.Universe.Lookup("error").Type())
}

// objLike: result of an external call that denotes an object which later calls may write into
func objLike(t types.Type) bool {
	if t == nil || isErrorType(t) {
		return false
	}
	switch t.Underlying().(type) {
	case *types.Pointer, *types.Interface:
		return true
	}
	return false
}

func refLike(t types.Type) bool {
	if t == nil {
		return false
	}
	switch t.Underlying().(type) {
	case *types.Pointer, *types.Interface, *types.Slice, *types.Map:
		return true
	}
	return false
}

func (a *an) ctxFor(fn *ssa.Function, env, fv []pset, depth int) *ctx {
	id, ok := a.fnid[fn]
	if !ok {
		id = len(a.fnid) + 1
		a.fnid[fn] = id
	}
	var sb strings.Builder
	fmt.Fprintf(&sb, "%d", id)
	for _, e := range env {
		sb.WriteString("|")
		sb.WriteString(strings.Join(e.sorted(), ","))
	}
	sb.WriteString("||")
	for _, e := range fv {
		sb.WriteString("|")
		sb.WriteString(strings.Join(e.sorted(), ","))
	}
	k := sb.String()
	if c, ok := a.ctxs[k]; ok {
		return c
	}
	c := &ctx{fn: fn, env: env, fv: fv, key: k, depth: depth}
	a.ctxs[k] = c
	return c
}

// calleeOf: the module function with a body that the call statically reaches (nil = opaque)
func (a *an) calleeOf(ci ssa.CallInstruction, c *ctx) *ssa.Function {
	com := ci.Common()
	if com.IsInvoke() {
		return nil
	}
	f := com.StaticCallee()
	if !isModuleFn(f) {
		return nil
	}
	if c.depth+1 > maxDepth {
		a.cutDepth = true
		return nil
	}
	return f
}

func (a *an) ctxForCall(ci ssa.CallInstruction, callee *ssa.Function, c *ctx) *ctx {
	com := ci.Common()
	env := make([]pset, len(callee.Params))
	for i := range env {
		if i < len(com.Args) {
			env[i] = a.deps(com.Args[i], c)
		} else {
			env[i] = pset{}
		}
	}
	var fv []pset
	if mc, ok := com.Value.(*ssa.MakeClosure); ok {
		fv = make([]pset, len(callee.FreeVars))
		for i := range fv {
			if i < len(mc.Bindings) {
				fv[i] = a.deps(mc.Bindings[i], c)
			} else {
				fv[i] = pset{}
			}
		}
	}
	return a.ctxFor(callee, env, fv, c.depth+1)
}

func (a *an) memo(k mkey, f func() pset) pset {
	if a.done[k] || a.inprog[k] {
		if r, ok := a.approx[k]; ok {
			return r
		}
		return pset{}
	}
	a.inprog[k] = true
	r := f()
	delete(a.inprog, k)
	a.done[k] = true
	old := a.approx[k]
	if old == nil {
		old = pset{}
		a.approx[k] = old
	}
	n := len(old)
	old.addAll(r)
	if len(old) > n {
		a.changed = true
	}
	return old
}

func (a *an) deps(v ssa.Value, c *ctx) pset {
	switch v.(type) {
	case *ssa.Const, *ssa.Global, *ssa.Function, *ssa.Builtin:
		return pset{}
	case nil:
		return pset{}
	}
	return a.memo(mkey{c, v, 0}, func() pset { return a.compute(v, c) })
}

func indexSeg(i ssa.Value) string {
	for {
		if cv, ok := i.(*ssa.Convert); ok {
			i = cv.X
			continue
		}
		if ct, ok := i.(*ssa.ChangeType); ok {
			i = ct.X
			continue
		}
		break
	}
	if k, ok := i.(*ssa.Const); ok && k.Value != nil && k.Value.Kind() == constant.Int {
		return "[" + k.Value.ExactString() + "]"
	}
	isPhi := func(x ssa.Value) bool { _, ok := x.(*ssa.Phi); return ok }
	isConst := func(x ssa.Value) bool { _, ok := x.(*ssa.Const); return ok }
	if isPhi(i) {
		return "[*]"
	}
	if b, ok := i.(*ssa.BinOp); ok && (b.Op == token.ADD || b.Op == token.SUB) {
		if isPhi(b.X) && isConst(b.Y) || isPhi(b.Y) && isConst(b.X) {
			return "[*]" // the index of a range loop is phi+1
		}
	}
	return "[?]"
}

func constStr(v ssa.Value) string {
	if v == nil {
		return ""
	}
	if k, ok := v.(*ssa.Const); ok && k.Value != nil {
		return k.Value.ExactString()
	}
	return "?"
}

func isLenOf(h, x ssa.Value) bool {
	call, ok := h.(*ssa.Call)
	if !ok {
		return false
	}
	b, ok := call.Call.Value.(*ssa.Builtin)
	return ok && b.Name() == "len" && len(call.Call.Args) == 1 && call.Call.Args[0] == x
}

func isZeroOrNil(v ssa.Value) bool {
	if v == nil {
		return true
	}
	k, ok := v.(*ssa.Const)
	return ok && k.Value != nil && k.Value.Kind() == constant.Int && constant.Sign(k.Value) == 0
}

var marshalerNames = []string{"Error", "GoString", "MarshalJSON", "MarshalText", "String"}

func (a *an) compute(v ssa.Value, c *ctx) pset {
	r := pset{}
	switch x := v.(type) {
	case *ssa.Parameter:
		for i, p := range c.fn.Params {
			if p == x && i < len(c.env) {
				r.addAll(c.env[i])
			}
		}
		if refLike(x.Type()) {
			r.addAll(a.inflow(x, c))
		}
	case *ssa.FreeVar:
		for i, p := range c.fn.FreeVars {
			if p == x && i < len(c.fv) {
				r.addAll(c.fv[i])
			}
		}
		r.addAll(a.inflow(x, c))
	case *ssa.Alloc, *ssa.MakeSlice, *ssa.MakeMap:
		r.addAll(a.inflow(v, c))
	case *ssa.FieldAddr:
		r.addAll(accessSet(a.deps(x.X, c), "."+fieldName(x.X, x.Field)))
	case *ssa.Field:
		r.addAll(accessSet(a.deps(x.X, c), "."+fieldName(x.X, x.Field)))
	case *ssa.IndexAddr:
		r.addAll(accessSet(a.deps(x.X, c), indexSeg(x.Index)))
	case *ssa.Index:
		r.addAll(accessSet(a.deps(x.X, c), indexSeg(x.Index)))
	case *ssa.Lookup:
		r.addAll(accessSet(a.deps(x.X, c), indexSeg(x.Index)))
	case *ssa.Slice:
		d := a.deps(x.X, c)
		_, ptr := x.X.Type().Underlying().(*types.Pointer)
		if ptr || x.Low == nil && x.High == nil && x.Max == nil ||
			isZeroOrNil(x.Low) && (x.High == nil || isLenOf(x.High, x.X)) && x.Max == nil {
			r.addAll(d)
		} else {
			r.addAll(accessSet(d, "["+constStr(x.Low)+":"+constStr(x.High)+"]"))
		}
	case *ssa.UnOp:
		r.addAll(a.deps(x.X, c))
	case *ssa.BinOp:
		r.addAll(a.deps(x.X, c))
		r.addAll(a.deps(x.Y, c))
	case *ssa.Phi:
		for _, e := range x.Edges {
			r.addAll(a.deps(e, c))
		}
	case *ssa.Convert:
		r.addAll(a.deps(x.X, c))
	case *ssa.MultiConvert:
		r.addAll(a.deps(x.X, c))
	case *ssa.ChangeType:
		r.addAll(a.deps(x.X, c))
	case *ssa.ChangeInterface:
		r.addAll(a.deps(x.X, c))
	case *ssa.SliceToArrayPointer:
		r.addAll(a.deps(x.X, c))
	case *ssa.TypeAssert:
		r.addAll(a.deps(x.X, c))
	case *ssa.MakeInterface:
		// a value with a module-defined String/MarshalJSON/... method that is handed on as an interface is
		// most likely rendered through that method by the (opaque) consumer: look into the method
		found := false
		if c.depth+1 <= maxDepth {
			ms := a.prog.MethodSets.MethodSet(x.X.Type())
			for _, n := range marshalerNames {
				sel := ms.Lookup(nil, n)
				if sel == nil {
					continue
				}
				f := a.prog.MethodValue(sel)
				if !isModuleFn(f) || len(f.Params) != 1 {
					continue
				}
				found = true
				cc := a.ctxFor(f, []pset{a.deps(x.X, c)}, nil, c.depth+1)
				r.addAll(a.resultOf(f, cc, 0))
			}
		}
		if !found {
			r.addAll(a.deps(x.X, c))
		}
	case *ssa.MakeClosure:
		for _, b := range x.Bindings {
			r.addAll(opaqueSet(a.deps(b, c)))
		}
	case *ssa.Range:
		r.addAll(a.deps(x.X, c))
	case *ssa.Extract:
		switch t := x.Tuple.(type) {
		case *ssa.Call:
			r.addAll(a.callResult(t, x.Index, x, c))
		case *ssa.Next:
			if x.Index > 0 {
				if rg, ok := t.Iter.(*ssa.Range); ok {
					r.addAll(accessSet(a.deps(rg.X, c), "[*]"))
				}
			}
		default: // comma-ok forms: component 0 is the value
			if x.Index == 0 {
				r.addAll(a.deps(x.Tuple, c))
			}
		}
	case *ssa.Call:
		r.addAll(a.callResult(x, -1, x, c))
	}
	return r
}

func (a *an) resultOf(f *ssa.Function, cc *ctx, idx int) pset {
	a.fnsSeen[f.String()] = true
	rets, ok := a.returns[f]
	if !ok {
		for _, b := range f.Blocks {
			for _, ins := range b.Instrs {
				if rt, ok := ins.(*ssa.Return); ok {
					rets = append(rets, rt)
				}
			}
		}
		a.returns[f] = rets
	}
	r := pset{}
	for _, rt := range rets {
		for i, res := range rt.Results {
			if idx < 0 || i == idx {
				r.addAll(a.deps(res, cc))
			}
		}
	}
	return r
}

// callResult: deps of result idx (-1: the single result) of a call; self = the value that stands for it
func (a *an) callResult(call *ssa.Call, idx int, self ssa.Value, c *ctx) pset {
	com := call.Common()
	r := pset{}
	if b, ok := com.Value.(*ssa.Builtin); ok {
		switch b.Name() {
		case "len", "cap":
			if len(com.Args) == 1 {
				r.addAll(accessSet(a.deps(com.Args[0], c), "#len"))
			}
		case "append", "min", "max", "copy", "real", "imag", "complex":
			for _, arg := range com.Args {
				r.addAll(a.deps(arg, c))
			}
		}
		return r
	}
	if callee := a.calleeOf(call, c); callee != nil {
		cc := a.ctxForCall(call, callee, c)
		return a.resultOf(callee, cc, idx)
	}
	// opaque: reads receiver and arguments wholly
	if com.IsInvoke() {
		r.addAll(opaqueSet(a.deps(com.Value, c)))
	} else if _, isFn := com.Value.(*ssa.Function); !isFn {
		r.addAll(opaqueSet(a.deps(com.Value, c))) // closure / function value: what it captured
	}
	for _, arg := range com.Args {
		r.addAll(opaqueSet(a.deps(arg, c)))
	}
	if objLike(self.Type()) {
		r.addAll(a.inflow(self, c))
	}
	return r
}

// derived: the addresses / views derived from object o inside its function, with the wrap chain
func (a *an) derived(o ssa.Value) []dmember {
	if d, ok := a.derivC[o]; ok {
		return d
	}
	_, isAlloc := o.(*ssa.Alloc)
	if _, ok := o.(*ssa.FreeVar); ok {
		isAlloc = true // the address of a captured variable
	}
	seen := map[ssa.Value]bool{o: true}
	out := []dmember{{o, ""}}
	add := func(v ssa.Value, chain string) {
		if !seen[v] {
			seen[v] = true
			out = append(out, dmember{v, chain})
		}
	}
	for i := 0; i < len(out); i++ {
		m := out[i]
		refs := m.v.Referrers()
		if refs == nil {
			continue
		}
		for _, rf := range *refs {
			switch x := rf.(type) {
			case *ssa.FieldAddr:
				if x.X == m.v {
					add(x, "<."+fieldName(x.X, x.Field)+">"+m.chain)
				}
			case *ssa.IndexAddr:
				if x.X == m.v {
					add(x, "<[]>"+m.chain)
				}
			case *ssa.Slice:
				if x.X == m.v {
					add(x, m.chain)
				}
			case *ssa.MakeInterface:
				if x.X == m.v {
					add(x, m.chain)
				}
			case *ssa.ChangeInterface:
				if x.X == m.v {
					add(x, m.chain)
				}
			case *ssa.ChangeType:
				if x.X == m.v {
					add(x, m.chain)
				}
			case *ssa.TypeAssert:
				if x.X == m.v && !x.CommaOk {
					add(x, m.chain)
				}
			case *ssa.UnOp:
				// a local variable that holds a reference (captured hasher, builder pointer ...)
				if isAlloc && x.Op == token.MUL && x.X == m.v && refLike(x.Type()) {
					add(x, m.chain)
				}
			}
		}
	}
	a.derivC[o] = out
	return out
}

// inflow: everything that is written INTO the object denoted by o within c.fn (flow-insensitive):
// stores through derived addresses, and "object taint": the other operands of every call that receives o.
func (a *an) inflow(o ssa.Value, c *ctx) pset {
	return a.memo(mkey{c, o, 1}, func() pset {
		r := pset{}
		ds := a.derived(o)
		inD := map[ssa.Value]bool{}
		for _, d := range ds {
			inD[d.v] = true
		}
		for _, d := range ds {
			refs := d.v.Referrers()
			if refs == nil {
				continue
			}
			for _, rf := range *refs {
				switch x := rf.(type) {
				case *ssa.Store:
					if x.Addr == d.v {
						r.addAll(wrapSet(a.deps(x.Val, c), d.chain))
					}
				case *ssa.MapUpdate:
					if x.Map == d.v {
						r.addAll(wrapSet(a.deps(x.Value, c), "<[]>"+d.chain))
						r.addAll(wrapSet(a.deps(x.Key, c), "<[]>"+d.chain))
					}
				case *ssa.MakeClosure:
					// a captured variable: what the closure body writes into it, in the contexts of the
					// calls of the closure in this function (or with unknown arguments if it is handed on)
					f, ok := x.Fn.(*ssa.Function)
					if !ok || !isModuleFn(f) || c.depth+1 > maxDepth {
						continue
					}
					var ccs []*ctx
					if refs := x.Referrers(); refs != nil {
						for _, rr := range *refs {
							if ci, ok := rr.(ssa.CallInstruction); ok && ci.Common().Value == x {
								ccs = append(ccs, a.ctxForCall(ci, f, c))
							}
						}
					}
					if len(ccs) == 0 {
						env := make([]pset, len(f.Params))
						for i := range env {
							env[i] = pset{}
						}
						fv := make([]pset, len(f.FreeVars))
						for i := range fv {
							fv[i] = pset{}
							if i < len(x.Bindings) {
								fv[i] = a.deps(x.Bindings[i], c)
							}
						}
						ccs = append(ccs, a.ctxFor(f, env, fv, c.depth+1))
					}
					for j, b := range x.Bindings {
						if b == d.v && j < len(f.FreeVars) {
							for _, cc := range ccs {
								r.addAll(wrapSet(a.inflow(f.FreeVars[j], cc), d.chain))
							}
						}
					}
				case ssa.CallInstruction:
					com := x.Common()
					if b, ok := com.Value.(*ssa.Builtin); ok {
						switch b.Name() {
						case "len", "cap", "delete", "print", "println", "clear", "close":
							continue
						}
					}
					uses := false
					if com.IsInvoke() && com.Value == d.v {
						uses = true
					}
					for _, arg := range com.Args {
						if arg == d.v {
							uses = true
						}
					}
					if !uses {
						continue
					}
					if callee := a.calleeOf(x, c); callee != nil {
						cc := a.ctxForCall(x, callee, c)
						for j, arg := range com.Args {
							if arg == d.v && j < len(callee.Params) && refLike(callee.Params[j].Type()) {
								r.addAll(wrapSet(a.inflow(callee.Params[j], cc), d.chain))
							}
						}
						continue
					}
					t := pset{}
					if com.IsInvoke() && !inD[com.Value] {
						t.addAll(opaqueSet(a.deps(com.Value, c)))
					}
					for _, arg := range com.Args {
						if !inD[arg] {
							t.addAll(opaqueSet(a.deps(arg, c)))
						}
					}
					if cv, ok := x.(*ssa.Call); ok && objLike(cv.Type()) {
						// an object created from o (json.NewEncoder(h)): what is written into it reaches o
						t.addAll(opaqueSet(a.inflow(cv, c)))
					}
					r.addAll(wrapSet(t, d.chain))
				}
			}
		}
		return r
	})
}

// ---------------------------------------------------------------------------------------------------------
// the walk from Request: identity uses
// ---------------------------------------------------------------------------------------------------------

func isCounter(t types.Type) bool {
	n, ok := t.(*types.Named)
	return ok && n.Obj().Name() == "MsgCounterType" && n.Obj().Pkg() != nil && n.Obj().Pkg().Path() == modPrefix+"model"
}

// cacheMapSide: 0 = not a cache map type, 1 = identity is the value (keyed by counter), 2 = identity is the key
func cacheMapSide(t types.Type) int {
	m, ok := t.Underlying().(*types.Map)
	if !ok {
		return 0
	}
	if isCounter(m.Key()) {
		return 1
	}
	if isCounter(m.Elem()) {
		return 2
	}
	return 0
}

func (a *an) cacheSide(v ssa.Value, c *ctx) int {
	side := cacheMapSide(v.Type())
	if side == 0 {
		return 0
	}
	for p := range a.deps(v, c) {
		sp := strip(p)
		for f := range a.cacheFields {
			if sp == a.recvPath+"."+f {
				return side
			}
		}
	}
	return 0
}

func unwrapConv(v ssa.Value) ssa.Value {
	for {
		switch x := v.(type) {
		case *ssa.ChangeType:
			v = x.X
		case *ssa.Convert:
			v = x.X
		case *ssa.UnOp:
			// load of a local variable assigned once (loop variable whose address is taken)
			al, ok := x.X.(*ssa.Alloc)
			if x.Op != token.MUL || !ok {
				return v
			}
			var val ssa.Value
			n := 0
			for _, rf := range *al.Referrers() {
				if st, ok := rf.(*ssa.Store); ok && st.Addr == al {
					val = st.Val
					n++
				}
			}
			if n != 1 {
				return v
			}
			v = val
		default:
			return v
		}
	}
}

func (a *an) isIterIdentity(v ssa.Value, c *ctx) bool {
	ex, ok := unwrapConv(v).(*ssa.Extract)
	if !ok {
		return false
	}
	nx, ok := ex.Tuple.(*ssa.Next)
	if !ok {
		return false
	}
	rg, ok := nx.Iter.(*ssa.Range)
	if !ok {
		return false
	}
	side := a.cacheSide(rg.X, c)
	return side == 1 && ex.Index == 2 || side == 2 && ex.Index == 1
}

func (a *an) record(kind string, ins ssa.Instruction, v ssa.Value, c *ctx) {
	pos := a.prog.Fset.Position(ins.Pos())
	site := fmt.Sprintf("%s:%d:%d", filepath.Base(pos.Filename), pos.Line, pos.Column)
	if !pos.IsValid() {
		site = fmt.Sprintf("%s#%p", c.fn.String(), ins)
	}
	k := kind + "@" + site
	u := a.uses[k]
	if u == nil {
		u = &use{kind: kind, site: site, fn: c.fn.String(), deps: pset{}}
		a.uses[k] = u
	}
	u.deps.addAll(stripSet(a.deps(v, c)))
}

func (a *an) walk(c *ctx) {
	if a.walked[c] {
		return
	}
	a.walked[c] = true
	a.fnsSeen[c.fn.String()] = true
	for _, b := range c.fn.Blocks {
		for _, ins := range b.Instrs {
			switch x := ins.(type) {
			case *ssa.MapUpdate:
				switch a.cacheSide(x.Map, c) {
				case 1:
					a.record("store", x, x.Value, c)
				case 2:
					a.record("store", x, x.Key, c)
				}
			case *ssa.BinOp:
				if x.Op == token.EQL || x.Op == token.NEQ {
					if a.isIterIdentity(x.X, c) {
						a.record("lookup", x, x.Y, c)
					} else if a.isIterIdentity(x.Y, c) {
						a.record("lookup", x, x.X, c)
					}
				}
			case *ssa.Lookup:
				if a.cacheSide(x.X, c) == 2 {
					a.record("lookup", x, x.Index, c)
				}
			case *ssa.Store:
				if fa, ok := x.Addr.(*ssa.FieldAddr); ok && fieldName(fa.X, fa.Field) == "AddressDestination" {
					t := fa.X.Type()
					if p, ok := t.Underlying().(*types.Pointer); ok {
						t = p.Elem()
					}
					if n, ok := t.(*types.Named); ok && n.Obj().Name() == "HeaderType" {
						for p := range a.deps(x.Val, c) {
							if sp := strip(p); nsegs(sp) == 0 {
								a.destHits.add(sp)
							}
						}
					}
				}
			case *ssa.MakeClosure:
				if f, ok := x.Fn.(*ssa.Function); ok && isModuleFn(f) && c.depth+1 <= maxDepth {
					env := make([]pset, len(f.Params))
					for i := range env {
						env[i] = pset{}
					}
					fv := make([]pset, len(f.FreeVars))
					for i := range fv {
						fv[i] = pset{}
						if i < len(x.Bindings) {
							fv[i] = a.deps(x.Bindings[i], c)
						}
					}
					a.walk(a.ctxFor(f, env, fv, c.depth+1))
				}
			}
			if ci, ok := ins.(ssa.CallInstruction); ok {
				if callee := a.calleeOf(ci, c); callee != nil {
					a.walk(a.ctxForCall(ci, callee, c))
				}
			}
		}
	}
}

// ---------------------------------------------------------------------------------------------------------

func fail(format string, args ...any) {
	fmt.Fprintf(os.Stderr, "hashflow: "+format+"\n", args...)
	fmt.Printf("hashflow: "+format+"\n", args...)
	os.Exit(1)
}

func b2s(b bool) string {
	if b {
		return "true"
	}
	return "false"
}

func main() {
	out := flag.String("out", "", "output directory (lean/Spine/Generated)")
	verbose := flag.Bool("v", false, "print the uses found")
	flag.Parse()
	if *out == "" {
		fmt.Fprintln(os.Stderr, "usage: hashflow -out <dir>")
		os.Exit(2)
	}
	repo := os.Getenv("VERIF_REPO")
	if repo == "" {
		repo = "/repo"
	}
	cfg := &packages.Config{Mode: packages.LoadAllSyntax, Dir: repo, BuildFlags: []string{"-tags=verif"},
		Env: append(os.Environ(), "GOFLAGS=-mod=mod", "GOPROXY=off", "GOSUMDB=off", "GOTOOLCHAIN=local")}
	pkgs, err := packages.Load(cfg, "./spine", "./model", "./api", "./util")
	if err != nil {
		fail("load: %v", err)
	}
	if packages.PrintErrors(pkgs) > 0 {
		fail("the tree under test does not type-check")
	}
	prog, spkgs := ssautil.AllPackages(pkgs, ssa.BuilderMode(0))
	var spine, apiP, modelP *ssa.Package
	for _, p := range spkgs {
		if p == nil {
			continue
		}
		switch p.Pkg.Path() {
		case modPrefix + "spine":
			spine = p
		case modPrefix + "api":
			apiP = p
		case modPrefix + "model":
			modelP = p
		}
	}
	if spine == nil || modelP == nil {
		fail("package spine / model not found")
	}
	// build only the packages of the module (bodies of everything else are treated as opaque anyway)
	for _, p := range spkgs {
		if p != nil && strings.HasPrefix(p.Pkg.Path()+"/", modPrefix) {
			p.Build()
		}
	}

	// ---- anchors
	var senderIface *types.Interface
	if apiP != nil {
		if tn, ok := apiP.Members["SenderInterface"].(*ssa.Type); ok {
			senderIface, _ = tn.Type().Underlying().(*types.Interface)
		}
	}
	cacheFieldsOf := func(n *types.Named) []string {
		st, ok := n.Underlying().(*types.Struct)
		if !ok {
			return nil
		}
		var fs []string
		for i := 0; i < st.NumFields(); i++ {
			if cacheMapSide(st.Field(i).Type()) != 0 {
				fs = append(fs, st.Field(i).Name())
			}
		}
		sort.Strings(fs)
		return fs
	}
	var cands []*types.Named
	var names []string
	for name := range spine.Members {
		names = append(names, name)
	}
	sort.Strings(names)
	for _, name := range names {
		tn, ok := spine.Members[name].(*ssa.Type)
		if !ok {
			continue
		}
		n, ok := tn.Type().(*types.Named)
		if !ok || n.TypeParams().Len() > 0 {
			continue
		}
		if _, ok := n.Underlying().(*types.Struct); !ok {
			continue
		}
		if senderIface != nil && types.Implements(types.NewPointer(n), senderIface) {
			cands = append(cands, n)
		}
	}
	var senderT *types.Named
	for _, n := range cands { // prefer the implementation that has a request cache
		if len(cacheFieldsOf(n)) > 0 && (senderT == nil || n.Obj().Name() == "Sender") {
			senderT = n
		}
	}
	if senderT == nil && len(cands) > 0 {
		senderT = cands[0]
	}
	if senderT == nil {
		if tn, ok := spine.Members["Sender"].(*ssa.Type); ok {
			senderT, _ = tn.Type().(*types.Named)
		}
	}
	if senderT == nil {
		fail("no struct type of package spine implements api.SenderInterface (and no type Sender)")
	}
	sel := prog.MethodSets.MethodSet(types.NewPointer(senderT)).Lookup(nil, "Request")
	if sel == nil {
		fail("type %s has no method Request", senderT.Obj().Name())
	}
	root := prog.MethodValue(sel)
	if root == nil || len(root.Blocks) == 0 || root.Synthetic != "" {
		fail("method %s.Request has no analysable body", senderT.Obj().Name())
	}
	cfs := cacheFieldsOf(senderT)
	if len(cfs) == 0 {
		fail("type %s has no field of a map type with model.MsgCounterType as key or value (the request cache)", senderT.Obj().Name())
	}
	// parameters by type
	cmdIdx, clsIdx, ackIdx := -1, -1, -1
	var addrIdx []int
	isModelNamed := func(t types.Type, name string) bool {
		n, ok := t.(*types.Named)
		return ok && n.Obj().Name() == name && n.Obj().Pkg() != nil && n.Obj().Pkg().Path() == modPrefix+"model"
	}
	var addrT *types.Named
	for i, p := range root.Params {
		if i == 0 {
			continue
		}
		t := p.Type()
		if s, ok := t.Underlying().(*types.Slice); ok && isModelNamed(s.Elem(), "CmdType") {
			cmdIdx = i
		} else if pt, ok := t.(*types.Pointer); ok && isModelNamed(pt.Elem(), "FeatureAddressType") {
			addrIdx = append(addrIdx, i)
			addrT = pt.Elem().(*types.Named)
		} else if isModelNamed(t, "CmdClassifierType") {
			clsIdx = i
		} else if b, ok := t.Underlying().(*types.Basic); ok && b.Kind() == types.Bool {
			ackIdx = i
		}
	}
	if cmdIdx < 0 {
		fail("Request has no parameter of type []model.CmdType")
	}
	if len(addrIdx) == 0 {
		fail("Request has no parameter of type *model.FeatureAddressType")
	}

	// ---- fixpoint
	a := &an{prog: prog, approx: map[mkey]pset{}, ctxs: map[string]*ctx{}, fnid: map[*ssa.Function]int{},
		derivC: map[ssa.Value][]dmember{}, returns: map[*ssa.Function][]*ssa.Return{},
		senderT: senderT, cacheFields: map[string]bool{}, recvPath: "P0"}
	for _, f := range cfs {
		a.cacheFields[f] = true
	}
	passes := 0
	for {
		passes++
		a.done, a.inprog, a.changed = map[mkey]bool{}, map[mkey]bool{}, false
		a.walked, a.uses, a.destHits, a.fnsSeen = map[*ctx]bool{}, map[string]*use{}, pset{}, map[string]bool{}
		env := make([]pset, len(root.Params))
		for i := range env {
			env[i] = pset{fmt.Sprintf("P%d", i): {}}
		}
		a.walk(a.ctxFor(root, env, nil, 0))
		if !a.changed || passes > 50 {
			break
		}
	}

	// ---- destination parameter
	destIdx := -1
	destHow := "stored into HeaderType.AddressDestination"
	for _, i := range addrIdx {
		if _, ok := a.destHits[fmt.Sprintf("P%d", i)]; ok && destIdx < 0 {
			destIdx = i
		}
	}
	if destIdx < 0 {
		destIdx = addrIdx[len(addrIdx)-1]
		destHow = "fallback: the last *model.FeatureAddressType parameter"
		if len(addrIdx) >= 2 {
			destIdx = addrIdx[1]
			destHow = "fallback: the second *model.FeatureAddressType parameter"
		}
	}
	sndIdx := -1
	for _, i := range addrIdx {
		if i != destIdx {
			sndIdx = i
		}
	}

	// ---- judgement
	pname := func(i int) string {
		if i >= 0 && i < len(root.Params) && root.Params[i].Name() != "" {
			return root.Params[i].Name()
		}
		return fmt.Sprintf("P%d", i)
	}
	pretty := func(p string) string {
		j := 1
		for j < len(p) && p[j] >= '0' && p[j] <= '9' {
			j++
		}
		var n int
		fmt.Sscanf(p[1:j], "%d", &n)
		return pname(n) + p[j:]
	}
	rootOf := func(p string) int {
		j := 1
		for j < len(p) && p[j] >= '0' && p[j] <= '9' {
			j++
		}
		var n int
		fmt.Sscanf(p[1:j], "%d", &n)
		return n
	}
	sides := map[string]pset{"store": {}, "lookup": {}}
	nsites := map[string]int{}
	var useKeys []string
	for k, u := range a.uses {
		useKeys = append(useKeys, k)
		sides[u.kind].addAll(u.deps)
		nsites[u.kind]++
	}
	sort.Strings(useKeys)
	has := func(s pset, p string) bool { _, ok := s[p]; return ok }
	P := func(i int) string { return fmt.Sprintf("P%d", i) }
	coversField := func(s pset, f string) bool {
		d := P(destIdx)
		return has(s, d) || has(s, d+"."+f) || has(s, d+"."+f+"[*]")
	}
	wholeCmd := func(s pset) bool { return has(s, P(cmdIdx)) || has(s, P(cmdIdx)+"[*]") }
	usesRoot := func(i int) bool {
		if i < 0 {
			return false
		}
		for _, s := range sides {
			for p := range s {
				if rootOf(p) == i {
					return true
				}
			}
		}
		return false
	}
	both := func(f func(pset) bool) bool { return f(sides["store"]) && f(sides["lookup"]) }
	covDev := both(func(s pset) bool { return coversField(s, "Device") })
	covEnt := both(func(s pset) bool { return coversField(s, "Entity") })
	covFea := both(func(s pset) bool { return coversField(s, "Feature") })
	var destFields []string
	if st, ok := addrT.Underlying().(*types.Struct); ok {
		for i := 0; i < st.NumFields(); i++ {
			destFields = append(destFields, st.Field(i).Name())
		}
	}
	covAll := len(destFields) > 0 && both(func(s pset) bool {
		for _, f := range destFields {
			if !coversField(s, f) {
				return false
			}
		}
		return true
	})
	covCmd := both(wholeCmd)
	same := len(sides["store"]) > 0 && len(sides["lookup"]) > 0 &&
		strings.Join(sides["store"].sorted(), ";") == strings.Join(sides["lookup"].sorted(), ";")
	useCls, useSnd, useAck := usesRoot(clsIdx), usesRoot(sndIdx), usesRoot(ackIdx)

	// ---- render
	plist := func(s pset, rootIdx int) string {
		var r []string
		for _, p := range s.sorted() {
			if rootIdx < 0 || rootOf(p) == rootIdx {
				r = append(r, pretty(p))
			}
		}
		if len(r) == 0 {
			return "(none)"
		}
		return strings.Join(r, ", ")
	}
	both2 := func(rootIdx int) string {
		return "store: " + plist(sides["store"], rootIdx) + "; lookup: " + plist(sides["lookup"], rootIdx)
	}
	var fns []string
	for f := range a.fnsSeen {
		fns = append(fns, f)
	}
	sort.Strings(fns)
	var siteLines []string
	for _, k := range useKeys {
		u := a.uses[k]
		siteLines = append(siteLines, fmt.Sprintf("   %-6s in %s: %s", u.kind, u.fn, plist(u.deps, -1)))
	}
	var sb strings.Builder
	w := func(format string, args ...any) { fmt.Fprintf(&sb, format, args...) }
	w("/-! GENERATED by go/hashflow from the tree under test — do not edit.\n")
	w("   Which parts of a request flow (by DATA, through any helper) into the de-duplication identity of\n")
	w("   %s.Request: the value stored in / compared with the cache of unanswered requests.\n", senderT.Obj().Name())
	w("   Sender type %s, request cache field(s) %s (%s), destination parameter `%s` (%s),\n", senderT.Obj().Name(),
		strings.Join(cfs, ", "), types.TypeString(fieldType(senderT, cfs[0]), func(p *types.Package) string { return p.Name() }), pname(destIdx), destHow)
	w("   command list parameter `%s`.\n", pname(cmdIdx))
	w("   Path notation: p.F field, p[*] every element (loop), p[k] / p[?] one element, p[lo:hi] partial slice,\n   p#len only the length; a bare parameter = the whole value (handed to an opaque function such as json.Marshal).\n")
	w("   Identity uses found:\n%s\n", strings.Join(siteLines, "\n"))
	w("   All paths   %s\n", both2(-1))
	w("   Functions looked into: %s\n-/\n", strings.Join(fns, ", "))
	w("namespace Spine.Generated.SenderHash\n\n")
	def := func(doc, name, typ, val string) {
		w("/-- %s -/\ndef %s : %s := %s\n\n", doc, name, typ, val)
	}
	dn := pname(destIdx)
	def(fmt.Sprintf("the device part of the destination flows into the identity, on the store side and on the lookup side\n    (a path `%s` or `%s.Device`). Destination paths found: %s", dn, dn, both2(destIdx)),
		"identityCoversDevice", "Bool", b2s(covDev))
	def(fmt.Sprintf("every element of the entity address of the destination flows into the identity, on both sides\n    (`%s`, `%s.Entity` or `%s.Entity[*]`; `%s.Entity[0]` or `#len` alone do not count). Destination paths found: %s", dn, dn, dn, dn, both2(destIdx)),
		"identityCoversEntity", "Bool", b2s(covEnt))
	def(fmt.Sprintf("the feature part of the destination flows into the identity, on both sides (`%s` or `%s.Feature`).\n    Destination paths found: %s", dn, dn, both2(destIdx)),
		"identityCoversFeature", "Bool", b2s(covFea))
	def(fmt.Sprintf("EVERY field of the struct model.FeatureAddressType (currently: %s) is covered on both sides,\n    so a field added later is noticed. Destination paths found: %s", strings.Join(destFields, ", "), both2(destIdx)),
		"identityCoversAllDestFields", "Bool", b2s(covAll))
	cn := pname(cmdIdx)
	def(fmt.Sprintf("the ENTIRE command list flows into the identity, on both sides: a path `%s` (whole slice handed to an\n    opaque function) or `%s[*]` (every element wholly); `%s[k]`, `%s[lo:hi]`, `%s#len`, `%s[*].Field` alone do not count.\n    Command list paths found: %s", cn, cn, cn, cn, cn, cn, both2(cmdIdx)),
		"identityCoversWholeCmdList", "Bool", b2s(covCmd))
	def(fmt.Sprintf("the identity that is looked up depends on exactly the same parts of the request as the identity that is\n    stored, and both are non-empty. %s", both2(-1)),
		"lookupUsesStoredIdentity", "Bool", b2s(same))
	def(fmt.Sprintf("(informational) the command classifier `%s` flows into the identity. Paths found: %s", pname(clsIdx), both2(clsIdx)),
		"identityUsesClassifier", "Bool", b2s(useCls))
	def(fmt.Sprintf("(informational) the sender address `%s` flows into the identity. Paths found: %s", pname(sndIdx), both2(sndIdx)),
		"identityUsesSenderAddress", "Bool", b2s(useSnd))
	def(fmt.Sprintf("(informational) the acknowledge flag `%s` flows into the identity. Paths found: %s", pname(ackIdx), both2(ackIdx)),
		"identityUsesAckRequest", "Bool", b2s(useAck))
	def("number of places, reached from Request, where an identity is stored into the request cache (map update)",
		"storeSites", "Nat", fmt.Sprint(nsites["store"]))
	def("number of places, reached from Request, where an identity is looked up in the request cache\n    (comparison with the identity side while ranging over the cache, or index of the cache keyed by identity)",
		"lookupSites", "Nat", fmt.Sprint(nsites["lookup"]))
	w("end Spine.Generated.SenderHash\n")

	if err := os.MkdirAll(*out, 0o755); err != nil {
		fail("%v", err)
	}
	if err := os.WriteFile(filepath.Join(*out, "SenderHash.lean"), []byte(sb.String()), 0o644); err != nil {
		fail("%v", err)
	}
	if *verbose {
		for _, l := range siteLines {
			fmt.Println(l)
		}
		fmt.Printf("   passes=%d contexts=%d depthCut=%v\n", passes, len(a.ctxs), a.cutDepth)
	}
	fmt.Printf("generated hashflow: device=%v entity=%v feature=%v allDestFields=%v wholeCmd=%v lookup=store:%v classifier=%v sender=%v ack=%v storeSites=%d lookupSites=%d\n",
		covDev, covEnt, covFea, covAll, covCmd, same, useCls, useSnd, useAck, nsites["store"], nsites["lookup"])
}

func fieldType(n *types.Named, name string) types.Type {
	st := n.Underlying().(*types.Struct)
	for i := 0; i < st.NumFields(); i++ {
		if st.Field(i).Name() == name {
			return st.Field(i).Type()
		}
	}
	return types.Typ[types.Invalid]
}
