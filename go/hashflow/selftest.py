#!/usr/bin/env python3
"""Self-test of go/hashflow: mutants (each must flip exactly the expected facts) and behaviour-preserving
refactorings (each must leave every fact as on /repo). Every variant is made in a scratch git worktree of /repo
(always removed again), must compile with `go build -tags verif ./...`, and is analysed with the built binary.
usage: selftest.py [variant ...]     (environment as for the other Go tools: GOFLAGS=-mod=mod GOPROXY=off ...)
"""
import os, re, shutil, subprocess, sys, time

HERE = os.path.dirname(os.path.abspath(__file__))
REPO = "/repo"
BIN = "/tmp/hf-selftest-bin"
KEEP = "\nvar _ = fmt.Sprint\nvar _ = sha256.New\nvar _ = hex.EncodeToString\nvar _ = json.Marshal\n"

HASHFN = '''func (c *Sender) hashForMessage(destinationAddress *model.FeatureAddressType, cmd []model.CmdType) string {
	cmdString, err := json.Marshal(cmd)
	if err != nil {
		return ""
	}

	sig := fmt.Sprintf("%s-%s", destinationAddress.String(), cmdString)
	shaBytes := sha256.Sum256([]byte(sig))
	return hex.EncodeToString(shaBytes[:])
}
'''
HASHSIG = 'func (c *Sender) hashForMessage(destinationAddress *model.FeatureAddressType, cmd []model.CmdType) string {\n'


def sub(path, old, new, count=1):
    s = open(path).read()
    if s.count(old) < 1:
        raise SystemExit("selftest: pattern not found in %s:\n%s" % (path, old))
    s = s.replace(old, new, count) if count else s.replace(old, new)
    open(path, "w").write(s)


def add_imports(path, *imps):
    sub(path, 'import (\n', 'import (\n' + "".join('\t"%s"\n' % i for i in imps))


def hashbody(d, body, imports=()):
    p = d + "/spine/send.go"
    sub(p, HASHFN, HASHSIG + body + "}\n" + KEEP)
    if imports:
        add_imports(p, *imports)


FEATSTR_TAIL = '''	result += "]:"
	if r.Feature != nil {
		result += fmt.Sprintf("%d", *r.Feature)
	}
	return result
}
'''
FEATSTR_LOOP = '''	for index, id := range r.Entity {
		if index > 0 {
			result += ","
		}
		result += fmt.Sprintf("%d", id)
	}
	result += "]:"
	if r.Feature != nil {'''


def m1(d):
    hashbody(d, '''	if len(cmd) == 0 {
		return ""
	}
	cmdString, err := json.Marshal(cmd[0])
	if err != nil {
		return ""
	}
	sig := fmt.Sprintf("%s-%s", destinationAddress.String(), cmdString)
	shaBytes := sha256.Sum256([]byte(sig))
	return hex.EncodeToString(shaBytes[:])
''')


def m2(d):
    sub(d + "/spine/send.go", "json.Marshal(cmd)\n\tif err != nil {\n\t\treturn \"\"", "json.Marshal(cmd[:1])\n\tif err != nil {\n\t\treturn \"\"")


def m3(d):
    hashbody(d, '''	sig := fmt.Sprintf("%s-%d", destinationAddress.String(), len(cmd))
	shaBytes := sha256.Sum256([]byte(sig))
	return hex.EncodeToString(shaBytes[:])
''')


def m4(d):
    sub(d + "/spine/send.go", 'fmt.Sprintf("%s-%s", destinationAddress.String(), cmdString)',
        'fmt.Sprintf("%s-%s", string(*destinationAddress.Device), cmdString)')


def m5(d):
    sub(d + "/model/commondatatypes_additions.go", FEATSTR_TAIL, '\tresult += "]:"\n\treturn result\n}\n')


def m6(d):
    sub(d + "/model/commondatatypes_additions.go", FEATSTR_LOOP, '''	if len(r.Entity) > 0 {
		result += fmt.Sprintf("%d", r.Entity[0])
	}
	result += "]:"
	if r.Feature != nil {''')


def m7(d):
    sub(d + "/spine/send.go", "c.msgCounterForHashFromCache(hash); msgCounterCache != nil",
        "c.msgCounterForHashFromCache(c.hashForMessage(&model.FeatureAddressType{}, cmd)); msgCounterCache != nil")


def m8(d):
    hashbody(d, '''	h := sha256.New()
	h.Write([]byte(destinationAddress.String()))
	for _, c := range cmd {
		b, _ := json.Marshal(c.Function)
		h.Write(b)
	}
	return hex.EncodeToString(h.Sum(nil))
''')


def m9(d):  # extra: last element only
    hashbody(d, '''	if len(cmd) == 0 {
		return ""
	}
	cmdString, _ := json.Marshal(cmd[len(cmd)-1])
	sig := fmt.Sprintf("%s-%s", destinationAddress.String(), cmdString)
	shaBytes := sha256.Sum256([]byte(sig))
	return hex.EncodeToString(shaBytes[:])
''')


def m10(d):  # extra: destination rendered through %s (fmt calls String() dynamically) + String() drops the feature
    sub(d + "/spine/send.go", 'fmt.Sprintf("%s-%s", destinationAddress.String(), cmdString)',
        'fmt.Sprintf("%s-%s", destinationAddress, cmdString)')
    m5(d)


def m11(d):  # extra: the sender address instead of the destination
    sub(d + "/spine/send.go", "hash := c.hashForMessage(destinationAddress, cmd)", "hash := c.hashForMessage(senderAddress, cmd)")


def m12(d):  # extra: helper writes only device into the hasher handed in
    hashbody(d, '''	h := sha256.New()
	writeDest(h, destinationAddress)
	enc := json.NewEncoder(h)
	if enc.Encode(cmd) != nil {
		return ""
	}
	return hex.EncodeToString(h.Sum(nil))
}

func writeDest(w io.Writer, a *model.FeatureAddressType) {
	if a.Device != nil {
		io.WriteString(w, string(*a.Device))
	}
''', imports=("io",))


def r1(d):
    p = d + "/spine/send.go"
    sub(p, HASHFN, KEEP)
    sub(p, "\thash := c.hashForMessage(destinationAddress, cmd)\n", '''	var hash string
	if cmdString, err := json.Marshal(cmd); err == nil {
		sig := fmt.Sprintf("%s-%s", destinationAddress.String(), cmdString)
		shaBytes := sha256.Sum256([]byte(sig))
		hash = hex.EncodeToString(shaBytes[:])
	}
''')


def r2(d):
    hashbody(d, '''	h := sha256.New()
	h.Write([]byte(destinationAddress.String()))
	for _, c := range cmd {
		b, _ := json.Marshal(c)
		h.Write(b)
		h.Write([]byte{0})
	}
	return hex.EncodeToString(h.Sum(nil))
''')


def r3(d):
    hashbody(d, '''	if len(cmd) == 0 {
		return ""
	}
	var sb strings.Builder
	sb.WriteString(destinationAddress.String())
	sb.WriteByte('-')
	var buf bytes.Buffer
	fmt.Fprintf(&buf, "%s|", sb.String())
	enc := json.NewEncoder(&buf)
	if err := enc.Encode(cmd); err != nil {
		return ""
	}
	shaBytes := sha256.Sum256(buf.Bytes())
	return hex.EncodeToString(shaBytes[:])
''', imports=("bytes", "strings"))


def r4(d):
    hashbody(d, '''	cmdString, err := json.Marshal(cmd)
	if err != nil {
		return ""
	}
	sig := destKey(destinationAddress) + "-" + string(cmdString)
	shaBytes := sha256.Sum256([]byte(sig))
	return hex.EncodeToString(shaBytes[:])
}

func destKey(a *model.FeatureAddressType) string {
	if a == nil {
		return ""
	}
	var sb strings.Builder
	if a.Device != nil {
		sb.WriteString(string(*a.Device))
	}
	for _, e := range a.Entity {
		sb.WriteString("/" + strconv.FormatUint(uint64(e), 10))
	}
	if a.Feature != nil {
		fmt.Fprintf(&sb, "#%d", *a.Feature)
	}
	return sb.String()
''', imports=("strconv", "strings"))


def r5(d):
    p = d + "/spine/send.go"
    sub(p, "type reqMsgCacheData map[model.MsgCounterType]string", "type reqMsgCacheData map[string]model.MsgCounterType")
    sub(p, '''	for msgCounter, h := range c.reqMsgCache {
		if h == hash {
			return &msgCounter
		}
	}

	return nil''', '''	if msgCounter, ok := c.reqMsgCache[hash]; ok {
		return &msgCounter
	}

	return nil''')
    sub(p, '''	_, ok := c.reqMsgCache[msgCounter]

	return ok''', '''	for _, mc := range c.reqMsgCache {
		if mc == msgCounter {
			return true
		}
	}
	return false''')
    sub(p, '''		for k := range c.reqMsgCache {
			keys = append(keys, uint64(k))
		}''', '''		for _, k := range c.reqMsgCache {
			keys = append(keys, uint64(k))
		}''')
    sub(p, "\t\tdelete(c.reqMsgCache, model.MsgCounterType(oldestKey))\n", '''		for h, mc := range c.reqMsgCache {
			if mc == model.MsgCounterType(oldestKey) {
				delete(c.reqMsgCache, h)
			}
		}
''')
    sub(p, "\tc.reqMsgCache[msgCounter] = hash\n", "\tc.reqMsgCache[hash] = msgCounter\n")
    sub(p, "\t\tdelete(c.reqMsgCache, *msgCounterRef)\n", '''		for h, mc := range c.reqMsgCache {
			if mc == *msgCounterRef {
				delete(c.reqMsgCache, h)
			}
		}
''')


def r6(d):
    p = d + "/spine/send.go"
    sub(p, HASHFN, '''type reqIdent struct {
	to   *model.FeatureAddressType
	what []model.CmdType
}

func (c *Sender) ident(in reqIdent) string {
	payload, err := json.Marshal(in.what)
	if err != nil {
		return ""
	}

	sig := fmt.Sprintf("%s-%s", in.to.String(), payload)
	sum := sha256.Sum256([]byte(sig))
	return hex.EncodeToString(sum[:])
}
''')
    sub(p, "c.hashForMessage(destinationAddress, cmd)", "c.ident(reqIdent{to: destinationAddress, what: cmd})")
    for f in (p, d + "/spine/verif_hooks.go"):
        s = open(f).read()
        s = s.replace("reqMsgCacheData", "pendingT").replace("reqMsgCache", "pending")
        s = s.replace("msgCounterForHashFromCache", "findPending").replace("addMsgCounterHashToCache", "remember")
        s = s.replace("hasMsgCounterInCache", "isPending")
        open(f, "w").write(s)


def r7(d):  # extra: helpers write into a hasher that is handed in; json.NewEncoder(h)
    hashbody(d, '''	h := sha256.New()
	writeDest(h, destinationAddress)
	enc := json.NewEncoder(h)
	if enc.Encode(cmd) != nil {
		return ""
	}
	return hex.EncodeToString(h.Sum(nil))
}

func writeDest(w io.Writer, a *model.FeatureAddressType) {
	if a.Device != nil {
		io.WriteString(w, string(*a.Device))
	}
	for i := 0; i < len(a.Entity); i++ {
		fmt.Fprintf(w, "/%d", a.Entity[i])
	}
	if a.Feature != nil {
		fmt.Fprintf(w, "#%d", *a.Feature)
	}
''', imports=("io",))


def r8(d):  # extra: %s of the address itself (String() called by fmt), early guard, hash truncated
    hashbody(d, '''	if len(cmd) == 0 || destinationAddress == nil {
		return ""
	}
	cmdString, err := json.Marshal(cmd)
	if err != nil {
		return ""
	}
	sig := fmt.Sprintf("%s-%s", destinationAddress, cmdString)
	shaBytes := sha256.Sum256([]byte(sig))
	return hex.EncodeToString(shaBytes[:16])
''')


def r9(d):  # extra: identity built in a closure, parts collected in a slice and joined
    hashbody(d, '''	parts := []string{}
	add := func(s string) { parts = append(parts, s) }
	add(destinationAddress.String())
	for i := range cmd {
		b, err := json.Marshal(&cmd[i])
		if err != nil {
			return ""
		}
		add(string(b))
	}
	shaBytes := sha256.Sum256([]byte(strings.Join(parts, "-")))
	return hex.EncodeToString(shaBytes[:])
''', imports=("strings",))


T, F = True, False
BASE = dict(identityCoversDevice=T, identityCoversEntity=T, identityCoversFeature=T, identityCoversAllDestFields=T,
            identityCoversWholeCmdList=T, lookupUsesStoredIdentity=T, identityUsesClassifier=F,
            identityUsesSenderAddress=F, identityUsesAckRequest=F, storeSites=1, lookupSites=1)
NODEST = dict(identityCoversDevice=F, identityCoversEntity=F, identityCoversFeature=F, identityCoversAllDestFields=F)
VARIANTS = [
    ("base", None, {}),
    ("m1", m1, dict(identityCoversWholeCmdList=F)),
    ("m2", m2, dict(identityCoversWholeCmdList=F)),
    ("m3", m3, dict(identityCoversWholeCmdList=F)),
    ("m4", m4, dict(identityCoversEntity=F, identityCoversFeature=F, identityCoversAllDestFields=F)),
    ("m5", m5, dict(identityCoversFeature=F, identityCoversAllDestFields=F)),
    ("m6", m6, dict(identityCoversEntity=F, identityCoversAllDestFields=F)),
    ("m7", m7, dict(NODEST, lookupUsesStoredIdentity=F)),
    ("m8", m8, dict(identityCoversWholeCmdList=F)),
    ("m9", m9, dict(identityCoversWholeCmdList=F)),
    ("m10", m10, dict(identityCoversFeature=F, identityCoversAllDestFields=F)),
    ("m11", m11, dict(NODEST, identityUsesSenderAddress=T)),
    ("m12", m12, dict(identityCoversEntity=F, identityCoversFeature=F, identityCoversAllDestFields=F)),
    ("r1", r1, {}), ("r2", r2, {}), ("r3", r3, {}), ("r4", r4, {}), ("r5", r5, {}), ("r6", r6, {}),
    ("r7", r7, {}), ("r8", r8, {}), ("r9", r9, {}),
]


def facts(lean):
    r = {}
    for m in re.finditer(r"^def (\w+) : (Bool|Nat) := (\w+)$", open(lean).read(), re.M):
        r[m.group(1)] = (m.group(3) == "true") if m.group(2) == "Bool" else int(m.group(3))
    return r


def run(cmd, **kw):
    return subprocess.run(cmd, stdout=subprocess.PIPE, stderr=subprocess.STDOUT, text=True, timeout=600, **kw)


def main():
    want = sys.argv[1:]
    r = run(["go", "build", "-o", BIN, "."], cwd=HERE)
    if r.returncode:
        raise SystemExit("build failed:\n" + r.stdout)
    ok_all = True
    rows = []
    for name, fn, delta in VARIANTS:
        if want and name not in want:
            continue
        exp = dict(BASE, **delta)
        wt = "/root/scratch/mut-bus2-hf-" + name
        outd = "/tmp/hf-" + name
        repo = REPO
        try:
            if fn is not None:
                run(["git", "-C", REPO, "worktree", "remove", "--force", wt])
                r = run(["git", "-C", REPO, "worktree", "add", "--detach", wt, "HEAD"])
                if r.returncode:
                    raise SystemExit("worktree add failed:\n" + r.stdout)
                repo = wt
                fn(wt)
                r = run(["go", "build", "-tags", "verif", "./..."], cwd=wt)
                if r.returncode:
                    rows.append((name, "DOES NOT COMPILE", r.stdout.strip()[:400]))
                    ok_all = False
                    continue
            t0 = time.time()
            r = run([BIN, "-out", outd], env=dict(os.environ, VERIF_REPO=repo))
            dt = time.time() - t0
            if r.returncode:
                rows.append((name, "TOOL FAILED", r.stdout.strip()[-400:]))
                ok_all = False
                continue
            got = facts(outd + "/SenderHash.lean")
            diff = {k: (exp.get(k), got.get(k)) for k in set(exp) | set(got) if exp.get(k) != got.get(k)}
            flipped = sorted(k for k in got if got[k] != BASE.get(k))
            status = "ok" if not diff else "MISMATCH " + str(diff)
            ok_all &= not diff
            rows.append((name, status, "differs from /repo in: %s  (%.1fs)" % (", ".join(flipped) or "nothing", dt)))
        finally:
            if fn is not None:
                run(["git", "-C", REPO, "worktree", "remove", "--force", wt])
                shutil.rmtree(wt, ignore_errors=True)
            shutil.rmtree(outd, ignore_errors=True)
    if os.path.exists(BIN):
        os.remove(BIN)
    for row in rows:
        print("%-5s %-10s %s" % row)
    print("selftest:", "ALL OK" if ok_all else "FAILURES")
    sys.exit(0 if ok_all else 1)


if __name__ == "__main__":
    main()
