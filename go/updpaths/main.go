// Command updpaths regenerates, from the tree under test, the facts about HOW an update reaches the
// function-data store (property C02: "whether received as reply or notify from a peer or applied through the
// local API"): for every entry point — FeatureLocal.SetData, FeatureLocal.UpdateData, FeatureRemote.UpdateData,
// and FeatureLocal.HandleMessage / ApproveOrDenyWrite per command classifier — the call sites of
// FunctionDataInterface.UpdateDataAny that it reaches, with the abstract value of the remoteWrite and persist
// arguments and of the two filter arguments at that site; and for spine.FunctionData the chain
// UpdateDataAny -> UpdateData -> model.Updater.UpdateList with the arguments handed on.
//
// The analysis is SEMANTIC: go/packages + go/ssa of the tree, an interprocedural walk over the SSA call
// structure with constant propagation (constants, parameters of the entry point, fields loaded from a
// parameter), interface calls resolved to every type of the module that implements the interface. Helpers are
// looked through at any depth, names of unexported functions play no role, the classifier of a path is taken
// from the comparison with a model.CmdClassifierType constant that guards the call (switch or if-chain alike).
//
// Output: <out>/UpdPaths.lean (namespace Spine.Generated). Own Go module because it needs golang.org/x/tools.
package main

import (
	"flag"
	"fmt"
	"go/constant"
	"go/token"
	"go/types"
	"os"
	"path/filepath"
	"sort"
	"strings"

	"golang.org/x/tools/go/packages"
	"golang.org/x/tools/go/ssa"
	"golang.org/x/tools/go/ssa/ssautil"
)

const modPrefix = "github.com/enbility/spine-go/"

type aval = string // "true" "false" "nil" "param" "field:<Name>" "?"

type sinkRec struct {
	root, label                  string
	remote, persist, fpart, fdel aval
	data                         aval
	site                         string // enclosing function of the call site
}

type walker struct {
	sink  string // name of the interface method whose call sites are recorded (default UpdateDataAny)
	rows  [][]aval
	prog  *ssa.Program
	pkgs  []*ssa.Package
	seen  map[string]bool
	recs  []sinkRec
	sites map[string]bool // every sink call site met by the walk ("func@pos")
	root  string
	impl  map[string][]*ssa.Function // iface-type-string + "." + method -> implementations
}

func isModule(f *ssa.Function) bool {
	if f == nil {
		return false
	}
	p := f.Pkg
	if p == nil && f.Origin() != nil {
		p = f.Origin().Pkg
	}
	if p == nil && f.Parent() != nil {
		p = f.Parent().Pkg
	}
	return p != nil && strings.HasPrefix(p.Pkg.Path()+"/", modPrefix)
}

func fieldName(x ssa.Value, idx int) string {
	t := x.Type()
	if p, ok := t.Underlying().(*types.Pointer); ok {
		t = p.Elem()
	}
	if s, ok := t.Underlying().(*types.Struct); ok && idx < s.NumFields() {
		return s.Field(idx).Name()
	}
	return "?"
}

func (w *walker) abs(v ssa.Value, env []aval, fn *ssa.Function, depth int) aval {
	if depth > 12 {
		return "?"
	}
	switch x := v.(type) {
	case *ssa.Const:
		if x.IsNil() {
			return "nil"
		}
		if x.Value != nil && x.Value.Kind() == constant.Bool {
			if constant.BoolVal(x.Value) {
				return "true"
			}
			return "false"
		}
		return "?"
	case *ssa.Parameter:
		for i, p := range fn.Params {
			if p == x && i < len(env) {
				return env[i]
			}
		}
		return "?"
	case *ssa.UnOp:
		if x.Op == token.MUL {
			if fa, ok := x.X.(*ssa.FieldAddr); ok {
				if base := w.abs(fa.X, env, fn, depth+1); base == "param" || strings.HasPrefix(base, "field:") {
					return "field:" + fieldName(fa.X, fa.Field)
				}
				return "?"
			}
			// a local variable that is assigned once (Alloc + Store)
			if al, ok := x.X.(*ssa.Alloc); ok {
				var val ssa.Value
				n := 0
				for _, r := range *al.Referrers() {
					if st, ok := r.(*ssa.Store); ok && st.Addr == al {
						val = st.Val
						n++
					}
				}
				if n == 1 {
					return w.abs(val, env, fn, depth+1)
				}
			}
		}
		return "?"
	case *ssa.Field:
		if base := w.abs(x.X, env, fn, depth+1); base == "param" || strings.HasPrefix(base, "field:") {
			return "field:" + fieldName(x.X, x.Field)
		}
		return "?"
	case *ssa.ChangeType:
		return w.abs(x.X, env, fn, depth+1)
	case *ssa.Convert:
		return w.abs(x.X, env, fn, depth+1)
	case *ssa.MakeInterface:
		return w.abs(x.X, env, fn, depth+1)
	case *ssa.ChangeInterface:
		return w.abs(x.X, env, fn, depth+1)
	case *ssa.TypeAssert:
		return w.abs(x.X, env, fn, depth+1)
	case *ssa.Phi:
		r := ""
		for _, e := range x.Edges {
			a := w.abs(e, env, fn, depth+1)
			if r == "" {
				r = a
			} else if r != a {
				return "?"
			}
		}
		if r != "" {
			return r
		}
	}
	return "?"
}

// classifier tests of a function: block -> constant, for `x == <CmdClassifierType const>` conditions
func classifierTests(fn *ssa.Function) map[*ssa.BasicBlock]string {
	m := map[*ssa.BasicBlock]string{}
	for _, b := range fn.Blocks {
		if len(b.Instrs) == 0 {
			continue
		}
		iff, ok := b.Instrs[len(b.Instrs)-1].(*ssa.If)
		if !ok {
			continue
		}
		bo, ok := iff.Cond.(*ssa.BinOp)
		if !ok || bo.Op != token.EQL {
			continue
		}
		for _, side := range []ssa.Value{bo.X, bo.Y} {
			c, ok := side.(*ssa.Const)
			if !ok || c.Value == nil || c.Value.Kind() != constant.String {
				continue
			}
			if n, ok := c.Type().(*types.Named); ok && n.Obj().Name() == "CmdClassifierType" {
				m[b] = constant.StringVal(c.Value)
			}
		}
	}
	return m
}

// labelsOf: the classifier constants whose true branch leads to block b without passing another classifier test
func labelsOf(fn *ssa.Function, tests map[*ssa.BasicBlock]string, b *ssa.BasicBlock) []string {
	var out []string
	for tb, c := range tests {
		seen := map[*ssa.BasicBlock]bool{}
		var dfs func(x *ssa.BasicBlock) bool
		dfs = func(x *ssa.BasicBlock) bool {
			if x == b {
				return true
			}
			if seen[x] {
				return false
			}
			seen[x] = true
			if _, isTest := tests[x]; isTest {
				return false
			}
			for _, s := range x.Succs {
				if dfs(s) {
					return true
				}
			}
			return false
		}
		if dfs(tb.Succs[0]) {
			out = append(out, c)
		}
	}
	sort.Strings(out)
	return out
}

func (w *walker) implementations(iface types.Type, name string) []*ssa.Function {
	it, ok := iface.Underlying().(*types.Interface)
	if !ok {
		return nil
	}
	key := types.TypeString(iface, nil) + "." + name
	if r, ok := w.impl[key]; ok {
		return r
	}
	var out []*ssa.Function
	for _, p := range w.pkgs {
		for _, mem := range p.Members {
			tn, ok := mem.(*ssa.Type)
			if !ok {
				continue
			}
			named, ok := tn.Type().(*types.Named)
			if !ok || named.TypeParams().Len() > 0 {
				continue
			}
			for _, t := range []types.Type{named, types.NewPointer(named)} {
				if _, isIface := named.Underlying().(*types.Interface); isIface {
					continue
				}
				if !types.Implements(t, it) {
					continue
				}
				sel := w.prog.MethodSets.MethodSet(t).Lookup(p.Pkg, name)
				if sel == nil {
					// exported method: package does not matter
					sel = w.prog.MethodSets.MethodSet(t).Lookup(nil, name)
				}
				if sel == nil {
					continue
				}
				if f := w.prog.MethodValue(sel); f != nil {
					out = append(out, f)
				}
				break
			}
		}
	}
	sort.Slice(out, func(i, j int) bool { return out[i].String() < out[j].String() })
	w.impl[key] = out
	return out
}

func isSinkName(n string) bool { return n == "UpdateDataAny" }

func (w *walker) isSink(n string) bool {
	if w.sink != "" {
		return n == w.sink
	}
	return isSinkName(n)
}

func (w *walker) walk(fn *ssa.Function, env []aval, label string, depth int) {
	if fn == nil || len(fn.Blocks) == 0 || depth > 10 {
		return
	}
	key := fn.String() + "|" + strings.Join(env, ",") + "|" + label
	if w.seen[key] {
		return
	}
	w.seen[key] = true
	tests := classifierTests(fn)
	for _, b := range fn.Blocks {
		for _, ins := range b.Instrs {
			ci, ok := ins.(ssa.CallInstruction)
			if !ok {
				continue
			}
			c := ci.Common()
			lab := label
			if len(tests) > 0 {
				if ls := labelsOf(fn, tests, b); len(ls) > 0 {
					lab = strings.Join(ls, "+")
				}
			}
			args := make([]aval, len(c.Args))
			for i, a := range c.Args {
				args[i] = w.abs(a, env, fn, 0)
			}
			if c.IsInvoke() {
				name := c.Method.Name()
				if w.isSink(name) && len(args) == 5 {
					w.rows = append(w.rows, args)
					site := fmt.Sprintf("%s@%d", fn.String(), w.prog.Fset.Position(ins.Pos()).Offset)
					w.sites[site] = true
					w.recs = append(w.recs, sinkRec{root: w.root, label: lab, remote: args[0], persist: args[1], data: args[2], fpart: args[3], fdel: args[4], site: fn.String()})
					continue
				}
				recv := w.abs(c.Value, env, fn, 0)
				for _, callee := range w.implementations(c.Value.Type(), name) {
					if isModule(callee) {
						w.walk(callee, append([]aval{recv}, args...), lab, depth+1)
					}
				}
				continue
			}
			callee := c.StaticCallee()
			if callee == nil {
				continue
			}
			if o := callee.Origin(); o != nil {
				callee = o
			}
			if !isModule(callee) {
				continue
			}
			if w.isSink(callee.Name()) && len(args) == 6 {
				w.rows = append(w.rows, args[1:])
				site := fmt.Sprintf("%s@%d", fn.String(), w.prog.Fset.Position(ins.Pos()).Offset)
				w.sites[site] = true
				w.recs = append(w.recs, sinkRec{root: w.root, label: lab, remote: args[1], persist: args[2], data: args[3], fpart: args[4], fdel: args[5], site: fn.String()})
				continue
			}
			w.walk(callee, args, lab, depth+1)
		}
	}
	for _, an := range fn.AnonFuncs {
		aenv := make([]aval, len(an.Params))
		for i := range aenv {
			aenv[i] = "?"
		}
		w.walk(an, aenv, label, depth+1)
	}
}

// every call site of the sink in the module (walk-independent), to state that the analysed entry points cover them
func allSinkSites(prog *ssa.Program) map[string]bool {
	m := map[string]bool{}
	for f := range ssautil.AllFunctions(prog) {
		if !isModule(f) || f.Origin() != nil && f.Origin() != f {
			continue
		}
		for _, b := range f.Blocks {
			for _, ins := range b.Instrs {
				ci, ok := ins.(ssa.CallInstruction)
				if !ok {
					continue
				}
				c := ci.Common()
				name := ""
				if c.IsInvoke() {
					name = c.Method.Name()
				} else if sc := c.StaticCallee(); sc != nil && isModule(sc) {
					name = sc.Name()
				}
				if isSinkName(name) {
					m[fmt.Sprintf("%s@%d", f.String(), prog.Fset.Position(ins.Pos()).Offset)] = true
				}
			}
		}
	}
	return m
}

func q(s string) string { return fmt.Sprintf("%q", s) }

func main() {
	out := flag.String("out", "", "output directory (lean/Spine/Generated)")
	flag.Parse()
	if *out == "" {
		fmt.Fprintln(os.Stderr, "usage: updpaths -out <dir>")
		os.Exit(2)
	}
	repo := os.Getenv("VERIF_REPO")
	if repo == "" {
		repo = "/repo"
	}
	cfg := &packages.Config{Mode: packages.LoadAllSyntax, Dir: repo, BuildFlags: []string{"-tags=verif"},
		Env: append(os.Environ(), "GOFLAGS=-mod=mod", "GOPROXY=off", "GOSUMDB=off", "GOTOOLCHAIN=local")}
	pkgs, err := packages.Load(cfg, "./spine", "./model", "./api", "./util")
	if err != nil {
		fmt.Fprintln(os.Stderr, "load:", err)
		os.Exit(1)
	}
	if packages.PrintErrors(pkgs) > 0 {
		os.Exit(1)
	}
	prog, spkgs := ssautil.AllPackages(pkgs, ssa.BuilderMode(0))
	prog.Build()
	var mod []*ssa.Package
	var spine *ssa.Package
	for _, p := range spkgs {
		if p != nil && strings.HasPrefix(p.Pkg.Path()+"/", modPrefix) {
			mod = append(mod, p)
			if p.Pkg.Path() == modPrefix+"spine" {
				spine = p
			}
		}
	}
	if spine == nil {
		fmt.Fprintln(os.Stderr, "updpaths: package spine not found")
		os.Exit(1)
	}
	method := func(typ, name string) *ssa.Function {
		tn, ok := spine.Members[typ].(*ssa.Type)
		if !ok {
			return nil
		}
		sel := prog.MethodSets.MethodSet(types.NewPointer(tn.Type())).Lookup(spine.Pkg, name)
		if sel == nil {
			return nil
		}
		return prog.MethodValue(sel)
	}
	roots := [][2]string{{"FeatureLocal", "SetData"}, {"FeatureLocal", "UpdateData"}, {"FeatureRemote", "UpdateData"},
		{"FeatureLocal", "ApproveOrDenyWrite"}}
	// every message entry point of the package: each type with a method HandleMessage (FeatureLocal, NodeManagement)
	var hm []string
	for name, mem := range spine.Members {
		if tn, ok := mem.(*ssa.Type); ok {
			if _, isIface := tn.Type().Underlying().(*types.Interface); isIface {
				continue
			}
			if named, ok := tn.Type().(*types.Named); ok && named.TypeParams().Len() == 0 {
				if sel := prog.MethodSets.MethodSet(types.NewPointer(named)).Lookup(spine.Pkg, "HandleMessage"); sel != nil {
					if f := prog.MethodValue(sel); f != nil && f.Synthetic == "" {
						hm = append(hm, name)
					}
				}
			}
		}
	}
	sort.Strings(hm)
	for _, n := range hm {
		roots = append(roots, [2]string{n, "HandleMessage"})
	}
	w := &walker{prog: prog, pkgs: mod, sites: map[string]bool{}, impl: map[string][]*ssa.Function{}}
	for _, r := range roots {
		f := method(r[0], r[1])
		if f == nil {
			fmt.Fprintf(os.Stderr, "updpaths: entry point %s.%s not found in package spine\n", r[0], r[1])
			os.Exit(1)
		}
		w.root = r[0] + "." + r[1]
		if f.Synthetic != "" {
			continue // promoted through an embedded field: analysed at the embedded type
		}
		w.seen = map[string]bool{}
		env := make([]aval, len(f.Params))
		for i := range env {
			env[i] = "param"
		}
		w.walk(f, env, "", 0)
	}
	// de-duplicate (root, label, values); count sites per key
	type key struct{ root, label, remote, persist, fpart, fdel string }
	cnt := map[key]map[string]bool{}
	for _, r := range w.recs {
		k := key{r.root, r.label, r.remote, r.persist, r.fpart, r.fdel}
		if cnt[k] == nil {
			cnt[k] = map[string]bool{}
		}
		cnt[k][r.site] = true
	}
	var keys []key
	for k := range cnt {
		keys = append(keys, k)
	}
	sort.Slice(keys, func(i, j int) bool { return fmt.Sprint(keys[i]) < fmt.Sprint(keys[j]) })
	all := allSinkSites(prog)
	covered := 0
	for s := range all {
		if w.sites[s] {
			covered++
		}
	}

	// ---- the store: FunctionData.UpdateDataAny -> UpdateData -> Updater.UpdateList
	chain := storeChain(prog, spine, mod)

	var sb strings.Builder
	sb.WriteString("import Spine.C02Paths\n/- GENERATED by go/updpaths from the tree under test - do not edit.\n   How an update reaches the function-data store: entry point, command classifier of the path (HandleMessage),\n   abstract value of the arguments at the call of FunctionDataInterface.UpdateDataAny. -/\nnamespace Spine.Generated\n\n")
	sb.WriteString("open Spine.Paths\n\ndef updPaths : List UpdPath := [\n")
	for i, k := range keys {
		var fs []string
		for s := range cnt[k] {
			fs = append(fs, s)
		}
		sort.Strings(fs)
		sep := ","
		if i == len(keys)-1 {
			sep = ""
		}
		rt := strings.SplitN(k.root, ".", 2)
		var labs []string
		if k.label != "" {
			for _, l := range strings.Split(k.label, "+") {
				labs = append(labs, q(l))
			}
		}
		fmt.Fprintf(&sb, "  ⟨%s, %s, [%s], %s, %s, %s, %s, %d⟩%s  -- via %s\n", q(rt[0]), q(rt[1]), strings.Join(labs, ", "), q(k.remote), q(k.persist), q(k.fpart), q(k.fdel), len(fs), sep, strings.Join(fs, ", "))
	}
	sb.WriteString("]\n\n")
	fmt.Fprintf(&sb, "/-- call sites of UpdateDataAny in the whole module / those reached from the analysed entry points -/\ndef updSinkSites : Nat := %d\ndef updSinkSitesCovered : Nat := %d\n\n", len(all), covered)
	sb.WriteString(chain)
	sb.WriteString("\nend Spine.Generated\n")
	if err := os.MkdirAll(*out, 0o755); err != nil {
		fmt.Fprintln(os.Stderr, err)
		os.Exit(1)
	}
	if err := os.WriteFile(filepath.Join(*out, "UpdPaths.lean"), []byte(sb.String()), 0o644); err != nil {
		fmt.Fprintln(os.Stderr, err)
		os.Exit(1)
	}
	fmt.Printf("generated updpaths: %d path rows, %d/%d sink sites covered\n", len(keys), covered, len(all))
}

// storeChain: inside spine.FunctionData[T]: with which arguments model.Updater.UpdateList is reached from
// UpdateDataAny and from UpdateData ("p<i>" = i-th parameter of that method, receiver not counted), one row per
// call site; helper functions and methods are looked through like on the entry paths.
func storeChain(prog *ssa.Program, spine *ssa.Package, mod []*ssa.Package) string {
	var sb strings.Builder
	tn, ok := spine.Members["FunctionData"].(*ssa.Type)
	if !ok {
		return "def storeAnyToUpdate : List (List String) := []\ndef storeUpdateToList : List (List String) := []\n"
	}
	named := tn.Type().(*types.Named)
	find := func(name string) *ssa.Function {
		for i := 0; i < named.NumMethods(); i++ {
			if m := named.Method(i); m.Name() == name {
				return prog.FuncValue(m)
			}
		}
		return nil
	}
	collect := func(fn *ssa.Function) [][]string {
		w := &walker{prog: prog, pkgs: mod, sites: map[string]bool{}, impl: map[string][]*ssa.Function{}, seen: map[string]bool{}, sink: "UpdateList"}
		if fn == nil {
			return nil
		}
		env := make([]aval, len(fn.Params))
		for i := range env {
			env[i] = fmt.Sprintf("p%d", i-1)
		}
		w.walk(fn, env, "", 0)
		res := w.rows
		sort.Slice(res, func(i, j int) bool { return fmt.Sprint(res[i]) < fmt.Sprint(res[j]) })
		return res
	}
	render := func(name string, rows [][]string) {
		fmt.Fprintf(&sb, "def %s : List (List String) := [", name)
		for i, r := range rows {
			if i > 0 {
				sb.WriteString(", ")
			}
			var qs []string
			for _, x := range r {
				qs = append(qs, q(x))
			}
			sb.WriteString("[" + strings.Join(qs, ", ") + "]")
		}
		sb.WriteString("]\n")
	}
	sb.WriteString("/-- spine.FunctionData: arguments with which model.Updater.UpdateList is reached from UpdateDataAny, one row per\n    call site (\"p<i>\" = i-th parameter of UpdateDataAny) -/\n")
	render("storeAnyToUpdate", collect(find("UpdateDataAny")))
	sb.WriteString("/-- … and from UpdateData -/\n")
	render("storeUpdateToList", collect(find("UpdateData")))
	return sb.String()
}

// absP: like abs, for the store chain: parameters are rendered by position, pointer conversions looked through
func (w *walker) absP(v ssa.Value, env []aval, fn *ssa.Function) string {
	switch x := v.(type) {
	case *ssa.Parameter:
		for i, p := range fn.Params {
			if p == x {
				return env[i]
			}
		}
	case *ssa.ChangeType:
		return w.absP(x.X, env, fn)
	case *ssa.Convert:
		return w.absP(x.X, env, fn)
	case *ssa.MakeInterface:
		return w.absP(x.X, env, fn)
	case *ssa.ChangeInterface:
		return w.absP(x.X, env, fn)
	case *ssa.TypeAssert:
		return w.absP(x.X, env, fn)
	case *ssa.Const:
		if x.IsNil() {
			return "nil"
		}
		if x.Value != nil && x.Value.Kind() == constant.Bool {
			return fmt.Sprint(constant.BoolVal(x.Value))
		}
	}
	return "?"
}
