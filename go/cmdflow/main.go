// Command cmdflow regenerates, from the tree under test, the STATIC FACE of the command builders of spine-go
// (property C18): for every method of api.FunctionDataCmdInterface that returns a model.CmdType, on the type of
// package spine that implements the interface, the MAY-FLOW facts
//
//	F-data    what reaches the `data` argument of (*model.CmdType).SetDataForFunction (constant nil, the stored
//	          data copy, an entry parameter) and whether `fct` is the receiver's function type
//	F-filter  for every reachable call of (*model.FilterType).SetDataForFunction(tagType, fct, data): the constant
//	          tagType, the entry parameter that reaches data, whether it is handed over BY ADDRESS of an interface
//	          variable, the KIND (delete / partial) of the filter value it is applied to
//	F-nil     the entry parameters that reach util.IsNil
//	F-fn      every store to the fields Function and Filter of a model.CmdType: value class and guard class
//	F-order   delete filter appended before the partial filter
//
// The analysis is SEMANTIC: go/packages + go/ssa, an abstract interpretation of the SSA (context-cloning
// interprocedural walk through every statically resolved callee of the module with a body: helpers of any name,
// closures, defers; a small points-to heap with field-sensitive objects, by-value struct copies, slices/append;
// conditional constant propagation so that a block guarded by util.IsNil(<constant nil>) is dead, exactly as at run
// time). Entry points are found by the interface, parameters by POSITION, the receiver's function type and stored
// data by their TYPES (model.FunctionType, the type parameter), sinks by the exported model API. Names of unexported
// functions, parameters, variables and files play no role.
//
// Output: <out>/CmdFlow.lean (namespace Spine.Generated). Own Go module because it needs golang.org/x/tools.
package main

import (
	"flag"
	"fmt"
	"go/constant"
	"go/token"
	"go/types"
	"os"
	"path/filepath"
	"sort"
	"strings"

	"golang.org/x/tools/go/packages"
	"golang.org/x/tools/go/ssa"
	"golang.org/x/tools/go/ssa/ssautil"
)

const modPrefix = "github.com/enbility/spine-go/"

// ---------------------------------------------------------------------------------------------- abstract domain

type Obj struct {
	id     int
	name   string
	recv   bool       // synthetic: reachable from the receiver of the entry point
	typ    types.Type // for recv objects: the type of the location
	inited bool
	c      *Val
	kids   map[int]*Obj // field index -> location; -1 = every element of an array
	marks  map[string]bool
}

type closure struct{ bind []*Val }

type Val struct {
	org   map[string]bool // origin labels
	ptr   map[*Obj]bool   // may point to
	fld   map[int]*Val    // by-value struct / tuple
	marks map[string]bool // by-value struct: SetDataForFunction was applied ("tag|label")
	fns   map[*ssa.Function]*closure
}

func lab(ls ...string) *Val {
	v := &Val{org: map[string]bool{}}
	for _, l := range ls {
		v.org[l] = true
	}
	return v
}

func (v *Val) empty() bool {
	return v == nil || len(v.org) == 0 && len(v.ptr) == 0 && len(v.fld) == 0 && len(v.marks) == 0 && len(v.fns) == 0
}

func (v *Val) only(l string) bool {
	return v != nil && len(v.org) == 1 && v.org[l] && len(v.ptr) == 0 && len(v.fld) == 0 && len(v.fns) == 0
}

func sortedKeys(m map[string]bool) []string {
	var out []string
	for k := range m {
		out = append(out, k)
	}
	sort.Strings(out)
	return out
}

type ctx struct {
	key     string
	fn      *ssa.Function
	parent  *ctx
	site    ssa.Instruction // call instruction in the parent
	builder int
	params  []*Val
	free    []*Val
	vals    map[ssa.Value]*Val
	reach   map[*ssa.BasicBlock]bool
	edge    map[[2]int]bool
	ret     *Val
	depth   int
}

type event struct {
	kind  string // "filterSink" "cmdSink" "isnil" "store" "append"
	c     *ctx
	ins   ssa.Instruction
	field string
	a, b  *Val // filterSink: tag, data; cmdSink: fct, data; store: value; append: appended slice; isnil: arg
	fct   *Val
	recv  *Val
}

type walker struct {
	prog    *ssa.Program
	changed bool
	nobj    int
	objs    map[string]*Obj
	ctxs    map[string]*ctx
	events  map[string]*event
	unknown map[string]bool
	// model API, found by exported names
	ccIdx, delIdx, partIdx int
}

func (w *walker) join(dst, src *Val) {
	if src == nil {
		return
	}
	for l := range src.org {
		if !dst.org[l] {
			if dst.org == nil {
				dst.org = map[string]bool{}
			}
			dst.org[l] = true
			w.changed = true
		}
	}
	for o := range src.ptr {
		if !dst.ptr[o] {
			if dst.ptr == nil {
				dst.ptr = map[*Obj]bool{}
			}
			dst.ptr[o] = true
			w.changed = true
		}
	}
	for m := range src.marks {
		if !dst.marks[m] {
			if dst.marks == nil {
				dst.marks = map[string]bool{}
			}
			dst.marks[m] = true
			w.changed = true
		}
	}
	for i, f := range src.fld {
		if dst.fld == nil {
			dst.fld = map[int]*Val{}
		}
		if dst.fld[i] == nil {
			dst.fld[i] = &Val{}
			w.changed = true
		}
		w.join(dst.fld[i], f)
	}
	for f, c := range src.fns {
		if dst.fns == nil {
			dst.fns = map[*ssa.Function]*closure{}
		}
		d := dst.fns[f]
		if d == nil {
			d = &closure{bind: make([]*Val, len(c.bind))}
			for i := range d.bind {
				d.bind[i] = &Val{}
			}
			dst.fns[f] = d
			w.changed = true
		}
		for i := range c.bind {
			if i < len(d.bind) {
				w.join(d.bind[i], c.bind[i])
			}
		}
	}
}

func (w *walker) copyOf(v *Val) *Val {
	r := &Val{}
	saved := w.changed
	w.join(r, v)
	w.changed = saved
	return r
}

func (w *walker) newObj(key, name string) *Obj {
	if o := w.objs[key]; o != nil {
		return o
	}
	w.nobj++
	o := &Obj{id: w.nobj, name: name, c: &Val{}, kids: map[int]*Obj{}, marks: map[string]bool{}}
	w.objs[key] = o
	return o
}

func deref(t types.Type) types.Type {
	if t == nil {
		return nil
	}
	if p, ok := t.Underlying().(*types.Pointer); ok {
		return p.Elem()
	}
	return t
}

func (w *walker) kid(o *Obj, i int) *Obj {
	if k := o.kids[i]; k != nil {
		return k
	}
	w.nobj++
	k := &Obj{id: w.nobj, name: fmt.Sprintf("%s.%d", o.name, i), c: &Val{}, kids: map[int]*Obj{}, marks: map[string]bool{}}
	if o.recv {
		k.recv = true
		if o.typ != nil {
			switch u := o.typ.Underlying().(type) {
			case *types.Struct:
				if i >= 0 && i < u.NumFields() {
					k.typ = u.Field(i).Type()
				}
			case *types.Array:
				k.typ = u.Elem()
			case *types.Slice:
				k.typ = u.Elem()
			}
		}
	}
	o.kids[i] = k
	return k
}

func isModelNamed(t types.Type, name string) bool {
	n, ok := t.(*types.Named)
	if !ok {
		if a, ok2 := t.(*types.Alias); ok2 {
			return isModelNamed(types.Unalias(a), name)
		}
		return false
	}
	return n.Obj().Name() == name && n.Obj().Pkg() != nil && n.Obj().Pkg().Path() == modPrefix+"model"
}

// the content of a location reachable from the receiver is named by its TYPE
func (w *walker) recvInit(o *Obj) {
	if !o.recv || o.inited {
		return
	}
	o.inited = true
	if o.typ == nil {
		o.c.org = map[string]bool{"recv": true}
		return
	}
	if _, ok := o.typ.(*types.TypeParam); ok {
		o.c.org = map[string]bool{"stored": true}
		return
	}
	if isModelNamed(o.typ, "FunctionType") {
		o.c.org = map[string]bool{"fnType": true}
		return
	}
	switch u := o.typ.Underlying().(type) {
	case *types.Pointer:
		w.nobj++
		p := &Obj{id: w.nobj, name: o.name + "*", recv: true, typ: u.Elem(), c: &Val{}, kids: map[int]*Obj{}, marks: map[string]bool{}}
		o.c.ptr = map[*Obj]bool{p: true}
	case *types.Struct:
	default:
		o.c.org = map[string]bool{"recv": true}
	}
}

func (w *walker) loadObj(o *Obj, depth int) *Val {
	w.recvInit(o)
	r := w.copyOf(o.c)
	for m := range o.marks {
		if r.marks == nil {
			r.marks = map[string]bool{}
		}
		r.marks[m] = true
	}
	if depth < 6 {
		for i, k := range o.kids {
			if i < 0 {
				continue
			}
			if r.fld == nil {
				r.fld = map[int]*Val{}
			}
			r.fld[i] = w.loadObj(k, depth+1)
		}
	}
	return r
}

func (w *walker) load(p *Val) *Val {
	r := &Val{}
	saved := w.changed
	for o := range p.ptr {
		w.join(r, w.loadObj(o, 0))
	}
	w.changed = saved
	if len(p.ptr) == 0 {
		for l := range p.org {
			if l != "nil" && l != "tnil" && l != "zero" {
				w.join(r, lab("?"))
				w.changed = saved
			}
		}
	}
	if r.empty() {
		r = lab("zero")
	}
	return r
}

func (w *walker) storeObj(o *Obj, v *Val) {
	w.join(o.c, &Val{org: v.org, ptr: v.ptr, fns: v.fns})
	for m := range v.marks {
		if !o.marks[m] {
			o.marks[m] = true
			w.changed = true
		}
	}
	for i, f := range v.fld {
		w.storeObj(w.kid(o, i), f)
	}
}

// ---------------------------------------------------------------------------------------------- interpreter

func isModule(f *ssa.Function) bool {
	if f == nil {
		return false
	}
	p := f.Pkg
	if p == nil && f.Origin() != nil {
		p = f.Origin().Pkg
	}
	if p == nil && f.Parent() != nil {
		return isModule(f.Parent())
	}
	return p != nil && strings.HasPrefix(p.Pkg.Path()+"/", modPrefix)
}

func (w *walker) constVal(c *ssa.Const) *Val {
	if c.Value == nil {
		// the zero value of the type: nil for pointers, interfaces, slices …; a struct zero value otherwise
		switch c.Type().Underlying().(type) {
		case *types.Pointer, *types.Interface, *types.Slice, *types.Map, *types.Chan, *types.Signature:
			return lab("nil")
		}
		if b, ok := c.Type().Underlying().(*types.Basic); ok && b.Kind() == types.UntypedNil {
			return lab("nil")
		}
		return lab("zero")
	}
	switch c.Value.Kind() {
	case constant.Bool:
		if constant.BoolVal(c.Value) {
			return lab("true")
		}
		return lab("false")
	case constant.String:
		return lab(fmt.Sprintf("const:%q", constant.StringVal(c.Value)))
	case constant.Int:
		return lab("int:" + c.Value.ExactString())
	}
	return lab("const?")
}

func (w *walker) eval(c *ctx, v ssa.Value) *Val {
	switch x := v.(type) {
	case *ssa.Const:
		return w.constVal(x)
	case *ssa.Parameter:
		for i, p := range c.fn.Params {
			if p == x && i < len(c.params) {
				return c.params[i]
			}
		}
		return lab("?")
	case *ssa.FreeVar:
		for i, p := range c.fn.FreeVars {
			if p == x && i < len(c.free) {
				return c.free[i]
			}
		}
		return lab("?")
	case *ssa.Global:
		o := w.newObj("global:"+x.String(), x.Name())
		return &Val{ptr: map[*Obj]bool{o: true}}
	case *ssa.Function:
		return &Val{fns: map[*ssa.Function]*closure{x: {}}}
	case *ssa.Builtin:
		return lab("builtin")
	}
	if r := c.vals[v]; r != nil {
		return r
	}
	return &Val{}
}

func negLabel(l string) string {
	switch {
	case l == "true":
		return "false"
	case l == "false":
		return "true"
	case strings.HasPrefix(l, "!"):
		return l[1:]
	case strings.HasPrefix(l, "param:") || l == "lenpos":
		return "!" + l
	}
	return "?"
}

func (w *walker) binop(x *ssa.BinOp, a, b *Val) *Val {
	isZero := func(v *Val) bool { return v.only("int:0") }
	isOne := func(v *Val) bool { return v.only("int:1") }
	lenOf := func(v *Val) bool { return v.org["len"] }
	res := func(l string, from *Val) *Val {
		r := lab(l)
		saved := w.changed
		w.join(r, &Val{ptr: from.ptr})
		w.changed = saved
		return r
	}
	switch x.Op {
	case token.GTR:
		if lenOf(a) && isZero(b) {
			return res("lenpos", a)
		}
	case token.LSS:
		if isZero(a) && lenOf(b) {
			return res("lenpos", b)
		}
		if lenOf(a) && isOne(b) {
			return res("!lenpos", a)
		}
	case token.GEQ:
		if lenOf(a) && isOne(b) {
			return res("lenpos", a)
		}
	case token.LEQ:
		if lenOf(a) && isZero(b) {
			return res("!lenpos", a)
		}
		if isOne(a) && lenOf(b) {
			return res("lenpos", b)
		}
	case token.EQL, token.NEQ:
		r := ""
		switch {
		case lenOf(a) && isZero(b):
			if x.Op == token.NEQ {
				return res("lenpos", a)
			}
			return res("!lenpos", a)
		case isZero(a) && lenOf(b):
			if x.Op == token.NEQ {
				return res("lenpos", b)
			}
			return res("!lenpos", b)
		case a.only("nil") && b.only("nil"):
			r = "true"
		case a.only("tnil") && b.only("nil") || a.only("nil") && b.only("tnil"):
			r = "false" // a nil pointer inside an interface is not the nil interface
		case len(a.org) == 1 && len(b.org) == 1 && len(a.ptr)+len(b.ptr)+len(a.fld)+len(b.fld) == 0:
			la, lb := sortedKeys(a.org)[0], sortedKeys(b.org)[0]
			isC := func(l string) bool {
				return strings.HasPrefix(l, "const:") || strings.HasPrefix(l, "int:") || l == "true" || l == "false"
			}
			if isC(la) && isC(lb) {
				if la == lb {
					r = "true"
				} else {
					r = "false"
				}
			}
		}
		if r != "" {
			if x.Op == token.NEQ {
				r = negLabel(r)
			}
			return lab(r)
		}
	}
	// anything else: derived from both operands
	r := &Val{}
	saved := w.changed
	if _, isBool := x.Type().Underlying().(*types.Basic); isBool && x.Type().Underlying().(*types.Basic).Kind() == types.Bool {
		r = lab("?")
	} else {
		w.join(r, &Val{org: a.org})
		w.join(r, &Val{org: b.org})
		if len(r.org) == 0 {
			r = lab("?")
		}
	}
	w.changed = saved
	return r
}

func (w *walker) taint(vs ...*Val) *Val {
	r := &Val{}
	saved := w.changed
	for _, v := range vs {
		if v != nil {
			w.join(r, &Val{org: v.org, ptr: v.ptr})
		}
	}
	w.changed = saved
	if r.empty() {
		return lab("?")
	}
	return r
}

func ptrToIface(t types.Type) bool {
	p, ok := t.Underlying().(*types.Pointer)
	if !ok {
		return false
	}
	if _, isTP := types.Unalias(p.Elem()).(*types.TypeParam); isTP {
		return false // *T of a generic function: a pointer to the payload, not to an interface variable
	}
	_, ok = p.Elem().Underlying().(*types.Interface)
	return ok
}

func recvNamed(f *ssa.Function) (string, string) {
	if f == nil || f.Signature == nil || f.Signature.Recv() == nil {
		return "", ""
	}
	t := deref(f.Signature.Recv().Type())
	if n, ok := t.(*types.Named); ok && n.Obj().Pkg() != nil {
		return n.Obj().Pkg().Path(), n.Obj().Name()
	}
	return "", ""
}

func (w *walker) record(c *ctx, ins ssa.Instruction, e *event) {
	e.c, e.ins = c, ins
	w.events[fmt.Sprintf("%s|%s|%p", e.kind, c.key, ins)] = e
}

func (w *walker) call(c *ctx, ins ssa.Instruction, cc *ssa.CallCommon) *Val {
	args := make([]*Val, len(cc.Args))
	for i, a := range cc.Args {
		args[i] = w.copyOf(w.eval(c, a))
	}
	if cc.IsInvoke() {
		return w.taint(append([]*Val{w.eval(c, cc.Value)}, args...)...)
	}
	if b, ok := cc.Value.(*ssa.Builtin); ok {
		switch b.Name() {
		case "len", "cap":
			r := lab("len")
			if len(args) > 0 {
				saved := w.changed
				w.join(r, &Val{ptr: args[0].ptr})
				w.changed = saved
			}
			return r
		case "append":
			o := w.newObj(fmt.Sprintf("%s|append|%p", c.key, ins), "append")
			el := w.kid(o, -1)
			for _, a := range args {
				for src := range a.ptr {
					if src != o {
						w.storeObj(el, w.loadObj(w.kid(src, -1), 0))
					}
				}
			}
			r := &Val{ptr: map[*Obj]bool{o: true}}
			saved := w.changed
			if len(args) > 0 {
				w.join(r, &Val{ptr: args[0].ptr})
			}
			w.changed = saved
			if len(args) > 1 {
				w.record(c, ins, &event{kind: "append", a: args[1]})
			}
			return r
		case "copy":
			if len(args) == 2 {
				for d := range args[0].ptr {
					for s := range args[1].ptr {
						w.storeObj(w.kid(d, -1), w.loadObj(w.kid(s, -1), 0))
					}
				}
			}
			return lab("?")
		}
		return w.taint(args...)
	}
	var callees []*ssa.Function
	var frees [][]*Val
	if sc := cc.StaticCallee(); sc != nil {
		callees = append(callees, sc)
		var fr []*Val
		if mc, ok := cc.Value.(*ssa.MakeClosure); ok {
			for _, b := range mc.Bindings {
				fr = append(fr, w.copyOf(w.eval(c, b)))
			}
		}
		frees = append(frees, fr)
	} else {
		fv := w.eval(c, cc.Value)
		var fs []*ssa.Function
		for f := range fv.fns {
			fs = append(fs, f)
		}
		sort.Slice(fs, func(i, j int) bool { return fs[i].String() < fs[j].String() })
		for _, f := range fs {
			callees = append(callees, f)
			frees = append(frees, fv.fns[f].bind)
		}
	}
	if len(callees) == 0 {
		return w.taint(args...)
	}
	res := &Val{}
	for k, callee := range callees {
		if o := callee.Origin(); o != nil {
			callee = o
		}
		pkg, typ := recvNamed(callee)
		if pkg == modPrefix+"model" && callee.Name() == "SetDataForFunction" && (typ == "FilterType" || typ == "CmdType") {
			if typ == "FilterType" && len(args) == 4 {
				w.record(c, ins, &event{kind: "filterSink", recv: args[0], a: args[1], fct: args[2], b: args[3]})
				// the filter value now carries the data
				tags := sortedKeys(args[1].org)
				for o := range args[0].ptr {
					for _, tg := range tags {
						for _, l := range sortedKeys(args[3].org) {
							m := tg + "|" + l
							if !o.marks[m] {
								o.marks[m] = true
								w.changed = true
							}
						}
						if len(args[3].org) == 0 {
							m := tg + "|ptr"
							if !o.marks[m] {
								o.marks[m] = true
								w.changed = true
							}
						}
					}
				}
			} else if typ == "CmdType" && len(args) == 3 {
				w.record(c, ins, &event{kind: "cmdSink", recv: args[0], fct: args[1], b: args[2]})
			} else {
				w.unknown[fmt.Sprintf("sink %s.%s with %d arguments", typ, callee.Name(), len(args))] = true
			}
			continue
		}
		if callee.Pkg != nil && callee.Pkg.Pkg.Path() == modPrefix+"util" && callee.Name() == "IsNil" && len(args) == 1 {
			w.record(c, ins, &event{kind: "isnil", a: args[0]})
		}
		if !isModule(callee) || len(callee.Blocks) == 0 {
			saved := w.changed
			w.join(res, w.taint(args...))
			w.changed = saved
			continue
		}
		rec := c.depth > 14
		for p := c; p != nil; p = p.parent {
			if p.fn == callee {
				rec = true
			}
		}
		if rec {
			w.unknown["recursion or depth limit at "+callee.String()] = true
			saved := w.changed
			w.join(res, w.taint(args...))
			w.changed = saved
			continue
		}
		key := fmt.Sprintf("%s/%p:%s", c.key, ins, callee.String())
		cx := w.ctxs[key]
		if cx == nil {
			cx = &ctx{key: key, fn: callee, parent: c, site: ins, builder: c.builder, vals: map[ssa.Value]*Val{},
				reach: map[*ssa.BasicBlock]bool{}, edge: map[[2]int]bool{}, ret: &Val{}, depth: c.depth + 1}
			w.ctxs[key] = cx
		}
		cx.params = args
		cx.free = frees[k]
		w.analyze(cx)
		saved := w.changed
		w.join(res, cx.ret)
		w.changed = saved
	}
	if res.empty() {
		return lab("?")
	}
	return res
}

func (w *walker) set(c *ctx, v ssa.Value, r *Val) {
	if r == nil {
		return
	}
	d := c.vals[v]
	if d == nil {
		d = &Val{}
		c.vals[v] = d
		w.changed = true
	}
	w.join(d, r)
}

func (w *walker) analyze(c *ctx) {
	fn := c.fn
	if len(fn.Blocks) == 0 {
		return
	}
	if !c.reach[fn.Blocks[0]] {
		c.reach[fn.Blocks[0]] = true
		w.changed = true
	}
	markEdge := func(from, to *ssa.BasicBlock) {
		k := [2]int{from.Index, to.Index}
		if !c.edge[k] {
			c.edge[k] = true
			w.changed = true
		}
		if !c.reach[to] {
			c.reach[to] = true
			w.changed = true
		}
	}
	for _, b := range fn.Blocks {
		if !c.reach[b] {
			continue
		}
		for _, ins := range b.Instrs {
			switch x := ins.(type) {
			case *ssa.Alloc:
				o := w.newObj(fmt.Sprintf("%s|alloc|%p", c.key, ins), x.Comment)
				w.set(c, x, &Val{ptr: map[*Obj]bool{o: true}})
			case *ssa.MakeSlice:
				o := w.newObj(fmt.Sprintf("%s|alloc|%p", c.key, ins), "makeslice")
				w.set(c, x, &Val{ptr: map[*Obj]bool{o: true}})
			case *ssa.Store:
				addr, val := w.eval(c, x.Addr), w.eval(c, x.Val)
				for o := range addr.ptr {
					w.storeObj(o, val)
				}
				if fa, ok := x.Addr.(*ssa.FieldAddr); ok && isModelNamed(deref(fa.X.Type()), "CmdType") {
					if st, ok := deref(fa.X.Type()).Underlying().(*types.Struct); ok {
						if n := st.Field(fa.Field).Name(); n == "Function" || n == "Filter" {
							w.record(c, ins, &event{kind: "store", field: n, a: w.copyOf(val)})
						}
					}
				}
			case *ssa.UnOp:
				switch x.Op {
				case token.MUL:
					w.set(c, x, w.load(w.eval(c, x.X)))
				case token.NOT:
					r := &Val{org: map[string]bool{}}
					for l := range w.eval(c, x.X).org {
						r.org[negLabel(l)] = true
					}
					saved := w.changed
					w.join(r, &Val{ptr: w.eval(c, x.X).ptr})
					w.changed = saved
					if len(r.org) > 0 {
						w.set(c, x, r)
					}
				default:
					w.set(c, x, w.taint(w.eval(c, x.X)))
				}
			case *ssa.FieldAddr:
				r := &Val{ptr: map[*Obj]bool{}}
				base := w.eval(c, x.X)
				for o := range base.ptr {
					w.recvInit(o)
					r.ptr[w.kid(o, x.Field)] = true
				}
				if len(base.ptr) == 0 && len(base.org) > 0 {
					r = lab("?")
				}
				w.set(c, x, r)
			case *ssa.Field:
				base := w.eval(c, x.X)
				if f := base.fld[x.Field]; f != nil && !f.empty() {
					w.set(c, x, w.copyOf(f))
				} else if !base.empty() {
					w.set(c, x, lab("zero"))
				}
			case *ssa.IndexAddr:
				r := &Val{ptr: map[*Obj]bool{}}
				base := w.eval(c, x.X)
				for o := range base.ptr {
					r.ptr[w.kid(o, -1)] = true
				}
				if len(base.ptr) == 0 && len(base.org) > 0 {
					r = lab("?")
				}
				w.set(c, x, r)
			case *ssa.Index:
				w.set(c, x, w.taint(w.eval(c, x.X)))
			case *ssa.Slice:
				w.set(c, x, w.copyOf(w.eval(c, x.X)))
			case *ssa.MakeInterface:
				v := w.eval(c, x.X)
				r := &Val{}
				saved := w.changed
				if ptrToIface(x.X.Type()) {
					// the ADDRESS of an interface variable wrapped into an interface
					r.org = map[string]bool{}
					for l := range w.load(v).org {
						r.org["ref:"+l] = true
					}
					w.join(r, &Val{ptr: v.ptr})
				} else {
					w.join(r, v)
					if r.org["nil"] {
						delete(r.org, "nil")
						r.org["tnil"] = true
					}
				}
				w.changed = saved
				w.set(c, x, r)
			case *ssa.ChangeType:
				w.set(c, x, w.copyOf(w.eval(c, x.X)))
			case *ssa.Convert:
				w.set(c, x, w.copyOf(w.eval(c, x.X)))
			case *ssa.ChangeInterface:
				w.set(c, x, w.copyOf(w.eval(c, x.X)))
			case *ssa.SliceToArrayPointer:
				w.set(c, x, w.copyOf(w.eval(c, x.X)))
			case *ssa.TypeAssert:
				v := w.copyOf(w.eval(c, x.X))
				if x.CommaOk {
					w.set(c, x, &Val{fld: map[int]*Val{0: v, 1: lab("?")}})
				} else {
					w.set(c, x, v)
				}
			case *ssa.Extract:
				t := w.eval(c, x.Tuple)
				if f := t.fld[x.Index]; f != nil && !f.empty() {
					w.set(c, x, w.copyOf(f))
				} else if !t.empty() {
					w.set(c, x, w.taint(t))
				}
			case *ssa.Phi:
				for i, e := range x.Edges {
					if i < len(b.Preds) && c.edge[[2]int{b.Preds[i].Index, b.Index}] {
						w.set(c, x, w.copyOf(w.eval(c, e)))
					}
				}
			case *ssa.BinOp:
				w.set(c, x, w.binop(x, w.eval(c, x.X), w.eval(c, x.Y)))
			case *ssa.Call:
				w.set(c, x, w.call(c, x, x.Common()))
			case *ssa.Defer:
				w.call(c, x, x.Common())
			case *ssa.Go:
				w.call(c, x, x.Common())
			case *ssa.MakeClosure:
				f, _ := x.Fn.(*ssa.Function)
				if f != nil {
					cl := &closure{}
					for _, bd := range x.Bindings {
						cl.bind = append(cl.bind, w.copyOf(w.eval(c, bd)))
					}
					w.set(c, x, &Val{fns: map[*ssa.Function]*closure{f: cl}})
				}
			case *ssa.Return:
				switch len(x.Results) {
				case 0:
				case 1:
					w.join(c.ret, w.eval(c, x.Results[0]))
				default:
					t := &Val{fld: map[int]*Val{}}
					for i, r := range x.Results {
						t.fld[i] = w.copyOf(w.eval(c, r))
					}
					w.join(c.ret, t)
				}
			case *ssa.If:
				cv := w.eval(c, x.Cond)
				switch {
				case cv.only("true"):
					markEdge(b, b.Succs[0])
				case cv.only("false"):
					markEdge(b, b.Succs[1])
				default:
					markEdge(b, b.Succs[0])
					markEdge(b, b.Succs[1])
				}
			case *ssa.Jump:
				markEdge(b, b.Succs[0])
			case *ssa.Panic, *ssa.RunDefers, *ssa.DebugRef, *ssa.MapUpdate, *ssa.Send:
			default:
				if v, ok := ins.(ssa.Value); ok {
					var ops []*Val
					for _, op := range ins.Operands(nil) {
						if op != nil && *op != nil {
							ops = append(ops, w.eval(c, *op))
						}
					}
					w.set(c, v, w.taint(ops...))
				}
			}
		}
	}
}

// ---------------------------------------------------------------------------------------------- classification

func nonNil(v *Val) bool {
	if v == nil {
		return false
	}
	if len(v.ptr) > 0 {
		return true
	}
	for l := range v.org {
		if l != "nil" && l != "tnil" && l != "zero" {
			return true
		}
	}
	return false
}

// kind of a filter location: which of CmdControl.Delete / CmdControl.Partial may be set
func (w *walker) kindOfObj(o *Obj) (del, part bool) {
	cc := o.kids[w.ccIdx]
	if cc == nil {
		return
	}
	for p := range cc.c.ptr {
		if k := p.kids[w.delIdx]; k != nil && nonNil(k.c) {
			del = true
		}
		if k := p.kids[w.partIdx]; k != nil && nonNil(k.c) {
			part = true
		}
	}
	return
}

func (w *walker) kindOfVal(v *Val) (del, part bool) {
	cc := v.fld[w.ccIdx]
	if cc == nil {
		return
	}
	for p := range cc.ptr {
		if k := p.kids[w.delIdx]; k != nil && nonNil(k.c) {
			del = true
		}
		if k := p.kids[w.partIdx]; k != nil && nonNil(k.c) {
			part = true
		}
	}
	return
}

func kindNum(del, part bool) int {
	switch {
	case del && !part:
		return 1
	case part && !del:
		return 2
	}
	return 0
}

// origin classes of a value handed over as `data`
func (w *walker) dataClasses(v *Val) []string {
	m := map[string]bool{}
	for l := range v.org {
		switch {
		case l == "nil" || l == "tnil":
			m["nil"] = true
		case l == "stored":
			m["stored"] = true
		case strings.HasPrefix(l, "param:"):
			m[l] = true
		case strings.HasPrefix(l, "ref:param:"):
			m[l] = true
		case l == "ref:nil" || l == "ref:tnil":
			m["nil"] = true
		default:
			m["unknown:"+l] = true
		}
	}
	for o := range v.ptr {
		w.recvInit(o)
		switch {
		case o.c.org["stored"]:
			m["stored"] = true
		case ptrToIfaceObj(o):
		default:
			m["unknown:pointer to "+o.name] = true
		}
	}
	return sortedKeys(m)
}

// the variable behind a `ref:` label (address of an interface variable) is accounted for by the label
func ptrToIfaceObj(o *Obj) bool {
	for l := range o.c.org {
		if strings.HasPrefix(l, "param:") || l == "nil" || l == "tnil" {
			return true
		}
	}
	return false
}

func (w *walker) fctIsRecv(v *Val) bool { return v != nil && v.only("fnType") }

// guard labels of the block of ins in c, and of every call site above it
func (w *walker) guardsOf(c *ctx, ins ssa.Instruction) map[string]bool {
	g := map[string]bool{}
	for c != nil && ins != nil {
		b := ins.Block()
		for a := b.Idom(); a != nil; a = a.Idom() {
			if len(a.Instrs) == 0 {
				continue
			}
			iff, ok := a.Instrs[len(a.Instrs)-1].(*ssa.If)
			if !ok || a.Succs[0] == a.Succs[1] {
				continue
			}
			for si := 0; si < 2; si++ {
				s := a.Succs[si]
				if len(s.Preds) == 1 && (s == b || s.Dominates(b)) {
					for l := range w.eval(c, iff.Cond).org {
						if si == 1 {
							l = negLabel(l)
						}
						g[l] = true
					}
				}
			}
		}
		ins, c = c.site, c.parent
	}
	return g
}

func guardClass(g map[string]bool) string {
	var ps []string
	for l := range g {
		if strings.HasPrefix(l, "param:") {
			ps = append(ps, l)
		}
	}
	sort.Strings(ps)
	if len(ps) > 0 {
		return ".boolParam " + strings.TrimPrefix(ps[0], "param:")
	}
	if g["lenpos"] {
		return ".lenFilters"
	}
	return ".none"
}

func chainOf(c *ctx, ins ssa.Instruction) []ssa.Instruction {
	var out []ssa.Instruction
	for c != nil && ins != nil {
		out = append([]ssa.Instruction{ins}, out...)
		ins, c = c.site, c.parent
	}
	return out
}

func reaches(from, to *ssa.BasicBlock) bool {
	seen := map[*ssa.BasicBlock]bool{}
	var dfs func(b *ssa.BasicBlock) bool
	dfs = func(b *ssa.BasicBlock) bool {
		for _, s := range b.Succs {
			if s == to {
				return true
			}
			if !seen[s] {
				seen[s] = true
				if dfs(s) {
					return true
				}
			}
		}
		return false
	}
	return dfs(from)
}

// a is before b in every execution that runs both (same function): b is reachable from a and a is not from b
func before(a, b ssa.Instruction) bool {
	if a.Block() == b.Block() {
		ia, ib := -1, -1
		for i, x := range a.Block().Instrs {
			if x == a {
				ia = i
			}
			if x == b {
				ib = i
			}
		}
		return ia < ib && !reaches(a.Block(), a.Block())
	}
	return reaches(a.Block(), b.Block()) && !reaches(b.Block(), a.Block())
}

func orderOf(ca, cb []ssa.Instruction) string {
	for i := 0; i < len(ca) && i < len(cb); i++ {
		if ca[i] == cb[i] {
			continue
		}
		if ca[i].Parent() != cb[i].Parent() {
			return "?"
		}
		if before(ca[i], cb[i]) {
			return "ab"
		}
		if before(cb[i], ca[i]) {
			return "ba"
		}
		return "?"
	}
	return "?"
}

// ---------------------------------------------------------------------------------------------- main

func fatal(f string, a ...any) {
	fmt.Fprintf(os.Stderr, "cmdflow: "+f+"\n", a...)
	os.Exit(1)
}

type entry struct {
	name    string
	builder int
	fn      *ssa.Function
	sig     *types.Signature
}

func isAny(t types.Type) bool {
	i, ok := t.Underlying().(*types.Interface)
	return ok && i.NumMethods() == 0
}
func isBool(t types.Type) bool {
	b, ok := t.Underlying().(*types.Basic)
	return ok && b.Kind() == types.Bool
}

func shapeOf(sig *types.Signature) int {
	s := ""
	for i := 0; i < sig.Params().Len(); i++ {
		switch t := sig.Params().At(i).Type(); {
		case isAny(t):
			s += "a"
		case isBool(t):
			s += "b"
		default:
			s += "?"
		}
	}
	switch s {
	case "aa":
		return 0
	case "b":
		return 1
	case "aaba":
		return 2
	}
	return -1
}

func b2s(b bool) string {
	if b {
		return "true"
	}
	return "false"
}

func main() {
	out := flag.String("out", "", "output directory (lean/Spine/Generated)")
	dump := flag.Bool("dump", false, "print the events")
	flag.Parse()
	if *out == "" {
		fmt.Fprintln(os.Stderr, "usage: cmdflow -out <dir>")
		os.Exit(2)
	}
	repo := os.Getenv("VERIF_REPO")
	if repo == "" {
		repo = "/repo"
	}
	cfg := &packages.Config{Mode: packages.LoadAllSyntax, Dir: repo, BuildFlags: []string{"-tags=verif"},
		Env: append(os.Environ(), "GOFLAGS=-mod=mod", "GOPROXY=off", "GOSUMDB=off", "GOTOOLCHAIN=local")}
	pkgs, err := packages.Load(cfg, "./spine", "./model", "./api", "./util")
	if err != nil {
		fatal("load: %v", err)
	}
	if packages.PrintErrors(pkgs) > 0 {
		os.Exit(1)
	}
	prog, spkgs := ssautil.AllPackages(pkgs, ssa.BuilderMode(0))
	prog.Build()
	var spine, api, model *ssa.Package
	for _, p := range spkgs {
		if p == nil {
			continue
		}
		switch p.Pkg.Path() {
		case modPrefix + "spine":
			spine = p
		case modPrefix + "api":
			api = p
		case modPrefix + "model":
			model = p
		}
	}
	if spine == nil || api == nil || model == nil {
		fatal("packages spine / api / model not found")
	}
	w := &walker{prog: prog, objs: map[string]*Obj{}, ctxs: map[string]*ctx{}, events: map[string]*event{}, unknown: map[string]bool{}}

	// the model API: FilterType.CmdControl, CmdControlType.Delete / .Partial
	fieldIdx := func(typ, field string) int {
		tn, ok := model.Members[typ].(*ssa.Type)
		if !ok {
			fatal("model.%s not found", typ)
		}
		st, ok := tn.Type().Underlying().(*types.Struct)
		if !ok {
			fatal("model.%s is no struct", typ)
		}
		for i := 0; i < st.NumFields(); i++ {
			if st.Field(i).Name() == field {
				return i
			}
		}
		fatal("model.%s has no field %s", typ, field)
		return -1
	}
	w.ccIdx, w.delIdx, w.partIdx = fieldIdx("FilterType", "CmdControl"), fieldIdx("CmdControlType", "Delete"), fieldIdx("CmdControlType", "Partial")

	// entry points: the methods of api.FunctionDataCmdInterface whose result is model.CmdType, on every type of
	// package spine whose pointer implements the interface (generic types are instantiated for `int`)
	itn, ok := api.Members["FunctionDataCmdInterface"].(*ssa.Type)
	if !ok {
		fatal("api.FunctionDataCmdInterface not found")
	}
	iface, ok := itn.Type().Underlying().(*types.Interface)
	if !ok {
		fatal("api.FunctionDataCmdInterface is no interface")
	}
	var mnames []string
	for i := 0; i < iface.NumMethods(); i++ {
		m := iface.Method(i)
		sig := m.Type().(*types.Signature)
		if sig.Results().Len() == 1 && isModelNamed(sig.Results().At(0).Type(), "CmdType") {
			mnames = append(mnames, m.Name())
		}
	}
	sort.Strings(mnames)
	var entries []entry
	var impls []string
	var tnames []string
	for n := range spine.Members {
		tnames = append(tnames, n)
	}
	sort.Strings(tnames)
	for _, n := range tnames {
		tn, ok := spine.Members[n].(*ssa.Type)
		if !ok {
			continue
		}
		named, ok := tn.Type().(*types.Named)
		if !ok {
			continue
		}
		if _, isI := named.Underlying().(*types.Interface); isI {
			continue
		}
		var inst types.Type = named
		if named.TypeParams().Len() > 0 {
			targs := make([]types.Type, named.TypeParams().Len())
			for i := range targs {
				targs[i] = types.Typ[types.Int]
			}
			it, err := types.Instantiate(nil, named, targs, false)
			if err != nil {
				continue
			}
			inst = it
		}
		if !types.Implements(types.NewPointer(inst), iface) {
			continue
		}
		impls = append(impls, n)
		for _, mn := range mnames {
			obj, _, _ := types.LookupFieldOrMethod(types.NewPointer(inst), true, spine.Pkg, mn)
			f, ok := obj.(*types.Func)
			if !ok {
				fatal("method %s of %s not found", mn, n)
			}
			sf := prog.FuncValue(f.Origin())
			if sf == nil || len(sf.Blocks) == 0 {
				fatal("no SSA body for %s.%s", n, mn)
			}
			sig := f.Origin().Type().(*types.Signature)
			bi := shapeOf(sig)
			if bi < 0 {
				w.unknown[fmt.Sprintf("builder %s: signature shape %s not known", mn, sig.Params().String())] = true
				continue
			}
			entries = append(entries, entry{name: mn, builder: bi, fn: sf, sig: sig})
		}
	}
	if len(entries) == 0 {
		fatal("no implementation of api.FunctionDataCmdInterface in package spine")
	}

	for _, e := range entries {
		recvT := deref(e.fn.Signature.Recv().Type())
		ro := &Obj{name: "recv", recv: true, typ: recvT, c: &Val{}, kids: map[int]*Obj{}, marks: map[string]bool{}}
		params := []*Val{{ptr: map[*Obj]bool{ro: true}}}
		for i := 0; i < e.sig.Params().Len(); i++ {
			params = append(params, lab(fmt.Sprintf("param:%d", i)))
		}
		key := "E" + e.name + "@" + e.fn.String()
		c := &ctx{key: key, fn: e.fn, builder: e.builder, params: params, vals: map[ssa.Value]*Val{},
			reach: map[*ssa.BasicBlock]bool{}, edge: map[[2]int]bool{}, ret: &Val{}}
		w.ctxs[key] = c
		for it := 0; it < 200; it++ {
			w.changed = false
			w.analyze(c)
			if !w.changed {
				break
			}
			if it == 199 {
				w.unknown["no fixed point for "+e.name] = true
			}
		}
	}

	// ------------------------------------------------------------------ facts
	var ekeys []string
	for k := range w.events {
		ekeys = append(ekeys, k)
	}
	sort.Strings(ekeys)
	filterRows, dataRows, nilRows, fnRows, fstRows, ordRows := map[string]bool{}, map[string]bool{}, map[string]bool{}, map[string]bool{}, map[string]bool{}, map[string]bool{}
	byRef := false
	type app struct {
		builder int
		kind    int
		chain   []ssa.Instruction
	}
	var apps []app
	pos := func(e *event) string {
		p := prog.Fset.Position(e.ins.Pos())
		return fmt.Sprintf("%s:%d", filepath.Base(p.Filename), p.Line)
	}
	for _, k := range ekeys {
		e := w.events[k]
		// an event in a block that the final state does not reach cannot happen; events are only recorded in reached blocks
		switch e.kind {
		case "filterSink":
			tag := 0
			if len(e.a.org) == 1 {
				switch sortedKeys(e.a.org)[0] {
				case `const:"selector"`:
					tag = 1
				case `const:"elements"`:
					tag = 2
				}
			}
			if tag == 0 {
				w.unknown[fmt.Sprintf("filter tag not a single known constant at %s: %v", pos(e), sortedKeys(e.a.org))] = true
			}
			del, part := false, false
			for o := range e.recv.ptr {
				d, p := w.kindOfObj(o)
				del, part = del || d, part || p
			}
			kind := kindNum(del, part)
			if kind == 0 {
				w.unknown[fmt.Sprintf("filter kind (delete/partial) not resolved at %s: delete=%v partial=%v", pos(e), del, part)] = true
			}
			for _, cl := range w.dataClasses(e.b) {
				switch {
				case cl == "nil":
					// the constant nil reaches the sink only on paths the nil test excludes at run time; no parameter flow
					w.unknown[fmt.Sprintf("constant nil reaches FilterType.SetDataForFunction at %s", pos(e))] = true
				case strings.HasPrefix(cl, "param:"):
					filterRows[fmt.Sprintf("⟨%d, %d, %d, %s, false, %s⟩", e.c.builder, kind, tag, strings.TrimPrefix(cl, "param:"), b2s(w.fctIsRecv(e.fct)))] = true
				case strings.HasPrefix(cl, "ref:param:"):
					byRef = true
					filterRows[fmt.Sprintf("⟨%d, %d, %d, %s, true, %s⟩", e.c.builder, kind, tag, strings.TrimPrefix(cl, "ref:param:"), b2s(w.fctIsRecv(e.fct)))] = true
				default:
					w.unknown[fmt.Sprintf("data of FilterType.SetDataForFunction at %s: %s", pos(e), cl)] = true
				}
			}
		case "cmdSink":
			for _, cl := range w.dataClasses(e.b) {
				o := ""
				switch {
				case cl == "nil":
					o = ".nil"
				case cl == "stored":
					o = ".stored"
				case strings.HasPrefix(cl, "param:"):
					o = ".param " + strings.TrimPrefix(cl, "param:")
				default:
					w.unknown[fmt.Sprintf("data of CmdType.SetDataForFunction at %s: %s", pos(e), cl)] = true
					continue
				}
				dataRows[fmt.Sprintf("⟨%d, %s, %s⟩", e.c.builder, o, b2s(w.fctIsRecv(e.fct)))] = true
			}
		case "isnil":
			for l := range e.a.org {
				if strings.HasPrefix(l, "param:") {
					nilRows[fmt.Sprintf("(%d, %s)", e.c.builder, strings.TrimPrefix(l, "param:"))] = true
				}
			}
		case "store":
			g := guardClass(w.guardsOf(e.c, e.ins))
			if e.field == "Function" {
				cls := map[string]bool{}
				for o := range e.a.ptr {
					w.recvInit(o)
					for l := range o.c.org {
						cls[l] = true
					}
				}
				for l := range e.a.org {
					cls["direct:"+l] = true
				}
				for _, l := range sortedKeys(cls) {
					switch l {
					case `const:""`:
						fnRows[fmt.Sprintf("⟨%d, %s, .empty⟩", e.c.builder, g)] = true
					case "fnType":
						fnRows[fmt.Sprintf("⟨%d, %s, .fnType⟩", e.c.builder, g)] = true
					default:
						w.unknown[fmt.Sprintf("value stored to CmdType.Function at %s: %s", pos(e), l)] = true
					}
				}
				if len(cls) == 0 {
					w.unknown[fmt.Sprintf("value stored to CmdType.Function at %s not resolved", pos(e))] = true
				}
			} else {
				del, part, data, any := false, false, false, false
				for o := range e.a.ptr {
					el := o.kids[-1]
					if el == nil {
						continue
					}
					any = true
					d, p := w.kindOfObj(el)
					del, part = del || d, part || p
					if len(el.marks) > 0 {
						data = true
					}
				}
				if e.a.only("nil") {
					continue // `cmd.Filter = nil`: nothing stored
				}
				if !any {
					w.unknown[fmt.Sprintf("value stored to CmdType.Filter at %s not resolved", pos(e))] = true
				}
				fstRows[fmt.Sprintf("⟨%d, %s, %s, %s, %s⟩", e.c.builder, g, b2s(del), b2s(part), b2s(data))] = true
			}
		case "append":
			del, part, any := false, false, false
			for o := range e.a.ptr {
				if el := o.kids[-1]; el != nil {
					// only filters (elements that have a CmdControl location or data)
					d, p := w.kindOfObj(el)
					if d || p {
						any = true
					}
					del, part = del || d, part || p
				}
			}
			if any {
				apps = append(apps, app{e.c.builder, kindNum(del, part), chainOf(e.c, e.ins)})
			}
		}
		if *dump {
			fmt.Printf("EVENT %s builder=%d %s guards=%v\n", e.kind, e.c.builder, pos(e), sortedKeys(w.guardsOf(e.c, e.ins)))
		}
	}
	for i, a := range apps {
		for j, b := range apps {
			if i == j || a.builder != b.builder {
				continue
			}
			if a.kind == 0 {
				w.unknown[fmt.Sprintf("builder %d: an append adds filters of mixed kind", a.builder)] = true
			}
			if a.kind == 1 && b.kind == 2 {
				switch orderOf(a.chain, b.chain) {
				case "ab":
					ordRows[fmt.Sprintf("(%d, true)", a.builder)] = true
				case "ba":
					ordRows[fmt.Sprintf("(%d, false)", a.builder)] = true
				default:
					w.unknown[fmt.Sprintf("builder %d: order of the delete and the partial append not determined", a.builder)] = true
				}
			}
		}
	}

	var sb strings.Builder
	sb.WriteString("import Spine.CmdFlowTypes\n/- GENERATED by go/cmdflow from the tree under test - do not edit.\n   The static face of the command builders (C18): may-flow facts of an abstract interpretation of the SSA of\n   every api.FunctionDataCmdInterface method returning model.CmdType. builder: 0 = (any, any) read,\n   1 = (bool) reply, 2 = (any, any, bool, any) notify or write; parameters by position. -/\nnamespace Spine.Generated\nopen Spine.CmdFlow\n\n")
	list := func(doc, name, typ string, rows map[string]bool) {
		ks := sortedKeys(rows)
		fmt.Fprintf(&sb, "/-- %s -/\ndef %s : List %s := [", doc, name, typ)
		for i, k := range ks {
			if i > 0 {
				sb.WriteString(",")
			}
			sb.WriteString("\n  " + k)
		}
		if len(ks) > 0 {
			sb.WriteString("\n")
		}
		sb.WriteString("]\n\n")
	}
	// one row per (builder shape, method): a second implementing type adds facts, not rows
	ens := map[string]bool{}
	for _, e := range entries {
		ens[fmt.Sprintf("(%d, %q)", e.builder, e.name)] = true
	}
	en := sortedKeys(ens)
	fmt.Fprintf(&sb, "/-- entry points found: (builder, method of api.FunctionDataCmdInterface); implementing types: %s -/\ndef cmdFlowEntries : List (Nat × String) := [%s]\n\n", strings.Join(impls, ", "), strings.Join(en, ", "))
	list("F-filter: ⟨builder, kind (1 delete / 2 partial / 0 unresolved), tag (1 selector / 2 elements / 0 unresolved), parameter reaching `data`, handed over by address of an interface variable, fct is the receiver's function type⟩ per reachable (*model.FilterType).SetDataForFunction", "cmdFilterFlows", "FilterFlow", filterRows)
	fmt.Fprintf(&sb, "/-- some selectors / elements argument is handed to FilterType.SetDataForFunction as a `*interface{}` (defect deleteByRef) -/\ndef cmdFlowByRef : Bool := %s\n\n", b2s(byRef))
	list("F-data: ⟨builder, what reaches `data` of (*model.CmdType).SetDataForFunction, fct is the receiver's function type⟩", "cmdDataFlows", "DataFlow", dataRows)
	list("F-nil: (builder, parameter) reaching util.IsNil", "cmdNilTests", "(Nat × Nat)", nilRows)
	list("F-fn: ⟨builder, guard class, value class⟩ per store to the field Function of a model.CmdType", "cmdFnStores", "FnStore", fnRows)
	list("F-fn: ⟨builder, guard class, may hold a delete filter, may hold a partial filter, some filter carries data⟩ per store to the field Filter of a model.CmdType", "cmdFilterStores", "FilterStore", fstRows)
	list("F-order: (builder, the delete filter is appended strictly before the partial filter)", "cmdAppendOrder", "(Nat × Bool)", ordRows)
	uk := sortedKeys(w.unknown)
	sb.WriteString("/-- what the analysis could not resolve (must be empty) -/\ndef cmdFlowUnknown : List String := [")
	for i, u := range uk {
		if i > 0 {
			sb.WriteString(",")
		}
		fmt.Fprintf(&sb, "\n  %q", u)
	}
	if len(uk) > 0 {
		sb.WriteString("\n")
	}
	sb.WriteString("]\n\nend Spine.Generated\n")
	if err := os.MkdirAll(*out, 0o755); err != nil {
		fatal("%v", err)
	}
	if err := os.WriteFile(filepath.Join(*out, "CmdFlow.lean"), []byte(sb.String()), 0o644); err != nil {
		fatal("%v", err)
	}
	fmt.Printf("generated cmdflow: %d entry points, %d filter flows, %d data flows, %d Function stores, %d Filter stores, %d unresolved, %d contexts\n",
		len(entries), len(filterRows), len(dataRows), len(fnRows), len(fstRows), len(uk), len(w.ctxs))
}
