package h

// Jitter witness: a reference goroutine with its own ticker records when it actually runs. A real-time verdict of a
// harness (a deadline missed, a gap too long) is only meaningful if the machine kept time over the same window; the
// reference tells. One per process, started on first use.

import (
	"sort"
	"sync"
	"time"
)

const jitterPeriod = 2 * time.Millisecond

type jitter struct {
	mu    sync.Mutex
	ticks []time.Time
}

var (
	jit     *jitter
	jitOnce sync.Once
)

func startJitter() {
	jitOnce.Do(func() {
		jit = &jitter{ticks: []time.Time{time.Now()}}
		go func() {
			t := time.NewTicker(jitterPeriod)
			for range t.C {
				now := time.Now()
				jit.mu.Lock()
				jit.ticks = append(jit.ticks, now)
				if len(jit.ticks) > 400000 { // ~13 min
					jit.ticks = append([]time.Time{}, jit.ticks[200000:]...)
				}
				jit.mu.Unlock()
			}
		}()
	})
}

// JitterStart makes sure the reference runs (call at the start of a test that judges real time).
func JitterStart() { startJitter() }

// Lateness returns how late the reference goroutine ran at worst between a and b: the largest gap between two of
// its consecutive wake-ups that overlaps [a, b], minus its period (0 = the machine kept time).
func Lateness(a, b time.Time) time.Duration {
	startJitter()
	jit.mu.Lock()
	defer jit.mu.Unlock()
	tk := jit.ticks
	// first tick after a
	i := sort.Search(len(tk), func(i int) bool { return tk[i].After(a) })
	if i > 0 {
		i--
	}
	worst := time.Duration(0)
	last := tk[i]
	for _, t := range tk[i+1:] {
		if g := t.Sub(last) - jitterPeriod; g > worst {
			worst = g
		}
		last = t
		if t.After(b) {
			break
		}
	}
	if !last.After(b) {
		// the reference has not run since: the time up to b counts
		if g := b.Sub(last) - jitterPeriod; g > worst {
			worst = g
		}
	}
	return worst
}

// JitterStats: median, 99th percentile and maximum lateness of the reference since it started (for the evidence).
func JitterStats() (p50, p99, max time.Duration, n int) {
	startJitter()
	jit.mu.Lock()
	defer jit.mu.Unlock()
	var g []time.Duration
	for i := 1; i < len(jit.ticks); i++ {
		d := jit.ticks[i].Sub(jit.ticks[i-1]) - jitterPeriod
		if d < 0 {
			d = 0
		}
		g = append(g, d)
	}
	if len(g) == 0 {
		return
	}
	sort.Slice(g, func(i, j int) bool { return g[i] < g[j] })
	return g[len(g)/2], g[len(g)*99/100], g[len(g)-1], len(g)
}

// Kept returns how much time the reference goroutine has witnessed since a: the number of its wake-ups after a times
// its period. While the whole process is not running (a stalled VM, a starved container) the wall clock advances and
// Kept does not - a wait that must give OTHER goroutines of this process a fair chance is bounded in kept time, so
// that it cannot end because of a stall that hit those goroutines as well.
func Kept(a time.Time) time.Duration {
	startJitter()
	jit.mu.Lock()
	defer jit.mu.Unlock()
	tk := jit.ticks
	i := sort.Search(len(tk), func(i int) bool { return tk[i].After(a) })
	return time.Duration(len(tk)-i) * jitterPeriod
}
