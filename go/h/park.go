package h

// Schedule driver for the `verif` yield points: a harness goroutine started
// with Go() parks at the named sites of spine.VerifYield and is released by
// the harness in the order of the model's event list. Goroutines that were not
// started through Go() (timers, heartbeat streams, other worlds) pass through
// the yield points untouched, so several worlds can run in parallel.

import (
	"runtime"
	"strconv"
	"strings"
	"sync"
	"time"

	"github.com/enbility/spine-go/spine"
)

// GoID returns the id of the calling goroutine (parsed from the stack header;
// harness use only).
func GoID() uint64 {
	var b [64]byte
	n := runtime.Stack(b[:], false)
	s := strings.TrimPrefix(string(b[:n]), "goroutine ")
	if i := strings.IndexByte(s, ' '); i > 0 {
		s = s[:i]
	}
	id, _ := strconv.ParseUint(s, 10, 64)
	return id
}

// Task is one operation of the real code running in its own goroutine.
type Task struct {
	sites   map[string]bool
	parked  chan string   // the site it parked at
	release chan struct{} // one token per release
	done    chan struct{}
	Panic   any // recovered panic value of the operation, valid after done
	At      string
}

var (
	parkTasks   sync.Map // goroutine id -> *Task
	parkInstall sync.Once
)

// InstallYield sets spine.VerifYield to the dispatcher (once per process).
func InstallYield() {
	parkInstall.Do(func() {
		spine.VerifYield = func(site string) {
			v, ok := parkTasks.Load(GoID())
			if !ok {
				return
			}
			t := v.(*Task)
			if !t.sites[site] {
				return
			}
			t.parked <- site
			<-t.release
		}
	})
}

// Go runs f in a new goroutine that parks at the given yield sites.
// A panic of f is recovered and stored in Task.Panic.
func Go(f func(), sites ...string) *Task {
	InstallYield()
	t := &Task{sites: map[string]bool{}, parked: make(chan string, 1), release: make(chan struct{}, 1), done: make(chan struct{})}
	for _, s := range sites {
		t.sites[s] = true
	}
	started := make(chan struct{})
	go func() {
		id := GoID()
		parkTasks.Store(id, t)
		close(started)
		defer func() {
			t.Panic = recover()
			parkTasks.Delete(id)
			close(t.done)
		}()
		f()
	}()
	<-started
	return t
}

// Wait blocks until the task parks (site, false, true), finishes ("", true,
// true) or the bound expires ("", false, false: the goroutine is blocked
// somewhere else, e.g. on a lock held by a parked goroutine).
func (t *Task) Wait(bound time.Duration) (site string, done bool, ok bool) {
	select {
	case s := <-t.parked:
		t.At = s
		return s, false, true
	case <-t.done:
		t.At = ""
		return "", true, true
	case <-time.After(bound):
		return "", false, false
	}
}

// Release lets a parked task continue (to its next park or to its end).
func (t *Task) Release() {
	t.At = ""
	t.release <- struct{}{}
}

// Finish releases the task until it is done (bounded); reports whether it ended.
func (t *Task) Finish(bound time.Duration) bool {
	dead := time.Now().Add(bound)
	for time.Now().Before(dead) {
		if t.At != "" {
			t.Release()
		}
		_, done, ok := t.Wait(time.Until(dead))
		if done {
			return true
		}
		if !ok {
			return false
		}
	}
	return false
}

// IsDone reports whether the task has ended (non-blocking).
func (t *Task) IsDone() bool {
	select {
	case <-t.done:
		return true
	default:
		return false
	}
}
