package h

// Float expressions recovered from the source of NewScaledNumberType / GetValue by the translator generator
// `scaledexpr` (C19): the harness evaluates the RECOVERED trees with the operations of the Go runtime instead of
// re-typing the expressions, the Lean side evaluates the same trees over Spine.Num.

import (
	"fmt"
	"math"
	"strconv"
	"strings"
)

// FExpr: op = param | number | scale | decimals | const | float | neg | mul | div | pow
//   param    the float64 parameter of NewScaledNumberType
//   number   *m.Number, scale  *m.Scale (integers), decimals  the capped count of fractional digits (integer)
//   const    an integer constant (C), float  conversion of an integer expression to float64 (X)
//   neg X, mul L R, div L R, pow L R (math.Pow)
type FExpr struct {
	Op string `json:"op"`
	C  int64  `json:"c,omitempty"`
	X  *FExpr `json:"x,omitempty"`
	L  *FExpr `json:"l,omitempty"`
	R  *FExpr `json:"r,omitempty"`
}

// ScaledSrc is what the generator recovered (Known = everything was recovered AND reproduces the compiled code on the
// generator's sample).
type ScaledSrc struct {
	Known    bool   `json:"known"`
	FmtVerb  int    `json:"fmtVerb"`
	FmtPrec  int    `json:"fmtPrec"`
	FmtBits  int    `json:"fmtBits"`
	Cap      int    `json:"cap"`
	RoundFn  string `json:"roundFn"`
	Product  *FExpr `json:"product"`
	GetNeg   *FExpr `json:"getNeg"`
	GetNon   *FExpr `json:"getNonneg"`
	Why      string `json:"why,omitempty"`
}

type FEnv struct {
	Param    float64
	Number   int64
	Scale    int64
	Decimals int64
}

// Decimals: the count of fractional digits of strconv.FormatFloat(v, verb, prec, bits), capped
func (s *ScaledSrc) Decimals(v float64) int {
	t := strconv.FormatFloat(v, byte(s.FmtVerb), s.FmtPrec, s.FmtBits)
	n := 0
	if i := strings.IndexByte(t, '.'); i >= 0 {
		n = len(t) - i - 1
	}
	if n > s.Cap {
		n = s.Cap
	}
	return n
}

// Eval: the value of a float-typed expression; integer-typed subexpressions through evalInt
func (e *FExpr) Eval(env FEnv) (float64, error) {
	if e == nil {
		return 0, fmt.Errorf("nil expression")
	}
	switch e.Op {
	case "param":
		return env.Param, nil
	case "const":
		return float64(e.C), nil
	case "float":
		i, err := e.X.evalInt(env)
		return float64(i), err
	case "neg":
		x, err := e.X.Eval(env)
		return -x, err
	case "mul", "div", "pow":
		l, err := e.L.Eval(env)
		if err != nil {
			return 0, err
		}
		r, err := e.R.Eval(env)
		if err != nil {
			return 0, err
		}
		switch e.Op {
		case "mul":
			return l * r, nil
		case "div":
			return l / r, nil
		}
		return math.Pow(l, r), nil
	}
	return 0, fmt.Errorf("not a float expression: %s", e.Op)
}

func (e *FExpr) evalInt(env FEnv) (int64, error) {
	if e == nil {
		return 0, fmt.Errorf("nil expression")
	}
	switch e.Op {
	case "number":
		return env.Number, nil
	case "scale":
		return env.Scale, nil
	case "decimals":
		return env.Decimals, nil
	case "const":
		return e.C, nil
	case "neg":
		x, err := e.X.evalInt(env)
		return -x, err
	}
	return 0, fmt.Errorf("not an integer expression: %s", e.Op)
}

// Lean renders the tree as a term of Spine.FExpr.
func (e *FExpr) Lean() string {
	if e == nil {
		return ".bad"
	}
	switch e.Op {
	case "param", "number", "scale", "decimals":
		return "." + e.Op
	case "const":
		if e.C < 0 {
			return fmt.Sprintf("(.const (%d))", e.C)
		}
		return fmt.Sprintf("(.const %d)", e.C)
	case "float":
		return "(.floatOf " + e.X.Lean() + ")"
	case "neg":
		return "(.neg " + e.X.Lean() + ")"
	case "mul", "div", "pow":
		return "(." + e.Op + " " + e.L.Lean() + " " + e.R.Lean() + ")"
	}
	return ".bad"
}
