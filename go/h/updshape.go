package h

// Shape and wiring facts of the list types that implement model.Updater
// (DESIGN §5, G3 and G4). Shared by the translator (which prints them as Lean
// tables) and by the C02 harness (which sends the shape to the model driver
// and builds concrete values from it), so that both see the same facts.

import (
	"fmt"
	"go/ast"
	"go/parser"
	"go/printer"
	"go/token"
	"path/filepath"
	"reflect"
	"runtime"
	"sort"
	"strings"

	"github.com/enbility/spine-go/model"
)

// What a field of a selectors struct is, by the types of the selector field and of the item field of the same
// name (facts of the data model; twin of Spine.Tables.SelType).
const (
	SelTIgnored   = "ignored"   // the selector field is not a pointer, or the item has no field of that name
	SelTScalar    = "scalar"    // same pointer-to-scalar type as the item field
	SelTOtherType = "othertype" // the item field is a pointer of another type
	SelTNonPtr    = "nonptr"    // the item field is not a pointer (a slice)
	SelTStruct    = "struct"    // same pointer-to-struct type, comparable with ==
	SelTStructNC  = "structnc"  // same pointer-to-struct type, not comparable with == (holds a slice)
)

// How FilterData.SelectorMatch of the tree under test treats a selector field (SelKind, set by Resolve from the
// type of the field and the probed UpdSelFacts).
const (
	SelIgnored       = "ignored"        // skipped by the code
	SelEq            = "eq"             // compared by value with the item field: matches when equal
	SelNever         = "never"          // compared, but can never be equal (other type; struct holding pointers under !=)
	SelPanics        = "panics"         // SelectorMatch panics whatever the item holds
	SelAbsent        = "absent"         // never matches and never panics (non-pointer item field behind the nil check)
	SelPresentPanics = "present-panics" // no match when the item field is nil, panic when it is present (non-comparable struct under != behind the nil check)
)

// UpdSelFacts: how SelectorMatch of the tree under test behaves (probed on the real code; twin of Spine.Tables.SelFacts).
type UpdSelFacts struct {
	NilPanics  bool // the selected item field is nil or not a pointer: panic (true) / no match (false)
	StructDeep bool // struct-typed values are compared deeply (reflect.DeepEqual) / with != (false)
}

type UpdKey struct {
	Idx  int
	Kind string // uint | str | struct
}

type UpdShape struct {
	Name      string       // list struct type, e.g. LoadControlLimitListDataType
	Fct       string       // function name from the CmdType tag
	CmdField  string       // field of model.CmdType
	ListT     reflect.Type // the list struct
	ListField string       // its slice field
	ItemT     reflect.Type // element type of the slice
	Scalar    bool         // items are not structs (SpecificationVersionListDataType)
	N         int
	Fields    []string // item field names
	Kinds     []string // per item field: uint | str | bool | struct | slice
	Keys      []UpdKey
	Flag      int // index of the single writecheck field, -1 if none
	SelField  string
	SelT      reflect.Type // selectors struct (nil when the FilterType has no field for the function)
	SelNames  []string
	SelIdx    []int    // per selector field: item field of the same name, -1 = none or ignored (type fact)
	SelType   []string // per selector field: SelT* above (type fact)
	SelMap    []int    // per selector field: entry of the model's selMap (set by Resolve; twin of Spine.Tables.selEntryFor)
	SelKind   []string // per selector field: Sel* above (set by Resolve)
	ElField   string
	ElT       reflect.Type // elements struct (nil when absent)
	ElN       int
	ElMap     []int // per elements field: item field index, -1 = none
	Problems  []string
}

func kindName(t reflect.Type) string {
	switch t.Kind() {
	case reflect.Ptr:
		switch t.Elem().Kind() {
		case reflect.Uint, reflect.Uint8, reflect.Uint16, reflect.Uint32, reflect.Uint64,
			reflect.Int, reflect.Int8, reflect.Int16, reflect.Int32, reflect.Int64:
			return "uint"
		case reflect.String:
			return "str"
		case reflect.Bool:
			return "bool"
		case reflect.Struct:
			return "struct"
		}
	case reflect.Slice:
		return "slice"
	}
	return "other:" + t.String()
}

// UpdShapes lists every payload type of model.CmdType whose pointer
// implements model.Updater, in the order of the CmdType fields.
func UpdShapes() []*UpdShape {
	ct := reflect.TypeOf(model.CmdType{})
	ft := reflect.TypeOf(model.FilterType{})
	upd := reflect.TypeOf((*model.Updater)(nil)).Elem()
	type ff struct {
		name string
		t    reflect.Type
	}
	sels, els := map[string][]ff{}, map[string][]ff{}
	for i := 0; i < ft.NumField(); i++ {
		f := ft.Field(i)
		if f.Type.Kind() != reflect.Ptr || f.Type.Elem().Kind() != reflect.Struct {
			continue
		}
		tg := model.EEBusTags(f)
		fct := tg[model.EEBusTagFunction]
		if fct == "" {
			continue
		}
		switch tg[model.EEBusTagType] {
		case string(model.EEBusTagTypeTypeSelector):
			sels[fct] = append(sels[fct], ff{f.Name, f.Type.Elem()})
		case string(model.EEbusTagTypeTypeElements):
			els[fct] = append(els[fct], ff{f.Name, f.Type.Elem()})
		}
	}
	var out []*UpdShape
	for i := 0; i < ct.NumField(); i++ {
		f := ct.Field(i)
		if f.Type.Kind() != reflect.Ptr || f.Type.Elem().Kind() != reflect.Struct || !f.Type.Implements(upd) {
			continue
		}
		st := f.Type.Elem()
		s := &UpdShape{Name: st.Name(), Fct: model.EEBusTags(f)[model.EEBusTagFunction], CmdField: f.Name, ListT: st, Flag: -1}
		out = append(out, s)
		// the list field: the only slice field
		for j := 0; j < st.NumField(); j++ {
			if st.Field(j).Type.Kind() == reflect.Slice {
				if s.ListField != "" {
					s.Problems = append(s.Problems, "more than one slice field")
				}
				s.ListField = st.Field(j).Name
				s.ItemT = st.Field(j).Type.Elem()
			}
		}
		if s.ItemT == nil {
			s.Problems = append(s.Problems, "no slice field")
			continue
		}
		if s.ItemT.Kind() != reflect.Struct {
			s.Scalar = true
			continue
		}
		it := s.ItemT
		s.N = it.NumField()
		nflag := 0
		for k := 0; k < it.NumField(); k++ {
			sf := it.Field(k)
			s.Fields = append(s.Fields, sf.Name)
			kn := kindName(sf.Type)
			s.Kinds = append(s.Kinds, kn)
			if strings.HasPrefix(kn, "other") {
				s.Problems = append(s.Problems, "field "+sf.Name+" of kind "+kn)
			}
			tg := model.EEBusTags(sf)
			if _, ok := tg[model.EEBusTagKey]; ok && sf.Type.Kind() == reflect.Ptr {
				// hashKey switches on the exact kinds String, Uint, Struct
				switch sf.Type.Elem().Kind() {
				case reflect.Uint:
					s.Keys = append(s.Keys, UpdKey{k, "uint"})
				case reflect.String:
					s.Keys = append(s.Keys, UpdKey{k, "str"})
				case reflect.Struct:
					s.Keys = append(s.Keys, UpdKey{k, "struct"})
					if _, ok := reflect.New(sf.Type.Elem()).Interface().(model.UpdateHelper); !ok {
						s.Problems = append(s.Problems, "struct key "+sf.Name+" is no UpdateHelper")
					}
				default:
					s.Problems = append(s.Problems, "key "+sf.Name+" of kind "+sf.Type.Elem().Kind().String())
				}
			}
			if _, ok := tg[model.EEBusTagWriteCheck]; ok && sf.Type.Kind() == reflect.Ptr {
				nflag++
				s.Flag = k
				if sf.Type.Elem().Kind() != reflect.Bool {
					s.Problems = append(s.Problems, "writecheck field "+sf.Name+" is not a bool")
				}
			}
		}
		if nflag > 1 {
			s.Problems = append(s.Problems, "more than one writecheck field")
			s.Flag = -1
		}
		if c := sels[s.Fct]; len(c) > 0 {
			if len(c) > 1 {
				s.Problems = append(s.Problems, "more than one selectors field in FilterType")
			}
			s.SelField, s.SelT = c[0].name, c[0].t
			for k := 0; k < s.SelT.NumField(); k++ {
				ef := s.SelT.Field(k)
				s.SelNames = append(s.SelNames, ef.Name)
				itf, ok := it.FieldByName(ef.Name)
				idx := -1
				if ok {
					idx = itf.Index[0]
				}
				switch {
				case ef.Type.Kind() != reflect.Ptr || !ok:
					s.SelIdx, s.SelType = append(s.SelIdx, -1), append(s.SelType, SelTIgnored)
				case itf.Type.Kind() != reflect.Ptr:
					s.SelIdx, s.SelType = append(s.SelIdx, idx), append(s.SelType, SelTNonPtr)
				case itf.Type != ef.Type:
					s.SelIdx, s.SelType = append(s.SelIdx, idx), append(s.SelType, SelTOtherType)
				case ef.Type.Elem().Kind() == reflect.Struct && !ef.Type.Elem().Comparable():
					s.SelIdx, s.SelType = append(s.SelIdx, idx), append(s.SelType, SelTStructNC)
				case ef.Type.Elem().Kind() == reflect.Struct:
					s.SelIdx, s.SelType = append(s.SelIdx, idx), append(s.SelType, SelTStruct)
				default:
					s.SelIdx, s.SelType = append(s.SelIdx, idx), append(s.SelType, SelTScalar)
				}
			}
		}
		if c := els[s.Fct]; len(c) > 0 {
			if len(c) > 1 {
				s.Problems = append(s.Problems, "more than one elements field in FilterType")
			}
			s.ElField, s.ElT = c[0].name, c[0].t
			s.ElN = s.ElT.NumField()
			for k := 0; k < s.ElT.NumField(); k++ {
				ef := s.ElT.Field(k)
				if itf, ok := it.FieldByName(ef.Name); ok {
					s.ElMap = append(s.ElMap, itf.Index[0])
				} else {
					s.ElMap = append(s.ElMap, -1)
				}
				if k := ef.Type.Kind(); k != reflect.Ptr && k != reflect.Slice && k != reflect.Map {
					s.Problems = append(s.Problems, "elements field "+ef.Name+" is never nil")
				}
			}
		}
	}
	return out
}

func optIdx(i int) string {
	if i < 0 {
		return "-"
	}
	return fmt.Sprint(i)
}

func joinIdx(l []int) string {
	if len(l) == 0 {
		return "."
	}
	var p []string
	for _, x := range l {
		p = append(p, optIdx(x))
	}
	return strings.Join(p, ",")
}

// Resolve sets SelMap and SelKind for a tree whose SelectorMatch behaves as f says.
// Twin of Spine.Tables.selEntryFor (the driver computes the model's selMap with the Lean function; the harness
// compares the two through the driver's `selmap?` op).
func (s *UpdShape) Resolve(f UpdSelFacts) {
	s.SelMap, s.SelKind = nil, nil
	for j, ty := range s.SelType {
		i := s.SelIdx[j]
		m, k := -1, SelIgnored
		switch ty {
		case SelTIgnored:
		case SelTScalar:
			m, k = i, SelEq
		case SelTOtherType:
			m, k = i, SelNever
		case SelTNonPtr:
			m, k = s.N, SelAbsent
			if f.NilPanics {
				k = SelPanics
			}
		case SelTStruct:
			m, k = i, SelNever
			if f.StructDeep {
				k = SelEq
			}
		case SelTStructNC:
			switch {
			case f.StructDeep:
				m, k = i, SelEq
			case f.NilPanics:
				m, k = s.N, SelPanics
			default:
				m, k = s.N+1+i, SelPresentPanics
			}
		}
		s.SelMap, s.SelKind = append(s.SelMap, m), append(s.SelKind, k)
	}
}

// Line is the `shape …` line of the drv_upd protocol (type facts only; the driver derives the model's selMap
// from them and the `cfg` flags).
func (s *UpdShape) Line() string {
	var ks []string
	for _, k := range s.Keys {
		ks = append(ks, fmt.Sprintf("%d:%s", k.Idx, k.Kind))
	}
	keys := "."
	if len(ks) > 0 {
		keys = strings.Join(ks, ",")
	}
	tys := "."
	if len(s.SelType) > 0 {
		tys = strings.Join(s.SelType, ",")
	}
	return fmt.Sprintf("shape n=%d keys=%s flag=%s selidx=%s seltypes=%s eln=%d elmap=%s", s.N, keys, optIdx(s.Flag), joinIdx(s.SelIdx), tys, s.ElN, joinIdx(s.ElMap))
}

// ---------- G4: wiring of the per-type UpdateList methods (go/ast)

type UpdWiring struct {
	Recv     string   // receiver type
	File     string   // base name of the source file
	Line     int      // line of the method
	Asserted string   // type in newList.(*T)
	Read     string   // field read from the asserted value
	Passed   string   // field of the receiver passed to the engine
	Args     []string // all arguments of the engine call, printed
	Assigned string   // field of the receiver that is assigned
	AssignRh string   // right-hand side of that assignment
	Guard    string   // condition of the if around the assignment ("" = unguarded)
	Ret      []string // returned expressions
	DataVar  string   // first result variable of the engine call
	OkVar    string   // second result variable of the engine call
	Extra    int      // statements of the body that fit none of the expected forms
}

// ModelDir is the directory the compiled-in model package was built from
// (the tree under test, whatever the replace directive points at).
func ModelDir() string {
	pc := reflect.ValueOf(model.NewFilterTypePartial).Pointer()
	file, _ := runtime.FuncForPC(pc).FileLine(pc)
	return filepath.Dir(file)
}

func exprStr(fset *token.FileSet, e ast.Expr) string {
	var sb strings.Builder
	printer.Fprint(&sb, fset, e)
	return strings.Join(strings.Fields(sb.String()), " ")
}

// UpdWirings parses every non-test file of the model package and extracts
// the wiring row of every method named UpdateList.
func UpdWirings(dir string) ([]UpdWiring, error) {
	fset := token.NewFileSet()
	files, err := filepath.Glob(filepath.Join(dir, "*.go"))
	if err != nil {
		return nil, err
	}
	sort.Strings(files)
	var rows []UpdWiring
	for _, fn := range files {
		if strings.HasSuffix(fn, "_test.go") {
			continue
		}
		f, err := parser.ParseFile(fset, fn, nil, 0)
		if err != nil {
			return nil, err
		}
		for _, d := range f.Decls {
			fd, ok := d.(*ast.FuncDecl)
			if !ok || fd.Name.Name != "UpdateList" || fd.Recv == nil || len(fd.Recv.List) != 1 || fd.Body == nil {
				continue
			}
			w := UpdWiring{File: filepath.Base(fn), Line: fset.Position(fd.Pos()).Line}
			recvName := ""
			if len(fd.Recv.List[0].Names) == 1 {
				recvName = fd.Recv.List[0].Names[0].Name
			}
			if st, ok := fd.Recv.List[0].Type.(*ast.StarExpr); ok {
				w.Recv = exprStr(fset, st.X)
			} else {
				w.Recv = exprStr(fset, fd.Recv.List[0].Type)
			}
			recvField := func(e ast.Expr) (string, bool) {
				se, ok := e.(*ast.SelectorExpr)
				if !ok {
					return "", false
				}
				id, ok := se.X.(*ast.Ident)
				if !ok || id.Name != recvName {
					return "", false
				}
				return se.Sel.Name, true
			}
			var walk func(stmts []ast.Stmt, guard string)
			walk = func(stmts []ast.Stmt, guard string) {
				for _, s := range stmts {
					switch s := s.(type) {
					case *ast.DeclStmt: // var newData []T
					case *ast.IfStmt:
						cond := exprStr(fset, s.Cond)
						if s.Init != nil || s.Else != nil {
							w.Extra++
						}
						g := cond
						if guard != "" {
							g = guard + " && " + cond
						}
						walk(s.Body.List, g)
					case *ast.AssignStmt:
						handled := false
						if len(s.Lhs) == 1 && len(s.Rhs) == 1 {
							// newData = newList.(*T).F
							if se, ok := s.Rhs[0].(*ast.SelectorExpr); ok {
								if ta, ok := se.X.(*ast.TypeAssertExpr); ok {
									t := ta.Type
									if st, ok := t.(*ast.StarExpr); ok {
										t = st.X
									}
									w.Asserted, w.Read = exprStr(fset, t), se.Sel.Name
									handled = true
								}
							}
							// r.F = data
							if fld, ok := recvField(s.Lhs[0]); ok {
								if w.Assigned != "" {
									w.Extra++
								}
								w.Assigned, w.AssignRh, w.Guard = fld, exprStr(fset, s.Rhs[0]), guard
								handled = true
							}
						}
						if len(s.Lhs) == 2 && len(s.Rhs) == 1 {
							// data, success := UpdateList(…)
							if call, ok := s.Rhs[0].(*ast.CallExpr); ok {
								fun := call.Fun
								if ix, ok := fun.(*ast.IndexExpr); ok {
									fun = ix.X
								}
								if id, ok := fun.(*ast.Ident); ok && id.Name == "UpdateList" {
									w.DataVar, w.OkVar = exprStr(fset, s.Lhs[0]), exprStr(fset, s.Lhs[1])
									for i, a := range call.Args {
										w.Args = append(w.Args, exprStr(fset, a))
										if i == 1 {
											if fld, ok := recvField(a); ok {
												w.Passed = fld
											}
										}
									}
									handled = true
								}
							}
						}
						if !handled {
							w.Extra++
						}
					case *ast.ReturnStmt:
						if w.Ret != nil {
							w.Extra++
						}
						w.Ret = []string{}
						for _, e := range s.Results {
							w.Ret = append(w.Ret, exprStr(fset, e))
						}
					default:
						w.Extra++
					}
				}
			}
			walk(fd.Body.List, "")
			rows = append(rows, w)
		}
	}
	sort.Slice(rows, func(i, j int) bool { return rows[i].Recv < rows[j].Recv })
	return rows, nil
}

// Defects lists what is wrong with a wiring row ("" entries never appear);
// empty = the method reads, passes and assigns one and the same list field,
// assigns only under success && persist, and returns the data.
// This is the Go twin of `wiringOK` in lean/Spine/C02Tables.lean.
func (w *UpdWiring) Defects(listField string) []string {
	var d []string
	if w.Asserted != w.Recv {
		d = append(d, "asserts-other-type")
	}
	if w.Read != listField || w.Passed != listField || w.Assigned != listField {
		d = append(d, "fields-differ")
	}
	wantArgs := []string{"remoteWrite", "r." + listField, "newData", "filterPartial", "filterDelete"}
	if strings.Join(w.Args, "\x00") != strings.Join(wantArgs, "\x00") {
		d = append(d, "engine-arguments")
	}
	if w.DataVar == "" || w.OkVar == "" {
		d = append(d, "engine-results")
	}
	if w.AssignRh != w.DataVar {
		d = append(d, "assigns-other-value")
	}
	if w.Guard != w.OkVar+" && persist" && w.Guard != "persist && "+w.OkVar {
		d = append(d, "assignment-guard")
	}
	if len(w.Ret) != 2 || w.Ret[0] != w.DataVar {
		d = append(d, "returns-other-than-data")
	}
	if len(w.Ret) == 2 && w.Ret[1] != w.OkVar {
		d = append(d, "returns-other-than-success")
	}
	if w.Extra > 0 {
		d = append(d, "unexpected-statements")
	}
	return d
}
