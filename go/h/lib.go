// Package h is the shared part of the correspondence harness: driver pipe,
// report, seeds, settle rule, in-memory SHIP writers, address helpers.
package h

import (
	"bufio"
	"encoding/json"
	"fmt"
	"io"
	"math/rand"
	"os"
	"os/exec"
	"path/filepath"
	"runtime"
	"sort"
	"strconv"
	"strings"
	"sync"
	"time"

	"github.com/enbility/spine-go/model"
	"github.com/enbility/spine-go/spine"
	"github.com/enbility/spine-go/util"
)

// ---------- environment

func Seed() int64 {
	if s := os.Getenv("VERIF_SEED"); s != "" {
		if v, err := strconv.ParseInt(s, 10, 64); err == nil {
			return v
		}
	}
	return 1
}

func Tier() string {
	if t := os.Getenv("VERIF_TIER"); t == "thorough" {
		return "thorough"
	}
	return "quick"
}

// Scale returns q in the quick tier and t in the thorough tier.
func Scale(q, t int) int {
	if Tier() == "thorough" {
		return t
	}
	return q
}

func Rng(salt int64) *rand.Rand { return rand.New(rand.NewSource(Seed()*1000003 + salt)) }

func DrvDir() string {
	if d := os.Getenv("VERIF_DRV_DIR"); d != "" {
		return d
	}
	return "/verif/lean/.lake/build/bin"
}

// ---------- Lean driver over a line protocol

type Driver struct {
	cmd  *exec.Cmd
	in   io.WriteCloser
	rd   *bufio.Reader
	name string
	Log  []string // lines sent since the last Mark
}

func StartDriver(name string, args ...string) *Driver {
	cmd := exec.Command(filepath.Join(DrvDir(), name), args...)
	in, err := cmd.StdinPipe()
	if err != nil {
		panic(err)
	}
	out, err := cmd.StdoutPipe()
	if err != nil {
		panic(err)
	}
	cmd.Stderr = os.Stderr
	if err := cmd.Start(); err != nil {
		panic(fmt.Sprintf("cannot start model driver %s: %v", name, err))
	}
	return &Driver{cmd: cmd, in: in, rd: bufio.NewReaderSize(out, 1<<20), name: name}
}

// Ask sends one op line and returns the model's one-line answer.
func (d *Driver) Ask(line string) string {
	d.Log = append(d.Log, line)
	if _, err := fmt.Fprintln(d.in, line); err != nil {
		panic(fmt.Sprintf("driver %s: write: %v", d.name, err))
	}
	type res struct {
		s   string
		err error
	}
	ch := make(chan res, 1)
	go func() {
		s, err := d.rd.ReadString('\n')
		ch <- res{s, err}
	}()
	select {
	case r := <-ch:
		if r.err != nil {
			panic(fmt.Sprintf("driver %s: read after %q: %v", d.name, line, r.err))
		}
		return strings.TrimSpace(r.s)
	case <-time.After(180 * time.Second):
		// the model driver answers in microseconds; the bound only has to end a genuinely dead pipe, and it must
		// not fire on a machine that is merely overloaded (a 30 s bound did once, at load average 90 on 16 cores)
		panic(fmt.Sprintf("driver %s: no answer to %q within 180s", d.name, line))
	}
}

// AskWithin is Ask with a caller-chosen timeout, for ops that make the model sweep a whole range
// (the 30 s of Ask are too tight for those on a loaded machine).
func (d *Driver) AskWithin(line string, timeout time.Duration) string {
	d.Log = append(d.Log, line)
	if _, err := fmt.Fprintln(d.in, line); err != nil {
		panic(fmt.Sprintf("driver %s: write: %v", d.name, err))
	}
	type res struct {
		s   string
		err error
	}
	ch := make(chan res, 1)
	go func() {
		s, err := d.rd.ReadString('\n')
		ch <- res{s, err}
	}()
	select {
	case r := <-ch:
		if r.err != nil {
			panic(fmt.Sprintf("driver %s: read after %q: %v", d.name, line, r.err))
		}
		return strings.TrimSpace(r.s)
	case <-time.After(timeout):
		panic(fmt.Sprintf("driver %s: no answer to %q within %v", d.name, line, timeout))
	}
}

func (d *Driver) Mark() { d.Log = d.Log[:0] }

func (d *Driver) Close() {
	d.in.Close()
	done := make(chan struct{})
	go func() { d.cmd.Wait(); close(done) }()
	select {
	case <-done:
	case <-time.After(5 * time.Second):
		d.cmd.Process.Kill()
	}
}

// ---------- report

type Mismatch struct {
	Ops   []string `json:"ops"`
	Impl  string   `json:"impl"`
	Model string   `json:"model"`
	Note  string   `json:"note,omitempty"`
}

// SpecFailure: the implementation's own behaviour contradicts the property
// on a concrete input (ops). Key identifies the defect class so that known
// findings can be told from new ones.
type SpecFailure struct {
	Key    string   `json:"key"`
	Ops    []string `json:"ops"`
	Detail string   `json:"detail"`
}

// Flag: one defect flag of the model family, probed on the real code.
type Flag struct {
	On      bool     `json:"on"`
	Witness []string `json:"witness,omitempty"`
	Detail  string   `json:"detail,omitempty"`
}

type Report struct {
	Component    string             `json:"component"`
	Seed         int64              `json:"seed"`
	Tier         string             `json:"tier"`
	Evaluations  int                `json:"evaluations"`
	Traces       int                `json:"traces_validated_against_impl"`
	Distinct     int                `json:"distinct_nontrivial"`
	Rule         string             `json:"rule"`
	Exhaustive   bool               `json:"exhaustive,omitempty"`
	Dist         map[string]int     `json:"dist"`
	Samples      []string           `json:"samples"`
	Mismatches   []Mismatch         `json:"mismatches"`
	MismatchN    int                `json:"mismatch_count"`
	SpecFailures []SpecFailure      `json:"spec_failures"`
	SpecFailN    map[string]int     `json:"spec_failure_counts"`
	Flags        map[string]Flag    `json:"flags"`
	Floors       map[string]string  `json:"floors,omitempty"`
	FloorFail    []string           `json:"floor_failures,omitempty"`
	Info         map[string]any     `json:"info,omitempty"`
	WallS        float64            `json:"wall_s"`
	mu           sync.Mutex
	distinct     map[string]struct{}
	t0           time.Time
}

func NewReport(component, rule string) *Report {
	return &Report{Component: component, Seed: Seed(), Tier: Tier(), Rule: rule, Dist: map[string]int{},
		SpecFailN: map[string]int{}, Flags: map[string]Flag{}, Floors: map[string]string{}, Info: map[string]any{},
		distinct: map[string]struct{}{}, t0: time.Now(), Mismatches: []Mismatch{}, SpecFailures: []SpecFailure{}, Samples: []string{}}
}

// Eval counts one evaluated case. kind feeds the input-distribution table;
// nontrivialKey, when non-empty, is the canonical text of a non-trivial case
// (distinct ones are counted).
func (r *Report) Eval(kind, nontrivialKey string) {
	r.mu.Lock()
	defer r.mu.Unlock()
	r.Evaluations++
	if kind != "" {
		r.Dist[kind]++
	}
	if nontrivialKey != "" {
		if _, ok := r.distinct[nontrivialKey]; !ok {
			r.distinct[nontrivialKey] = struct{}{}
			if len(r.Samples) < 6 && (len(r.distinct)%97 == 1 || len(r.Samples) == 0) {
				r.Samples = append(r.Samples, nontrivialKey)
			}
		}
	}
}

// Case counts one distinct non-trivial case (history, input) without
// counting an evaluation.
func (r *Report) Case(key string) {
	r.mu.Lock()
	defer r.mu.Unlock()
	if _, ok := r.distinct[key]; !ok {
		r.distinct[key] = struct{}{}
		if len(r.Samples) < 6 && (len(r.distinct)%53 == 1) {
			s := key
			if len(s) > 600 {
				s = s[:600] + " …"
			}
			r.Samples = append(r.Samples, s)
		}
	}
}

// ReplayOps returns the op list of the replay file named by $VERIF_REPLAY
// when it belongs to the given component, else nil.
func ReplayOps(component string) []string {
	f := os.Getenv("VERIF_REPLAY")
	if f == "" {
		return nil
	}
	b, err := os.ReadFile(f)
	if err != nil {
		panic(err)
	}
	var rp struct {
		Component string   `json:"component"`
		Ops       []string `json:"ops"`
	}
	if err := json.Unmarshal(b, &rp); err != nil {
		panic(err)
	}
	if rp.Component != component {
		return nil
	}
	if rp.Ops == nil {
		rp.Ops = []string{}
	}
	return rp.Ops
}

func (r *Report) Sample(s string) {
	r.mu.Lock()
	defer r.mu.Unlock()
	if len(r.Samples) < 8 {
		r.Samples = append(r.Samples, s)
	}
}

func (r *Report) Mismatch(ops []string, impl, mdl, note string) {
	r.mu.Lock()
	defer r.mu.Unlock()
	r.MismatchN++
	if len(r.Mismatches) < 5 {
		r.Mismatches = append(r.Mismatches, Mismatch{Ops: append([]string{}, ops...), Impl: impl, Model: mdl, Note: note})
	}
}

func (r *Report) SpecFail(key string, ops []string, detail string) {
	r.mu.Lock()
	defer r.mu.Unlock()
	r.SpecFailN[key]++
	if r.SpecFailN[key] <= 1 {
		r.SpecFailures = append(r.SpecFailures, SpecFailure{Key: key, Ops: append([]string{}, ops...), Detail: detail})
	} else {
		// keep the shortest witness per key
		for i := range r.SpecFailures {
			if r.SpecFailures[i].Key == key && len(ops) < len(r.SpecFailures[i].Ops) {
				r.SpecFailures[i] = SpecFailure{Key: key, Ops: append([]string{}, ops...), Detail: detail}
			}
		}
	}
}

func (r *Report) SetFlag(name string, on bool, witness []string, detail string) {
	r.mu.Lock()
	defer r.mu.Unlock()
	r.Flags[name] = Flag{On: on, Witness: witness, Detail: detail}
}

// Floor records a generator-quality floor: share = part/total must be >= min.
func (r *Report) Floor(name string, part, total int, min float64) {
	r.mu.Lock()
	defer r.mu.Unlock()
	share := 0.0
	if total > 0 {
		share = float64(part) / float64(total)
	}
	r.Floors[name] = fmt.Sprintf("%.3f (min %.3f, %d/%d)", share, min, part, total)
	if share < min {
		r.FloorFail = append(r.FloorFail, name)
	}
}

// Write stores the report where the check script expects it ($VERIF_OUT).
func (r *Report) Write() {
	r.mu.Lock()
	defer r.mu.Unlock()
	r.Distinct = len(r.distinct)
	r.WallS = time.Since(r.t0).Seconds()
	out := os.Getenv("VERIF_OUT")
	if out == "" {
		out = "/tmp/verif-report-" + r.Component + ".json"
	}
	b, _ := json.MarshalIndent(r, "", " ")
	if err := os.WriteFile(out, b, 0o644); err != nil {
		panic(err)
	}
	fmt.Printf("REPORT %s evaluations=%d distinct=%d mismatches=%d specfail=%v flags=%v\n", r.Component, r.Evaluations, r.Distinct, r.MismatchN, r.SpecFailN, flagSummary(r.Flags))
}

func flagSummary(f map[string]Flag) string {
	var k []string
	for n, v := range f {
		k = append(k, fmt.Sprintf("%s=%v", n, v.On))
	}
	sort.Strings(k)
	return strings.Join(k, ",")
}

// ---------- settle rule, writers, addresses

// Settle waits until asynchronous handlers have finished: the goroutine
// count is back at the baseline (bounded wait).
func Settle(base int) bool {
	t0 := time.Now()
	for time.Since(t0) < 3*time.Second {
		if runtime.NumGoroutine() <= base {
			// NumGoroutine is computed without stopping the world and can transiently
			// under-report under heavy goroutine churn: confirm on consecutive polls
			ok := true
			for i := 0; i < 3 && ok; i++ {
				runtime.Gosched()
				ok = runtime.NumGoroutine() <= base
			}
			if ok {
				return true
			}
			continue
		}
		runtime.Gosched()
		if time.Since(t0) > 2*time.Millisecond {
			time.Sleep(100 * time.Microsecond)
		}
	}
	return false
}

// Baseline measures the goroutine baseline at a quiescent point.
func Baseline() int {
	time.Sleep(30 * time.Millisecond)
	n := runtime.NumGoroutine()
	for i := 0; i < 20; i++ {
		time.Sleep(5 * time.Millisecond)
		if m := runtime.NumGoroutine(); m < n {
			n = m
		}
	}
	return n
}

// W is an in-memory SHIP writer that records every outbound message.
type W struct {
	Mu   sync.Mutex
	Msgs [][]byte
}

func (w *W) WriteShipMessageWithPayload(m []byte) {
	w.Mu.Lock()
	w.Msgs = append(w.Msgs, append([]byte{}, m...))
	w.Mu.Unlock()
}

func (w *W) Take() [][]byte {
	w.Mu.Lock()
	defer w.Mu.Unlock()
	m := w.Msgs
	w.Msgs = nil
	return m
}

func FA(dev string, ent []uint, f uint) *model.FeatureAddressType {
	return &model.FeatureAddressType{Device: util.Ptr(model.AddressDeviceType(dev)), Entity: spine.NewAddressEntityType(ent), Feature: util.Ptr(model.AddressFeatureType(f))}
}

func EntStr(e []model.AddressEntityType) string {
	var p []string
	for _, x := range e {
		p = append(p, strconv.Itoa(int(x)))
	}
	return strings.Join(p, ".")
}

func EntU(e []uint) string {
	var p []string
	for _, x := range e {
		p = append(p, strconv.Itoa(int(x)))
	}
	return strings.Join(p, ".")
}

func AddrS(a *model.FeatureAddressType) string {
	if a == nil || a.Feature == nil {
		return "nil"
	}
	return fmt.Sprintf("%s/%d", EntStr(a.Entity), *a.Feature)
}

func B2i(b bool) int {
	if b {
		return 1
	}
	return 0
}

// Recover runs f and returns the recovered panic value, if any.
func Recover(f func()) (pan any) {
	defer func() { pan = recover() }()
	f()
	return nil
}

// Shrink is a small delta-debugging minimiser: it returns a sub-list of ops on
// which fails still returns true (fails(ops) is assumed true). Bounded effort.
func Shrink(ops []string, fails func([]string) bool) []string {
	cur := append([]string{}, ops...)
	budget := 400
	// drop the tail after the failing point first
	for n := 2; len(cur) >= 2; {
		chunk := (len(cur) + n - 1) / n
		reduced := false
		for i := 0; i < len(cur) && budget > 0; i += chunk {
			j := i + chunk
			if j > len(cur) {
				j = len(cur)
			}
			cand := append(append([]string{}, cur[:i]...), cur[j:]...)
			budget--
			if len(cand) > 0 && fails(cand) {
				cur = cand
				reduced = true
				if n > 2 {
					n--
				}
				break
			}
		}
		if budget <= 0 {
			break
		}
		if !reduced {
			if chunk == 1 {
				break
			}
			n *= 2
			if n > len(cur) {
				n = len(cur)
			}
		}
	}
	return cur
}

// Quiet returns a throw-away report (for re-executions during shrinking).
func Quiet() *Report { return NewReport("shrink", "") }

// HasSpecFail tells whether key was reported.
func (r *Report) HasSpecFail(key string) bool {
	r.mu.Lock()
	defer r.mu.Unlock()
	return r.SpecFailN[key] > 0
}

// ReplaceSpecFailOps swaps the witness of a key for a smaller one.
func (r *Report) ReplaceSpecFailOps(key string, ops []string) {
	r.mu.Lock()
	defer r.mu.Unlock()
	for i := range r.SpecFailures {
		if r.SpecFailures[i].Key == key && len(ops) < len(r.SpecFailures[i].Ops) {
			r.SpecFailures[i].Ops = append([]string{}, ops...)
		}
	}
}

// ReplaceMismatchOps swaps the first mismatch's op list for a smaller one.
func (r *Report) ReplaceMismatch(i int, ops []string, impl, mdl string) {
	r.mu.Lock()
	defer r.mu.Unlock()
	if i < len(r.Mismatches) {
		r.Mismatches[i].Ops = append([]string{}, ops...)
		r.Mismatches[i].Impl, r.Mismatches[i].Model = impl, mdl
	}
}

func (r *Report) SpecFailKeys() []string {
	r.mu.Lock()
	defer r.mu.Unlock()
	var k []string
	for _, s := range r.SpecFailures {
		k = append(k, s.Key)
	}
	return k
}

// ---------- schedule driver: goroutines parked at a verif yield site

// Goid returns the runtime id of the calling goroutine (parsed from runtime.Stack).
func Goid() string {
	var buf [64]byte
	n := runtime.Stack(buf[:], false)
	f := strings.Fields(string(buf[:n]))
	if len(f) > 1 {
		return f[1]
	}
	return ""
}

// G controls one operation running in its own goroutine under a Sched.
type G struct {
	Parked  chan struct{} // receives once when the goroutine has reached the yield site
	Release chan struct{} // send once to let it continue
	Done    chan struct{} // closed when the operation has returned
	Op      []string      // free for the harness
	State   string        // free for the harness
}

// Sched parks goroutines started through Start at one yield site of the code under test.
// Set spine.VerifYield = s.Hook. Goroutines not started through Start pass through the hook.
type Sched struct {
	Site string
	mu   sync.Mutex
	gs   map[string]*G
}

func NewSched(site string) *Sched { return &Sched{Site: site, gs: map[string]*G{}} }

func (s *Sched) Hook(site string) {
	if site != s.Site {
		return
	}
	s.mu.Lock()
	g := s.gs[Goid()]
	s.mu.Unlock()
	if g == nil {
		return
	}
	g.Parked <- struct{}{}
	<-g.Release
}

// Start runs f in a new goroutine registered with the scheduler and returns its control block
// after the goroutine is registered (it may already be running f).
func (s *Sched) Start(f func(), op []string) *G {
	g := &G{Parked: make(chan struct{}, 1), Release: make(chan struct{}, 1), Done: make(chan struct{}), Op: op}
	reg := make(chan struct{})
	go func() {
		id := Goid()
		s.mu.Lock()
		s.gs[id] = g
		s.mu.Unlock()
		close(reg)
		defer func() {
			s.mu.Lock()
			delete(s.gs, id)
			s.mu.Unlock()
			close(g.Done)
		}()
		f()
	}()
	<-reg
	return g
}
