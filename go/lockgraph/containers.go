package main

// Container escapes (C17, seeded class C17-r4-1).
//
// The guarded-by rows say under which mutex a FIELD is loaded and stored. For a slice- or map-typed
// field that is not the whole story: the field holds a header, the elements live in a backing array
// (a hash table) that is shared by every copy of the header. A getter that returns the header
// without copying the elements (`return d.entities` under the mutex) hands that memory to a reader
// who walks it AFTER the mutex is released. This is race-free exactly as long as nobody writes the
// cells the reader can see, i.e. as long as every writer of the field is copy-on-write:
//
//   - replace:     the field is set to a value that does not share the old array (a list built
//                  element by element, nil, make, a clone);
//   - append-own:  `f = append(f, x)` on the field's own full value — writes only the cell at index
//                  len, which no header handed out earlier covers (as long as the length of the field
//                  inside one array never decreases, i.e. there is no in-place writer).
//
// Everything else that can modify cells an earlier header covers is an IN-PLACE write: element
// assignment, copy() into it, clear(), map update / delete, append onto a reslice (`append(s[:i],
// s[i+1:]...)`), a reslice stored back (`f = f[:n]`, which lets the next append overwrite the tail),
// and passing the value to a function that does one of these to its parameter (slices.Delete*,
// Insert, Compact*, Reverse, Sort*, Replace — found by analysing the callee's SSA body, not by
// name; package sort's reflection based functions by name).
//
// Emitted (Locks.lean / locks.json): for every slice/map field of the analysed structs the ESCAPES
// (value returned, stored elsewhere, sent, handed to a goroutine, or its elements read at a point
// where the field's common lock is not held) and the IN-PLACE WRITES after construction. Theorem
// c17_escaped_containers_copy_on_write: no field has both. Spine.SliceCow proves why that is enough
// (no write after the hand-out to a cell the handed-out header covers) and that in-place deletion
// breaks it.

import (
	"fmt"
	"go/constant"
	"go/token"
	"go/types"
	"sort"
	"strings"

	"golang.org/x/tools/go/ssa"
)

// croot: where a slice/map value comes from — the load of a container field or a parameter
type croot struct {
	fa       *ssa.FieldAddr // load of this field (nil for a parameter root)
	param    int            // index into fn.Params (-1 for a field root)
	resliced bool           // went through a slice expression (same array, other bounds) or through a callee that returns its parameter
	clipped  bool           // … with capacity = length (s[:n:n], slices.Clip): an append onto it always allocates
	load     *ssa.UnOp      // the load instruction of a field root
}

type cevent struct {
	root croot
	kind string // "escape", "inplace", "cow", "read"
	how  string
	ins  ssa.Instruction
}

type csummary struct {
	writes  map[int]string // param index -> how
	escapes map[int]string
	returns map[int]bool
	clipped map[int]bool // every returned value rooted in the parameter has capacity = length
	retFld  []croot      // container fields whose header the (unexported) function returns to its callers inside the package
	appends map[int]bool // appended to as a whole (in place when the caller passes a value with spare capacity)
	recut   map[int]bool // some returned value rooted in the parameter went through a slice expression (other bounds)
}

type cuse struct {
	field string
	kind  string
	how   string
	must  set
	ctor  bool
	pos   token.Pos
}

func isContainerType(t types.Type) bool {
	switch u := t.Underlying().(type) {
	case *types.Slice, *types.Map:
		return true
	case *types.Interface:
		// a type parameter whose core type is a slice / map (S ~[]E)
		if tp, ok := t.(*types.TypeParam); ok {
			return coreContainer(tp)
		}
		_ = u
	}
	return false
}

func coreContainer(tp *types.TypeParam) bool {
	it, ok := tp.Constraint().Underlying().(*types.Interface)
	if !ok {
		return false
	}
	for i := 0; i < it.NumEmbeddeds(); i++ {
		switch e := it.EmbeddedType(i).(type) {
		case *types.Union:
			for j := 0; j < e.Len(); j++ {
				switch e.Term(j).Type().Underlying().(type) {
				case *types.Slice, *types.Map:
					return true
				}
			}
		default:
			switch e.Underlying().(type) {
			case *types.Slice, *types.Map:
				return true
			}
		}
	}
	return false
}

func (a *analysis) containerField(fa *ssa.FieldAddr) (string, bool) {
	tk, name, fv := fieldOf(fa)
	if fv == nil || !a.analysedStruct(tk) {
		return "", false
	}
	switch fv.Type().Underlying().(type) {
	case *types.Slice, *types.Map:
		return tk + "." + name, true
	}
	return "", false
}

func constIsZero(v ssa.Value) bool {
	c, ok := v.(*ssa.Const)
	if !ok || c.Value == nil {
		return false
	}
	if c.Value.Kind() != constant.Int {
		return false
	}
	i, ok := constant.Int64Val(c.Value)
	return ok && i == 0
}

type cscan struct {
	a       *analysis
	fn      *ssa.Function
	summary map[*ssa.Function]*csummary
	busy    map[*ssa.Function]bool
}

// origins: the container roots a value may share its backing store with (backward over the
// value-preserving instructions of the function)
func (s *cscan) origins(fn *ssa.Function, v ssa.Value, depth int, seen map[ssa.Value]bool) []croot {
	if v == nil || depth > 14 || seen[v] {
		return nil
	}
	seen[v] = true
	switch x := v.(type) {
	case *ssa.Parameter:
		for i, p := range fn.Params {
			if p == x && isContainerType(p.Type()) {
				return []croot{{param: i}}
			}
		}
		return nil
	case *ssa.UnOp:
		if x.Op != token.MUL {
			return nil
		}
		switch ad := x.X.(type) {
		case *ssa.FieldAddr:
			if _, ok := s.a.containerField(ad); ok {
				return []croot{{fa: ad, param: -1, load: x}}
			}
		case *ssa.Alloc:
			// a local variable cell (address taken / captured): what was stored into it
			var out []croot
			if refs := ad.Referrers(); refs != nil {
				for _, r := range *refs {
					if st, ok := r.(*ssa.Store); ok && st.Addr == ad {
						out = append(out, s.origins(fn, st.Val, depth+1, seen)...)
					}
				}
			}
			return out
		}
		return nil
	case *ssa.Slice:
		if x.Max != nil && constIsZero(x.Max) {
			return nil // s[:0:0]: capacity 0, an append onto it always allocates (slices.Clone)
		}
		// only slices of slices share the array (a slice of a *array / string is not a container of ours)
		rs := s.origins(fn, x.X, depth+1, seen)
		out := make([]croot, 0, len(rs))
		for _, r := range rs {
			if x.Low != nil || x.High != nil || x.Max != nil {
				r.resliced = true
			}
			if x.Max != nil {
				r.clipped = x.High != nil && sameVal(x.High, x.Max)
			} else if x.Low != nil || x.High != nil {
				r.clipped = r.clipped && x.High == nil // s[i:] keeps the end of the array
			}
			out = append(out, r)
		}
		return out
	case *ssa.ChangeType:
		return s.origins(fn, x.X, depth+1, seen)
	case *ssa.MakeInterface:
		return s.origins(fn, x.X, depth+1, seen)
	case *ssa.ChangeInterface:
		return s.origins(fn, x.X, depth+1, seen)
	case *ssa.TypeAssert:
		return s.origins(fn, x.X, depth+1, seen)
	case *ssa.Extract:
		return s.origins(fn, x.Tuple, depth+1, seen)
	case *ssa.Phi:
		var out []croot
		for _, e := range x.Edges {
			out = append(out, s.origins(fn, e, depth+1, seen)...)
		}
		return out
	case *ssa.Call:
		c := x.Common()
		if b, ok := c.Value.(*ssa.Builtin); ok {
			if b.Name() == "append" && len(c.Args) > 0 {
				// the result may share the array of the first argument — unless that has no spare capacity
				var out []croot
				for _, r := range s.origins(fn, c.Args[0], depth+1, seen) {
					if !r.clipped {
						out = append(out, r)
					}
				}
				return out
			}
			return nil
		}
		var out []croot
		for _, callee := range s.callees(x) {
			sum := s.summaryOf(callee)
			if sum == nil {
				continue
			}
			// an unexported helper that returns the field's header: its callers hold the header now
			out = append(out, sum.retFld...)
			for j := range sum.returns {
				if arg := argFor(c, callee, j); arg != nil {
					for _, r := range s.origins(fn, arg, depth+1, seen) {
						// a helper that returns its parameter as it is, or appended to as a whole, keeps the
						// caller's view (f = add(f, x) is f = append(f, x)); one that returns other bounds does not
						r.resliced = r.resliced || sum.recut[j]
						r.clipped = sum.clipped[j]
						out = append(out, r)
					}
				}
			}
		}
		return out
	}
	return nil
}

// argFor: the argument of the call that becomes parameter j of callee
func argFor(c *ssa.CallCommon, callee *ssa.Function, j int) ssa.Value {
	if c.IsInvoke() {
		// receiver is c.Value (params[0]); c.Args are params[1:]
		if j == 0 {
			return c.Value
		}
		if j-1 < len(c.Args) {
			return c.Args[j-1]
		}
		return nil
	}
	if j < len(c.Args) {
		return c.Args[j]
	}
	return nil
}

func (s *cscan) callees(ci ssa.CallInstruction) []*ssa.Function {
	c := ci.Common()
	if sc := c.StaticCallee(); sc != nil {
		if o := sc.Origin(); o != nil {
			sc = o
		}
		return []*ssa.Function{sc}
	}
	cs, _ := s.a.resolve(ci)
	return cs
}

func (s *cscan) summaryOf(fn *ssa.Function) *csummary {
	if fn == nil {
		return nil
	}
	if o := fn.Origin(); o != nil {
		fn = o
	}
	if sum, ok := s.summary[fn]; ok {
		return sum
	}
	if s.busy[fn] || len(fn.Blocks) == 0 {
		return nil
	}
	any := false
	for _, p := range fn.Params {
		if isContainerType(p.Type()) {
			any = true
		}
	}
	if fn.Signature.Results() != nil {
		for i := 0; i < fn.Signature.Results().Len(); i++ {
			if isContainerType(fn.Signature.Results().At(i).Type()) && inModule(fn) {
				any = true
			}
		}
	}
	if !any {
		s.summary[fn] = &csummary{}
		return s.summary[fn]
	}
	s.busy[fn] = true
	sum := &csummary{writes: map[int]string{}, escapes: map[int]string{}, returns: map[int]bool{}, clipped: map[int]bool{}, recut: map[int]bool{}, appends: map[int]bool{}}
	for _, ev := range s.scan(fn) {
		if ev.root.fa != nil {
			if ev.kind == "ret" {
				r := ev.root
				r.load = nil
				sum.retFld = append(sum.retFld, r)
			}
			continue
		}
		if ev.kind == "escape" && strings.HasPrefix(ev.how, "returned") {
			if _, seen := sum.returns[ev.root.param]; !seen {
				sum.clipped[ev.root.param] = true
			}
			if !ev.root.clipped {
				sum.clipped[ev.root.param] = false
			}
			if ev.root.resliced {
				sum.recut[ev.root.param] = true
			}
		}
		switch ev.kind {
		case "cow":
			if strings.HasPrefix(ev.how, "append onto the full value") {
				sum.appends[ev.root.param] = true
			}
		case "inplace":
			if _, ok := sum.writes[ev.root.param]; !ok {
				sum.writes[ev.root.param] = ev.how
			}
		case "escape":
			if strings.HasPrefix(ev.how, "returned") {
				sum.returns[ev.root.param] = true
			} else if _, ok := sum.escapes[ev.root.param]; !ok {
				sum.escapes[ev.root.param] = ev.how
			}
		}
	}
	delete(s.busy, fn)
	s.summary[fn] = sum
	return sum
}

func calleeLabel(f *ssa.Function) string {
	n := f.String()
	n = strings.TrimPrefix(n, modPath+"/")
	return n
}

// reflection-based mutators that take the slice as `any`: cannot be seen in an SSA body
func opaqueMutator(f *ssa.Function) bool {
	if f == nil || f.Pkg == nil {
		return false
	}
	switch f.Pkg.Pkg.Path() {
	case "sort":
		switch f.Name() {
		case "Slice", "SliceStable", "Sort", "Stable":
			return true
		}
	case "reflect":
		switch f.Name() {
		case "Copy", "Swapper":
			return true
		}
	}
	return false
}

// internalOnly: a declared function or method with an unexported name — every caller is in the package
// and is analysed (function values handed out are not followed)
func internalOnly(fn *ssa.Function) bool {
	return fn.Parent() == nil && fn.Synthetic == "" && !token.IsExported(fn.Name()) && fn.Name() != "init"
}

func sameVal(a, b ssa.Value) bool {
	if a == b {
		return true
	}
	if ca, ok := a.(*ssa.Const); ok {
		if cb, ok := b.(*ssa.Const); ok && ca.Value != nil && cb.Value != nil {
			return constant.Compare(ca.Value, token.EQL, cb.Value)
		}
		return false
	}
	la, ok1 := a.(*ssa.Call)
	lb, ok2 := b.(*ssa.Call)
	if ok1 && ok2 {
		ba, ok1 := la.Call.Value.(*ssa.Builtin)
		bb, ok2 := lb.Call.Value.(*ssa.Builtin)
		if ok1 && ok2 && ba.Name() == "len" && bb.Name() == "len" && len(la.Call.Args) == 1 && len(lb.Call.Args) == 1 {
			return la.Call.Args[0] == lb.Call.Args[0]
		}
	}
	return false
}

// freshBefore: the root is a load of field F of object o that follows, in the same basic block and
// with no Unlock in between up to the modifying instruction, a store to o.F of a value that shares
// nothing with a container field or parameter (clone, make, a list built locally): the cells written
// belong to an array nobody else can have a header of yet.
func (s *cscan) freshBefore(fn *ssa.Function, r croot, ins ssa.Instruction) bool {
	if r.load == nil || r.load.Block() == nil || ins.Block() != r.load.Block() {
		return false
	}
	instrs := r.load.Block().Instrs
	li, ii, si := -1, -1, -1
	for i, x := range instrs {
		if x == ssa.Instruction(r.load) {
			li = i
		}
		if x == ins {
			ii = i
		}
	}
	if li < 0 || ii < 0 || ii < li {
		return false
	}
	for i := li - 1; i >= 0; i-- {
		st, ok := instrs[i].(*ssa.Store)
		if !ok {
			continue
		}
		ad, ok := st.Addr.(*ssa.FieldAddr)
		if !ok || ad.Field != r.fa.Field || ad.X != r.fa.X {
			continue
		}
		if len(s.origins(fn, st.Val, 0, map[ssa.Value]bool{})) == 0 {
			si = i
		}
		break
	}
	if si < 0 {
		return false
	}
	for i := si; i <= ii; i++ {
		if ci, ok := instrs[i].(ssa.CallInstruction); ok {
			if _, isDefer := ci.(*ssa.Defer); isDefer {
				continue
			}
			if op, _ := lockOp(ci.Common()); op == "unlock" || op == "runlock" {
				return false
			}
		}
	}
	return true
}

// scan lists what the function does with container values, by root
func (s *cscan) scan(fn *ssa.Function) []cevent {
	var out []cevent
	org := func(v ssa.Value) []croot { return s.origins(fn, v, 0, map[ssa.Value]bool{}) }
	emit := func(rs []croot, kind, how string, ins ssa.Instruction) {
		for _, r := range rs {
			if kind == "inplace" && r.fa != nil && s.freshBefore(fn, r, ins) {
				out = append(out, cevent{root: r, kind: "cow", how: "modified right after the field was replaced by a fresh value in the same critical section (" + how + ")", ins: ins})
				continue
			}
			out = append(out, cevent{root: r, kind: kind, how: how, ins: ins})
		}
	}
	sameField := func(r croot, fa *ssa.FieldAddr) bool {
		if r.fa == nil {
			return false
		}
		t1, n1, _ := fieldOf(r.fa)
		t2, n2, _ := fieldOf(fa)
		return t1 == t2 && n1 == n2
	}
	for _, b := range fn.Blocks {
		for _, ins := range b.Instrs {
			switch x := ins.(type) {
			case *ssa.Return:
				for _, r := range x.Results {
					for _, root := range org(r) {
						if root.fa != nil && internalOnly(fn) {
							// judged at the callers (origins() continues through the call)
							emit([]croot{root}, "ret", "returned to the callers inside the package", ins)
						} else {
							emit([]croot{root}, "escape", "returned without a copy", ins)
						}
					}
				}
			case *ssa.Store:
				if ia, ok := x.Addr.(*ssa.IndexAddr); ok {
					emit(org(ia.X), "inplace", "element assigned", ins)
				}
				rs := org(x.Val)
				switch ad := x.Addr.(type) {
				case *ssa.Alloc:
					// local variable: followed by origins()
				case *ssa.FieldAddr:
					if _, isC := s.a.containerField(ad); isC {
						own := false
						for _, r := range rs {
							if sameField(r, ad) {
								own = true
								if r.resliced {
									emit([]croot{r}, "inplace", "a reslice of the field is stored back (the next append overwrites the cut-off cells)", ins)
								}
							} else {
								emit([]croot{r}, "escape", "stored in another container field", ins)
							}
						}
						if !own {
							out = append(out, cevent{root: croot{fa: ad, param: -1}, kind: "cow", how: "replaced by a value that does not share the old backing store", ins: ins})
						}
					} else {
						emit(rs, "escape", "stored in a field", ins)
					}
				default:
					emit(rs, "escape", "stored in memory", ins)
				}
			case *ssa.MapUpdate:
				emit(org(x.Map), "inplace", "map element assigned", ins)
				emit(org(x.Value), "escape", "stored in a map", ins)
			case *ssa.Send:
				emit(org(x.X), "escape", "sent on a channel", ins)
			case *ssa.IndexAddr:
				emit(org(x.X), "read", "element access", ins)
			case *ssa.Index:
				emit(org(x.X), "read", "element access", ins)
			case *ssa.Lookup:
				emit(org(x.X), "read", "map lookup", ins)
			case *ssa.Range:
				emit(org(x.X), "read", "map iteration", ins)
			case *ssa.MakeClosure:
				// captured by a closure that is started as a goroutine
				isGo := false
				if refs := x.Referrers(); refs != nil {
					for _, r := range *refs {
						if g, ok := r.(*ssa.Go); ok && g.Call.Value == x {
							isGo = true
						}
					}
				}
				if isGo {
					for _, bnd := range x.Bindings {
						emit(org(bnd), "escape", "captured by a goroutine", ins)
						if al, ok := bnd.(*ssa.Alloc); ok {
							if refs := al.Referrers(); refs != nil {
								for _, r := range *refs {
									if st, ok := r.(*ssa.Store); ok && st.Addr == al {
										emit(org(st.Val), "escape", "captured by a goroutine", ins)
									}
								}
							}
						}
					}
				}
			case ssa.CallInstruction:
				c := x.Common()
				if bi, ok := c.Value.(*ssa.Builtin); ok {
					switch bi.Name() {
					case "append":
						if len(c.Args) > 0 {
							for _, r := range org(c.Args[0]) {
								if r.clipped {
									emit([]croot{r}, "cow", "append onto a value with capacity = length (always allocates)", ins)
								} else if r.resliced {
									emit([]croot{r}, "inplace", "append onto a reslice (overwrites the cells behind the cut in place)", ins)
								} else {
									emit([]croot{r}, "cow", "append onto the full value (writes only the cell at index len)", ins)
								}
							}
						}
					case "copy":
						if len(c.Args) > 0 {
							emit(org(c.Args[0]), "inplace", "copy() into it", ins)
						}
					case "clear":
						if len(c.Args) > 0 {
							emit(org(c.Args[0]), "inplace", "clear()", ins)
						}
					case "delete":
						if len(c.Args) > 0 {
							emit(org(c.Args[0]), "inplace", "map element deleted", ins)
						}
					}
					continue
				}
				if op, _ := lockOp(c); op != "" {
					continue
				}
				_, isGo := ins.(*ssa.Go)
				callees := s.callees(x)
				nargs := len(c.Args)
				if c.IsInvoke() {
					nargs++
				}
				for j := 0; j < nargs; j++ {
					var arg ssa.Value
					if c.IsInvoke() {
						if j == 0 {
							arg = c.Value
						} else {
							arg = c.Args[j-1]
						}
					} else {
						arg = c.Args[j]
					}
					rs := org(arg)
					if len(rs) == 0 {
						continue
					}
					if isGo {
						emit(rs, "escape", "passed to a goroutine", ins)
						continue
					}
					for _, callee := range callees {
						if opaqueMutator(callee) {
							emit(rs, "inplace", "passed to "+calleeLabel(callee)+" (reorders the elements in place)", ins)
							continue
						}
						sum := s.summaryOf(callee)
						if sum == nil {
							continue
						}
						if how, ok := sum.writes[j]; ok {
							emit(rs, "inplace", "passed to "+calleeLabel(callee)+" which modifies its parameter in place: "+how, ins)
						}
						if sum.appends[j] {
							for _, r := range rs {
								if r.resliced && !r.clipped {
									emit([]croot{r}, "inplace", "a reslice is passed to "+calleeLabel(callee)+" which appends to it (overwrites the cells behind the cut in place)", ins)
								}
							}
						}
						if how, ok := sum.escapes[j]; ok {
							emit(rs, "escape", "passed to "+calleeLabel(callee)+" where it is "+how, ins)
						}
					}
				}
			}
		}
	}
	return out
}

// containerFacts runs the scan over every analysed function. The must-held set of the instruction
// comes from the local lock analysis (posMust, filled by analysis.local).
type containerFacts struct {
	fields  []string            // every slice/map field of the analysed structs seen in the code
	escapes map[string][]string // field -> sites
	inplace map[string][]string
	cow     map[string][]string
}

func (a *analysis) containers(entryMust map[*ssa.Function]mustSet, common map[string][]string) containerFacts {
	cf := containerFacts{escapes: map[string][]string{}, inplace: map[string][]string{}, cow: map[string][]string{}}
	s := &cscan{a: a, summary: map[*ssa.Function]*csummary{}, busy: map[*ssa.Function]bool{}}
	fields := set{}
	for _, f := range a.order {
		ff := a.fns[f]
		if len(f.Blocks) == 0 {
			continue
		}
		// every container field mentioned
		for _, b := range f.Blocks {
			for _, ins := range b.Instrs {
				if fa, ok := ins.(*ssa.FieldAddr); ok {
					if name, ok := a.containerField(fa); ok {
						fields[name] = struct{}{}
					}
				}
			}
		}
		for _, ev := range s.scan(f) {
			if ev.root.fa == nil {
				continue
			}
			field, _ := a.containerField(ev.root.fa)
			r := rootOf(ev.root.fa.X, f, 0)
			ctor := r == rootFresh || (r == rootRecv && ff.ctorOnly)
			if ctor {
				continue // constructor phase: nobody else can hold a header yet
			}
			p := ev.ins.Pos()
			if p == token.NoPos {
				p = ev.root.fa.Pos()
			}
			site := fmt.Sprintf("%s in %s (%s)", ev.how, ff.name, a.pos(p))
			switch ev.kind {
			case "escape":
				cf.escapes[field] = append(cf.escapes[field], site)
			case "inplace":
				cf.inplace[field] = append(cf.inplace[field], site)
			case "cow":
				cf.cow[field] = append(cf.cow[field], site)
			case "read":
				// elements read where the field's common lock is not held: the header outlived the
				// critical section inside this function
				cl := common[field]
				if len(cl) == 0 {
					continue
				}
				held := set{}
				if em, ok := entryMust[f]; ok && !em.top {
					held = em.s.clone()
				}
				if m, ok := a.insMust[ev.ins]; ok {
					held = union(held, m)
				}
				ok := false
				for _, c := range cl {
					if held.has(c) || held.has(c+sharedMark) {
						ok = true
					}
				}
				if !ok {
					cf.escapes[field] = append(cf.escapes[field], fmt.Sprintf("%s without the field's lock (header kept beyond the critical section) in %s (%s)", ev.how, ff.name, a.pos(p)))
				}
			}
		}
	}
	cf.fields = fields.sorted()
	for _, m := range []map[string][]string{cf.escapes, cf.inplace, cf.cow} {
		for k := range m {
			sort.Strings(m[k])
			var out []string
			for i, x := range m[k] {
				if i == 0 || x != m[k][i-1] {
					out = append(out, x)
				}
			}
			m[k] = out
		}
	}
	return cf
}
