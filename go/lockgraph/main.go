// Command lockgraph is translator output G8 of the verification design (C17):
// it loads the tree under test ($VERIF_REPO, default /repo, build tag verif)
// with go/packages, builds SSA, resolves calls by class-hierarchy analysis and
// extracts
//
//   - lock-order edges: mutex h is (may-)held while mutex m is acquired,
//     closed over the static call graph;
//   - lock leaks: a function may return while still holding a mutex it
//     acquired without a deferred release;
//   - guarded-by rows: for every field of a struct of package spine (and of
//     the two model helper receivers named in C17's anchors) that is written
//     after construction, every access with the set of mutexes that are
//     (must-)held there;
//   - address escapes of shared fields (escapes.go) and, for slice- and map-typed
//     fields, header escapes vs in-place writers of the backing store
//     (containers.go).
//
// Output: <out>/Locks.lean (Lean tables, deterministic, human-readable) and
// <out>/locks.json (the same facts with witnesses, for the harness/evidence).
//
// The analyser is TRUSTED (it is the translator of tie b1). What it abstracts:
// a mutex / a field is identified by (struct type, field name) — object
// identity is not tracked; calls into packages outside the module are opaque
// (assumed not to re-enter the module except through the closures passed to
// them at that call); reflection is invisible.
package main

import (
	"encoding/json"
	"flag"
	"fmt"
	"go/token"
	"go/types"
	"os"
	"path/filepath"
	"regexp"
	"sort"
	"strings"

	"golang.org/x/tools/go/callgraph"
	"golang.org/x/tools/go/callgraph/cha"
	"golang.org/x/tools/go/packages"
	"golang.org/x/tools/go/ssa"
	"golang.org/x/tools/go/ssa/ssautil"
)

const modPath = "github.com/enbility/spine-go"

// sharedMark marks a mutex held in shared (RLock) mode inside must-held sets
const sharedMark = "#r"

// struct types outside package spine whose fields are analysed too (the
// receivers of the helpers in model/nodemanagement_additions.go and
// model/usecaseinformation_additions.go, C17 anchors)
var extraStructs = map[string]bool{
	"model.NodeManagementUseCaseDataType": true,
	"model.UseCaseInformationDataType":    true,
}

// ---------------------------------------------------------------- sets

type set map[string]struct{}

func (s set) has(k string) bool { _, ok := s[k]; return ok }
func (s set) clone() set {
	r := make(set, len(s))
	for k := range s {
		r[k] = struct{}{}
	}
	return r
}
func (s set) sorted() []string {
	r := make([]string, 0, len(s))
	for k := range s {
		r = append(r, k)
	}
	sort.Strings(r)
	return r
}
func union(a, b set) set {
	r := a.clone()
	for k := range b {
		r[k] = struct{}{}
	}
	return r
}
func inter(a, b set) set {
	r := set{}
	for k := range a {
		if b.has(k) {
			r[k] = struct{}{}
		}
	}
	return r
}
func equal(a, b set) bool {
	if len(a) != len(b) {
		return false
	}
	for k := range a {
		if !b.has(k) {
			return false
		}
	}
	return true
}

// mustSet: nil = ⊤ (unreached)
type mustSet struct {
	top bool
	s   set
}

func (m mustSet) meet(o mustSet) mustSet {
	if m.top {
		return o
	}
	if o.top {
		return m
	}
	return mustSet{s: inter(m.s, o.s)}
}
func (m mustSet) eq(o mustSet) bool {
	if m.top != o.top {
		return false
	}
	return m.top || equal(m.s, o.s)
}

// ---------------------------------------------------------------- facts per function

type acqSite struct {
	mutex string
	may   set // local may-held before the acquisition
	pos   token.Pos
}

type callSite struct {
	instr   ssa.CallInstruction
	callees []*ssa.Function
	may     set
	must    set
	spawn   bool // go statement / timer: callee starts with nothing held
}

type access struct {
	field string
	write bool
	how   string // store, load, map-update, delete, elem-store, call:<method>
	must  set    // local must-held
	ctor  bool   // constructor phase (fresh object or receiver of a ctor-only helper)
	pos   token.Pos
}

type fnFacts struct {
	fn       *ssa.Function
	name     string
	acqs     []acqSite
	calls    []callSite
	accesses []access
	exitMay  set // mutexes acquired here that may still be held at a return (no deferred release)
	unbal    []string
	unknown  []string
	root     bool
	ctorOnly bool
}

type analysis struct {
	prog        *ssa.Program
	fset        *token.FileSet
	cg          *callgraph.Graph
	fns         map[*ssa.Function]*fnFacts
	order       []*ssa.Function // deterministic order
	generics    []*types.Named  // generic named types of the module
	named       []*types.Named  // non-generic named types of the module
	addrTaken   []*ssa.Function // module functions used as values
	siteCallees map[ssa.CallInstruction][]*ssa.Function
	spawned     map[*ssa.Function]bool
	repo        string
	insMust     map[ssa.Instruction]set // must-held set (local) at element reads and calls, for containers.go
}

func pkgPathOf(fn *ssa.Function) string {
	for i := 0; fn != nil && i < 8; i++ {
		if fn.Pkg != nil {
			return fn.Pkg.Pkg.Path()
		}
		if o := fn.Origin(); o != nil && o != fn {
			fn = o
			continue
		}
		if obj := fn.Object(); obj != nil && obj.Pkg() != nil {
			return obj.Pkg().Path()
		}
		if p := fn.Parent(); p != nil {
			fn = p
			continue
		}
		break
	}
	return ""
}

func inModule(fn *ssa.Function) bool {
	p := pkgPathOf(fn)
	return p == modPath || strings.HasPrefix(p, modPath+"/")
}

var reLong = regexp.MustCompile(`github\.com/enbility/spine-go/`)

func shortName(fn *ssa.Function) string {
	s := reLong.ReplaceAllString(fn.String(), "")
	s = strings.NewReplacer("(*spine.", "(", "(spine.", "(").Replace(s)
	// (FeatureLocal).updateData -> FeatureLocal.updateData
	if strings.HasPrefix(s, "(") {
		if i := strings.Index(s, ")."); i > 0 {
			s = strings.TrimPrefix(s[:i], "(") + "." + s[i+2:]
		}
	}
	s = strings.TrimPrefix(s, "*")
	return s
}

// ---------------------------------------------------------------- identification of mutexes and fields

func namedOf(t types.Type) *types.Named {
	for {
		switch x := t.(type) {
		case *types.Pointer:
			t = x.Elem()
			continue
		case *types.Named:
			return x
		case *types.Alias:
			t = types.Unalias(x)
			continue
		}
		return nil
	}
}

func typeKey(n *types.Named) string {
	if n == nil || n.Obj() == nil {
		return ""
	}
	o := n.Origin().Obj()
	if o.Pkg() == nil {
		return o.Name()
	}
	return o.Pkg().Name() + "." + o.Name()
}

func isSyncMutexType(t types.Type) bool {
	n := namedOf(t)
	if n == nil || n.Obj().Pkg() == nil {
		return false
	}
	return n.Obj().Pkg().Path() == "sync" && (n.Obj().Name() == "Mutex" || n.Obj().Name() == "RWMutex")
}

// fieldOf: (owner type key, field name, field var) of a FieldAddr
func fieldOf(fa *ssa.FieldAddr) (string, string, *types.Var) {
	pt, ok := fa.X.Type().Underlying().(*types.Pointer)
	if !ok {
		return "", "", nil
	}
	st, ok := pt.Elem().Underlying().(*types.Struct)
	if !ok {
		return "", "", nil
	}
	f := st.Field(fa.Field)
	return typeKey(namedOf(pt.Elem())), f.Name(), f
}

// mutexKey of the receiver operand of a Lock/Unlock call
func mutexKey(v ssa.Value) string {
	switch x := v.(type) {
	case *ssa.FieldAddr:
		tk, fn, _ := fieldOf(x)
		if tk == "" {
			return ""
		}
		return tk + "." + fn
	case *ssa.Global:
		return x.Pkg.Pkg.Name() + "." + x.Name()
	case *ssa.ChangeType:
		return mutexKey(x.X)
	}
	return ""
}

// lockOp: ("lock"|"unlock"|"", mutex operand)
func lockOp(c *ssa.CallCommon) (string, ssa.Value) {
	if c.IsInvoke() {
		return "", nil
	}
	f := c.StaticCallee()
	if f == nil || f.Pkg == nil || f.Pkg.Pkg.Path() != "sync" || len(c.Args) == 0 {
		return "", nil
	}
	recv := f.Signature.Recv()
	if recv == nil || !isSyncMutexType(recv.Type()) {
		return "", nil
	}
	switch f.Name() {
	case "Lock", "TryLock":
		return "lock", c.Args[0]
	case "RLock", "TryRLock":
		return "rlock", c.Args[0]
	case "Unlock":
		return "unlock", c.Args[0]
	case "RUnlock":
		return "runlock", c.Args[0]
	}
	return "", nil
}

func (a *analysis) analysedStruct(tk string) bool {
	return strings.HasPrefix(tk, "spine.") || extraStructs[tk]
}

// ---------------------------------------------------------------- call resolution

func (a *analysis) buildSiteIndex() {
	a.siteCallees = map[ssa.CallInstruction][]*ssa.Function{}
	for _, n := range a.cg.Nodes {
		for _, e := range n.Out {
			if e.Site == nil || e.Callee == nil || e.Callee.Func == nil {
				continue
			}
			a.siteCallees[e.Site] = append(a.siteCallees[e.Site], e.Callee.Func)
		}
	}
}

// genericLinks: CHA does not resolve interface calls into methods of generic
// types (instantiations carry no package and are no runtime types). Link an
// invoke of method m of interface I to the declared (origin) method m of every
// generic named type of the module whose pointer method set has all of I's
// method names.
func (a *analysis) genericLinks(c *ssa.CallCommon) []*ssa.Function {
	if !c.IsInvoke() {
		return nil
	}
	it, ok := c.Value.Type().Underlying().(*types.Interface)
	if !ok {
		return nil
	}
	var out []*ssa.Function
	for _, g := range a.generics {
		ms := types.NewMethodSet(types.NewPointer(g))
		all := true
		for i := 0; i < it.NumMethods(); i++ {
			m := it.Method(i)
			if ms.Lookup(m.Pkg(), m.Name()) == nil {
				all = false
				break
			}
		}
		if !all {
			continue
		}
		sel := ms.Lookup(c.Method.Pkg(), c.Method.Name())
		if sel == nil {
			continue
		}
		if fobj, ok := sel.Obj().(*types.Func); ok {
			if f := a.prog.FuncValue(fobj.Origin()); f != nil {
				out = append(out, f)
			}
		}
	}
	return out
}

// ownInvoke: class-hierarchy resolution of an interface method call over the
// named, non-generic types of the module (T and *T).
func (a *analysis) ownInvoke(c *ssa.CallCommon) []*ssa.Function {
	if !c.IsInvoke() {
		return nil
	}
	it, ok := c.Value.Type().Underlying().(*types.Interface)
	if !ok {
		return nil
	}
	var out []*ssa.Function
	for _, n := range a.named {
		for _, t := range []types.Type{n, types.NewPointer(n)} {
			if !types.Implements(t, it) {
				continue
			}
			sel := a.prog.MethodSets.MethodSet(t).Lookup(c.Method.Pkg(), c.Method.Name())
			if sel == nil {
				continue
			}
			if f := a.prog.MethodValue(sel); f != nil {
				out = append(out, f)
			}
		}
	}
	return out
}

// ownDynamic: a call of a function value may reach every module function whose
// address is taken and whose signature is identical.
func (a *analysis) ownDynamic(c *ssa.CallCommon) []*ssa.Function {
	if c.IsInvoke() || c.StaticCallee() != nil {
		return nil
	}
	if _, isBuiltin := c.Value.(*ssa.Builtin); isBuiltin {
		return nil
	}
	sig, ok := c.Value.Type().Underlying().(*types.Signature)
	if !ok {
		return nil
	}
	var out []*ssa.Function
	for _, f := range a.addrTaken {
		if types.Identical(f.Signature, sig) {
			out = append(out, f)
		}
	}
	return out
}

func unwrapFn(v ssa.Value) *ssa.Function {
	for i := 0; i < 6; i++ {
		switch x := v.(type) {
		case *ssa.Function:
			return x
		case *ssa.MakeClosure:
			return x.Fn.(*ssa.Function)
		case *ssa.MakeInterface:
			v = x.X
		case *ssa.ChangeType:
			v = x.X
		case *ssa.ChangeInterface:
			v = x.X
		default:
			return nil
		}
	}
	return nil
}

func calleePkgPath(c *ssa.CallCommon) string {
	if f := c.StaticCallee(); f != nil {
		return pkgPathOf(f)
	}
	if c.IsInvoke() && c.Method != nil && c.Method.Pkg() != nil {
		return c.Method.Pkg().Path()
	}
	return ""
}

// resolve returns the module functions that may run at this site and whether
// they start a new thread of control.
func (a *analysis) resolve(instr ssa.CallInstruction) (callees []*ssa.Function, spawn bool) {
	c := instr.Common()
	seen := map[*ssa.Function]bool{}
	add := func(f *ssa.Function) {
		if f != nil && f.Origin() != nil {
			f = f.Origin() // instantiations behave as their generic origin (same locks, same fields)
		}
		if f != nil && inModule(f) && !seen[f] {
			seen[f] = true
			callees = append(callees, f)
		}
	}
	for _, f := range a.siteCallees[instr] {
		add(f)
	}
	// the library's CHA graph does not contain the call sites inside generic
	// (uninstantiated) bodies: resolve those here by the same rule
	add(c.StaticCallee())
	for _, f := range a.ownInvoke(c) {
		add(f)
	}
	for _, f := range a.ownDynamic(c) {
		add(f)
	}
	for _, f := range a.genericLinks(c) {
		add(f)
	}
	if _, isGo := instr.(*ssa.Go); isGo {
		spawn = true
	}
	// closures / module functions handed to a callee outside the module: run
	// synchronously at this site, except time.AfterFunc (own goroutine)
	if sc := c.StaticCallee(); (sc != nil && !inModule(sc)) || (sc == nil && len(callees) == 0) {
		timer := sc != nil && pkgPathOf(sc) == "time" && sc.Name() == "AfterFunc"
		for _, arg := range c.Args {
			if f := unwrapFn(arg); f != nil && inModule(f) {
				add(f)
				if timer {
					spawn = true
				}
			}
		}
	}
	sort.Slice(callees, func(i, j int) bool { return callees[i].String() < callees[j].String() })
	return
}

// ---------------------------------------------------------------- roots of objects (constructor phase)

const (
	rootFresh = iota
	rootRecv
	rootOther
)

var reCtor = regexp.MustCompile(`^(New|new)[A-Z]`)

func isCtorFunc(f *ssa.Function) bool {
	if f == nil {
		return false
	}
	if o := f.Origin(); o != nil {
		f = o
	}
	return f.Signature.Recv() == nil && f.Parent() == nil && reCtor.MatchString(f.Name())
}

func rootOf(v ssa.Value, fn *ssa.Function, depth int) int {
	if depth > 12 {
		return rootOther
	}
	switch x := v.(type) {
	case *ssa.Alloc:
		return rootFresh
	case *ssa.FieldAddr:
		return rootOf(x.X, fn, depth+1)
	case *ssa.IndexAddr:
		return rootOf(x.X, fn, depth+1)
	case *ssa.ChangeType:
		return rootOf(x.X, fn, depth+1)
	case *ssa.UnOp:
		if x.Op == token.MUL {
			// load of an embedded pointer field (or of a local variable cell)
			if fa, ok := x.X.(*ssa.FieldAddr); ok {
				if _, _, f := fieldOf(fa); f != nil && f.Embedded() {
					return rootOf(fa.X, fn, depth+1)
				}
				return rootOther
			}
			if al, ok := x.X.(*ssa.Alloc); ok {
				// a local variable that holds a pointer: look at what was stored
				res := -1
				for _, ref := range *al.Referrers() {
					if st, ok := ref.(*ssa.Store); ok && st.Addr == al {
						r := rootOf(st.Val, fn, depth+1)
						if res == -1 || r > res {
							res = r
						}
					}
				}
				if res >= 0 {
					return res
				}
			}
		}
		return rootOther
	case *ssa.Parameter:
		if fn.Signature.Recv() != nil && len(fn.Params) > 0 && fn.Params[0] == x {
			return rootRecv
		}
		return rootOther
	case *ssa.Call:
		if isCtorFunc(x.Call.StaticCallee()) {
			return rootFresh
		}
		return rootOther
	}
	return rootOther
}

// ---------------------------------------------------------------- local dataflow

type state struct {
	may  set
	must mustSet
}

func (a *analysis) local(ff *fnFacts) {
	fn := ff.fn
	if len(fn.Blocks) == 0 {
		return
	}
	in := make([]state, len(fn.Blocks))
	for i := range in {
		in[i] = state{may: set{}, must: mustSet{top: true}}
	}
	in[0] = state{may: set{}, must: mustSet{s: set{}}}
	deferredUnlock := set{}
	for _, b := range fn.Blocks {
		for _, ins := range b.Instrs {
			if d, ok := ins.(*ssa.Defer); ok {
				if op, mv := lockOp(&d.Call); op == "unlock" || op == "runlock" {
					if k := mutexKey(mv); k != "" {
						deferredUnlock[k] = struct{}{}
					}
				}
			}
		}
	}

	transfer := func(b *ssa.BasicBlock, st state, record bool) state {
		may := st.may.clone()
		var must set
		if st.must.top {
			must = set{}
		} else {
			must = st.must.s.clone()
		}
		for _, ins := range b.Instrs {
			switch x := ins.(type) {
			case ssa.CallInstruction:
				c := x.Common()
				if op, mv := lockOp(c); op != "" {
					k := mutexKey(mv)
					if k == "" {
						if record {
							ff.unknown = append(ff.unknown, a.fset.Position(ins.Pos()).String())
						}
						continue
					}
					if _, isDefer := ins.(*ssa.Defer); isDefer {
						continue // deferred unlock: held until the function returns
					}
					// lock order: a shared (RLock) acquisition counts as an acquisition of the same mutex;
					// guarded-by: a shared hold is recorded as k+"#r" (protects reads only)
					switch op {
					case "lock", "rlock":
						if record {
							ff.acqs = append(ff.acqs, acqSite{mutex: k, may: may.clone(), pos: ins.Pos()})
						}
						may[k] = struct{}{}
						if op == "lock" {
							must[k] = struct{}{}
						} else {
							must[k+sharedMark] = struct{}{}
						}
					default:
						if record && !may.has(k) {
							ff.unbal = append(ff.unbal, k)
						}
						delete(may, k)
						if op == "unlock" {
							delete(must, k)
						} else {
							delete(must, k+sharedMark)
						}
					}
					continue
				}
				if record {
					a.recordCall(ff, x, may, must)
				}
			case *ssa.Return:
				if record {
					for k := range may {
						if !deferredUnlock.has(k) {
							ff.exitMay[k] = struct{}{}
						}
					}
				}
			}
			if record {
				a.recordAccess(ff, ins, must)
				switch ins.(type) {
				case *ssa.IndexAddr, *ssa.Index, *ssa.Lookup, *ssa.Range, ssa.CallInstruction:
					a.insMust[ins] = must.clone()
				}
			}
		}
		return state{may: may, must: mustSet{s: must}}
	}

	changed := true
	for iter := 0; changed && iter < 100; iter++ {
		changed = false
		for _, b := range fn.Blocks {
			if b == fn.Recover {
				continue
			}
			if in[b.Index].must.top && b.Index != 0 {
				continue
			}
			out := transfer(b, in[b.Index], false)
			for _, s := range b.Succs {
				nm := union(in[s.Index].may, out.may)
				nM := in[s.Index].must.meet(out.must)
				if !equal(nm, in[s.Index].may) || !nM.eq(in[s.Index].must) {
					in[s.Index] = state{may: nm, must: nM}
					changed = true
				}
			}
		}
	}
	for _, b := range fn.Blocks {
		if in[b.Index].must.top {
			continue // unreachable
		}
		transfer(b, in[b.Index], true)
	}
}

func (a *analysis) recordCall(ff *fnFacts, instr ssa.CallInstruction, may, must set) {
	callees, spawn := a.resolve(instr)
	if len(callees) == 0 {
		return
	}
	ff.calls = append(ff.calls, callSite{instr: instr, callees: callees, may: may.clone(), must: must.clone(), spawn: spawn})
}

func loadedField(v ssa.Value) *ssa.FieldAddr {
	for i := 0; i < 4; i++ {
		switch x := v.(type) {
		case *ssa.UnOp:
			if x.Op == token.MUL {
				if fa, ok := x.X.(*ssa.FieldAddr); ok {
					return fa
				}
			}
			return nil
		case *ssa.ChangeType:
			v = x.X
		case *ssa.Slice:
			v = x.X
		default:
			return nil
		}
	}
	return nil
}

// globalPrefix marks the rows of package-level variables among the field rows
const globalPrefix = "var "

func loadedGlobal(v ssa.Value) *ssa.Global {
	for i := 0; i < 4; i++ {
		switch x := v.(type) {
		case *ssa.UnOp:
			if x.Op == token.MUL {
				if g, ok := x.X.(*ssa.Global); ok {
					return g
				}
			}
			return nil
		case *ssa.ChangeType:
			v = x.X
		case *ssa.Slice:
			v = x.X
		default:
			return nil
		}
	}
	return nil
}

func (a *analysis) recordAccess(ff *fnFacts, ins ssa.Instruction, must set) {
	emit := func(fa *ssa.FieldAddr, write bool, how string) {
		tk, name, fv := fieldOf(fa)
		if fv == nil || !a.analysedStruct(tk) || isSyncMutexType(fv.Type()) {
			return
		}
		r := rootOf(fa.X, ff.fn, 0)
		ctor := r == rootFresh || (r == rootRecv && ff.ctorOnly)
		ff.accesses = append(ff.accesses, access{field: tk + "." + name, write: write, how: how, must: must.clone(), ctor: ctor, pos: ins.Pos()})
	}
	// package-level variables of the module (maps, slices, pointers, scalars …; struct variables are
	// covered field by field above): named "var <pkg>.<name>", constructor phase = package initialisation
	emitG := func(g *ssa.Global, write bool, how string) {
		if g == nil || g.Pkg == nil {
			return
		}
		pp := g.Pkg.Pkg.Path()
		if pp != modPath && !strings.HasPrefix(pp, modPath+"/") {
			return
		}
		pt, ok := g.Type().Underlying().(*types.Pointer)
		if !ok || isSyncMutexType(pt.Elem()) {
			return
		}
		if _, isStruct := pt.Elem().Underlying().(*types.Struct); isStruct {
			return
		}
		if strings.HasPrefix(g.Name(), "init$") {
			return // the compiler's package-initialisation guard
		}
		inInit := ff.fn.Signature.Recv() == nil && (ff.fn.Name() == "init" || strings.HasPrefix(ff.fn.Name(), "init#"))
		ff.accesses = append(ff.accesses, access{field: globalPrefix + g.Pkg.Pkg.Name() + "." + g.Name(), write: write, how: how, must: must.clone(), ctor: inInit, pos: ins.Pos()})
	}
	switch x := ins.(type) {
	case *ssa.Store:
		if g, ok := x.Addr.(*ssa.Global); ok {
			emitG(g, true, "store")
		}
		switch ad := x.Addr.(type) {
		case *ssa.FieldAddr:
			if g := loadedGlobal(ad.X); g != nil {
				emitG(g, true, "deref-store")
			}
			emit(ad, true, "store")
			// store into an object of a non-analysed type that is reached through a pointer held in an
			// analysed field (r.address.Device = …): a write through that field
			if tk, _, _ := fieldOf(ad); !a.analysedStruct(tk) {
				if fa := loadedField(ad.X); fa != nil {
					emit(fa, true, "deref-store")
				}
			}
		case *ssa.IndexAddr:
			if fa := loadedField(ad.X); fa != nil {
				emit(fa, true, "elem-store")
			} else if fa, ok := ad.X.(*ssa.FieldAddr); ok {
				emit(fa, true, "elem-store")
			}
			if g := loadedGlobal(ad.X); g != nil {
				emitG(g, true, "elem-store")
			} else if g, ok := ad.X.(*ssa.Global); ok {
				emitG(g, true, "elem-store")
			}
		}
	case *ssa.UnOp:
		if x.Op == token.MUL {
			if g, ok := x.X.(*ssa.Global); ok {
				emitG(g, false, "load")
			}
			if fa, ok := x.X.(*ssa.FieldAddr); ok {
				// a load that only feeds an atomic op or a Lock call never appears here (those take the address)
				emit(fa, false, "load")
			}
		}
	case *ssa.MapUpdate:
		if fa := loadedField(x.Map); fa != nil {
			emit(fa, true, "map-update")
		}
		if g := loadedGlobal(x.Map); g != nil {
			emitG(g, true, "map-update")
		}
	case ssa.CallInstruction:
		c := x.Common()
		if b, ok := c.Value.(*ssa.Builtin); ok && b.Name() == "delete" && len(c.Args) > 0 {
			if fa := loadedField(c.Args[0]); fa != nil {
				emit(fa, true, "delete")
			}
			if g := loadedGlobal(c.Args[0]); g != nil {
				emitG(g, true, "delete")
			}
			return
		}
		// method call on an object of a package outside the module that is held in a field:
		// counted as a write to that field (the LRU cache: Get and Put both mutate)
		if !c.IsInvoke() && len(c.Args) > 0 {
			if sc := c.StaticCallee(); sc != nil && sc.Signature.Recv() != nil && !inModule(sc) {
				p := pkgPathOf(sc)
				if p != "sync" && p != "sync/atomic" && p != "time" && p != "" {
					if fa := loadedField(c.Args[0]); fa != nil {
						name := sc.Name()
						if i := strings.IndexByte(name, '['); i > 0 {
							name = name[:i] // drop type arguments of an instantiated generic method
						}
						emit(fa, true, "call:"+name)
					}
					if g := loadedGlobal(c.Args[0]); g != nil {
						emitG(g, true, "call:"+sc.Name())
					}
				}
			}
		}
	}
}

// ---------------------------------------------------------------- main analysis

func (a *analysis) collect(pkgs []*ssa.Package) {
	seen := map[*ssa.Function]bool{}
	var add func(f *ssa.Function)
	add = func(f *ssa.Function) {
		if f == nil || seen[f] || !inModule(f) {
			return
		}
		seen[f] = true
		a.order = append(a.order, f)
		for _, an := range f.AnonFuncs {
			add(an)
		}
	}
	for f := range ssautil.AllFunctions(a.prog) {
		add(f)
	}
	for _, p := range pkgs {
		if p == nil {
			continue
		}
		for _, m := range p.Members {
			switch x := m.(type) {
			case *ssa.Function:
				add(x)
			case *ssa.Type:
				n, ok := x.Type().(*types.Named)
				if !ok {
					continue
				}
				if n.TypeParams().Len() > 0 {
					a.generics = append(a.generics, n)
				} else if _, isIface := n.Underlying().(*types.Interface); !isIface {
					a.named = append(a.named, n)
				}
				for i := 0; i < n.NumMethods(); i++ {
					add(a.prog.FuncValue(n.Method(i)))
				}
			}
		}
	}
	sort.Slice(a.generics, func(i, j int) bool { return typeKey(a.generics[i]) < typeKey(a.generics[j]) })
	// callees discovered through the call graph (instantiation wrappers etc.)
	for i := 0; i < len(a.order); i++ {
		f := a.order[i]
		if n := a.cg.Nodes[f]; n != nil {
			for _, e := range n.Out {
				add(e.Callee.Func)
			}
		}
	}
	sort.Slice(a.order, func(i, j int) bool {
		if a.order[i].String() != a.order[j].String() {
			return a.order[i].String() < a.order[j].String()
		}
		return a.order[i].Pos() < a.order[j].Pos()
	})
	a.fns = map[*ssa.Function]*fnFacts{}
	for _, f := range a.order {
		a.fns[f] = &fnFacts{fn: f, name: shortName(f), exitMay: set{}}
	}
	sort.Slice(a.named, func(i, j int) bool { return typeKey(a.named[i]) < typeKey(a.named[j]) })
	// address-taken module functions: any use as an operand other than the callee position
	taken := map[*ssa.Function]bool{}
	for _, f := range a.order {
		for _, b := range f.Blocks {
			for _, ins := range b.Instrs {
				var callee ssa.Value
				if ci, ok := ins.(ssa.CallInstruction); ok && !ci.Common().IsInvoke() {
					callee = ci.Common().Value
				}
				for _, op := range ins.Operands(nil) {
					if op == nil || *op == nil {
						continue
					}
					v := *op
					if mc, ok := v.(*ssa.MakeClosure); ok {
						v = mc.Fn
					}
					if g, ok := v.(*ssa.Function); ok && inModule(g) {
						if *op == callee {
							continue
						}
						taken[g] = true
					}
				}
			}
		}
	}
	for _, f := range a.order {
		if taken[f] {
			a.addrTaken = append(a.addrTaken, f)
		}
	}
}

func exportedName(f *ssa.Function) bool {
	if f.Parent() != nil {
		return false
	}
	return token.IsExported(f.Name())
}

// computeCtorOnly: New*/new* package functions, and unexported functions all of
// whose callers inside the module are constructor-only (at least one caller).
func (a *analysis) computeCtorOnly(callers map[*ssa.Function][]*ssa.Function) {
	for _, f := range a.order {
		if isCtorFunc(f) {
			a.fns[f].ctorOnly = true
		}
	}
	for changed := true; changed; {
		changed = false
		for _, f := range a.order {
			ff := a.fns[f]
			if ff.ctorOnly || exportedName(f) || f.Parent() != nil || a.spawned[f] {
				continue
			}
			cs := callers[f]
			if len(cs) == 0 {
				continue
			}
			all := true
			for _, c := range cs {
				if !a.fns[c].ctorOnly {
					all = false
					break
				}
			}
			if all {
				ff.ctorOnly = true
				changed = true
			}
		}
	}
}

type edgeWit struct {
	From, To string
	Acquirer string   // function that acquires To
	Chain    []string // call chain from the function that acquired From to Acquirer
	Pos      string
}

func main() {
	out := flag.String("out", "", "output directory (lean/Spine/Generated)")
	instrDir := flag.String("instr", "", "also write an instrumented copy of the tree under test to this directory (dynamic cross-check of the analyser)")
	flag.Parse()
	if *out == "" {
		fmt.Fprintln(os.Stderr, "usage: lockgraph -out <dir>")
		os.Exit(2)
	}
	repo := os.Getenv("VERIF_REPO")
	if repo == "" {
		repo = "/repo"
	}
	cfg := &packages.Config{Mode: packages.LoadAllSyntax, Dir: repo, BuildFlags: []string{"-tags=verif"},
		Env: append(os.Environ(), "GOFLAGS=-mod=mod", "GOPROXY=off", "GOSUMDB=off", "GOTOOLCHAIN=local")}
	pkgs, err := packages.Load(cfg, "./spine", "./model", "./api", "./util")
	if err != nil {
		fmt.Fprintln(os.Stderr, "load:", err)
		os.Exit(1)
	}
	if packages.PrintErrors(pkgs) > 0 {
		os.Exit(1)
	}
	prog, spkgs := ssautil.AllPackages(pkgs, ssa.BuilderMode(0))
	prog.Build()
	instrSummary := ""
	if *instrDir != "" {
		// after the SSA build (which only reads the syntax trees); the instrumenter rewrites them
		defer func() {
			s, err := instrument(pkgs, repo, *instrDir)
			if err != nil {
				fmt.Fprintln(os.Stderr, "instrument:", err)
				os.Exit(1)
			}
			fmt.Println(s)
		}()
	}
	_ = instrSummary
	a := &analysis{prog: prog, fset: prog.Fset, cg: cha.CallGraph(prog), repo: repo, spawned: map[*ssa.Function]bool{}, insMust: map[ssa.Instruction]set{}}
	a.buildSiteIndex()
	a.collect(spkgs)

	// pass 1: call sites only (needed for ctor-only), then full local facts
	callers := map[*ssa.Function][]*ssa.Function{}
	for _, f := range a.order {
		for _, b := range f.Blocks {
			for _, ins := range b.Instrs {
				ci, ok := ins.(ssa.CallInstruction)
				if !ok {
					continue
				}
				if op, _ := lockOp(ci.Common()); op != "" {
					continue
				}
				cs, spawn := a.resolve(ci)
				for _, c := range cs {
					if _, known := a.fns[c]; !known {
						continue
					}
					callers[c] = append(callers[c], f)
					if spawn {
						a.spawned[c] = true
					}
				}
			}
		}
	}
	a.computeCtorOnly(callers)
	for _, f := range a.order {
		a.local(a.fns[f])
	}

	// roots: callable from outside with nothing held
	for _, f := range a.order {
		ff := a.fns[f]
		if exportedName(f) || len(callers[f]) == 0 || a.spawned[f] || f.Name() == "init" {
			ff.root = true
		}
	}

	// interprocedural propagation of entry held-sets
	entryMay := map[*ssa.Function]set{}
	entryMust := map[*ssa.Function]mustSet{}
	type pred struct {
		caller *ssa.Function
		local  bool // the mutex was acquired in caller itself
	}
	why := map[*ssa.Function]map[string]pred{}
	for _, f := range a.order {
		entryMay[f] = set{}
		why[f] = map[string]pred{}
		if a.fns[f].root {
			entryMust[f] = mustSet{s: set{}}
		} else {
			entryMust[f] = mustSet{top: true}
		}
	}
	for round := 0; round < 3; round++ {
		for changed := true; changed; {
			changed = false
			for _, f := range a.order {
				ff := a.fns[f]
				for _, cs := range ff.calls {
					for _, g := range cs.callees {
						if _, known := a.fns[g]; !known {
							continue
						}
						if cs.spawn {
							if !entryMust[g].eq(mustSet{s: set{}}) {
								entryMust[g] = mustSet{s: set{}}
								changed = true
							}
							continue
						}
						for k := range cs.may {
							if !entryMay[g].has(k) {
								entryMay[g][k] = struct{}{}
								why[g][k] = pred{caller: f, local: true}
								changed = true
							}
						}
						for k := range entryMay[f] {
							if !entryMay[g].has(k) {
								entryMay[g][k] = struct{}{}
								why[g][k] = pred{caller: f}
								changed = true
							}
						}
						if !entryMust[f].top {
							nm := entryMust[g].meet(mustSet{s: union(entryMust[f].s, cs.must)})
							if !nm.eq(entryMust[g]) {
								entryMust[g] = nm
								changed = true
							}
						}
					}
				}
			}
		}
		// functions never reached from a root (dead code cycles): treat as roots
		again := false
		for _, f := range a.order {
			if entryMust[f].top {
				entryMust[f] = mustSet{s: set{}}
				again = true
			}
		}
		if !again {
			break
		}
	}

	a.debugDump()

	// ------------------------------------------------------------ lock-order edges
	edges := map[[2]string]*edgeWit{}
	mutexes := set{}
	chainOf := func(f *ssa.Function, k string) []string {
		var ch []string
		cur := f
		for i := 0; i < 40; i++ {
			ch = append([]string{a.fns[cur].name}, ch...)
			p, ok := why[cur][k]
			if !ok {
				break
			}
			cur = p.caller
			if p.local {
				ch = append([]string{a.fns[cur].name}, ch...)
				break
			}
		}
		return ch
	}
	var leaks, unknown, unbalanced []string
	for _, f := range a.order {
		ff := a.fns[f]
		for _, aq := range ff.acqs {
			mutexes[aq.mutex] = struct{}{}
			for h := range aq.may {
				key := [2]string{h, aq.mutex}
				if _, ok := edges[key]; !ok {
					edges[key] = &edgeWit{From: h, To: aq.mutex, Acquirer: ff.name, Chain: []string{ff.name}, Pos: a.pos(aq.pos)}
				}
			}
			for h := range entryMay[f] {
				key := [2]string{h, aq.mutex}
				if _, ok := edges[key]; !ok {
					edges[key] = &edgeWit{From: h, To: aq.mutex, Acquirer: ff.name, Chain: chainOf(f, h), Pos: a.pos(aq.pos)}
				}
			}
		}
		for _, k := range ff.exitMay.sorted() {
			leaks = append(leaks, k+" @ "+ff.name)
		}
		for _, u := range ff.unknown {
			unknown = append(unknown, u)
		}
		for _, u := range ff.unbal {
			unbalanced = append(unbalanced, u+" @ "+ff.name)
		}
	}
	sort.Strings(leaks)
	sort.Strings(unknown)
	sort.Strings(unbalanced)
	mnames := mutexes.sorted()
	mid := map[string]int{}
	for i, m := range mnames {
		mid[m] = i
	}
	var ekeys [][2]string
	for k := range edges {
		ekeys = append(ekeys, k)
	}
	sort.Slice(ekeys, func(i, j int) bool {
		if mid[ekeys[i][0]] != mid[ekeys[j][0]] {
			return mid[ekeys[i][0]] < mid[ekeys[j][0]]
		}
		return mid[ekeys[i][1]] < mid[ekeys[j][1]]
	})
	// self-edges resolved by hand (object identity is abstracted to the type): selfedges.json lists
	// mutexes for which "an object's m held while ANOTHER object's m is acquired" was inspected and an
	// order between the instances exists; they are taken out of lockEdges and recorded in the table.
	resolved := map[string]string{}
	if b, err := os.ReadFile("selfedges.json"); err == nil {
		var l []struct{ Mutex, Justification string }
		if err := json.Unmarshal(b, &l); err != nil {
			fmt.Fprintln(os.Stderr, "selfedges.json:", err)
			os.Exit(1)
		}
		for _, e := range l {
			resolved[e.Mutex] = e.Justification
		}
	}
	var resolvedUsed []string
	{
		var kept [][2]string
		for _, k := range ekeys {
			if j, ok := resolved[k[0]]; ok && k[0] == k[1] {
				resolvedUsed = append(resolvedUsed, fmt.Sprintf("%s: %s (%s)", k[0], j, strings.Join(edges[k].Chain, " → ")))
				continue
			}
			kept = append(kept, k)
		}
		ekeys = kept
	}
	rank, cycle := topoRank(mnames, ekeys)

	// ------------------------------------------------------------ guarded-by rows
	type row struct {
		Field string
		Write bool
		Held  []string // held in any mode
		Excl  []string // held exclusively
		Post  bool
		N     int
		Ex    string
		How   string
	}
	perField := map[string][]row{}
	sites := map[string]set{}                  // "spine/file.go:line" -> fields accessed there after construction
	allSites := map[string]map[string]string{} // "spine/file.go:line" -> field -> "post" | "ctor" | "both"
	funcFields := map[string]set{}             // normalised function name -> fields accessed in it after construction
	postWrite := map[string]bool{}
	postAccessed := set{} // fields with a plain (non-atomic) access after construction
	allFields := set{}
	rowIdx := map[string]int{}
	for _, f := range a.order {
		ff := a.fns[f]
		for _, ac := range ff.accesses {
			allFields[ac.field] = struct{}{}
			raw := union(entryMust[f].s, ac.must)
			anyMode, exclMode := set{}, set{}
			for k := range raw {
				if strings.HasSuffix(k, sharedMark) {
					anyMode[strings.TrimSuffix(k, sharedMark)] = struct{}{}
				} else {
					anyMode[k] = struct{}{}
					exclMode[k] = struct{}{}
				}
			}
			held := anyMode.sorted()
			excl := exclMode.sorted()
			post := !ac.ctor
			if post && ac.write {
				postWrite[ac.field] = true
			}
			if post {
				postAccessed[ac.field] = struct{}{}
			}
			{
				// every access the analyser saw, by site and phase (the dynamic cross-check of the
				// analyser compares the accesses observed in instrumented runs with this table)
				p := a.pos(ac.pos)
				if allSites[p] == nil {
					allSites[p] = map[string]string{}
				}
				ph := "ctor"
				if post {
					ph = "post"
				}
				if old, ok := allSites[p][ac.field]; ok && old != ph {
					ph = "both"
				}
				allSites[p][ac.field] = ph
			}
			if post {
				p := a.pos(ac.pos)
				if sites[p] == nil {
					sites[p] = set{}
				}
				sites[p][ac.field] = struct{}{}
				fnm := normName(ff.name)
				if funcFields[fnm] == nil {
					funcFields[fnm] = set{}
				}
				funcFields[fnm][ac.field] = struct{}{}
			}
			key := fmt.Sprintf("%s|%v|%s|%s|%v", ac.field, ac.write, strings.Join(held, ","), strings.Join(excl, ","), post)
			if i, ok := rowIdx[key]; ok {
				perField[ac.field][i].N++
				continue
			}
			rowIdx[key] = len(perField[ac.field])
			perField[ac.field] = append(perField[ac.field], row{Field: ac.field, Write: ac.write, Held: held, Excl: excl, Post: post, N: 1,
				Ex: ff.name + " (" + a.pos(ac.pos) + ")", How: ac.how})
		}
	}
	var shared, immutable []string
	for _, f := range allFields.sorted() {
		if postWrite[f] {
			shared = append(shared, f)
		} else {
			immutable = append(immutable, f)
		}
	}
	fid := map[string]int{}
	for i, f := range shared {
		fid[f] = i
	}
	common := map[string][]string{}
	var undisciplined []string
	for _, f := range shared {
		var c set
		for _, r := range perField[f] {
			if !r.Post {
				continue
			}
			hs := set{}
			src := r.Held
			if r.Write {
				src = r.Excl // a write is only protected by an exclusive hold
			}
			for _, h := range src {
				hs[h] = struct{}{}
			}
			if c == nil {
				c = hs
			} else {
				c = inter(c, hs)
			}
		}
		common[f] = c.sorted()
		if len(c) == 0 {
			undisciplined = append(undisciplined, f)
		}
	}
	// held sets may mention mutexes that are never acquired while... make sure all have ids
	for _, f := range shared {
		for _, r := range perField[f] {
			for _, h := range r.Held {
				if _, ok := mid[h]; !ok {
					fmt.Fprintln(os.Stderr, "internal: held mutex without id:", h)
					os.Exit(1)
				}
			}
		}
	}

	// ------------------------------------------------------------ Lean output
	var b strings.Builder
	w := func(format string, args ...any) { fmt.Fprintf(&b, format, args...) }
	w("/-! GENERATED by go/lockgraph from the tree under test — do not edit, not committed.\n")
	w("    G8 of DESIGN.md §5: lock-order edges and guarded-by rows for C17.\n")
	w("    Mutexes and fields are identified by (struct type, field) and interned to Nat. -/\n")
	w("namespace Spine.Generated.Locks\n\n")
	w("/-- name table of the mutexes -/\ndef mutexNames : List (Nat × String) := [\n")
	for i, m := range mnames {
		w("  (%d, %q)%s\n", i, m, comma(i, len(mnames)))
	}
	w("]\n\n")
	w("/-- (h, m): mutex h may be held while mutex m is acquired (through calls) -/\ndef lockEdges : List (Nat × Nat) := [\n")
	for i, k := range ekeys {
		e := edges[k]
		w("  (%d, %d)%s  -- %s → %s : %s\n", mid[k[0]], mid[k[1]], comma(i, len(ekeys)), k[0], k[1], strings.Join(e.Chain, " → "))
	}
	w("]\n\n")
	if cycle != nil {
		w("-- THE LOCK GRAPH IS CYCLIC; no rank exists. Cycle:\n")
		for _, k := range cycle {
			e := edges[k]
			w("--   %s → %s : %s (%s)\n", k[0], k[1], strings.Join(e.Chain, " → "), e.Pos)
		}
	}
	w("/-- topological rank (longest chain of edges ending in the mutex); 0 everywhere when the graph is cyclic -/\ndef rank : Nat → Nat\n")
	for i := range mnames {
		w("  | %d => %d\n", i, rank[i])
	}
	w("  | _ => 0\n\n")
	w("/-- self-edges (same mutex type held and acquired, different objects) resolved by hand in go/lockgraph/selfedges.json and NOT contained in lockEdges -/\ndef resolvedSelfEdges : List String := [%s]\n\n", quoteList(resolvedUsed))
	w("/-- functions that may return while holding a mutex they acquired (no deferred release) -/\ndef lockLeaks : List String := [%s]\n\n", quoteList(leaks))
	w("/-- Lock/Unlock calls whose mutex could not be identified as a struct field or package variable -/\ndef unknownLockSites : List String := [%s]\n\n", quoteList(unknown))
	w("/-- Unlock of a mutex the function itself did not acquire -/\ndef unbalancedUnlocks : List String := [%s]\n\n", quoteList(unbalanced))

	w("/-- name table of the fields written after construction -/\ndef fieldNames : List (Nat × String) := [\n")
	for i, f := range shared {
		w("  (%d, %q)%s\n", i, f, comma(i, len(shared)))
	}
	w("]\n\n")
	w("structure Access where\n  field : Nat\n  write : Bool\n  held : List Nat  -- mutexes must-held in any mode (Lock or RLock)\n  excl : List Nat  -- mutexes must-held exclusively (Lock)\n  post : Bool  -- false: constructor phase (fresh object / receiver of a helper only called from New*)\nderiving DecidableEq, Repr\n\n")
	w("/-- every access (deduplicated) to a field written after construction, with the must-held mutexes -/\ndef accesses : List Access := [\n")
	var rows []row
	for _, f := range shared {
		rs := perField[f]
		sort.SliceStable(rs, func(i, j int) bool {
			if rs[i].Post != rs[j].Post {
				return rs[i].Post
			}
			if rs[i].Write != rs[j].Write {
				return rs[i].Write
			}
			if strings.Join(rs[i].Held, ",") != strings.Join(rs[j].Held, ",") {
				return strings.Join(rs[i].Held, ",") < strings.Join(rs[j].Held, ",")
			}
			return strings.Join(rs[i].Excl, ",") < strings.Join(rs[j].Excl, ",")
		})
		rows = append(rows, rs...)
	}
	for i, r := range rows {
		var hs, es []string
		for _, h := range r.Held {
			hs = append(hs, fmt.Sprint(mid[h]))
		}
		for _, h := range r.Excl {
			es = append(es, fmt.Sprint(mid[h]))
		}
		w("  ⟨%d, %v, [%s], [%s], %v⟩%s  -- %s %s ×%d e.g. %s\n", fid[r.Field], r.Write, strings.Join(hs, ", "), strings.Join(es, ", "), r.Post, comma(i, len(rows)), r.Field, r.How, r.N, r.Ex)
	}
	w("]\n\n")
	w("def sharedFields : List Nat := [%s]\n\n", intList(len(shared)))
	var pvars, roVars []string
	for _, f := range shared {
		if strings.HasPrefix(f, globalPrefix) {
			pvars = append(pvars, fmt.Sprint(fid[f]))
		}
	}
	for _, f := range immutable {
		if strings.HasPrefix(f, globalPrefix) {
			roVars = append(roVars, strings.TrimPrefix(f, globalPrefix))
		}
	}
	w("/-- the shared \"fields\" that are package-level variables of the module written after package initialisation\n    (process-wide state: shared by all devices, features and connections) -/\ndef packageVars : List Nat := [%s]\n", strings.Join(pvars, ", "))
	w("-- package-level variables only read after initialisation: %s\n\n", strings.Join(roVars, ", "))
	// address escapes (escapes.go)
	ef := a.addressEscapes()
	var escShared, escOther, mixed []string
	{
		isShared := map[string]bool{}
		for _, f := range shared {
			isShared[f] = true
		}
		var fs []string
		for f := range ef.escapes {
			fs = append(fs, f)
		}
		sort.Strings(fs)
		for _, f := range fs {
			for _, s := range ef.escapes[f] {
				if isShared[f] {
					escShared = append(escShared, f+": "+s)
				} else {
					escOther = append(escOther, f+": "+s)
				}
			}
		}
		for _, f := range ef.atomic.sorted() {
			if postAccessed.has(f) {
				mixed = append(mixed, f)
			}
		}
	}
	w("/-- uses of the ADDRESS of a field that is written after construction other than loading / storing through it\n    in the same function, atomically, or as receiver of a method of the module: accesses made through such a pointer\n    elsewhere would not appear in the rows above -/\ndef addressEscapes : List String := [%s]\n\n", quoteList(escShared))
	w("/-- fields used through sync/atomic (or as receiver of a sync type) that ALSO have a plain access after construction -/\ndef mixedAtomic : List String := [%s]\n", quoteList(mixed))
	w("-- fields only ever used atomically / through package sync: %s\n", strings.Join(ef.atomic.sorted(), ", "))
	w("-- address taken of fields never written after construction (pointer handed out; harmless while nobody writes): %s\n\n", strings.Join(escOther, "; "))
	// container escapes (containers.go)
	cf := a.containers(entryMust, common)
	cid := map[string]int{}
	w("/-- slice- and map-typed fields of the analysed structs (the field holds a header; the elements live in a backing\n    store shared by every copy of the header) -/\ndef containerNames : List (Nat × String) := [\n")
	for i, f := range cf.fields {
		cid[f] = i
		w("  (%d, %q)%s\n", i, f, comma(i, len(cf.fields)))
	}
	w("]\n\n")
	emitC := func(name, doc string, m map[string][]string) {
		w("/-- %s -/\ndef %s : List (Nat × String) := [\n", doc, name)
		var rows []string
		for _, f := range cf.fields {
			for _, site := range m[f] {
				rows = append(rows, fmt.Sprintf("  (%d, %q)", cid[f], racFieldTrim(f)+": "+site))
			}
		}
		w("%s\n]\n\n", strings.Join(rows, ",\n"))
	}
	emitC("containerEscapes", "(field, site): the header of the field's current value leaves the critical section without a copy of the elements\n    — returned, stored elsewhere, sent, handed to a goroutine, or its elements are read where the field's common lock is\n    not held: whoever holds it reads the backing store WITHOUT the lock", cf.escapes)
	emitC("containerInPlace", "(field, site): after construction the backing store of the field's value is modified IN PLACE — element assignment,\n    copy() into it, clear(), map update / delete, append onto a reslice, a reslice stored back, or a callee that does one\n    of these to its parameter (callee bodies analysed: slices.Delete*, Insert, Compact*, Reverse, Sort*, …)", cf.inplace)
	emitC("containerCowWrites", "(field, site): the copy-on-write writers — the field is replaced by a value that does not share the old backing\n    store, or appended to as a whole (writes only the cell at index len, which no earlier header covers)", cf.cow)
	w("/-- a mutex held (in any mode) at every post-construction access of the field and exclusively at every write (the smallest such id) -/\ndef commonLock : Nat → Option Nat\n")
	for i, f := range shared {
		if c := common[f]; len(c) > 0 {
			best := mid[c[0]]
			for _, m := range c {
				if mid[m] < best {
					best = mid[m]
				}
			}
			w("  | %d => some %d  -- %s : %s\n", i, best, f, mnames[best])
		}
	}
	w("  | _ => none\n\n")
	var us []string
	for _, f := range undisciplined {
		us = append(us, fmt.Sprint(fid[f]))
	}
	w("/-- fields with no common mutex over their post-construction accesses: candidates for a data race -/\ndef undisciplined : List Nat := [%s]\n", strings.Join(us, ", "))
	for _, f := range undisciplined {
		w("--   %d %s\n", fid[f], f)
	}
	w("\n-- fields never written after construction (no row emitted): %s\n", strings.Join(immutable, ", "))
	w("-- not analysed: accesses through reflection (model.UpdateList engine, encoding/json, DeepEqual), i.e. the\n")
	w("-- list elements reachable through DataCopy; calls into packages outside the module are opaque.\n")
	w("\nend Spine.Generated.Locks\n")

	if err := os.MkdirAll(*out, 0o755); err != nil {
		panic(err)
	}
	if err := os.WriteFile(filepath.Join(*out, "Locks.lean"), []byte(b.String()), 0o644); err != nil {
		panic(err)
	}

	// ------------------------------------------------------------ JSON side output
	type jrow struct {
		Field string   `json:"field"`
		Write bool     `json:"write"`
		Held  []string `json:"held"`
		Excl  []string `json:"held_exclusively"`
		Post  bool     `json:"post"`
		N     int      `json:"n"`
		Ex    string   `json:"example"`
		How   string   `json:"how"`
	}
	js := map[string]any{}
	js["repo"] = repo
	js["mutexes"] = mnames
	var je []edgeWit
	for _, k := range ekeys {
		je = append(je, *edges[k])
	}
	js["edges"] = je
	js["cyclic"] = cycle != nil
	var jc []edgeWit
	for _, k := range cycle {
		jc = append(jc, *edges[k])
	}
	js["cycle"] = jc
	js["lock_leaks"] = leaks
	js["resolved_self_edges"] = resolvedUsed
	js["unknown_lock_sites"] = unknown
	js["unbalanced_unlocks"] = unbalanced
	js["shared_fields"] = shared
	js["package_vars_read_only"] = roVars
	js["address_escapes_shared"] = escShared
	js["address_escapes_immutable"] = escOther
	js["atomic_fields"] = ef.atomic.sorted()
	js["mixed_atomic"] = mixed
	js["container_fields"] = cf.fields
	js["container_escapes"] = cf.escapes
	js["container_inplace"] = cf.inplace
	js["container_cow_writes"] = cf.cow
	{
		var conflict []string
		for _, f := range cf.fields {
			if len(cf.escapes[f]) > 0 && len(cf.inplace[f]) > 0 {
				conflict = append(conflict, f)
			}
		}
		js["container_conflicts"] = conflict
	}
	js["undisciplined"] = undisciplined
	js["common_lock"] = common
	js["immutable_after_construction"] = immutable
	jr := map[string][]jrow{}
	for _, f := range shared {
		for _, r := range perField[f] {
			if r.Held == nil {
				r.Held = []string{}
			}
			if r.Excl == nil {
				r.Excl = []string{}
			}
			jr[f] = append(jr[f], jrow{r.Field, r.Write, r.Held, r.Excl, r.Post, r.N, r.Ex, r.How})
		}
	}
	js["rows"] = jr
	var ctors []string
	for _, f := range a.order {
		if a.fns[f].ctorOnly {
			ctors = append(ctors, a.fns[f].name)
		}
	}
	js["constructor_only_functions"] = ctors
	jsites := map[string][]string{}
	for p, fs := range sites {
		for _, f := range fs.sorted() {
			if postWrite[f] {
				jsites[p] = append(jsites[p], f)
			}
		}
	}
	js["sites"] = jsites
	js["all_sites"] = allSites
	jff := map[string][]string{}
	for fn, fs := range funcFields {
		for _, f := range fs.sorted() {
			if postWrite[f] {
				jff[fn] = append(jff[fn], f)
			}
		}
	}
	js["func_fields"] = jff
	var nctors []string
	for _, c := range ctors {
		nctors = append(nctors, normName(c))
	}
	js["constructors_normalised"] = nctors
	js["functions_analysed"] = len(a.order)
	jb, _ := json.MarshalIndent(js, "", " ")
	if err := os.WriteFile(filepath.Join(*out, "locks.json"), jb, 0o644); err != nil {
		panic(err)
	}
	fmt.Printf("lockgraph: %d functions, %d mutexes, %d edges, cyclic=%v, leaks=%d, unknown=%d, %d shared fields, %d undisciplined, %d access rows\n",
		len(a.order), len(mnames), len(ekeys), cycle != nil, len(leaks), len(unknown), len(shared), len(undisciplined), len(rows))
}

func (a *analysis) pos(p token.Pos) string {
	ps := a.fset.Position(p)
	f := ps.Filename
	if rel, err := filepath.Rel(a.repo, f); err == nil && !strings.HasPrefix(rel, "..") {
		f = rel
	}
	return fmt.Sprintf("%s:%d", f, ps.Line)
}

var (
	reTypeArgs = regexp.MustCompile(`\[[^\[\]]*\]`)
	reAnon     = regexp.MustCompile(`(\$\d+)+$`)
)

// normName: the form in which the harness derives function names from runtime
// stack frames — no type arguments, no closure suffix, no "spine." prefix.
func normName(s string) string {
	for reTypeArgs.MatchString(s) {
		s = reTypeArgs.ReplaceAllString(s, "")
	}
	s = reAnon.ReplaceAllString(s, "")
	return strings.TrimPrefix(s, "spine.")
}

func racFieldTrim(f string) string { return strings.TrimPrefix(f, "spine.") }

func comma(i, n int) string {
	if i+1 < n {
		return ","
	}
	return ""
}

func quoteList(l []string) string {
	var q []string
	for _, s := range l {
		q = append(q, fmt.Sprintf("%q", s))
	}
	return strings.Join(q, ", ")
}

func intList(n int) string {
	var q []string
	for i := 0; i < n; i++ {
		q = append(q, fmt.Sprint(i))
	}
	return strings.Join(q, ", ")
}

// topoRank: longest-path rank when acyclic; otherwise all zero and one cycle.
func topoRank(names []string, edges [][2]string) ([]int, [][2]string) {
	id := map[string]int{}
	for i, n := range names {
		id[n] = i
	}
	n := len(names)
	adj := make([][]int, n)
	indeg := make([]int, n)
	for _, e := range edges {
		adj[id[e[0]]] = append(adj[id[e[0]]], id[e[1]])
		indeg[id[e[1]]]++
	}
	rank := make([]int, n)
	var q []int
	for i := 0; i < n; i++ {
		if indeg[i] == 0 {
			q = append(q, i)
		}
	}
	done := 0
	for len(q) > 0 {
		v := q[0]
		q = q[1:]
		done++
		for _, u := range adj[v] {
			if rank[v]+1 > rank[u] {
				rank[u] = rank[v] + 1
			}
			indeg[u]--
			if indeg[u] == 0 {
				q = append(q, u)
			}
		}
	}
	if done == n {
		return rank, nil
	}
	// find a cycle among the remaining nodes (indeg > 0) by DFS
	color := make([]int, n)
	parent := make([]int, n)
	var cyc [][2]string
	var dfs func(v int) bool
	dfs = func(v int) bool {
		color[v] = 1
		for _, u := range adj[v] {
			if indeg[u] == 0 && color[u] == 0 {
				continue
			}
			if color[u] == 1 {
				// cycle u -> ... -> v -> u
				cur := v
				cyc = append(cyc, [2]string{names[v], names[u]})
				for cur != u {
					p := parent[cur]
					cyc = append([][2]string{{names[p], names[cur]}}, cyc...)
					cur = p
				}
				return true
			}
			if color[u] == 0 {
				parent[u] = v
				if dfs(u) {
					return true
				}
			}
		}
		color[v] = 2
		return false
	}
	for i := 0; i < n; i++ {
		if indeg[i] > 0 && color[i] == 0 {
			if dfs(i) {
				break
			}
		}
	}
	return make([]int, n), cyc
}
