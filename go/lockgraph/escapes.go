package main

// Address escapes (C17, blind spot of the guarded-by rows made a checked fact).
//
// The guarded-by rows record loads and stores through the address of a field (FieldAddr). When
// the address itself leaves the function — passed to a call, stored, returned, captured, turned
// into an interface — accesses made through it elsewhere are not attributed to the field. This
// pass lists every such use:
//
//   - operand of a sync/atomic function or receiver of a method of package sync / sync/atomic:
//     an atomic (or internally synchronised) use — fine as long as the field has no plain access;
//   - receiver of a method of the module: the callee's own accesses are analysed under its rows;
//   - anything else: an escape.
//
// Emitted: addressEscapes (escapes of fields that are written after construction — must be empty,
// theorem c17_no_shared_address_escapes), mixedAtomic (fields used atomically that also have a
// plain access row — must be empty), and as comment/JSON the escapes of fields never written after
// construction (pointers to immutable fields handed out: harmless for the stack itself).

import (
	"fmt"
	"go/token"
	"sort"

	"golang.org/x/tools/go/ssa"
)

type escapeFacts struct {
	escapes map[string][]string // field -> sites
	atomic  set                 // fields with an atomic / sync-internal use
}

func (a *analysis) addressEscapes() escapeFacts {
	ef := escapeFacts{escapes: map[string][]string{}, atomic: set{}}
	for _, f := range a.order {
		for _, b := range f.Blocks {
			for _, ins := range b.Instrs {
				fa, ok := ins.(*ssa.FieldAddr)
				if !ok {
					continue
				}
				tk, name, fv := fieldOf(fa)
				if fv == nil || !a.analysedStruct(tk) || isSyncMutexType(fv.Type()) {
					continue
				}
				field := tk + "." + name
				a.addrUses(fa, field, a.fns[f].name, &ef, 0)
			}
		}
	}
	for k := range ef.escapes {
		sort.Strings(ef.escapes[k])
		// dedupe
		var out []string
		for i, s := range ef.escapes[k] {
			if i == 0 || s != ef.escapes[k][i-1] {
				out = append(out, s)
			}
		}
		ef.escapes[k] = out
	}
	return ef
}

func (a *analysis) addrUses(v ssa.Value, field, fn string, ef *escapeFacts, depth int) {
	refs := v.Referrers()
	if refs == nil || depth > 6 {
		return
	}
	esc := func(ins ssa.Instruction, how string) {
		p := ins.Pos()
		if p == token.NoPos {
			p = v.Pos()
		}
		ef.escapes[field] = append(ef.escapes[field], fmt.Sprintf("%s in %s (%s)", how, fn, a.pos(p)))
	}
	for _, r := range *refs {
		switch x := r.(type) {
		case *ssa.UnOp:
			// load (or other unary op on the pointer value: none exist for addresses)
		case *ssa.Store:
			if x.Val == v {
				esc(x, "address stored")
			}
		case *ssa.FieldAddr:
			if x.X == v {
				// a sub-object: a mutex inside a struct-typed field is the callee's business
				if _, _, sub := fieldOf(x); sub != nil && isSyncMutexType(sub.Type()) {
					continue
				}
				a.addrUses(x, field, fn, ef, depth+1)
			}
		case *ssa.IndexAddr:
			if x.X == v {
				a.addrUses(x, field, fn, ef, depth+1)
			}
		case *ssa.DebugRef, *ssa.BinOp:
		case ssa.CallInstruction:
			c := x.Common()
			if op, _ := lockOp(c); op != "" {
				continue
			}
			callee := c.StaticCallee()
			if callee == nil {
				esc(x, "address passed to a dynamic call")
				continue
			}
			p := pkgPathOf(callee)
			if p == "sync/atomic" || p == "sync" {
				ef.atomic[field] = struct{}{}
				continue
			}
			isRecv := callee.Signature.Recv() != nil && len(c.Args) > 0 && c.Args[0] == v
			if isRecv && inModule(callee) {
				continue
			}
			if isRecv {
				esc(x, "address is the receiver of "+callee.String())
			} else {
				esc(x, "address passed to "+callee.String())
			}
		default:
			esc(r, fmt.Sprintf("address used by %T", r))
		}
	}
}
