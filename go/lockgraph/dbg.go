package main

import (
	"fmt"
	"os"
	"strings"
)

func (a *analysis) debugDump() {
	pat := os.Getenv("LOCKGRAPH_DEBUG")
	if pat == "" {
		return
	}
	for _, f := range a.order {
		ff := a.fns[f]
		if !strings.Contains(ff.name, pat) {
			continue
		}
		fmt.Fprintf(os.Stderr, "FUNC %s root=%v ctorOnly=%v blocks=%d\n", ff.name, ff.root, ff.ctorOnly, len(f.Blocks))
		for _, aq := range ff.acqs {
			fmt.Fprintf(os.Stderr, "  acq %s may=%v\n", aq.mutex, aq.may.sorted())
		}
		for _, cs := range ff.calls {
			var n []string
			for _, c := range cs.callees {
				n = append(n, shortName(c))
			}
			fmt.Fprintf(os.Stderr, "  call %v may=%v must=%v spawn=%v\n", n, cs.may.sorted(), cs.must.sorted(), cs.spawn)
		}
	}
}
