package main

// Instrumented copy of the tree under test (C17, dynamic cross-check of the analyser).
//
// `lockgraph -instr <dir>` writes a copy of $VERIF_REPO (non-test files) to <dir> in which
//
//   - every `sync.Mutex` / `sync.RWMutex` declared as a struct field or package-level variable
//     of the module is replaced by `vsync.Mutex[vsync.Tn]` / `vsync.RWMutex[vsync.Tn]`, a
//     wrapper that records, per goroutine, which mutexes (name = the analyser's mutex key,
//     address = the instance) are held in which mode when another one is asked for;
//   - before every statement that mentions a field of an analysed struct (package spine and the
//     two model helper receivers — the analyser's universe) or a package-level variable of the
//     module, a call `vsync.Acc(...)` records (field, read/write, site, the goroutine's held set,
//     whether the held mutex of the same struct type is the one inside the accessed object).
//
// Nothing else is changed. The harness (go/comp/lockobs_test.go) builds the race workloads
// against this copy, runs them, and checks every distinct observation against the analyser's
// tables: observed (held, acquired) pairs must be lock-order edges (RespectsEdges), observed
// accesses must be at sites the analyser recorded and must hold the row's common lock, on the
// accessed object's own mutex (TableGuarded). The instrumentation is by go/ast + go/types and
// independent of the SSA analysis it cross-checks.

import (
	"bytes"
	"encoding/json"
	"fmt"
	"go/ast"
	"go/format"
	"go/token"
	"go/types"
	"io/fs"
	"os"
	"path/filepath"
	"reflect"
	"sort"
	"strconv"
	"strings"

	"golang.org/x/tools/go/ast/astutil"
	"golang.org/x/tools/go/packages"
)

type instr struct {
	fset      *token.FileSet
	repo      string
	tags      map[string]int // mutex key -> tag number
	tagList   []string
	offs      map[string][]string // package name -> lines of the offset registration
	addrTaken []string
}

func isSyncSel(info *types.Info, e ast.Expr) string {
	se, ok := e.(*ast.SelectorExpr)
	if !ok {
		return ""
	}
	id, ok := se.X.(*ast.Ident)
	if !ok {
		return ""
	}
	pn, ok := info.Uses[id].(*types.PkgName)
	if !ok || pn.Imported().Path() != "sync" {
		return ""
	}
	if se.Sel.Name == "Mutex" || se.Sel.Name == "RWMutex" {
		return se.Sel.Name
	}
	return ""
}

func (in *instr) tagOf(key string) int {
	if n, ok := in.tags[key]; ok {
		return n
	}
	n := len(in.tagList)
	in.tags[key] = n
	in.tagList = append(in.tagList, key)
	return n
}

func vsyncType(kind string, n int) ast.Expr {
	return &ast.IndexExpr{
		X:     &ast.SelectorExpr{X: ast.NewIdent("vsync"), Sel: ast.NewIdent(kind)},
		Index: &ast.SelectorExpr{X: ast.NewIdent("vsync"), Sel: ast.NewIdent("T" + strconv.Itoa(n))},
	}
}

// analysedOwner: the analyser's key of the struct type that declares field v, "" when outside
// the analyser's universe
func analysedOwner(info *types.Info, sel *types.Selection) (string, *types.Named) {
	if sel.Kind() != types.FieldVal {
		return "", nil
	}
	// walk the implicit embedded path to the declaring struct
	t := sel.Recv()
	idx := sel.Index()
	for i := 0; i < len(idx); i++ {
		if p, ok := t.Underlying().(*types.Pointer); ok {
			t = p.Elem()
		}
		st, ok := t.Underlying().(*types.Struct)
		if !ok {
			return "", nil
		}
		if i == len(idx)-1 {
			n := namedOf(t)
			if n == nil {
				return "", nil
			}
			return typeKey(n), n
		}
		t = st.Field(idx[i]).Type()
	}
	return "", nil
}

func analysedKey(tk string) bool {
	return strings.HasPrefix(tk, "spine.") || extraStructs[tk]
}

type accRef struct {
	field string
	write bool
	base  ast.Expr // expression of the owner object (pointer or addressable value), nil when not pure
	ptr   bool     // base is of pointer type
	pos   token.Pos
}

type fileCtx struct {
	in       *instr
	pkg      *packages.Package
	info     *types.Info
	file     *ast.File
	rel      string
	changed  bool
	useUnsaf bool
	fnName   string
}

func pureExpr(e ast.Expr) bool {
	switch x := e.(type) {
	case *ast.Ident:
		return true
	case *ast.SelectorExpr:
		return pureExpr(x.X)
	case *ast.ParenExpr:
		return pureExpr(x.X)
	case *ast.StarExpr:
		return pureExpr(x.X)
	}
	return false
}

func rootIdent(e ast.Expr) *ast.Ident {
	for {
		switch x := e.(type) {
		case *ast.Ident:
			return x
		case *ast.SelectorExpr:
			e = x.X
		case *ast.ParenExpr:
			e = x.X
		case *ast.StarExpr:
			e = x.X
		default:
			return nil
		}
	}
}

// ownerExpr: the expression denoting the struct object that declares the selected field
// (explicit embedded path), and whether it is a pointer
func (fc *fileCtx) ownerExpr(se *ast.SelectorExpr, sel *types.Selection) (ast.Expr, bool, bool) {
	if !pureExpr(se.X) {
		return nil, false, false
	}
	var e ast.Expr = se.X
	t := sel.Recv()
	tv, ok := fc.info.Types[se.X]
	addressable := ok && tv.Addressable()
	idx := sel.Index()
	for i := 0; i < len(idx)-1; i++ {
		if p, ok := t.Underlying().(*types.Pointer); ok {
			t = p.Elem()
			addressable = true
		}
		st, ok := t.Underlying().(*types.Struct)
		if !ok {
			return nil, false, false
		}
		f := st.Field(idx[i])
		e = &ast.SelectorExpr{X: e, Sel: ast.NewIdent(f.Name())}
		t = f.Type()
	}
	if _, ok := t.Underlying().(*types.Pointer); ok {
		return e, true, true
	}
	return e, false, addressable
}

// isSyncPkgType: a named type of package sync or sync/atomic (generic instances included)
func isSyncPkgType(t types.Type) bool {
	n := namedOf(t)
	if n == nil || n.Obj() == nil || n.Obj().Pkg() == nil {
		return false
	}
	p := n.Obj().Pkg().Path()
	return p == "sync" || p == "sync/atomic"
}

// implicitAddrOfSyncValue: the selection is a method whose declared receiver is a pointer, applied to
// an operand that is a value (not a pointer) of a type of package sync / sync/atomic
func implicitAddrOfSyncValue(info *types.Info, sel *types.Selection) bool {
	fn, ok := sel.Obj().(*types.Func)
	if !ok {
		return false
	}
	sig, ok := fn.Type().(*types.Signature)
	if !ok || sig.Recv() == nil {
		return false
	}
	if _, ptrRecv := sig.Recv().Type().(*types.Pointer); !ptrRecv {
		return false
	}
	if _, isPtr := sel.Recv().Underlying().(*types.Pointer); isPtr {
		return false // a pointer held in the field: the field is loaded
	}
	return isSyncPkgType(sel.Recv())
}

// collect the accesses of the expression tree e (not descending into function literals)
func (fc *fileCtx) collect(e ast.Node, write map[ast.Expr]bool, out *[]accRef) {
	if e == nil {
		return
	}
	// &x.f / &pkgVar: the address is taken, no access happens here (sync/atomic operands, pointers
	// handed out); the analyser does not count these either. Listed in instr.json (addr_taken).
	addrOf := map[ast.Expr]bool{}
	ast.Inspect(e, func(n ast.Node) bool {
		if u, ok := n.(*ast.UnaryExpr); ok && u.Op == token.AND {
			addrOf[ast.Unparen(u.X)] = true
		}
		// x.f.g and x.f.M() with M declared on the pointer, where f holds a struct VALUE: x.f is only a path to
		// the nested object (SSA: FieldAddr of FieldAddr, the outer field is never loaded as a whole) - the
		// access, if any, is the one of g inside the nested struct and is hooked at the outer selector. A value
		// receiver method or a pointer held in f does load f and keeps its hook.
		if outer, ok := n.(*ast.SelectorExpr); ok {
			if inner, ok := ast.Unparen(outer.X).(*ast.SelectorExpr); ok {
				if isel := fc.info.Selections[inner]; isel != nil && isel.Kind() == types.FieldVal {
					if _, isStruct := isel.Type().Underlying().(*types.Struct); isStruct {
						if osel := fc.info.Selections[outer]; osel != nil {
							switch osel.Kind() {
							case types.FieldVal:
								addrOf[inner] = true
							case types.MethodVal:
								if fn, ok := osel.Obj().(*types.Func); ok {
									if sig, ok := fn.Type().(*types.Signature); ok && sig.Recv() != nil {
										if _, ptrRecv := sig.Recv().Type().(*types.Pointer); ptrRecv {
											addrOf[inner] = true
										}
									}
								}
							}
						}
					}
				}
			}
		}
		return true
	})
	ast.Inspect(e, func(n ast.Node) bool {
		switch x := n.(type) {
		case *ast.FuncLit:
			return false
		case *ast.SelectorExpr:
			sel := fc.info.Selections[x]
			if sel == nil {
				return true
			}
			if sel.Kind() == types.MethodVal {
				// x.f.M() with M declared on the pointer and x.f an addressable VALUE of a synchronisation
				// type (package sync or sync/atomic: atomic.Uint64 / Int64 / Bool / Pointer[T] / Value, Once,
				// WaitGroup, Map, Pool, Cond …): the call takes &x.f implicitly, the object synchronises
				// itself — no plain access of the field happens here, and the analyser (SSA: the FieldAddr is
				// the receiver operand, never loaded) records none; it counts the field as used atomically.
				// A copy or an assignment of the whole value is still an ordinary read / write.
				if inner, ok := ast.Unparen(x.X).(*ast.SelectorExpr); ok && implicitAddrOfSyncValue(fc.info, sel) {
					addrOf[inner] = true
				}
				// method call on an object of a package outside the module held in an analysed field
				// (the LRU cache): counted as a write of that field, as the analyser does
				if inner, ok := ast.Unparen(x.X).(*ast.SelectorExpr); ok {
					if fn, ok := sel.Obj().(*types.Func); ok && fn.Pkg() != nil {
						p := fn.Pkg().Path()
						if p != modPath && !strings.HasPrefix(p, modPath+"/") && p != "sync" && p != "sync/atomic" && p != "time" {
							write[inner] = true
						}
					}
				}
				return true
			}
			tk, _ := analysedOwner(fc.info, sel)
			if tk == "" || !analysedKey(tk) {
				return true
			}
			fv, _ := sel.Obj().(*types.Var)
			if fv == nil || isSyncMutexType(fv.Type()) {
				return true
			}
			if addrOf[x] {
				fc.in.addrTaken = append(fc.in.addrTaken, fmt.Sprintf("%s.%s @ %s:%d", tk, fv.Name(), fc.rel, fc.in.fset.Position(x.Sel.Pos()).Line))
				return true
			}
			base, ptr, okb := fc.ownerExpr(x, sel)
			if !okb {
				base = nil
			}
			*out = append(*out, accRef{field: tk + "." + fv.Name(), write: write[x], base: base, ptr: ptr, pos: x.Sel.Pos()})
		case *ast.Ident:
			v, ok := fc.info.Uses[x].(*types.Var)
			if !ok || v.Pkg() == nil || v.IsField() || v.Parent() != v.Pkg().Scope() {
				return true
			}
			p := v.Pkg().Path()
			if p != modPath && !strings.HasPrefix(p, modPath+"/") {
				return true
			}
			if isSyncMutexType(v.Type()) {
				return true
			}
			if _, isStruct := v.Type().Underlying().(*types.Struct); isStruct {
				return true
			}
			if addrOf[x] {
				fc.in.addrTaken = append(fc.in.addrTaken, fmt.Sprintf("var %s.%s @ %s:%d", v.Pkg().Name(), v.Name(), fc.rel, fc.in.fset.Position(x.Pos()).Line))
				return true
			}
			*out = append(*out, accRef{field: globalPrefix + v.Pkg().Name() + "." + v.Name(), write: write[x], pos: x.Pos()})
		}
		return true
	})
}

// markWrites: the analysed-field selector (or package variable) an assignment target writes
// through — x.f = …, x.f[k] = …, *x.f = …, x.f.g = … with g outside the analysed structs
func (fc *fileCtx) markWrites(lhs ast.Expr, write map[ast.Expr]bool) {
	e := lhs
	for {
		switch x := e.(type) {
		case *ast.ParenExpr:
			e = x.X
			continue
		case *ast.IndexExpr:
			e = x.X
			continue
		case *ast.StarExpr:
			e = x.X
			continue
		case *ast.SliceExpr:
			e = x.X
			continue
		case *ast.SelectorExpr:
			sel := fc.info.Selections[x]
			if sel != nil && sel.Kind() == types.FieldVal {
				tk, _ := analysedOwner(fc.info, sel)
				if tk != "" && analysedKey(tk) {
					write[x] = true
					return
				}
				e = x.X
				continue
			}
			// qualified identifier pkg.Var
			write[x.Sel] = true
			return
		case *ast.Ident:
			write[x] = true
			return
		}
		return
	}
}

// ownNodes: the parts of a statement that are evaluated "at" the statement (not nested blocks)
func ownNodes(s ast.Stmt) []ast.Node {
	switch x := s.(type) {
	case *ast.IfStmt:
		ns := []ast.Node{x.Init, x.Cond}
		if e, ok := x.Else.(*ast.IfStmt); ok {
			ns = append(ns, ownNodes(e)...)
		}
		return ns
	case *ast.ForStmt:
		return []ast.Node{x.Init, x.Cond, x.Post}
	case *ast.RangeStmt:
		return []ast.Node{x.Key, x.Value, x.X}
	case *ast.SwitchStmt:
		ns := []ast.Node{x.Init, x.Tag}
		for _, c := range x.Body.List {
			for _, e := range c.(*ast.CaseClause).List {
				ns = append(ns, e)
			}
		}
		return ns
	case *ast.TypeSwitchStmt:
		return []ast.Node{x.Init, x.Assign}
	case *ast.SelectStmt:
		var ns []ast.Node
		for _, c := range x.Body.List {
			ns = append(ns, c.(*ast.CommClause).Comm)
		}
		return ns
	case *ast.LabeledStmt:
		return ownNodes(x.Stmt)
	case *ast.BlockStmt:
		return nil
	}
	return []ast.Node{s}
}

func isNilNode(n ast.Node) bool {
	if n == nil {
		return true
	}
	v := reflect.ValueOf(n)
	return v.Kind() == reflect.Ptr && v.IsNil()
}

func (fc *fileCtx) hooksFor(s ast.Stmt) []ast.Stmt {
	write := map[ast.Expr]bool{}
	var nodes []ast.Node
	for _, n := range ownNodes(s) {
		if isNilNode(n) {
			continue
		}
		nodes = append(nodes, n)
	}
	// write targets
	for _, n := range nodes {
		ast.Inspect(n, func(m ast.Node) bool {
			switch y := m.(type) {
			case *ast.FuncLit:
				return false
			case *ast.AssignStmt:
				if y.Tok != token.DEFINE {
					for _, l := range y.Lhs {
						fc.markWrites(l, write)
					}
				}
			case *ast.IncDecStmt:
				fc.markWrites(y.X, write)
			case *ast.RangeStmt:
				if y.Tok == token.ASSIGN {
					fc.markWrites(y.Key, write)
					fc.markWrites(y.Value, write)
				}
			case *ast.CallExpr:
				if id, ok := y.Fun.(*ast.Ident); ok && id.Name == "delete" && len(y.Args) > 0 {
					if _, isB := fc.info.Uses[id].(*types.Builtin); isB {
						fc.markWrites(y.Args[0], write)
					}
				}
			case *ast.UnaryExpr:
				_ = y
			}
			return true
		})
	}
	var refs []accRef
	for _, n := range nodes {
		if rs, ok := n.(*ast.RangeStmt); ok {
			fc.collect(rs.X, write, &refs)
			if rs.Tok == token.ASSIGN {
				fc.collect(rs.Key, write, &refs)
				fc.collect(rs.Value, write, &refs)
			}
			continue
		}
		fc.collect(n, write, &refs)
	}
	if len(refs) == 0 {
		return nil
	}
	lo := fc.in.fset.Position(s.Pos()).Line
	hi := fc.in.fset.Position(s.End()).Line
	if b := bodyOf(s); b != nil {
		hi = fc.in.fset.Position(b.Lbrace).Line
	}
	for _, r := range refs {
		if l := fc.in.fset.Position(r.pos).Line; l > hi {
			hi = l
		}
	}
	seen := map[string]bool{}
	var hooks []ast.Stmt
	for _, r := range refs {
		line := fc.in.fset.Position(r.pos).Line
		site := fmt.Sprintf("%s:%d:%d-%d", fc.rel, line, lo, hi)
		var base ast.Expr = ast.NewIdent("nil")
		if r.base != nil {
			// variables declared by the statement itself cannot be named before it
			if id := rootIdent(r.base); id != nil {
				if obj := fc.info.Uses[id]; obj != nil && obj.Pos() >= s.Pos() && obj.Pos() < s.End() {
					r.base = nil
				}
			} else {
				r.base = nil
			}
		}
		key := fmt.Sprintf("%s|%v|%s|%s", r.field, r.write, site, exprString(fc.in.fset, r.base))
		if seen[key] {
			continue
		}
		seen[key] = true
		if r.base != nil {
			var arg ast.Expr = r.base
			if !r.ptr {
				arg = &ast.UnaryExpr{Op: token.AND, X: r.base}
			}
			fc.useUnsaf = true
			base = &ast.FuncLit{
				Type: &ast.FuncType{Params: &ast.FieldList{}, Results: &ast.FieldList{List: []*ast.Field{{Type: &ast.SelectorExpr{X: ast.NewIdent("unsafe"), Sel: ast.NewIdent("Pointer")}}}}},
				Body: &ast.BlockStmt{List: []ast.Stmt{&ast.ReturnStmt{Results: []ast.Expr{
					&ast.CallExpr{Fun: &ast.SelectorExpr{X: ast.NewIdent("unsafe"), Sel: ast.NewIdent("Pointer")}, Args: []ast.Expr{arg}}}}}},
			}
		}
		w := "false"
		if r.write {
			w = "true"
		}
		hooks = append(hooks, &ast.ExprStmt{X: &ast.CallExpr{
			Fun: &ast.SelectorExpr{X: ast.NewIdent("vsync"), Sel: ast.NewIdent("Acc")},
			Args: []ast.Expr{base, &ast.BasicLit{Kind: token.STRING, Value: strconv.Quote(r.field)}, ast.NewIdent(w),
				&ast.BasicLit{Kind: token.STRING, Value: strconv.Quote(site)}, &ast.BasicLit{Kind: token.STRING, Value: strconv.Quote(fc.fnName)}},
		}})
	}
	return hooks
}

func bodyOf(s ast.Stmt) *ast.BlockStmt {
	switch x := s.(type) {
	case *ast.IfStmt:
		return x.Body
	case *ast.ForStmt:
		return x.Body
	case *ast.RangeStmt:
		return x.Body
	case *ast.SwitchStmt:
		return x.Body
	case *ast.TypeSwitchStmt:
		return x.Body
	case *ast.SelectStmt:
		return x.Body
	case *ast.LabeledStmt:
		return bodyOf(x.Stmt)
	}
	return nil
}

func exprString(fset *token.FileSet, e ast.Expr) string {
	if e == nil {
		return ""
	}
	var b bytes.Buffer
	_ = format.Node(&b, fset, e)
	return b.String()
}

// instrList rewrites a statement list: hooks before each statement, nested lists recursively
func (fc *fileCtx) instrList(list []ast.Stmt) []ast.Stmt {
	var out []ast.Stmt
	for _, s := range list {
		hooks := fc.hooksFor(s)
		if len(hooks) > 0 {
			fc.changed = true
			out = append(out, hooks...)
		}
		fc.nested(s, hooks)
		out = append(out, s)
	}
	return out
}

// nested: instrument the statement lists inside s (blocks, clauses, function literals)
func (fc *fileCtx) nested(s ast.Stmt, loopHooks []ast.Stmt) {
	switch x := s.(type) {
	case *ast.BlockStmt:
		x.List = fc.instrList(x.List)
	case *ast.IfStmt:
		fc.lits(x.Init)
		fc.lits(x.Cond)
		x.Body.List = fc.instrList(x.Body.List)
		if x.Else != nil {
			fc.nested(x.Else, nil)
		}
	case *ast.ForStmt:
		fc.lits(x.Init)
		fc.lits(x.Cond)
		fc.lits(x.Post)
		x.Body.List = fc.instrList(x.Body.List)
	case *ast.RangeStmt:
		fc.lits(x.X)
		x.Body.List = fc.instrList(x.Body.List)
	case *ast.SwitchStmt:
		fc.lits(x.Init)
		fc.lits(x.Tag)
		for _, c := range x.Body.List {
			cc := c.(*ast.CaseClause)
			cc.Body = fc.instrList(cc.Body)
		}
	case *ast.TypeSwitchStmt:
		fc.lits(x.Init)
		fc.lits(x.Assign)
		for _, c := range x.Body.List {
			cc := c.(*ast.CaseClause)
			cc.Body = fc.instrList(cc.Body)
		}
	case *ast.SelectStmt:
		for _, c := range x.Body.List {
			cc := c.(*ast.CommClause)
			fc.lits(cc.Comm)
			cc.Body = fc.instrList(cc.Body)
		}
	case *ast.LabeledStmt:
		fc.nested(x.Stmt, nil)
	default:
		fc.lits(s)
	}
}

// lits: instrument the bodies of the function literals inside n
func (fc *fileCtx) lits(n ast.Node) {
	if isNilNode(n) {
		return
	}
	ast.Inspect(n, func(m ast.Node) bool {
		if fl, ok := m.(*ast.FuncLit); ok {
			fl.Body.List = fc.instrList(fl.Body.List)
			return false
		}
		return true
	})
}

func declName(fd *ast.FuncDecl, pkgName string) string {
	name := fd.Name.Name
	if fd.Recv != nil && len(fd.Recv.List) > 0 {
		t := fd.Recv.List[0].Type
		for {
			switch x := t.(type) {
			case *ast.StarExpr:
				t = x.X
				continue
			case *ast.IndexExpr:
				t = x.X
				continue
			case *ast.IndexListExpr:
				t = x.X
				continue
			case *ast.ParenExpr:
				t = x.X
				continue
			}
			break
		}
		if id, ok := t.(*ast.Ident); ok {
			name = id.Name + "." + name
		}
	}
	if pkgName != "spine" {
		name = pkgName + "." + name
	}
	return name
}

func instrument(pkgs []*packages.Package, repo, outDir string) (string, error) {
	in := &instr{repo: repo, tags: map[string]int{}, offs: map[string][]string{}}
	if err := os.RemoveAll(outDir); err != nil {
		return "", err
	}
	// copy the tree (non-test Go files, go.mod, go.sum)
	err := filepath.WalkDir(repo, func(p string, d fs.DirEntry, err error) error {
		if err != nil {
			return err
		}
		rel, _ := filepath.Rel(repo, p)
		if d.IsDir() {
			if d.Name() == ".git" || rel == "integration_tests" {
				return filepath.SkipDir
			}
			return os.MkdirAll(filepath.Join(outDir, rel), 0o755)
		}
		if strings.HasSuffix(p, "_test.go") || !(strings.HasSuffix(p, ".go") || d.Name() == "go.mod" || d.Name() == "go.sum") {
			return nil
		}
		b, err := os.ReadFile(p)
		if err != nil {
			return err
		}
		return os.WriteFile(filepath.Join(outDir, rel), b, 0o644)
	})
	if err != nil {
		return "", err
	}
	sort.Slice(pkgs, func(i, j int) bool { return pkgs[i].PkgPath < pkgs[j].PkgPath })
	nfiles, nhooks := 0, 0
	for _, pkg := range pkgs {
		in.fset = pkg.Fset
		files := append([]*ast.File{}, pkg.Syntax...)
		sort.Slice(files, func(i, j int) bool {
			return pkg.Fset.Position(files[i].Pos()).Filename < pkg.Fset.Position(files[j].Pos()).Filename
		})
		for _, f := range files {
			fname := pkg.Fset.Position(f.Pos()).Filename
			rel, err := filepath.Rel(repo, fname)
			if err != nil || strings.HasPrefix(rel, "..") || strings.HasSuffix(fname, "_test.go") {
				continue
			}
			fc := &fileCtx{in: in, pkg: pkg, info: pkg.TypesInfo, file: f, rel: filepath.ToSlash(rel)}
			// 1. mutex declarations
			for _, d := range f.Decls {
				gd, ok := d.(*ast.GenDecl)
				if !ok {
					continue
				}
				for _, sp := range gd.Specs {
					switch s := sp.(type) {
					case *ast.TypeSpec:
						st, ok := s.Type.(*ast.StructType)
						if !ok {
							continue
						}
						for _, fld := range st.Fields.List {
							kind := isSyncSel(pkg.TypesInfo, fld.Type)
							if kind == "" {
								continue
							}
							names := fld.Names
							if len(names) == 0 {
								names = []*ast.Ident{ast.NewIdent(kind)}
							}
							if len(names) != 1 {
								return "", fmt.Errorf("%s: several mutexes in one field declaration", rel)
							}
							key := pkg.Name + "." + s.Name.Name + "." + names[0].Name
							n := in.tagOf(key)
							fld.Type = vsyncType(kind, n)
							fc.changed = true
							inst := s.Name.Name
							if s.TypeParams != nil {
								var args []string
								for _, tp := range s.TypeParams.List {
									for range tp.Names {
										args = append(args, "struct{}")
									}
								}
								inst += "[" + strings.Join(args, ", ") + "]"
							}
							in.offs[pkg.Name] = append(in.offs[pkg.Name], fmt.Sprintf("\tvsync.RegOffset(%q, unsafe.Offsetof(%s{}.%s))", key, inst, names[0].Name))
						}
					case *ast.ValueSpec:
						if gd.Tok != token.VAR || s.Type == nil {
							continue
						}
						kind := isSyncSel(pkg.TypesInfo, s.Type)
						if kind == "" {
							continue
						}
						if len(s.Names) != 1 {
							return "", fmt.Errorf("%s: several mutexes in one var declaration", rel)
						}
						s.Type = vsyncType(kind, in.tagOf(pkg.Name+"."+s.Names[0].Name))
						fc.changed = true
					}
				}
			}
			// 2. access hooks
			before := fc.changed
			for _, d := range f.Decls {
				fd, ok := d.(*ast.FuncDecl)
				if !ok || fd.Body == nil {
					continue
				}
				fc.fnName = declName(fd, pkg.Name)
				fd.Body.List = fc.instrList(fd.Body.List)
			}
			_ = before
			if !fc.changed {
				continue
			}
			// comments inside function bodies would be re-attached at odd places around the
			// inserted statements: drop them (declarations, build constraints and doc comments stay)
			var keep []*ast.CommentGroup
			for _, cg := range f.Comments {
				inside := false
				for _, d := range f.Decls {
					if fd, ok := d.(*ast.FuncDecl); ok && fd.Body != nil && cg.Pos() > fd.Body.Lbrace && cg.End() <= fd.Body.Rbrace {
						inside = true
					}
				}
				if !inside {
					keep = append(keep, cg)
				}
			}
			f.Comments = keep
			astutil.AddImport(pkg.Fset, f, modPath+"/vsync")
			if fc.useUnsaf {
				astutil.AddImport(pkg.Fset, f, "unsafe")
			}
			if !astutil.UsesImport(f, "sync") {
				astutil.DeleteImport(pkg.Fset, f, "sync")
			}
			var buf bytes.Buffer
			if err := format.Node(&buf, pkg.Fset, f); err != nil {
				return "", fmt.Errorf("%s: %v", rel, err)
			}
			nhooks += bytes.Count(buf.Bytes(), []byte("vsync.Acc("))
			if err := os.WriteFile(filepath.Join(outDir, rel), buf.Bytes(), 0o644); err != nil {
				return "", err
			}
			nfiles++
		}
	}
	// 3. the vsync package: runtime, tags, offsets
	vdir := filepath.Join(outDir, "vsync")
	if err := os.MkdirAll(vdir, 0o755); err != nil {
		return "", err
	}
	if err := os.WriteFile(filepath.Join(vdir, "vsync.go"), []byte(vsyncSource), 0o644); err != nil {
		return "", err
	}
	var tb strings.Builder
	tb.WriteString("package vsync\n\n// GENERATED by go/lockgraph -instr: one tag type per mutex declaration of the module\n\n")
	for i, k := range in.tagList {
		fmt.Fprintf(&tb, "type T%d struct{}\n\nfunc (T%d) MutexName() string { return %q }\n\n", i, i, k)
	}
	if err := os.WriteFile(filepath.Join(vdir, "tags.go"), []byte(tb.String()), 0o644); err != nil {
		return "", err
	}
	var pn []string
	for p := range in.offs {
		pn = append(pn, p)
	}
	sort.Strings(pn)
	for _, p := range pn {
		var ob strings.Builder
		fmt.Fprintf(&ob, "package %s\n\n// GENERATED by go/lockgraph -instr: offsets of the mutex fields inside their structs\n\nimport (\n\t\"unsafe\"\n\n\t%q\n)\n\nfunc init() {\n", p, modPath+"/vsync")
		sort.Strings(in.offs[p])
		for _, l := range in.offs[p] {
			ob.WriteString(l + "\n")
		}
		ob.WriteString("}\n")
		if err := os.WriteFile(filepath.Join(outDir, p, "zz_vsync_offsets.go"), []byte(ob.String()), 0o644); err != nil {
			return "", err
		}
	}
	sort.Strings(in.addrTaken)
	meta := map[string]any{"mutexes": in.tagList, "addr_taken": in.addrTaken, "files_rewritten": nfiles, "access_hooks": nhooks, "repo": repo}
	mb, _ := json.MarshalIndent(meta, "", " ")
	if err := os.WriteFile(filepath.Join(filepath.Dir(outDir), "instr.json"), mb, 0o644); err != nil {
		return "", err
	}
	return fmt.Sprintf("instrumented copy: %d mutex declarations, %d files rewritten, %d access hooks", len(in.tagList), nfiles, nhooks), nil
}
