module snapfacts

go 1.22.0

require golang.org/x/tools v0.29.0

require (
	golang.org/x/mod v0.22.0 // indirect
	golang.org/x/sync v0.10.0 // indirect
)
