// Command snapfacts regenerates, from the SSA form of the tree under test, the two static faces of property C11
// ("a value handed out is a stable snapshot") that are not visible to a sequential differential run:
//
//  A. STORE DISCIPLINE (spine.FunctionData): every access to the field holding the stored pointer and every access
//     THROUGH that pointer (the copy `*r.data` of DataCopy, the in-place UpdateList of UpdateData, any helper in
//     between) is listed with the mutexes held at that point. The walk starts at every exported method of the
//     type (and of every type of package spine that embeds it), follows calls into the module carrying the lock
//     state and the "is the stored pointer" taint (helpers are looked through; `defer Unlock` and an explicit
//     `Unlock` are the same thing: the state changes where the unlock HAPPENS), and records an `escape` when the
//     stored pointer itself is returned or stored elsewhere.
//
//  B. SLICE OWNERSHIP (package model): for every function of the package every write that goes through a slice
//     (element assignment, field of an element, a mutating method called on an element, copy, in-place slices.* /
//     sort.*, and `append` to a slice that may have spare capacity) with the origin of that slice: OWNED (allocated
//     in this function: make, literal, nil + append, slices.Clone, append to a clipped slice, a field the function
//     has just assigned such a value to) or FOREIGN (receiver / parameter data, elements loaded from them, results
//     of unknown calls). Functions reachable from the exported generic engine model.UpdateList are marked `engine`
//     (their in-place writes are the known findings of C11); everything else must write through owned slices only.
//
// Nothing is matched by identifier name except the exported API (spine.FunctionData, model.UpdateList). Output:
// <out>/SnapFacts.lean. Own Go module (needs golang.org/x/tools), run by the translator generator `snapfacts`.
package main

import (
	"flag"
	"fmt"
	"go/token"
	"go/types"
	"os"
	"path/filepath"
	"sort"
	"strings"

	"golang.org/x/tools/go/packages"
	"golang.org/x/tools/go/ssa"
	"golang.org/x/tools/go/ssa/ssautil"
)

const modPrefix = "github.com/enbility/spine-go/"

func inModule(f *ssa.Function) bool {
	if f == nil {
		return false
	}
	p := f.Pkg
	if p == nil && f.Origin() != nil {
		p = f.Origin().Pkg
	}
	if p == nil && f.Parent() != nil {
		return inModule(f.Parent())
	}
	return p != nil && strings.HasPrefix(p.Pkg.Path()+"/", modPrefix)
}

func pkgPathOf(f *ssa.Function) string {
	if f == nil {
		return ""
	}
	if f.Pkg != nil {
		return f.Pkg.Pkg.Path()
	}
	if o := f.Origin(); o != nil && o.Pkg != nil {
		return o.Pkg.Pkg.Path()
	}
	if f.Object() != nil && f.Object().Pkg() != nil {
		return f.Object().Pkg().Path()
	}
	if f.Parent() != nil {
		return pkgPathOf(f.Parent())
	}
	return ""
}

func q(s string) string { return "\"" + strings.ReplaceAll(s, "\"", "'") + "\"" }

// ====================================================================== A. store discipline

type lockState map[string]int // mutex -> 0 none, 1 read-locked, 2 locked

func (s lockState) clone() lockState {
	c := lockState{}
	for k, v := range s {
		if v > 0 {
			c[k] = v
		}
	}
	return c
}

func meet(a, b lockState) lockState {
	c := lockState{}
	for k, v := range a {
		if w := b[k]; w > 0 {
			if w < v {
				v = w
			}
			c[k] = v
		}
	}
	return c
}

func (s lockState) eq(b lockState) bool {
	if len(s.clone()) != len(b.clone()) {
		return false
	}
	for k, v := range s {
		if v > 0 && b[k] != v {
			return false
		}
	}
	return true
}

func (s lockState) render() string {
	var ks []string
	for k, v := range s {
		if v > 0 {
			ks = append(ks, fmt.Sprintf("(%s, %d)", q(k), v))
		}
	}
	sort.Strings(ks)
	return "[" + strings.Join(ks, ", ") + "]"
}

type access struct {
	root, kind string
	held       string
}

type storeWalk struct {
	prog      *ssa.Program
	typeName  string // FunctionData
	dataField int
	root      string
	recs      map[access]bool
	sites     map[token.Pos]bool // field sites visited
	depth     int
}

// isStoreType: t is (a pointer to) an instance of the store type
func (w *storeWalk) isStoreType(t types.Type) bool {
	if p, ok := t.Underlying().(*types.Pointer); ok {
		t = p.Elem()
	}
	n, ok := t.(*types.Named)
	if !ok {
		return false
	}
	o := n.Origin().Obj()
	return o.Name() == w.typeName && o.Pkg() != nil && o.Pkg().Path() == modPrefix+"spine"
}

func (w *storeWalk) isDataFieldAddr(v ssa.Value) bool {
	fa, ok := v.(*ssa.FieldAddr)
	return ok && w.isStoreType(fa.X.Type()) && fa.Field == w.dataField
}

// mutexOf: the name of the mutex a Lock/Unlock call works on
func mutexOf(recv ssa.Value) string {
	switch x := recv.(type) {
	case *ssa.FieldAddr:
		t := x.X.Type()
		if p, ok := t.Underlying().(*types.Pointer); ok {
			t = p.Elem()
		}
		tn := "?"
		if n, ok := t.(*types.Named); ok {
			tn = n.Origin().Obj().Name()
		}
		if s, ok := t.Underlying().(*types.Struct); ok && x.Field < s.NumFields() {
			return tn + "." + s.Field(x.Field).Name()
		}
		return tn + ".?"
	case *ssa.Global:
		return "var " + x.Name()
	case *ssa.UnOp:
		return mutexOf(x.X)
	}
	return "?"
}

// lockOp: +2 Lock, +1 RLock, -1 unlock (either kind); 0 not a mutex operation
func lockOp(c *ssa.CallCommon) (string, int) {
	f := c.StaticCallee()
	if f == nil || f.Object() == nil || f.Object().Pkg() == nil || f.Object().Pkg().Path() != "sync" || len(c.Args) == 0 {
		return "", 0
	}
	switch f.Name() {
	case "Lock":
		return mutexOf(c.Args[0]), 2
	case "RLock":
		return mutexOf(c.Args[0]), 1
	case "Unlock", "RUnlock":
		return mutexOf(c.Args[0]), -1
	}
	return "", 0
}

// deferredUnlocks: the mutexes a deferred call releases (directly, or inside a deferred closure / helper)
func deferredUnlocks(c *ssa.CallCommon, depth int) []string {
	if m, op := lockOp(c); op < 0 {
		return []string{m}
	}
	var fn *ssa.Function
	switch x := c.Value.(type) {
	case *ssa.Function:
		fn = x
	case *ssa.MakeClosure:
		fn, _ = x.Fn.(*ssa.Function)
	}
	var res []string
	if fn != nil && depth < 3 && inModule(fn) {
		for _, b := range fn.Blocks {
			for _, in := range b.Instrs {
				if call, ok := in.(*ssa.Call); ok {
					res = append(res, deferredUnlocks(&call.Call, depth+1)...)
				}
			}
		}
	}
	return res
}

type taintSet map[ssa.Value]bool

// tainted: v is (derived by conversions from) the stored pointer
func (w *storeWalk) tainted(v ssa.Value, ts taintSet, seen map[ssa.Value]bool) bool {
	if ts[v] {
		return true
	}
	if seen[v] {
		return false
	}
	seen[v] = true
	switch x := v.(type) {
	case *ssa.UnOp:
		if x.Op == token.MUL {
			if w.isDataFieldAddr(x.X) {
				return true
			}
			if al, ok := x.X.(*ssa.Alloc); ok { // a local variable holding the pointer
				for _, r := range *al.Referrers() {
					if st, ok := r.(*ssa.Store); ok && st.Addr == al && w.tainted(st.Val, ts, seen) {
						return true
					}
				}
			}
		}
	case *ssa.Phi:
		for _, e := range x.Edges {
			if w.tainted(e, ts, seen) {
				return true
			}
		}
	case *ssa.ChangeType:
		return w.tainted(x.X, ts, seen)
	case *ssa.Convert:
		return w.tainted(x.X, ts, seen)
	case *ssa.MakeInterface:
		return w.tainted(x.X, ts, seen)
	case *ssa.ChangeInterface:
		return w.tainted(x.X, ts, seen)
	case *ssa.TypeAssert:
		return w.tainted(x.X, ts, seen)
	case *ssa.Extract:
		return w.tainted(x.Tuple, ts, seen)
	case *ssa.Call:
		if f := x.Call.StaticCallee(); f != nil && inModule(f) && len(f.Blocks) > 0 && w.depth < 6 {
			// a helper that returns the stored pointer
			sub := taintSet{}
			for i, a := range x.Call.Args {
				if i < len(f.Params) && w.tainted(a, ts, seen) {
					sub[f.Params[i]] = true
				}
			}
			w.depth++
			defer func() { w.depth-- }()
			for _, b := range f.Blocks {
				for _, in := range b.Instrs {
					if ret, ok := in.(*ssa.Return); ok {
						for _, rv := range ret.Results {
							if w.tainted(rv, sub, map[ssa.Value]bool{}) {
								return true
							}
						}
					}
				}
			}
		}
	}
	return false
}

func (w *storeWalk) isT(v ssa.Value, ts taintSet) bool {
	return w.tainted(v, ts, map[ssa.Value]bool{})
}

func (w *storeWalk) rec(kind string, st lockState) {
	w.recs[access{w.root, kind, st.render()}] = true
}

// relevant: the callee can touch the store (a value of the store type or the stored pointer is among its operands,
// or it is a closure of such a function)
func (w *storeWalk) relevant(c *ssa.CallCommon, ts taintSet) bool {
	for _, a := range c.Args {
		if w.isStoreType(a.Type()) || w.isT(a, ts) {
			return true
		}
		if p, ok := a.Type().Underlying().(*types.Pointer); ok {
			if s, ok := p.Elem().Underlying().(*types.Struct); ok { // a type embedding the store
				for i := 0; i < s.NumFields(); i++ {
					if s.Field(i).Embedded() && w.isStoreType(s.Field(i).Type()) {
						return true
					}
				}
			}
		}
	}
	if mc, ok := c.Value.(*ssa.MakeClosure); ok {
		for _, b := range mc.Bindings {
			if w.isStoreType(b.Type()) || w.isT(b, ts) {
				return true
			}
			if p, ok := b.Type().Underlying().(*types.Pointer); ok && w.isStoreType(p.Elem()) {
				return true
			}
		}
	}
	return false
}

// walk: forward data flow of the lock state over fn's blocks; record = emit rows (second pass only)
func (w *storeWalk) walk(fn *ssa.Function, ts taintSet, entry lockState, stack []*ssa.Function) lockState {
	for _, s := range stack {
		if s == fn {
			return entry
		}
	}
	if len(fn.Blocks) == 0 || len(stack) > 8 {
		return entry
	}
	stack = append(stack, fn)
	in := map[*ssa.BasicBlock]lockState{fn.Blocks[0]: entry.clone()}
	deferred := map[string]bool{}
	exit := lockState(nil)
	pass := func(record bool) bool {
		changed := false
		exit = nil
		for _, b := range fn.Blocks {
			st, ok := in[b]
			if !ok {
				continue
			}
			st = st.clone()
			for _, ins := range b.Instrs {
				st = w.instr(fn, ins, ts, st, deferred, record, stack)
				if _, ok := ins.(*ssa.Return); ok {
					if exit == nil {
						exit = st.clone()
					} else {
						exit = meet(exit, st)
					}
				}
			}
			for _, s := range b.Succs {
				old, ok := in[s]
				var nw lockState
				if !ok {
					nw = st.clone()
				} else {
					nw = meet(old, st)
				}
				if !ok || !old.eq(nw) {
					in[s] = nw
					changed = true
				}
			}
		}
		return changed
	}
	for i := 0; i < 12 && pass(false); i++ {
	}
	pass(true)
	if exit == nil {
		exit = entry.clone()
	}
	return exit
}

func (w *storeWalk) instr(fn *ssa.Function, ins ssa.Instruction, ts taintSet, st lockState, deferred map[string]bool, record bool, stack []*ssa.Function) lockState {
	emit := func(kind string) {
		if record {
			w.rec(kind, st)
		}
	}
	switch x := ins.(type) {
	case *ssa.Defer:
		for _, m := range deferredUnlocks(&x.Call, 0) {
			deferred[m] = true
		}
	case *ssa.RunDefers:
		for m := range deferred {
			delete(st, m)
		}
	case *ssa.UnOp:
		if x.Op == token.MUL {
			if w.isDataFieldAddr(x.X) {
				if record {
					w.sites[x.X.Pos()] = true
				}
				emit("field-load")
			} else if w.isT(x.X, ts) {
				emit("pointee-read")
			}
		}
	case *ssa.Store:
		if w.isDataFieldAddr(x.Addr) {
			if record {
				w.sites[x.Addr.Pos()] = true
			}
			emit("field-store")
		} else if w.isT(x.Addr, ts) {
			emit("pointee-write")
		}
		if w.isT(x.Val, ts) {
			if _, local := x.Addr.(*ssa.Alloc); !local {
				emit("escape")
			}
		}
	case *ssa.FieldAddr:
		if w.isT(x.X, ts) {
			emit("pointee-access")
		}
	case *ssa.IndexAddr:
		if w.isT(x.X, ts) {
			emit("pointee-access")
		}
	case *ssa.Return:
		if len(stack) == 1 { // the exported entry point hands a value to its caller
			for _, rv := range x.Results {
				if w.isT(rv, ts) {
					emit("escape")
				}
			}
		}
	case *ssa.Go:
		for _, a := range x.Call.Args {
			if w.isT(a, ts) {
				emit("escape")
			}
		}
	case *ssa.Call:
		c := &x.Call
		if m, op := lockOp(c); op != 0 {
			if op > 0 {
				st[m] = op
			} else {
				delete(st, m)
			}
			return st
		}
		callee := c.StaticCallee()
		if mc, ok := c.Value.(*ssa.MakeClosure); ok {
			callee, _ = mc.Fn.(*ssa.Function)
		}
		anyT := false
		sub := taintSet{}
		for i, a := range c.Args {
			if w.isT(a, ts) {
				anyT = true
				if callee != nil && i < len(callee.Params) {
					sub[callee.Params[i]] = true
				}
			}
		}
		if c.IsInvoke() {
			if w.isT(c.Value, ts) {
				emit("pointee-call") // a method of the stored value through an interface (UpdateList)
			} else if anyT {
				emit("pointee-call")
			}
			return st
		}
		if callee != nil && inModule(callee) && len(callee.Blocks) > 0 {
			if anyT || w.relevant(c, ts) {
				if mc, ok := c.Value.(*ssa.MakeClosure); ok {
					for i, b := range mc.Bindings {
						if w.isT(b, ts) && i < len(callee.FreeVars) {
							sub[callee.FreeVars[i]] = true
						}
					}
				}
				return w.walkSub(callee, sub, st, stack, record)
			}
			return st
		}
		if anyT {
			emit("pointee-call") // handed to code outside the module
		}
	}
	return st
}

func (w *storeWalk) walkSub(callee *ssa.Function, sub taintSet, st lockState, stack []*ssa.Function, record bool) lockState {
	if !record {
		// the lock state after the call matters in every pass; rows only in the recording pass
		saved := w.recs
		savedSites := w.sites
		w.recs = map[access]bool{}
		w.sites = map[token.Pos]bool{}
		out := w.walk(callee, sub, st, stack)
		w.recs, w.sites = saved, savedSites
		return out
	}
	return w.walk(callee, sub, st, stack)
}

// ====================================================================== B. slice ownership

type cellKey struct {
	base  ssa.Value
	field int
}

type ownState map[cellKey]bool

func (s ownState) clone() ownState {
	c := ownState{}
	for k, v := range s {
		if v {
			c[k] = true
		}
	}
	return c
}

func ownMeet(a, b ownState) ownState {
	c := ownState{}
	for k := range a {
		if b[k] {
			c[k] = true
		}
	}
	return c
}

func (s ownState) eq(b ownState) bool {
	if len(s) != len(b) {
		return false
	}
	for k := range s {
		if !b[k] {
			return false
		}
	}
	return true
}

type sliceRow struct {
	fn, kind      string
	engine, owned bool
}

type ownWalk struct {
	prog    *ssa.Program
	mutates map[*ssa.Function]map[int]bool // callee -> parameters it writes through
	fresh   map[*ssa.Function]int          // 0 unknown, 1 computing, 2 yes, 3 no
	rows    map[sliceRow]int
	cur     map[ssa.Instruction]ownState // state before each field load of the current function
}

func isSlice(t types.Type) bool {
	_, ok := t.Underlying().(*types.Slice)
	return ok
}

func calleeName(c *ssa.CallCommon) (pkg, name string) {
	if b, ok := c.Value.(*ssa.Builtin); ok {
		return "builtin", b.Name()
	}
	f := c.StaticCallee()
	if f == nil {
		return "", ""
	}
	name = f.Name()
	if o := f.Origin(); o != nil {
		name = o.Name()
	}
	if i := strings.Index(name, "["); i > 0 {
		name = name[:i]
	}
	return pkgPathOf(f), name
}

// nonEmptyArg: the variadic part of append(s, x, ...) written with explicit elements
func nonEmptyArg(v ssa.Value) bool {
	if sl, ok := v.(*ssa.Slice); ok {
		if al, ok := sl.X.(*ssa.Alloc); ok {
			if p, ok := al.Type().Underlying().(*types.Pointer); ok {
				if a, ok := p.Elem().Underlying().(*types.Array); ok {
					return a.Len() >= 1
				}
			}
		}
	}
	return false
}

// clipped: the slice has no spare capacity (slices.Clip, s[:n:n] with len == cap is not recognised: only Clip and a
// fully sliced fresh array)
func clipped(v ssa.Value) bool {
	if c, ok := v.(*ssa.Call); ok {
		if p, n := calleeName(&c.Call); p == "slices" && n == "Clip" {
			return true
		}
	}
	if sl, ok := v.(*ssa.Slice); ok && sl.Max != nil && sl.High != nil && sl.Max == sl.High {
		return true
	}
	return false
}

// owned: the backing array of slice value v was allocated by the function under analysis
func (w *ownWalk) owned(v ssa.Value, seen map[ssa.Value]bool) bool {
	if seen[v] {
		return true // optimistic on cycles (x = append(x, ...) in a loop)
	}
	seen[v] = true
	switch x := v.(type) {
	case *ssa.Const:
		return x.IsNil()
	case *ssa.MakeSlice:
		return true
	case *ssa.Slice:
		if _, ok := x.X.(*ssa.Alloc); ok && !isSlice(x.X.Type()) {
			return true // a slice of a new array: composite literal
		}
		if isSlice(x.X.Type()) {
			return w.owned(x.X, seen)
		}
		return false
	case *ssa.Phi:
		for _, e := range x.Edges {
			if !w.owned(e, seen) {
				return false
			}
		}
		return true
	case *ssa.ChangeType:
		return w.owned(x.X, seen)
	case *ssa.Convert:
		return w.owned(x.X, seen)
	case *ssa.Extract:
		if c, ok := x.Tuple.(*ssa.Call); ok {
			return w.callFresh(c)
		}
		return false
	case *ssa.Call:
		p, n := calleeName(&x.Call)
		switch {
		case p == "builtin" && n == "append":
			if len(x.Call.Args) == 0 {
				return false
			}
			base := x.Call.Args[0]
			if w.owned(base, seen) {
				return true
			}
			return clipped(base) && len(x.Call.Args) > 1 && nonEmptyArg(x.Call.Args[1])
		case p == "slices" && (n == "Clone" || n == "Concat" || n == "Collect" || n == "Sorted" || n == "Repeat" || n == "SortedFunc" || n == "SortedStableFunc"):
			return true
		case p == "slices" && (n == "Clip" || n == "Grow" || n == "Insert" || n == "Delete" || n == "DeleteFunc" || n == "Compact" || n == "CompactFunc" || n == "Replace"):
			return len(x.Call.Args) > 0 && w.owned(x.Call.Args[0], seen)
		}
		return w.callFresh(x)
	case *ssa.UnOp:
		if x.Op != token.MUL {
			return false
		}
		switch a := x.X.(type) {
		case *ssa.Alloc: // a local variable: every value ever stored into it
			for _, r := range *a.Referrers() {
				if st, ok := r.(*ssa.Store); ok && st.Addr == a && !w.owned(st.Val, seen) {
					return false
				}
			}
			return true
		case *ssa.FreeVar:
			return false
		case *ssa.FieldAddr:
			if st, ok := w.cur[x]; ok {
				return st[cellKey{rootOf(a.X), a.Field}]
			}
			return false
		}
		return false
	}
	return false
}

// rootOf: identity of the struct a field belongs to (looks through the load of a pointer variable)
func rootOf(v ssa.Value) ssa.Value {
	return v
}

// callFresh: a function of the module all of whose slice results are owned inside it
func (w *ownWalk) callFresh(c *ssa.Call) bool {
	f := c.Call.StaticCallee()
	if f == nil || !inModule(f) || len(f.Blocks) == 0 {
		return false
	}
	switch w.fresh[f] {
	case 1:
		return true
	case 2:
		return true
	case 3:
		return false
	}
	w.fresh[f] = 1
	sub := &ownWalk{prog: w.prog, mutates: w.mutates, fresh: w.fresh, rows: map[sliceRow]int{}}
	sub.flow(f)
	ok := true
	for _, b := range f.Blocks {
		for _, in := range b.Instrs {
			if ret, isRet := in.(*ssa.Return); isRet {
				for _, rv := range ret.Results {
					if isSlice(rv.Type()) && !sub.owned(rv, map[ssa.Value]bool{}) {
						ok = false
					}
				}
			}
		}
	}
	if ok {
		w.fresh[f] = 2
	} else {
		w.fresh[f] = 3
	}
	return ok
}

// sliceBehind: addr points into the backing array of a slice (element, field of an element, ...): that slice
func sliceBehind(addr ssa.Value) ssa.Value {
	for i := 0; i < 8; i++ {
		switch x := addr.(type) {
		case *ssa.IndexAddr:
			if isSlice(x.X.Type()) {
				return x.X
			}
			addr = x.X
		case *ssa.FieldAddr:
			addr = x.X
		default:
			return nil
		}
	}
	return nil
}

// computeMutates: which parameters a function writes through (stores to fields / elements reached from the
// parameter without leaving its allocation, or hands it to a callee that does)
func computeMutates(fns []*ssa.Function) map[*ssa.Function]map[int]bool {
	res := map[*ssa.Function]map[int]bool{}
	derives := func(f *ssa.Function, v ssa.Value) int {
		for i := 0; i < 10; i++ {
			switch x := v.(type) {
			case *ssa.Parameter:
				for k, p := range f.Params {
					if p == x {
						return k
					}
				}
				return -1
			case *ssa.FieldAddr:
				v = x.X
			case *ssa.IndexAddr:
				v = x.X
			case *ssa.UnOp:
				v = x.X
			case *ssa.Slice:
				v = x.X
			default:
				return -1
			}
		}
		return -1
	}
	for changed, round := true, 0; changed && round < 10; round++ {
		changed = false
		for _, f := range fns {
			for _, b := range f.Blocks {
				for _, in := range b.Instrs {
					mark := func(k int) {
						if k < 0 {
							return
						}
						if res[f] == nil {
							res[f] = map[int]bool{}
						}
						if !res[f][k] {
							res[f][k] = true
							changed = true
						}
					}
					switch x := in.(type) {
					case *ssa.Store:
						if _, isParam := x.Addr.(*ssa.Parameter); !isParam || true {
							mark(derives(f, x.Addr))
						}
					case *ssa.Call:
						if g := x.Call.StaticCallee(); g != nil {
							for i, a := range x.Call.Args {
								if res[g][i] {
									mark(derives(f, a))
								}
							}
						}
					}
				}
			}
		}
	}
	return res
}

// flow: the forward data flow "which struct fields of this function hold an owned slice right now"; fills w.cur
func (w *ownWalk) flow(fn *ssa.Function) {
	w.cur = map[ssa.Instruction]ownState{}
	if len(fn.Blocks) == 0 {
		return
	}
	in := map[*ssa.BasicBlock]ownState{fn.Blocks[0]: {}}
	step := func() bool {
		changed := false
		for _, b := range fn.Blocks {
			st, ok := in[b]
			if !ok {
				continue
			}
			st = st.clone()
			for _, ins := range b.Instrs {
				switch x := ins.(type) {
				case *ssa.UnOp:
					if fa, ok := x.X.(*ssa.FieldAddr); ok && x.Op == token.MUL && isSlice(x.Type()) {
						_ = fa
						w.cur[x] = st.clone()
					}
				case *ssa.Store:
					if fa, ok := x.Addr.(*ssa.FieldAddr); ok && isSlice(x.Val.Type()) {
						k := cellKey{rootOf(fa.X), fa.Field}
						if w.owned(x.Val, map[ssa.Value]bool{}) {
							st[k] = true
						} else {
							delete(st, k)
						}
					}
				case *ssa.Call:
					// a callee that writes through one of its arguments may re-assign the fields of that struct
					if g := x.Call.StaticCallee(); g != nil {
						for i, a := range x.Call.Args {
							if w.mutates[g][i] || !inModule(g) {
								for k := range st {
									if k.base == a {
										delete(st, k)
									}
								}
							}
						}
					} else if x.Call.IsInvoke() || x.Call.StaticCallee() == nil {
						if _, isBuiltin := x.Call.Value.(*ssa.Builtin); !isBuiltin {
							for k := range st { // unknown code: forget everything reachable through pointers
								if _, isAlloc := k.base.(*ssa.Alloc); !isAlloc {
									delete(st, k)
								}
							}
						}
					}
				}
			}
			for _, s := range b.Succs {
				old, ok := in[s]
				nw := st.clone()
				if ok {
					nw = ownMeet(old, st)
				}
				if !ok || !old.eq(nw) {
					in[s] = nw
					changed = true
				}
			}
		}
		return changed
	}
	for i := 0; i < 12 && step(); i++ {
	}
}

func (w *ownWalk) analyse(fn *ssa.Function, name string, engine bool) {
	w.flow(fn)
	row := func(kind string, s ssa.Value) {
		w.rows[sliceRow{name, kind, engine, w.owned(s, map[ssa.Value]bool{})}]++
	}
	for _, b := range fn.Blocks {
		for _, ins := range b.Instrs {
			switch x := ins.(type) {
			case *ssa.Store:
				if s := sliceBehind(x.Addr); s != nil {
					row("element-store", s)
				}
			case *ssa.Call:
				c := &x.Call
				p, n := calleeName(c)
				switch {
				case p == "builtin" && n == "append":
					if len(c.Args) > 0 && !clipped(c.Args[0]) {
						if cst, ok := c.Args[0].(*ssa.Const); ok && cst.IsNil() {
							continue
						}
						row("append-into-capacity", c.Args[0])
					}
				case p == "builtin" && n == "copy":
					row("copy-into", c.Args[0])
				case p == "slices" && (n == "Insert" || n == "Delete" || n == "DeleteFunc" || n == "Compact" || n == "CompactFunc" || n == "Replace" ||
					n == "Reverse" || n == "Sort" || n == "SortFunc" || n == "SortStableFunc"):
					row("slices."+n, c.Args[0])
				case p == "sort" && (n == "Slice" || n == "SliceStable" || n == "Sort" || n == "Stable"):
					a := c.Args[0]
					if mi, ok := a.(*ssa.MakeInterface); ok {
						a = mi.X
					}
					if isSlice(a.Type()) {
						row("sort."+n, a)
					}
				default:
					// a method / function that writes through a pointer into a backing array
					g := c.StaticCallee()
					for i, a := range c.Args {
						if s := sliceBehind(a); s != nil {
							if g == nil || !inModule(g) || w.mutates[g][i] {
								row("element-mutator-call", s)
							}
						}
					}
				}
			}
		}
	}
}

// ====================================================================== main

func main() {
	out := flag.String("out", "", "output directory (lean/Spine/Generated)")
	flag.Parse()
	if *out == "" {
		fmt.Fprintln(os.Stderr, "usage: snapfacts -out <dir>")
		os.Exit(2)
	}
	repo := os.Getenv("VERIF_REPO")
	if repo == "" {
		repo = "/repo"
	}
	cfg := &packages.Config{Mode: packages.LoadAllSyntax, Dir: repo, BuildFlags: []string{"-tags=verif"},
		Env: append(os.Environ(), "GOFLAGS=-mod=mod", "GOPROXY=off", "GOSUMDB=off", "GOTOOLCHAIN=local")}
	pkgs, err := packages.Load(cfg, "./spine", "./model", "./api", "./util")
	if err != nil {
		fmt.Fprintln(os.Stderr, "load:", err)
		os.Exit(1)
	}
	if packages.PrintErrors(pkgs) > 0 {
		os.Exit(1)
	}
	prog, spkgs := ssautil.AllPackages(pkgs, ssa.BuilderMode(0))
	prog.Build()
	var spine, model *ssa.Package
	for _, p := range spkgs {
		if p == nil {
			continue
		}
		switch p.Pkg.Path() {
		case modPrefix + "spine":
			spine = p
		case modPrefix + "model":
			model = p
		}
	}
	if spine == nil || model == nil {
		fmt.Fprintln(os.Stderr, "snapfacts: packages spine / model not found")
		os.Exit(1)
	}

	// ---------------------------------------------------------------- A
	tn, ok := spine.Members["FunctionData"].(*ssa.Type)
	if !ok {
		fmt.Fprintln(os.Stderr, "snapfacts: type spine.FunctionData not found")
		os.Exit(1)
	}
	named := tn.Type().(*types.Named)
	str, ok := named.Underlying().(*types.Struct)
	if !ok {
		fmt.Fprintln(os.Stderr, "snapfacts: spine.FunctionData is not a struct")
		os.Exit(1)
	}
	dataField := -1
	for i := 0; i < str.NumFields(); i++ {
		if p, ok := str.Field(i).Type().(*types.Pointer); ok {
			if _, isTP := p.Elem().(*types.TypeParam); isTP {
				dataField = i
			}
		}
	}
	if dataField < 0 {
		fmt.Fprintln(os.Stderr, "snapfacts: spine.FunctionData has no field of type *T (the stored pointer)")
		os.Exit(1)
	}
	sw := &storeWalk{prog: prog, typeName: "FunctionData", dataField: dataField, recs: map[access]bool{}, sites: map[token.Pos]bool{}}
	// all functions of the module (methods of generic types included)
	all := ssautil.AllFunctions(prog)
	var modFns []*ssa.Function
	for f := range all {
		if inModule(f) && len(f.Blocks) > 0 && f.Synthetic == "" {
			modFns = append(modFns, f)
		}
	}
	sort.Slice(modFns, func(i, j int) bool { return modFns[i].String() < modFns[j].String() })
	// methods of generic types are not in AllFunctions: add them (and their closures) through the named types
	have := map[*ssa.Function]bool{}
	for _, f := range modFns {
		have[f] = true
	}
	var addFn func(f *ssa.Function)
	addFn = func(f *ssa.Function) {
		if f == nil || have[f] || len(f.Blocks) == 0 || f.Synthetic != "" {
			return
		}
		have[f] = true
		modFns = append(modFns, f)
		for _, a := range f.AnonFuncs {
			addFn(a)
		}
	}
	for _, p := range []*ssa.Package{spine, model} {
		for _, mem := range p.Members {
			if t, ok := mem.(*ssa.Type); ok {
				if n, ok := t.Type().(*types.Named); ok {
					for i := 0; i < n.NumMethods(); i++ {
						addFn(prog.FuncValue(n.Method(i)))
					}
				}
			}
		}
	}
	sort.Slice(modFns, func(i, j int) bool { return modFns[i].String() < modFns[j].String() })
	// roots: exported methods whose receiver is the store type or embeds it, not instantiations
	for _, f := range modFns {
		if f.Signature.Recv() == nil || f.Parent() != nil || len(f.TypeArgs()) > 0 || !token.IsExported(f.Name()) {
			continue
		}
		rt := f.Signature.Recv().Type()
		isRoot := sw.isStoreType(rt)
		if p, ok := rt.Underlying().(*types.Pointer); ok && !isRoot {
			if s, ok := p.Elem().Underlying().(*types.Struct); ok {
				for i := 0; i < s.NumFields(); i++ {
					if s.Field(i).Embedded() && sw.isStoreType(s.Field(i).Type()) {
						isRoot = true
					}
				}
			}
		}
		if !isRoot {
			continue
		}
		sw.root = f.Name()
		sw.walk(f, taintSet{}, lockState{}, nil)
	}
	// every static access to the field anywhere in the module must have been visited
	fieldSites, covered := 0, 0
	for _, f := range modFns {
		if len(f.TypeArgs()) > 0 {
			continue
		}
		for _, b := range f.Blocks {
			for _, in := range b.Instrs {
				if fa, ok := in.(*ssa.FieldAddr); ok && sw.isDataFieldAddr(fa) {
					used := false
					for _, r := range *fa.Referrers() {
						switch r.(type) {
						case *ssa.UnOp, *ssa.Store:
							used = true
						}
					}
					if used {
						fieldSites++
						if sw.sites[fa.Pos()] {
							covered++
						}
					}
				}
			}
		}
	}
	var accs []access
	for a := range sw.recs {
		accs = append(accs, a)
	}
	sort.Slice(accs, func(i, j int) bool { return fmt.Sprint(accs[i]) < fmt.Sprint(accs[j]) })

	// ---------------------------------------------------------------- B
	var modelFns []*ssa.Function
	for _, f := range modFns {
		if pkgPathOf(f) == modPrefix+"model" && len(f.TypeArgs()) == 0 {
			modelFns = append(modelFns, f)
		}
	}
	// engine = reachable (static calls) from the exported generic UpdateList
	engine := map[*ssa.Function]bool{}
	if ul := model.Func("UpdateList"); ul != nil {
		var visit func(f *ssa.Function)
		visit = func(f *ssa.Function) {
			if f == nil || engine[f] || !inModule(f) {
				return
			}
			engine[f] = true
			if o := f.Origin(); o != nil {
				visit(o)
			}
			for _, b := range f.Blocks {
				for _, in := range b.Instrs {
					if c, ok := in.(ssa.CallInstruction); ok {
						visit(c.Common().StaticCallee())
						if mc, ok := c.Common().Value.(*ssa.MakeClosure); ok {
							if g, ok := mc.Fn.(*ssa.Function); ok {
								visit(g)
							}
						}
					}
					if mc, ok := in.(*ssa.MakeClosure); ok {
						if g, ok := mc.Fn.(*ssa.Function); ok {
							visit(g)
						}
					}
				}
			}
		}
		visit(ul)
	} else {
		fmt.Fprintln(os.Stderr, "snapfacts: model.UpdateList not found")
		os.Exit(1)
	}
	ow := &ownWalk{prog: prog, mutates: computeMutates(modelFns), fresh: map[*ssa.Function]int{}, rows: map[sliceRow]int{}}
	nHelpers := 0
	for _, f := range modelFns {
		name := f.Name()
		if f.Signature.Recv() != nil {
			rt := f.Signature.Recv().Type()
			if p, ok := rt.(*types.Pointer); ok {
				rt = p.Elem()
			}
			if n, ok := rt.(*types.Named); ok {
				name = n.Obj().Name() + "." + name
			}
		}
		if f.Parent() != nil {
			name = f.Parent().Name() + "$closure"
		}
		isEngine := engine[f] || (f.Parent() != nil && engine[f.Parent()])
		if !isEngine {
			nHelpers++
		}
		ow.analyse(f, name, isEngine)
	}
	var rows []sliceRow
	for r := range ow.rows {
		rows = append(rows, r)
	}
	sort.Slice(rows, func(i, j int) bool { return fmt.Sprint(rows[i]) < fmt.Sprint(rows[j]) })

	// ---------------------------------------------------------------- output
	var sb strings.Builder
	sb.WriteString("import Spine.SnapFacts\n/- GENERATED by go/snapfacts from the tree under test - do not edit.\n   A: every access to the stored pointer of spine.FunctionData and through it, with the mutexes held (2 = Lock, 1 = RLock).\n   B: every write through a slice in package model, with the origin of the slice. -/\nnamespace Spine.Generated\nopen Spine.SnapFacts\n\n")
	sb.WriteString("def storeAccesses : List StoreAccess := [\n")
	for i, a := range accs {
		sep := ","
		if i == len(accs)-1 {
			sep = ""
		}
		fmt.Fprintf(&sb, "  ⟨%s, %s, %s⟩%s\n", q(a.root), q(a.kind), a.held, sep)
	}
	sb.WriteString("]\n\n")
	fmt.Fprintf(&sb, "/-- static accesses to the field holding the stored pointer in the whole module / those met by the walk -/\ndef storeFieldSites : Nat := %d\ndef storeFieldSitesCovered : Nat := %d\n\n", fieldSites, covered)
	sb.WriteString("def sliceWrites : List SliceWrite := [\n")
	for i, r := range rows {
		sep := ","
		if i == len(rows)-1 {
			sep = ""
		}
		fmt.Fprintf(&sb, "  ⟨%s, %s, %v, %v, %d⟩%s\n", q(r.fn), q(r.kind), r.engine, r.owned, ow.rows[r], sep)
	}
	sb.WriteString("]\n\n")
	fmt.Fprintf(&sb, "/-- functions of package model outside the update engine that were analysed -/\ndef modelHelpers : Nat := %d\n", nHelpers)
	sb.WriteString("\nend Spine.Generated\n")
	if err := os.MkdirAll(*out, 0o755); err != nil {
		fmt.Fprintln(os.Stderr, err)
		os.Exit(1)
	}
	if err := os.WriteFile(filepath.Join(*out, "SnapFacts.lean"), []byte(sb.String()), 0o644); err != nil {
		fmt.Fprintln(os.Stderr, err)
		os.Exit(1)
	}
	fmt.Printf("generated snapfacts: %d store access rows (%d/%d field sites), %d slice-write rows over %d helper functions\n",
		len(accs), covered, fieldSites, len(rows), nHelpers)
}
