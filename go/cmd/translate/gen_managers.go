package main

// G7 for the subscription and binding managers (C08, C09, C10): the critical
// sections of the SubscriptionManager and the BindingManager that the
// hand-written models Spine.Reg (one event per call, one event per teardown
// pass), Spine.Bind (`atomicAdd`) and Spine.BindSched (`commit` = scan and
// append in one region) rest on. A fact that cannot be established is emitted as
// `false` with a note, never silently: the theorems of Spine/Props/C08Gen.lean,
// C09Gen.lean, C10Gen.lean then no longer check.
//
// The extraction is SEMANTIC (second version; the first one matched `c.mux.Lock()`
// literally and raised a false alarm on a renamed receiver / mutex field and on a
// duplicate check moved into a helper): the whole package directory is parsed
// (moved files), the manager's mutex and entries fields are found by their TYPES,
// the receiver by its declaration, and every operation is turned into a trace of
// lock / unlock / read-entries / write-entries events with helpers of the package
// and function literals inlined (4 levels), `defer Unlock` ending its region at
// the end of the function that deferred it, an explicit `Unlock` where it stands,
// a branch that ends in return / panic not leaking its lock state into the code
// after it. Facts are stated over the regions of that trace.

import (
	"fmt"
	"go/ast"
	"go/parser"
	"go/token"
	"os"
	"path/filepath"
	"sort"
	"strings"
)

func init() { register("managers", genManagers) }

type mgrPkg struct {
	funcs   map[string]*ast.FuncDecl // "Type.Method" and "func"
	structs map[string]*ast.StructType
}

func mgrLoad(dir string) (*mgrPkg, error) {
	fset := token.NewFileSet()
	ents, err := os.ReadDir(dir)
	if err != nil {
		return nil, err
	}
	p := &mgrPkg{funcs: map[string]*ast.FuncDecl{}, structs: map[string]*ast.StructType{}}
	for _, e := range ents {
		n := e.Name()
		if e.IsDir() || !strings.HasSuffix(n, ".go") || strings.HasSuffix(n, "_test.go") {
			continue
		}
		f, err := parser.ParseFile(fset, filepath.Join(dir, n), nil, 0)
		if err != nil {
			return nil, err
		}
		// files excluded by a build tag other than verif (none today) would be parsed too: the duplicate-definition
		// rule below keeps the first and notes nothing — the managers have no tagged variants
		for _, d := range f.Decls {
			switch x := d.(type) {
			case *ast.FuncDecl:
				key := x.Name.Name
				if x.Recv != nil {
					key = recvTypeName(x) + "." + key
				}
				if _, dup := p.funcs[key]; !dup {
					p.funcs[key] = x
				}
			case *ast.GenDecl:
				for _, s := range x.Specs {
					if ts, ok := s.(*ast.TypeSpec); ok {
						if st, ok := ts.Type.(*ast.StructType); ok {
							p.structs[ts.Name.Name] = st
						}
					}
				}
			}
		}
	}
	return p, nil
}

// the manager's mutex fields (type sync.Mutex / sync.RWMutex) and its entries field (a slice of *api.<kind>Entry)
func (p *mgrPkg) fields(typ, entryType string) (mutexes map[string]bool, entries string) {
	mutexes = map[string]bool{}
	st := p.structs[typ]
	if st == nil {
		return
	}
	for _, f := range st.Fields.List {
		t := exprString(f.Type)
		for _, n := range f.Names {
			if t == "sync.Mutex" || t == "sync.RWMutex" {
				mutexes[n.Name] = true
			}
			if at, ok := f.Type.(*ast.ArrayType); ok && strings.HasSuffix(exprString(at.Elt), entryType) {
				entries = n.Name
			}
			if at, ok := f.Type.(*ast.ArrayType); ok {
				if se, ok := at.Elt.(*ast.StarExpr); ok && strings.HasSuffix(exprString(se.X), entryType) {
					entries = n.Name
				}
			}
		}
	}
	return
}

type mgrRegion struct {
	mutex         string
	exclusive     bool
	reads, writes int
}

type mgrWalk struct {
	p        *mgrPkg
	typ      string
	mutexes  map[string]bool
	entries  string
	stopAt   string // method not inlined but counted (delegation target), "" = none
	regions  []*mgrRegion
	cur      *mgrRegion
	outside  int // entries accesses with no lock held
	nested   int // lock taken while one is held
	stray    int // unlock with no lock held
	targets  int // calls of stopAt
	mgrVars  []map[string]bool
	problems []string
}

func (w *mgrWalk) isMgr(e ast.Expr) bool {
	id, ok := e.(*ast.Ident)
	if !ok {
		return false
	}
	return len(w.mgrVars) > 0 && w.mgrVars[len(w.mgrVars)-1][id.Name]
}

// mutexOp: X.<mutex>.<Lock|Unlock|RLock|RUnlock>() on the manager
func (w *mgrWalk) mutexOp(c *ast.CallExpr) (mutex, op string) {
	s, ok := c.Fun.(*ast.SelectorExpr)
	if !ok {
		return
	}
	in, ok := s.X.(*ast.SelectorExpr)
	if !ok || !w.isMgr(in.X) || !w.mutexes[in.Sel.Name] {
		return
	}
	switch s.Sel.Name {
	case "Lock", "Unlock", "RLock", "RUnlock", "TryLock":
		return in.Sel.Name, s.Sel.Name
	}
	return
}

func (w *mgrWalk) lock(m string, excl bool) {
	if w.cur != nil {
		w.nested++
		return
	}
	w.cur = &mgrRegion{mutex: m, exclusive: excl}
	w.regions = append(w.regions, w.cur)
}

func (w *mgrWalk) unlock() {
	if w.cur == nil {
		w.stray++
		return
	}
	w.cur = nil
}

func (w *mgrWalk) access(write bool) {
	if w.cur == nil {
		w.outside++
		return
	}
	if write {
		w.cur.writes++
	} else {
		w.cur.reads++
	}
}

func mgrTerminates(b *ast.BlockStmt) bool {
	if b == nil || len(b.List) == 0 {
		return false
	}
	switch x := b.List[len(b.List)-1].(type) {
	case *ast.ReturnStmt:
		return true
	case *ast.BranchStmt:
		return x.Tok == token.CONTINUE || x.Tok == token.BREAK
	case *ast.ExprStmt:
		if c, ok := x.X.(*ast.CallExpr); ok {
			return exprString(c.Fun) == "panic"
		}
	}
	return false
}

func (w *mgrWalk) isEntries(e ast.Expr) bool {
	s, ok := e.(*ast.SelectorExpr)
	return ok && w.isMgr(s.X) && s.Sel.Name == w.entries
}

// walkFunc: the body of fd with its own manager variables (receiver, parameters of the manager's pointer type);
// deferred unlocks run at its end
func (w *mgrWalk) walkFunc(recvName string, params *ast.FieldList, body *ast.BlockStmt, depth int, inherit bool) {
	vars := map[string]bool{}
	if inherit && len(w.mgrVars) > 0 {
		for k := range w.mgrVars[len(w.mgrVars)-1] {
			vars[k] = true
		}
	}
	if recvName != "" {
		vars[recvName] = true
	}
	if params != nil {
		for _, f := range params.List {
			if strings.TrimPrefix(exprString(f.Type), "*") == w.typ {
				for _, n := range f.Names {
					vars[n.Name] = true
				}
			}
		}
	}
	w.mgrVars = append(w.mgrVars, vars)
	var defers []func()
	w.walkBlock(body.List, depth, &defers)
	for i := len(defers) - 1; i >= 0; i-- {
		defers[i]()
	}
	w.mgrVars = w.mgrVars[:len(w.mgrVars)-1]
}

func (w *mgrWalk) walkBlock(list []ast.Stmt, depth int, defers *[]func()) {
	for _, st := range list {
		w.walkStmt(st, depth, defers)
	}
}

func (w *mgrWalk) branch(b *ast.BlockStmt, depth int, defers *[]func()) {
	if b == nil {
		return
	}
	saved := w.cur
	w.walkBlock(b.List, depth, defers)
	if mgrTerminates(b) {
		w.cur = saved // the path left the function (or the iteration): its lock state does not reach the code below
	}
}

func (w *mgrWalk) walkStmt(st ast.Stmt, depth int, defers *[]func()) {
	switch x := st.(type) {
	case nil:
	case *ast.ExprStmt:
		w.walkExpr(x.X, depth)
	case *ast.DeferStmt:
		if _, op := w.mutexOp(x.Call); op == "Unlock" || op == "RUnlock" {
			*defers = append(*defers, func() { w.unlock() })
			return
		}
		if fl, ok := x.Call.Fun.(*ast.FuncLit); ok {
			*defers = append(*defers, func() { w.walkFunc("", nil, fl.Body, depth+1, true) })
			return
		}
		call := x.Call
		*defers = append(*defers, func() { w.walkExpr(call, depth) })
	case *ast.GoStmt:
		w.problems = append(w.problems, "go statement inside a manager operation")
	case *ast.AssignStmt:
		for _, r := range x.Rhs {
			w.walkExpr(r, depth)
		}
		for _, l := range x.Lhs {
			if w.isEntries(l) {
				w.access(true)
			} else {
				w.walkExpr(l, depth)
			}
		}
	case *ast.IncDecStmt:
		w.walkExpr(x.X, depth)
	case *ast.DeclStmt:
		if gd, ok := x.Decl.(*ast.GenDecl); ok {
			for _, s := range gd.Specs {
				if vs, ok := s.(*ast.ValueSpec); ok {
					for _, v := range vs.Values {
						w.walkExpr(v, depth)
					}
				}
			}
		}
	case *ast.ReturnStmt:
		for _, r := range x.Results {
			w.walkExpr(r, depth)
		}
	case *ast.BlockStmt:
		w.walkBlock(x.List, depth, defers)
	case *ast.IfStmt:
		w.walkStmt(x.Init, depth, defers)
		w.walkExpr(x.Cond, depth)
		w.branch(x.Body, depth, defers)
		switch e := x.Else.(type) {
		case *ast.BlockStmt:
			w.branch(e, depth, defers)
		case *ast.IfStmt:
			w.walkStmt(e, depth, defers)
		}
	case *ast.ForStmt:
		w.walkStmt(x.Init, depth, defers)
		if x.Cond != nil {
			w.walkExpr(x.Cond, depth)
		}
		w.walkStmt(x.Post, depth, defers)
		w.branch(x.Body, depth, defers)
	case *ast.RangeStmt:
		w.walkExpr(x.X, depth)
		w.branch(x.Body, depth, defers)
	case *ast.SwitchStmt:
		w.walkStmt(x.Init, depth, defers)
		if x.Tag != nil {
			w.walkExpr(x.Tag, depth)
		}
		for _, c := range x.Body.List {
			if cc, ok := c.(*ast.CaseClause); ok {
				for _, e := range cc.List {
					w.walkExpr(e, depth)
				}
				w.branch(&ast.BlockStmt{List: cc.Body}, depth, defers)
			}
		}
	case *ast.TypeSwitchStmt:
		for _, c := range x.Body.List {
			if cc, ok := c.(*ast.CaseClause); ok {
				w.branch(&ast.BlockStmt{List: cc.Body}, depth, defers)
			}
		}
	case *ast.LabeledStmt:
		w.walkStmt(x.Stmt, depth, defers)
	}
}

func (w *mgrWalk) walkExpr(e ast.Expr, depth int) {
	switch x := e.(type) {
	case nil:
	case *ast.CallExpr:
		if m, op := w.mutexOp(x); op != "" {
			switch op {
			case "Lock":
				w.lock(m, true)
			case "RLock":
				w.lock(m, false)
			case "TryLock":
				w.problems = append(w.problems, "TryLock on the manager mutex")
			default:
				w.unlock()
			}
			return
		}
		for _, a := range x.Args {
			w.walkExpr(a, depth)
		}
		switch f := x.Fun.(type) {
		case *ast.FuncLit:
			w.walkFunc("", nil, f.Body, depth+1, true)
		case *ast.Ident:
			if fd := w.p.funcs[f.Name]; fd != nil && fd.Body != nil && depth < 4 {
				// a package-level helper: manager arguments become its manager variables
				vars := map[string]bool{}
				i := 0
				for _, fl := range fd.Type.Params.List {
					for _, n := range fl.Names {
						if i < len(x.Args) && w.isMgr(x.Args[i]) {
							vars[n.Name] = true
						}
						i++
					}
				}
				w.mgrVars = append(w.mgrVars, vars)
				var defers []func()
				w.walkBlock(fd.Body.List, depth+1, &defers)
				for j := len(defers) - 1; j >= 0; j-- {
					defers[j]()
				}
				w.mgrVars = w.mgrVars[:len(w.mgrVars)-1]
			}
		case *ast.SelectorExpr:
			if w.isMgr(f.X) {
				if w.stopAt != "" && f.Sel.Name == w.stopAt {
					w.targets++
					return
				}
				if fd := w.p.funcs[w.typ+"."+f.Sel.Name]; fd != nil && fd.Body != nil && depth < 4 {
					w.walkFunc(recvVarName(fd), nil, fd.Body, depth+1, false)
				}
				return
			}
			w.walkExpr(f.X, depth)
		default:
			w.walkExpr(x.Fun, depth)
		}
	case *ast.FuncLit:
		// a callback handed to a library function (linq.WhereT, slices.DeleteFunc, sort.Slice): runs where it is passed
		w.walkFunc("", nil, x.Body, depth+1, true)
	case *ast.SelectorExpr:
		if w.isEntries(x) {
			w.access(false)
			return
		}
		w.walkExpr(x.X, depth)
	case *ast.StarExpr:
		w.walkExpr(x.X, depth)
	case *ast.UnaryExpr:
		w.walkExpr(x.X, depth)
	case *ast.BinaryExpr:
		w.walkExpr(x.X, depth)
		w.walkExpr(x.Y, depth)
	case *ast.ParenExpr:
		w.walkExpr(x.X, depth)
	case *ast.IndexExpr:
		w.walkExpr(x.X, depth)
		w.walkExpr(x.Index, depth)
	case *ast.SliceExpr:
		w.walkExpr(x.X, depth)
		w.walkExpr(x.Low, depth)
		w.walkExpr(x.High, depth)
	case *ast.CompositeLit:
		for _, el := range x.Elts {
			w.walkExpr(el, depth)
		}
	case *ast.KeyValueExpr:
		w.walkExpr(x.Value, depth)
	case *ast.TypeAssertExpr:
		w.walkExpr(x.X, depth)
	}
}

func (p *mgrPkg) trace(typ, method, entryType, stopAt string) (*mgrWalk, string) {
	fd := p.funcs[typ+"."+method]
	if fd == nil || fd.Body == nil {
		return nil, fmt.Sprintf("method %s.%s not found in the package", typ, method)
	}
	mu, entries := p.fields(typ, entryType)
	if len(mu) == 0 || entries == "" {
		return nil, fmt.Sprintf("%s: mutex field (sync.Mutex / sync.RWMutex) or entries field ([]*api.%s) not found", typ, entryType)
	}
	w := &mgrWalk{p: p, typ: typ, mutexes: mu, entries: entries, stopAt: stopAt}
	w.walkFunc(recvVarName(fd), fd.Type.Params, fd.Body, 0, false)
	if w.cur != nil {
		w.problems = append(w.problems, "a lock is still held at the end of the operation")
	}
	return w, ""
}

// mgrOneRegion: every access to the entries lies inside a region of the manager's mutex; no lock is taken while one is
// held; the entries are written in exactly ONE region, which is exclusive and also reads (scans) them — check and
// insert, filter and write-back are one critical section. strict: no OTHER region reads the entries (a check made in a
// region of its own before the writing region is the shape of the check/insert race).
func mgrOneRegion(p *mgrPkg, typ, method, entryType string, strict bool, note func(string, ...any)) bool {
	w, why := p.trace(typ, method, entryType, "")
	if w == nil {
		note("%s", why)
		return false
	}
	ok := true
	fail := func(format string, a ...any) {
		ok = false
		note("%s.%s: "+format, append([]any{typ, method}, a...)...)
	}
	for _, pr := range w.problems {
		fail("%s", pr)
	}
	if w.outside > 0 {
		fail("%d access(es) to the entries with no lock held", w.outside)
	}
	if w.nested > 0 {
		fail("the mutex is locked while it is held (%d times)", w.nested)
	}
	if w.stray > 0 {
		fail("%d unlock(s) with no lock held", w.stray)
	}
	writers, readersElsewhere := 0, 0
	for _, r := range w.regions {
		if r.writes > 0 {
			writers++
			if !r.exclusive {
				fail("the entries are written under a read lock")
			}
			if r.reads == 0 {
				fail("the region that writes the entries does not scan them")
			}
		} else if r.reads > 0 {
			readersElsewhere++
		}
	}
	if writers != 1 {
		fail("the entries are written in %d regions, expected exactly one", writers)
	}
	if strict && readersElsewhere > 0 {
		fail("the entries are also read in %d other region(s): a check made there is a critical section of its own", readersElsewhere)
	}
	return ok
}

// mgrDelegates: the operation touches neither the mutex nor the entries itself and calls the per-entity pass
func mgrDelegates(p *mgrPkg, typ, method, entryType, callee string, note func(string, ...any)) bool {
	w, why := p.trace(typ, method, entryType, callee)
	if w == nil {
		note("%s", why)
		return false
	}
	ok := true
	if len(w.regions) > 0 || w.outside > 0 || w.stray > 0 {
		ok = false
		note("%s.%s: operates the mutex or the entries itself", typ, method)
	}
	if w.targets < 1 {
		ok = false
		note("%s.%s: does not call %s", typ, method, callee)
	}
	return ok
}

func genManagers(outDir string) (string, error) {
	var notes []string
	note := func(format string, a ...any) { notes = append(notes, fmt.Sprintf(format, a...)) }
	p, err := mgrLoad(filepath.Join(RepoDir(), "spine"))
	if err != nil {
		return "", err
	}
	const B, S = "BindingManager", "SubscriptionManager"
	const BE, SE = "BindingEntry", "SubscriptionEntry"
	facts := []struct {
		name, doc string
		val       bool
	}{
		{"addBindingOneRegion", "AddBinding: the scan of the binding entries for the server feature and the append lie in ONE exclusive region of the manager mutex; the entries are touched in no other region and nowhere without the lock (helpers inlined)",
			mgrOneRegion(p, B, "AddBinding", BE, true, note)},
		{"addSubscriptionOneRegion", "AddSubscription: the duplicate check and the append lie in one exclusive region of the manager mutex",
			mgrOneRegion(p, S, "AddSubscription", SE, true, note)},
		{"removeBindingOneRegion", "RemoveBinding: filter and write-back lie in one exclusive region of the manager mutex",
			mgrOneRegion(p, B, "RemoveBinding", BE, false, note)},
		{"removeSubscriptionOneRegion", "RemoveSubscription: filter and write-back lie in one exclusive region of the manager mutex",
			mgrOneRegion(p, S, "RemoveSubscription", SE, false, note)},
		{"removeBindingsForEntityOneRegion", "RemoveBindingsForEntity (one pass of a teardown): filter, events and write-back lie in one exclusive region of the manager mutex",
			mgrOneRegion(p, B, "RemoveBindingsForEntity", BE, false, note)},
		{"removeSubscriptionsForEntityOneRegion", "RemoveSubscriptionsForEntity (one pass of a teardown): filter, events and write-back lie in one exclusive region of the manager mutex",
			mgrOneRegion(p, S, "RemoveSubscriptionsForEntity", SE, false, note)},
		{"forDeviceDelegates", "RemoveBindingsForDevice / RemoveSubscriptionsForDevice only call the per-entity pass for the entities of the device",
			mgrDelegates(p, B, "RemoveBindingsForDevice", BE, "RemoveBindingsForEntity", note) &&
				mgrDelegates(p, S, "RemoveSubscriptionsForDevice", SE, "RemoveSubscriptionsForEntity", note)},
	}
	var b strings.Builder
	b.WriteString("/-! GENERATED by go/cmd/translate (generator `managers`) from the SubscriptionManager and BindingManager of package spine — do not edit. -/\n")
	b.WriteString("namespace Spine.Generated.Managers\n\n")
	var sum []string
	for _, f := range facts {
		fmt.Fprintf(&b, "/-- %s -/\ndef %s : Bool := %v\n\n", f.doc, f.name, f.val)
		sum = append(sum, fmt.Sprintf("%s=%v", f.name, f.val))
	}
	sort.Strings(notes)
	for _, n := range notes {
		fmt.Fprintf(&b, "-- note: %s\n", n)
	}
	b.WriteString("end Spine.Generated.Managers\n")
	if err := writeFile(outDir, "Managers.lean", b.String()); err != nil {
		return "", err
	}
	return strings.Join(sum, " "), nil
}
