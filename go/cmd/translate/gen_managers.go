package main

// G7 for the subscription and binding managers (C08, C09, C10): the critical
// sections of spine/subscription_manager.go and spine/binding_manager.go that
// the hand-written models Spine.Reg (one event per call, one event per
// teardown pass) and Spine.Bind (`atomicAdd` = check and insertion in one
// critical section) rest on, extracted with go/ast. A fact that cannot be
// established is emitted as `false` with a note, never silently: the theorems
// of Spine/Props/C08Gen.lean, C09Gen.lean, C10Gen.lean then no longer check.

import (
	"fmt"
	"go/ast"
	"go/parser"
	"go/token"
	"path/filepath"
	"strings"
)

func init() { register("managers", genManagers) }

// mgrLockingMethods: the methods of the manager whose own body operates c.mux (calling one of them inside a
// region of c.mux would deadlock, calling one before the region is a critical section of its own).
func mgrLockingMethods(f *ast.File, recv string) map[string]bool {
	out := map[string]bool{}
	for _, d := range f.Decls {
		fd, ok := d.(*ast.FuncDecl)
		if !ok || fd.Recv == nil || fd.Body == nil || findFunc(f, recv, fd.Name.Name) != fd {
			continue
		}
		ast.Inspect(fd.Body, func(n ast.Node) bool {
			if c, ok := n.(*ast.CallExpr); ok && strings.HasPrefix(exprString(c.Fun), "c.mux.") {
				out[fd.Name.Name] = true
			}
			return true
		})
	}
	return out
}

// mgrOneRegion: in fd, (1) the only operations on c.mux are one plain top-level `c.mux.Lock()` immediately followed by
// `defer c.mux.Unlock()` — an exclusive region that runs to the end of the function, no RLock, no unlock in between;
// (2) every mention of c.<entries> lies inside that region; (3) the region scans c.<entries> (range) and assigns to it
// (append or filtered copy); (4) no method of the manager that locks c.mux itself is called — inside the region
// (deadlock) or, when strict, anywhere (a check made through such a helper before the region is a critical section of
// its own: the shape of the check/insert race).
func mgrOneRegion(f *ast.File, recv, name, entries string, strict bool, note func(string, ...any)) bool {
	fd := findFunc(f, recv, name)
	if fd == nil || fd.Body == nil {
		note("method %s.%s not found", recv, name)
		return false
	}
	ok := true
	fail := func(format string, a ...any) {
		ok = false
		note("%s.%s: "+format, append([]any{recv, name}, a...)...)
	}
	lockIdx := -1
	for i, st := range fd.Body.List {
		if n, k := stmtCall(st); k == "call" && n == "c.mux.Lock" {
			lockIdx = i
			break
		}
	}
	if lockIdx < 0 || lockIdx+1 >= len(fd.Body.List) {
		fail("no top-level c.mux.Lock() statement")
		return false
	}
	if n, k := stmtCall(fd.Body.List[lockIdx+1]); !(k == "defer" && n == "c.mux.Unlock") {
		fail("c.mux.Lock() is not immediately followed by defer c.mux.Unlock()")
	}
	var ops []string
	for _, c := range allCalls(fd) {
		if strings.Contains(c, ":c.mux.") {
			ops = append(ops, c)
		}
	}
	if strings.Join(ops, " ") != "call:c.mux.Lock defer:c.mux.Unlock" {
		fail("operations on c.mux are %v, expected exactly one Lock and one deferred Unlock (no RLock, no unlock in between)", ops)
	}
	lockPos := fd.Body.List[lockIdx].Pos()
	locking := mgrLockingMethods(f, recv)
	scans, assigns := 0, 0
	ast.Inspect(fd.Body, func(n ast.Node) bool {
		switch x := n.(type) {
		case *ast.SelectorExpr:
			if exprString(x) == "c."+entries && x.Pos() < lockPos {
				fail("c.%s is accessed before the region of c.mux begins", entries)
			}
		case *ast.RangeStmt:
			if exprString(x.X) == "c."+entries && x.Pos() > lockPos {
				scans++
			}
		case *ast.AssignStmt:
			for _, l := range x.Lhs {
				if exprString(l) == "c."+entries && x.Pos() > lockPos {
					assigns++
				}
			}
		case *ast.CallExpr:
			fn := exprString(x.Fun)
			if strings.HasPrefix(fn, "c.") && !strings.HasPrefix(fn, "c.mux.") && locking[strings.TrimPrefix(fn, "c.")] {
				if x.Pos() > lockPos {
					fail("calls %s, which locks c.mux itself, inside the region", fn)
				} else if strict {
					fail("calls %s before the region: a check made there is a critical section of its own", fn)
				}
			}
		}
		return true
	})
	if scans == 0 {
		fail("the region does not scan c.%s", entries)
	}
	if assigns != 1 {
		fail("the region assigns c.%s %d times, expected once", entries, assigns)
	}
	return ok
}

// mgrDelegates: fd touches neither c.mux nor c.<entries> and calls c.<callee> (per entity)
func mgrDelegates(f *ast.File, recv, name, entries, callee string, note func(string, ...any)) bool {
	fd := findFunc(f, recv, name)
	if fd == nil || fd.Body == nil {
		note("method %s.%s not found", recv, name)
		return false
	}
	ok, calls := true, 0
	ast.Inspect(fd.Body, func(n ast.Node) bool {
		switch x := n.(type) {
		case *ast.SelectorExpr:
			if s := exprString(x); s == "c."+entries || s == "c.mux" {
				ok = false
				note("%s.%s: accesses %s itself", recv, name, s)
			}
		case *ast.CallExpr:
			if exprString(x.Fun) == "c."+callee {
				calls++
			}
		}
		return true
	})
	if calls != 1 {
		ok = false
		note("%s.%s: calls c.%s %d times, expected once (inside the loop over the entities)", recv, name, callee, calls)
	}
	return ok
}

func genManagers(outDir string) (string, error) {
	fset := token.NewFileSet()
	var notes []string
	note := func(format string, a ...any) { notes = append(notes, fmt.Sprintf(format, a...)) }
	parse := func(file string) (*ast.File, error) {
		return parser.ParseFile(fset, filepath.Join(RepoDir(), "spine", file), nil, 0)
	}
	fb, err := parse("binding_manager.go")
	if err != nil {
		return "", err
	}
	fs, err := parse("subscription_manager.go")
	if err != nil {
		return "", err
	}
	facts := []struct {
		name, doc string
		val       bool
	}{
		{"addBindingOneRegion", "AddBinding: the scan of bindingEntries for the server feature and the append lie in ONE exclusive region of c.mux (Lock … defer Unlock, no other operation on c.mux, no locking helper called)",
			mgrOneRegion(fb, "BindingManager", "AddBinding", "bindingEntries", true, note)},
		{"addSubscriptionOneRegion", "AddSubscription: the duplicate check and the append lie in one exclusive region of c.mux",
			mgrOneRegion(fs, "SubscriptionManager", "AddSubscription", "subscriptionEntries", true, note)},
		{"removeBindingOneRegion", "RemoveBinding: filter and write-back lie in one exclusive region of c.mux",
			mgrOneRegion(fb, "BindingManager", "RemoveBinding", "bindingEntries", false, note)},
		{"removeSubscriptionOneRegion", "RemoveSubscription: filter and write-back lie in one exclusive region of c.mux",
			mgrOneRegion(fs, "SubscriptionManager", "RemoveSubscription", "subscriptionEntries", false, note)},
		{"removeBindingsForEntityOneRegion", "RemoveBindingsForEntity (one pass of a teardown): filter, events and write-back lie in one exclusive region of c.mux",
			mgrOneRegion(fb, "BindingManager", "RemoveBindingsForEntity", "bindingEntries", false, note)},
		{"removeSubscriptionsForEntityOneRegion", "RemoveSubscriptionsForEntity (one pass of a teardown): filter, events and write-back lie in one exclusive region of c.mux",
			mgrOneRegion(fs, "SubscriptionManager", "RemoveSubscriptionsForEntity", "subscriptionEntries", false, note)},
		{"forDeviceDelegates", "RemoveBindingsForDevice / RemoveSubscriptionsForDevice only call the per-entity pass for every entity of the device",
			mgrDelegates(fb, "BindingManager", "RemoveBindingsForDevice", "bindingEntries", "RemoveBindingsForEntity", note) &&
				mgrDelegates(fs, "SubscriptionManager", "RemoveSubscriptionsForDevice", "subscriptionEntries", "RemoveSubscriptionsForEntity", note)},
	}
	var b strings.Builder
	b.WriteString("/-! GENERATED by go/cmd/translate (generator `managers`) from spine/binding_manager.go and spine/subscription_manager.go — do not edit. -/\n")
	b.WriteString("namespace Spine.Generated.Managers\n\n")
	var sum []string
	for _, f := range facts {
		fmt.Fprintf(&b, "/-- %s -/\ndef %s : Bool := %v\n\n", f.doc, f.name, f.val)
		sum = append(sum, fmt.Sprintf("%s=%v", f.name, f.val))
	}
	for _, n := range notes {
		fmt.Fprintf(&b, "-- note: %s\n", n)
	}
	b.WriteString("end Spine.Generated.Managers\n")
	if err := writeFile(outDir, "Managers.lean", b.String()); err != nil {
		return "", err
	}
	return strings.Join(sum, " "), nil
}
