package main

// G5 — JSON schema of every type reachable from model.Datagram, emitted as
// values of the Lean type `Spine.Json.Ty` (Spine/Json.lean): one `def` per Go
// struct type (dependencies first), pointer / slice / leaf types inline. The
// json names are `key`s (base-256 numerals, see c18NameKey) because the kernel
// decides `wf` over them. Everything the schema-directed model does not cover
// (map, interface, float, array, byte slice, embedded or unexported field,
// json:"-", tag options other than omitempty, custom marshalers) is listed in
// `schemaOdd` / `schemaCustom`, and the property module proves these lists to be
// what the model expects. Output: Spine/Generated/Schema.lean.

import (
	"encoding"
	"encoding/json"
	"fmt"
	"go/ast"
	"go/parser"
	"go/token"
	"os"
	"path/filepath"
	"reflect"
	"sort"
	"strings"

	"github.com/enbility/spine-go/model"
)

func init() { register("schema", genSchema) }

type c18SchemaWalk struct {
	order   []reflect.Type        // struct types, dependencies first
	state   map[reflect.Type]int  // 1 in progress, 2 done
	seen    map[reflect.Type]bool // every type visited (any kind)
	odd     []string
	custom  map[string]bool
	nfields int
	noOmit  []string // pointer / slice fields without omitempty (encode as null)
}

var (
	c18TMarshaler     = reflect.TypeOf((*json.Marshaler)(nil)).Elem()
	c18TUnmarshaler   = reflect.TypeOf((*json.Unmarshaler)(nil)).Elem()
	c18TTextMarshal   = reflect.TypeOf((*encoding.TextMarshaler)(nil)).Elem()
	c18TTextUnmarshal = reflect.TypeOf((*encoding.TextUnmarshaler)(nil)).Elem()
)

func (w *c18SchemaWalk) visit(t reflect.Type, path string) {
	if !w.seen[t] {
		w.seen[t] = true
		if t.Kind() != reflect.Ptr {
			pt := reflect.PointerTo(t)
			if t.Implements(c18TMarshaler) || pt.Implements(c18TMarshaler) || pt.Implements(c18TUnmarshaler) ||
				t.Implements(c18TTextMarshal) || pt.Implements(c18TTextMarshal) || pt.Implements(c18TTextUnmarshal) {
				w.custom[t.Name()] = true
			}
		}
	}
	switch t.Kind() {
	case reflect.Ptr:
		if k := t.Elem().Kind(); k == reflect.Ptr || k == reflect.Slice {
			w.odd = append(w.odd, "pointer-to-nullable "+path)
		}
		w.visit(t.Elem(), path)
	case reflect.Slice:
		if t.Elem().Kind() == reflect.Uint8 {
			w.odd = append(w.odd, "byte-slice "+path)
		}
		if k := t.Elem().Kind(); k == reflect.Ptr || k == reflect.Slice {
			w.odd = append(w.odd, "slice-of-nullable "+path)
		}
		w.visit(t.Elem(), path)
	case reflect.Struct:
		switch w.state[t] {
		case 2:
			return
		case 1:
			w.odd = append(w.odd, "recursive-type "+t.Name()+" at "+path)
			return
		}
		w.state[t] = 1
		if t.Name() == "" {
			w.odd = append(w.odd, "anonymous-struct "+path)
		}
		for i := 0; i < t.NumField(); i++ {
			sf := t.Field(i)
			w.nfields++
			p := t.Name() + "." + sf.Name
			if sf.Anonymous {
				w.odd = append(w.odd, "embedded "+p)
			}
			if !sf.IsExported() {
				w.odd = append(w.odd, "unexported "+p)
			}
			tag := sf.Tag.Get("json")
			parts := strings.Split(tag, ",")
			if parts[0] == "-" {
				w.odd = append(w.odd, "json-dash "+p)
			}
			oe := false
			for _, o := range parts[1:] {
				if o == "omitempty" {
					oe = true
				} else {
					w.odd = append(w.odd, fmt.Sprintf("json-option %q %s", o, p))
				}
			}
			if k := sf.Type.Kind(); !oe && (k == reflect.Ptr || k == reflect.Slice) {
				w.noOmit = append(w.noOmit, p)
			}
			w.visit(sf.Type, p)
		}
		w.state[t] = 2
		w.order = append(w.order, t)
	case reflect.String, reflect.Bool,
		reflect.Int, reflect.Int8, reflect.Int16, reflect.Int32, reflect.Int64,
		reflect.Uint, reflect.Uint8, reflect.Uint16, reflect.Uint32, reflect.Uint64:
	default:
		w.odd = append(w.odd, "unsupported-kind "+t.Kind().String()+" "+path)
	}
}

func c18LeanIdent(t reflect.Type) string { return "t_" + t.Name() }

func c18TyExpr(t reflect.Type) string {
	switch t.Kind() {
	case reflect.Ptr:
		return "(.ptr " + c18TyExpr(t.Elem()) + ")"
	case reflect.Slice:
		return "(.slice " + c18TyExpr(t.Elem()) + ")"
	case reflect.Struct:
		return c18LeanIdent(t)
	case reflect.String:
		return ".str"
	case reflect.Bool:
		return ".bool"
	default:
		return ".num"
	}
}

// leafKind is the Go kind the harness needs to generate in-range values.
func c18LeafKinds(t reflect.Type, into map[string]int) {
	for t.Kind() == reflect.Ptr || t.Kind() == reflect.Slice {
		t = t.Elem()
	}
	if t.Kind() != reflect.Struct {
		into[t.Kind().String()]++
	}
}

// c18CustomJSONMethods enumerates, from the SOURCES (go/ast over every non-test file of the tree), every
// method named MarshalJSON / UnmarshalJSON / MarshalText / UnmarshalText: "pkg.Type.Method". Reflection
// (c18SchemaWalk) finds the types of the schema that implement the interfaces; this list says which methods
// are DECLARED and for which types, so that "modelled or listed" is checked against the source as well.
func c18CustomJSONMethods() ([][3]string, error) {
	var out [][3]string
	fset := token.NewFileSet()
	err := filepath.Walk(RepoDir(), func(path string, info os.FileInfo, err error) error {
		if err != nil {
			return err
		}
		if info.IsDir() {
			if n := info.Name(); n == ".git" || n == "mocks" || n == "vendor" {
				return filepath.SkipDir
			}
			return nil
		}
		if !strings.HasSuffix(path, ".go") || strings.HasSuffix(path, "_test.go") {
			return nil
		}
		af, err := parser.ParseFile(fset, path, nil, 0)
		if err != nil {
			return err
		}
		for _, d := range af.Decls {
			fd, ok := d.(*ast.FuncDecl)
			if !ok || fd.Recv == nil {
				continue
			}
			switch fd.Name.Name {
			case "MarshalJSON", "UnmarshalJSON", "MarshalText", "UnmarshalText":
				out = append(out, [3]string{af.Name.Name, recvTypeName(fd), fd.Name.Name})
			}
		}
		return nil
	})
	sort.Slice(out, func(i, j int) bool {
		return out[i][0]+"."+out[i][1]+"."+out[i][2] < out[j][0]+"."+out[j][1]+"."+out[j][2]
	})
	return out, err
}

func genSchema(outDir string) (string, error) {
	w := &c18SchemaWalk{state: map[reflect.Type]int{}, seen: map[reflect.Type]bool{}, custom: map[string]bool{}}
	w.visit(reflect.TypeOf(model.Datagram{}), "Datagram")
	sort.Strings(w.odd)
	sort.Strings(w.noOmit)
	var custom []string
	for c := range w.custom {
		custom = append(custom, c)
	}
	sort.Strings(custom)

	var b strings.Builder
	b.WriteString("import Spine.Json\n")
	b.WriteString("/-! GENERATED by go/cmd/translate (gen_schema.go, G5) from the tree under test — do not edit.\n")
	b.WriteString("    JSON schema of every Go type reachable from `model.Datagram` as values of `Spine.Json.Ty`:\n")
	b.WriteString("    `.struct [(json name as key, omitempty, field type), …]`, one `def` per struct type, dependencies first. -/\n")
	b.WriteString("namespace Spine.Generated\nopen Spine.Json\n\n")
	kinds := map[string]int{}
	for _, t := range w.order {
		fmt.Fprintf(&b, "def %s : Ty := .struct [", c18LeanIdent(t))
		for i := 0; i < t.NumField(); i++ {
			sf := t.Field(i)
			jn, oe := c18JsonName(sf)
			c18LeafKinds(sf.Type, kinds)
			sep := ","
			if i == t.NumField()-1 {
				sep = ""
			}
			fmt.Fprintf(&b, "\n  (%s, %s, %s)%s  -- %s %s", c18NameKey(jn), c18LeanBool(oe), c18TyExpr(sf.Type), sep, jn, sf.Name)
		}
		if t.NumField() > 0 {
			b.WriteString("\n  ")
		}
		b.WriteString("]\n\n")
	}
	names := make([]reflect.Type, len(w.order))
	copy(names, w.order)
	sort.Slice(names, func(i, j int) bool { return names[i].Name() < names[j].Name() })
	b.WriteString("/-- every struct type reachable from `model.Datagram`, sorted by Go name: (name, name key, schema) -/\n")
	b.WriteString("def schema : List (String × Nat × Ty) := [\n")
	for i, t := range names {
		sep := ","
		if i == len(names)-1 {
			sep = ""
		}
		fmt.Fprintf(&b, "  (%s, %s, %s)%s\n", c18LeanStr(t.Name()), c18NameKey(t.Name()), c18LeanIdent(t), sep)
	}
	b.WriteString("]\n\n")
	b.WriteString("/-- types with their own (Un)MarshalJSON / (Un)MarshalText -/\n")
	b.WriteString("def schemaCustom : List String := [" + c18JoinLeanStr(custom) + "]\n\n")
	methods, err := c18CustomJSONMethods()
	if err != nil {
		return "", err
	}
	reach := map[string]bool{}
	for t := range w.seen {
		if t.Name() != "" && t.PkgPath() == reflect.TypeOf(model.Datagram{}).PkgPath() {
			reach[t.Name()] = true
		}
	}
	var inSchema, elsewhere []string
	for _, m := range methods {
		if m[0] == "model" && reach[m[1]] {
			inSchema = append(inSchema, "("+c18LeanStr(m[1])+", "+c18LeanStr(m[2])+")")
		} else {
			elsewhere = append(elsewhere, m[0]+"."+m[1]+"."+m[2])
		}
	}
	b.WriteString("/-- (Un)MarshalJSON / (Un)MarshalText methods DECLARED in the sources (go/ast, every non-test file) for a type\n")
	b.WriteString("    reachable from `model.Datagram`, as (type, method), sorted -/\n")
	b.WriteString("def schemaCustomMethods : List (String × String) := [" + strings.Join(inSchema, ", ") + "]\n\n")
	b.WriteString("/-- the same methods declared for types that are not part of the wire schema (information) -/\n")
	b.WriteString("def otherCustomMethods : List String := [" + c18JoinLeanStr(elsewhere) + "]\n\n")
	b.WriteString("/-- everything found outside the fragment the schema-directed model covers (must be empty) -/\n")
	b.WriteString("def schemaOdd : List String := [" + c18JoinLeanStr(w.odd) + "]\n\n")
	b.WriteString("/-- pointer / slice fields without `omitempty` (they encode as `null`; covered by the model) -/\n")
	b.WriteString("def schemaNoOmitempty : List String := [" + c18JoinLeanStr(w.noOmit) + "]\n\n")
	b.WriteString("end Spine.Generated\n")
	if err := writeFile(outDir, "Schema.lean", b.String()); err != nil {
		return "", err
	}
	var ks []string
	for k, n := range kinds {
		ks = append(ks, fmt.Sprintf("%s=%d", k, n))
	}
	sort.Strings(ks)
	return fmt.Sprintf("%d types reachable (%d structs, %d fields), leaf kinds %s, custom %v, odd %d, no-omitempty %d",
		len(w.seen), len(w.order), w.nfields, strings.Join(ks, " "), custom, len(w.odd), len(w.noOmit)), nil
}
