package main

// Shared helpers of the C18 generators (gen_functions.go, gen_cmdtables.go,
// gen_schema.go): Lean literals, name keys, the function factory dump.

import (
	"fmt"
	"go/ast"
	"go/parser"
	"go/token"
	"path/filepath"
	"reflect"
	"sort"
	"strconv"
	"strings"

	"github.com/enbility/spine-go/api"
	"github.com/enbility/spine-go/model"
	"github.com/enbility/spine-go/spine"
)

// c18LeanStr renders a Go string as a Lean string literal.
func c18LeanStr(s string) string {
	var b strings.Builder
	b.WriteByte('"')
	for _, r := range s {
		switch {
		case r == '"':
			b.WriteString("\\\"")
		case r == '\\':
			b.WriteString("\\\\")
		case r == '\n':
			b.WriteString("\\n")
		case r < 0x20 || r == 0x7f:
			b.WriteString(fmt.Sprintf("\\x%02x", r))
		default:
			b.WriteRune(r)
		}
	}
	b.WriteByte('"')
	return b.String()
}

func c18LeanBool(b bool) string {
	if b {
		return "true"
	}
	return "false"
}

// c18NameKey is the injective number the Lean side uses instead of a string
// wherever names are compared by the kernel (`decide +kernel` on strings is
// hopelessly slow; on Nat literals it is GMP arithmetic): the bytes of the
// name read as a base-256 numeral, written as a hexadecimal literal, so the
// literal *is* the ASCII text of the name (0x616c61726d = "alarm"). The empty
// string is 0. A leading NUL byte cannot occur in a Go identifier, json name or
// tag value, so the map is injective on everything the tables contain (the
// generators fail loudly on a NUL byte).
func c18NameKey(s string) string {
	if s == "" {
		return "0"
	}
	if strings.IndexByte(s, 0) >= 0 {
		panic("name with NUL byte: " + strconv.Quote(s))
	}
	var b strings.Builder
	b.WriteString("0x")
	for i := 0; i < len(s); i++ {
		fmt.Fprintf(&b, "%02x", s[i])
	}
	return b.String()
}

// ---------------------------------------------------------------- factory (G1)

type c18FnInfo struct {
	Name     string       // model.FunctionType
	Payload  reflect.Type // T of FunctionData[T]
	Updater  bool         // *T implements model.Updater (what SupportsPartialWrite reports)
	Features []string     // feature types whose factory call registers it, sorted
}

// c18FeatureTypeConsts lists the constants of type model.FeatureTypeType declared
// in RepoDir()/model/*.go (name and string value), in source order.
func c18FeatureTypeConsts() ([][2]string, error) {
	files, err := filepath.Glob(filepath.Join(RepoDir(), "model", "*.go"))
	if err != nil {
		return nil, err
	}
	sort.Strings(files)
	var out [][2]string
	fset := token.NewFileSet()
	for _, f := range files {
		if strings.HasSuffix(f, "_test.go") {
			continue
		}
		af, err := parser.ParseFile(fset, f, nil, 0)
		if err != nil {
			return nil, err
		}
		for _, d := range af.Decls {
			gd, ok := d.(*ast.GenDecl)
			if !ok || gd.Tok != token.CONST {
				continue
			}
			for _, sp := range gd.Specs {
				vs := sp.(*ast.ValueSpec)
				id, ok := vs.Type.(*ast.Ident)
				if !ok || id.Name != "FeatureTypeType" {
					continue
				}
				for i, n := range vs.Names {
					if i >= len(vs.Values) {
						continue
					}
					lit, ok := vs.Values[i].(*ast.BasicLit)
					if !ok || lit.Kind != token.STRING {
						continue
					}
					v, err := strconv.Unquote(lit.Value)
					if err != nil {
						return nil, err
					}
					out = append(out, [2]string{n.Name, v})
				}
			}
		}
	}
	if len(out) == 0 {
		return nil, fmt.Errorf("no FeatureTypeType constants found under %s/model", RepoDir())
	}
	return out, nil
}

type c18FactoryDump struct {
	Fns      []*c18FnInfo        // sorted by name
	ByFeat   map[string][]string // feature type -> function names in factory order
	Feats    []string            // feature types with a non-empty registration, sorted
	Unknown  []string            // feature type constants for which the factory panics
	Conflict []string            // the same function name registered with two payload types
}

var c18FactoryCache *c18FactoryDump

// c18DumpFactory executes spine.CreateFunctionData for every feature type constant.
func c18DumpFactory() (*c18FactoryDump, error) {
	if c18FactoryCache != nil {
		return c18FactoryCache, nil
	}
	consts, err := c18FeatureTypeConsts()
	if err != nil {
		return nil, err
	}
	d := &c18FactoryDump{ByFeat: map[string][]string{}}
	byName := map[string]*c18FnInfo{}
	for _, c := range consts {
		ft := model.FeatureTypeType(c[1])
		var fns []api.FunctionDataCmdInterface
		func() {
			defer func() {
				if r := recover(); r != nil {
					fns = nil
				}
			}()
			fns = spine.CreateFunctionData[api.FunctionDataCmdInterface](ft)
		}()
		if len(fns) == 0 {
			d.Unknown = append(d.Unknown, c[1])
			continue
		}
		d.Feats = append(d.Feats, c[1])
		for _, fd := range fns {
			name := string(fd.FunctionType())
			pt := reflect.TypeOf(fd.DataCopyAny()) // typed nil *T
			if pt == nil || pt.Kind() != reflect.Ptr {
				return nil, fmt.Errorf("DataCopyAny of %s is not a typed pointer", name)
			}
			d.ByFeat[c[1]] = append(d.ByFeat[c[1]], name)
			if old, ok := byName[name]; ok {
				if old.Payload != pt.Elem() {
					d.Conflict = append(d.Conflict, fmt.Sprintf("%s: %s vs %s", name, old.Payload.Name(), pt.Elem().Name()))
				}
				old.Features = append(old.Features, c[1])
				continue
			}
			byName[name] = &c18FnInfo{Name: name, Payload: pt.Elem(), Updater: fd.SupportsPartialWrite(), Features: []string{c[1]}}
		}
	}
	for _, f := range byName {
		sort.Strings(f.Features)
		d.Fns = append(d.Fns, f)
	}
	sort.Slice(d.Fns, func(i, j int) bool { return d.Fns[i].Name < d.Fns[j].Name })
	sort.Strings(d.Feats)
	sort.Strings(d.Unknown)
	sort.Strings(d.Conflict)
	c18FactoryCache = d
	return d, nil
}

// ---------------------------------------------------------------- tag tables (G2)

type c18CmdField struct {
	Idx     int
	Go      string
	JSON    string
	IsPtr   bool
	Skipped bool // "Function" / "Filter": excluded by name in SetDataForFunction / Data
	HasFct  bool
	Fct     string
	Type    string // Go name of the pointed-to / element type
}

type c18FilterField struct {
	Idx     int
	Go      string
	JSON    string
	IsPtr   bool
	Skipped bool // "CmdControl" / "FilterId"
	HasFct  bool
	Fct     string
	HasTyp  bool
	Typ     string
	Type    string
	rtype   reflect.Type
}

func c18JsonName(sf reflect.StructField) (string, bool) {
	tag := sf.Tag.Get("json")
	parts := strings.Split(tag, ",")
	name := parts[0]
	if name == "" {
		name = sf.Name
	}
	oe := false
	for _, p := range parts[1:] {
		if p == "omitempty" {
			oe = true
		}
	}
	return name, oe
}

func c18ElemName(t reflect.Type) string {
	for t.Kind() == reflect.Ptr || t.Kind() == reflect.Slice {
		t = t.Elem()
	}
	return t.Name()
}

func c18DumpCmdFields() []c18CmdField {
	t := reflect.TypeOf(model.CmdType{})
	var out []c18CmdField
	for i := 0; i < t.NumField(); i++ {
		sf := t.Field(i)
		tags := model.EEBusTags(sf) // the repository's own tag parser
		fct, has := tags[model.EEBusTagFunction]
		jn, _ := c18JsonName(sf)
		out = append(out, c18CmdField{Idx: i, Go: sf.Name, JSON: jn, IsPtr: sf.Type.Kind() == reflect.Ptr,
			Skipped: sf.Name == "Function" || sf.Name == "Filter", HasFct: has, Fct: fct, Type: c18ElemName(sf.Type)})
	}
	return out
}

func c18DumpFilterFields() []c18FilterField {
	t := reflect.TypeOf(model.FilterType{})
	var out []c18FilterField
	for i := 0; i < t.NumField(); i++ {
		sf := t.Field(i)
		tags := model.EEBusTags(sf)
		fct, hasF := tags[model.EEBusTagFunction]
		typ, hasT := tags[model.EEBusTagType]
		jn, _ := c18JsonName(sf)
		out = append(out, c18FilterField{Idx: i, Go: sf.Name, JSON: jn, IsPtr: sf.Type.Kind() == reflect.Ptr,
			Skipped: sf.Name == "CmdControl" || sf.Name == "FilterId", HasFct: hasF, Fct: fct, HasTyp: hasT, Typ: typ,
			Type: c18ElemName(sf.Type), rtype: sf.Type})
	}
	return out
}

// c18ItemTypes returns the element struct types of the slice fields of a payload
// struct ("the list's item type(s)").
func c18ItemTypes(p reflect.Type) []reflect.Type {
	var out []reflect.Type
	if p.Kind() != reflect.Struct {
		return out
	}
	for i := 0; i < p.NumField(); i++ {
		ft := p.Field(i).Type
		if ft.Kind() == reflect.Slice && ft.Elem().Kind() == reflect.Struct {
			out = append(out, ft.Elem())
		}
	}
	return out
}

// c18ExpectedFilterFields: which FilterType field the DATA MODEL provides for the
// selectors resp. elements of a function with payload type P — decided from Go
// type names only, never from the eebus tags (the tags are what is checked):
//
//	selectors: the field of type *<P>SelectorsType          (P = payload type name without "Type")
//	elements : the field of type *<P>ElementsType, or, for a list payload, the
//	           field of type *<I>ElementsType for the item type I of its list
//
// -1 where the data model defines none.
func c18ExpectedFilterFields(p reflect.Type, ff []c18FilterField) (sel, el int) {
	sel, el = -1, -1
	base := strings.TrimSuffix(p.Name(), "Type")
	for _, f := range ff {
		if f.Type == base+"SelectorsType" {
			sel = f.Idx
		}
		if f.Type == base+"ElementsType" {
			el = f.Idx
		}
	}
	if el < 0 {
		for _, it := range c18ItemTypes(p) {
			ib := strings.TrimSuffix(it.Name(), "Type")
			for _, f := range ff {
				if f.Type == ib+"ElementsType" && el < 0 {
					el = f.Idx
				}
			}
		}
	}
	return
}
