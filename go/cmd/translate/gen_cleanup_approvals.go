package main

// Part of generator "cleanup" (C10): the KEY of a pending write approval, observed by CALLING
// FeatureLocal.HandleMessage (write to a server feature with an approval callback), ApproveOrDenyWrite and
// CleanWriteApprovalCaches of the tree under test on ONE pending write:
//
//   approvalVerdict: the verdict message agrees with the stored write in (SKI, connection object, msgCounter) —
//                    is the verdict taken (a result is written)? Six rows: another SKI implies another object.
//   approvalClean:   CleanWriteApprovalCaches(same / other SKI) — is the pending approval gone (the verdict for the
//                    stored message itself no longer taken)?
//
// The Lean side (Spine/Props/C10Gen.lean) re-checks that both grids ARE the decision functions of the model
// Spine.TdK (TeardownKeysPend.lean: `taken`, the filter of `pdrop`) on the corresponding one-entry states. Dynamic:
// no source text is read. (cleanWriteApprovalCachesForEntity is unexported and reached through a discovery
// notification only: it is compared by the differential harness, not here.)

import (
	"encoding/json"
	"fmt"
	"sync"
	"time"

	"github.com/enbility/spine-go/api"
	"github.com/enbility/spine-go/model"
	"github.com/enbility/spine-go/spine"
	"github.com/enbility/spine-go/util"
)

type apWriter struct {
	mu sync.Mutex
	n  int
}

func (w *apWriter) WriteShipMessageWithPayload([]byte) {
	w.mu.Lock()
	w.n++
	w.mu.Unlock()
}

func (w *apWriter) count() int {
	w.mu.Lock()
	defer w.mu.Unlock()
	return w.n
}

type apDev struct {
	rd *spine.DeviceRemote
	w  *apWriter
}

type apWorld struct {
	srv      api.FeatureLocalInterface
	t, t2, x apDev // T; another connection object with T's SKI; a connection with another SKI
}

func apRemote(l *spine.DeviceLocal, ski, dev string) (apDev, error) {
	w := &apWriter{}
	rd := spine.NewDeviceRemote(l, ski, spine.NewSender(w))
	dd := cuTree(dev, [][]uint{{1}})
	rd.UpdateDevice(dd.DeviceInformation.Description)
	if _, err := rd.AddEntityAndFeatures(true, dd); err != nil {
		return apDev{}, err
	}
	return apDev{rd, w}, nil
}

func newApWorld() (*apWorld, error) {
	l, srv, _ := cuLocal()
	srv.SetWriteApprovalTimeout(time.Hour)
	if err := srv.AddWriteApprovalCallback(func(*api.Message) {}); err != nil {
		return nil, err
	}
	a := &apWorld{srv: srv}
	var err error
	if a.t, err = apRemote(l, "skiT", "devT"); err != nil {
		return nil, err
	}
	if a.t2, err = apRemote(l, "skiT", "devT"); err != nil {
		return nil, err
	}
	if a.x, err = apRemote(l, "skiX", "devX"); err != nil {
		return nil, err
	}
	return a, nil
}

func (a *apWorld) msg(d apDev, ctr uint) (*api.Message, error) {
	src := cuFA(string(*d.rd.Address()), []uint{1}, 1)
	fr := d.rd.FeatureByAddress(src)
	if fr == nil {
		return nil, fmt.Errorf("probe device has no feature [1]/1")
	}
	wc, ack := model.CmdClassifierTypeWrite, true
	return &api.Message{
		RequestHeader: &model.HeaderType{AddressSource: src, AddressDestination: a.srv.Address(), MsgCounter: util.Ptr(model.MsgCounterType(ctr)),
			CmdClassifier: &wc, AckRequest: &ack},
		CmdClassifier: wc,
		Cmd:           model.CmdType{LoadControlLimitListData: &model.LoadControlLimitListDataType{}},
		FeatureRemote: fr, EntityRemote: fr.Entity(), DeviceRemote: d.rd,
	}, nil
}

func (a *apWorld) written() int { return a.t.w.count() + a.t2.w.count() + a.x.w.count() }

// store: the write (T, counter 7) arrives at the server feature and waits for the verdict
func (a *apWorld) store() (*api.Message, error) {
	m, err := a.msg(a.t, 7)
	if err != nil {
		return nil, err
	}
	if e := a.srv.HandleMessage(m); e != nil {
		return nil, fmt.Errorf("HandleMessage(write): %v", e)
	}
	if a.written() != 0 {
		return nil, fmt.Errorf("a write to a feature with an approval callback was answered at once")
	}
	return m, nil
}

// taken: does the (denying) verdict for `m` write a result?
func (a *apWorld) taken(m *api.Message) bool {
	before := a.written()
	a.srv.ApproveOrDenyWrite(m, model.ErrorType{ErrorNumber: 7})
	return a.written() > before
}

type apRow struct{ ski, obj, ctr, taken bool }

func probeApprovals() (verdict []apRow, clean [][2]bool, err error) {
	for _, q := range []struct{ ski, obj, ctr bool }{{false, false, false}, {false, false, true}, {true, false, false}, {true, false, true}, {true, true, false}, {true, true, true}} {
		a, e := newApWorld()
		if e != nil {
			return nil, nil, e
		}
		if _, e = a.store(); e != nil {
			return nil, nil, e
		}
		d := a.x
		if q.ski && q.obj {
			d = a.t
		} else if q.ski {
			d = a.t2
		}
		ctr := uint(8)
		if q.ctr {
			ctr = 7
		}
		m, e := a.msg(d, ctr)
		if e != nil {
			return nil, nil, e
		}
		verdict = append(verdict, apRow{q.ski, q.obj, q.ctr, a.taken(m)})
	}
	for _, same := range []bool{false, true} {
		a, e := newApWorld()
		if e != nil {
			return nil, nil, e
		}
		m, e := a.store()
		if e != nil {
			return nil, nil, e
		}
		ski := "skiX"
		if same {
			ski = "skiT"
		}
		a.srv.CleanWriteApprovalCaches(ski)
		clean = append(clean, [2]bool{same, !a.taken(m)})
	}
	return
}

// ---------- the connection removed INSIDE the processing of its own entity-removed notification

type ewHandler struct {
	l    *spine.DeviceLocal
	once sync.Once
	done chan struct{}
}

func (h *ewHandler) HandleEvent(p api.EventPayload) {
	if p.EventType != api.EventTypeEntityChange || p.ChangeType != api.ElementChangeRemove {
		return
	}
	h.once.Do(func() {
		go func() {
			h.l.RemoveRemoteDevice("skiT")
			close(h.done)
		}()
		// condition-based, bounded: the device has left the map (the bus serialises Publish: a teardown that has
		// something to publish waits for this handler to return — not the case in this probe)
		for t0 := time.Now(); time.Since(t0) < 200*time.Millisecond; time.Sleep(100 * time.Microsecond) {
			if h.l.RemoteDeviceForSki("skiT") == nil {
				return
			}
		}
	})
}

// probeEntityWindow: T holds one subscription and one binding from its entity [1]; while T's notification "entity [1]
// removed" is processed, T's connection is removed at the EntityChange/Remove event (core-level handler). After both have
// returned: is the subscription gone, is the binding gone, is the device gone, did the device leave the map inside the window?
func probeEntityWindow() (subGone, bindGone, devGone, inside bool, err error) {
	l, srv, _ := cuLocal()
	rd, ok := l.SetupRemoteDevice("skiT", cuWriter{}).(*spine.DeviceRemote)
	if !ok {
		return false, false, false, false, fmt.Errorf("SetupRemoteDevice does not return a *DeviceRemote")
	}
	dd := cuTree("devT", [][]uint{{1}, {2}})
	rd.UpdateDevice(dd.DeviceInformation.Description)
	if _, err = rd.AddEntityAndFeatures(true, dd); err != nil {
		return
	}
	ft := model.FeatureTypeTypeLoadControl
	if err = l.SubscriptionManager().AddSubscription(rd, model.SubscriptionManagementRequestCallType{ClientAddress: cuFA("devT", []uint{1}, 1), ServerAddress: srv.Address(), ServerFeatureType: &ft}); err != nil {
		return
	}
	if err = l.BindingManager().AddBinding(rd, model.BindingManagementRequestCallType{ClientAddress: cuFA("devT", []uint{1}, 1), ServerAddress: srv.Address(), ServerFeatureType: &ft}); err != nil {
		return
	}
	h := &ewHandler{l: l, done: make(chan struct{})}
	if err = spine.VerifSubscribeCore(h); err != nil {
		return
	}
	defer func() { _ = spine.VerifUnsubscribeCore(h) }()
	removed := model.NetworkManagementStateChangeTypeRemoved
	et := model.EntityTypeTypeEVSE
	nc := model.CmdClassifierTypeNotify
	cmd := model.CmdType{Function: util.Ptr(model.FunctionTypeNodeManagementDetailedDiscoveryData), Filter: []model.FilterType{*model.NewFilterTypePartial()},
		NodeManagementDetailedDiscoveryData: &model.NodeManagementDetailedDiscoveryDataType{
			DeviceInformation: dd.DeviceInformation,
			EntityInformation: []model.NodeManagementDetailedDiscoveryEntityInformationType{{Description: &model.NetworkManagementEntityDescriptionDataType{
				EntityAddress: &model.EntityAddressType{Device: util.Ptr(model.AddressDeviceType("devT")), Entity: spine.NewAddressEntityType([]uint{1})}, EntityType: &et, LastStateChange: &removed}}}}}
	b, e := json.Marshal(model.Datagram{Datagram: model.DatagramType{Header: model.HeaderType{AddressSource: cuFA("devT", []uint{0}, 0), AddressDestination: cuFA("HEMS", []uint{0}, 0),
		MsgCounter: util.Ptr(model.MsgCounterType(77)), CmdClassifier: &nc}, Payload: model.PayloadType{Cmd: []model.CmdType{cmd}}}})
	if e != nil {
		return false, false, false, false, e
	}
	_, _ = rd.HandleSpineMesssage(b)
	select {
	case <-h.done:
	case <-time.After(3 * time.Second):
		// the event was not published (then the teardown follows), or the teardown is blocked
		fired := false
		h.once.Do(func() { fired = true })
		if !fired {
			return false, false, false, false, fmt.Errorf("RemoveRemoteDevice, started at the entity-removed event, did not return")
		}
		l.RemoveRemoteDevice("skiT")
	}
	subGone = len(l.SubscriptionManager().Subscriptions(rd)) == 0
	bindGone = len(l.BindingManager().Bindings(rd)) == 0
	devGone = l.RemoteDeviceForSki("skiT") == nil
	// (whether the removal happened inside the window is not observable after the fact; the handler returned early iff it did)
	inside = devGone
	return
}
