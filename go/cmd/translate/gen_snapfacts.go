package main

// Generator "snapfacts" (C11): store discipline of spine.FunctionData and slice ownership of the helpers of package
// model, from the SSA form of the tree under test. The analysis needs go/ssa
// (golang.org/x/tools), which the harness module must not require, so it lives in its own module go/snapfacts; this
// generator only runs it with the same tree (VERIF_REPO) and output directory. See go/snapfacts/main.go.

import (
	"fmt"
	"os"
	"os/exec"
	"path/filepath"
	"strings"
)

func init() { register("snapfacts", genSnapFacts) }

func genSnapFacts(outDir string) (string, error) {
	abs, err := filepath.Abs(outDir)
	if err != nil {
		return "", err
	}
	wd, _ := os.Getwd()
	dir := ""
	for _, c := range []string{filepath.Join(wd, "snapfacts"), filepath.Join(wd, "..", "..", "snapfacts"), filepath.Join(wd, "go", "snapfacts")} {
		if st, err := os.Stat(filepath.Join(c, "main.go")); err == nil && !st.IsDir() {
			dir = c
			break
		}
	}
	if dir == "" {
		return "", fmt.Errorf("snapfacts: module directory go/snapfacts not found from %s", wd)
	}
	cmd := exec.Command("go", "run", ".", "-out", abs)
	cmd.Dir = dir
	env := []string{}
	for _, e := range os.Environ() {
		if strings.HasPrefix(e, "VERIF_REPO=") {
			continue
		}
		env = append(env, e)
	}
	cmd.Env = append(env, "VERIF_REPO="+RepoDir(), "GOFLAGS=-mod=mod", "GOPROXY=off", "GOSUMDB=off", "GOTOOLCHAIN=local")
	out, err := cmd.CombinedOutput()
	lines := strings.Split(strings.TrimSpace(string(out)), "\n")
	last := lines[len(lines)-1]
	if err != nil {
		return "", fmt.Errorf("snapfacts: %s", last)
	}
	return strings.TrimPrefix(last, "generated snapfacts: "), nil
}
