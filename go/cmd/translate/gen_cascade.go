package main

// G7 for the cascade clause of C06 ("removing an entity removes that entity's subscriptions, bindings and cached
// client-side references and nothing else" — also while other connections are served): the facts the event-sourced
// model Spine.Disc.Conc (lean/Spine/DiscoveryConc.lean) is parameterised by, for the part of the cascade the generator
// `managers` does not cover — the client-side bookkeeping of FeatureLocal — and the shape of the cascade itself.
//
// SEMANTIC extraction, reusing the region walker of gen_managers.go (whole package parsed, helpers and function
// literals inlined, defer / explicit unlock, early returns): the bookkeeping lists are found by their TYPE (fields of
// struct FeatureLocal that are slices of *model.FeatureAddressType, whatever they are called), the mutexes by theirs;
// the functions by their exported names (they are the api.FeatureLocalInterface / api.DeviceLocalInterface methods).
// The handler that removes an announced entity is found by what it does (it calls RemoveEntityByAddress), not by its
// name. A fact that cannot be established is emitted as `false` with a note; the theorems of Spine/Props/C06Gen.lean
// then no longer check.

import (
	"fmt"
	"go/ast"
	"path/filepath"
	"sort"
	"strings"
)

func init() { register("cascade", genCascade) }

// the slice-of-*FeatureAddressType fields and the mutex fields of a struct
func cascFields(p *mgrPkg, typ string) (mutexes map[string]bool, lists []string) {
	mutexes = map[string]bool{}
	st := p.structs[typ]
	if st == nil {
		return
	}
	for _, f := range st.Fields.List {
		t := exprString(f.Type)
		for _, n := range f.Names {
			if t == "sync.Mutex" || t == "sync.RWMutex" {
				mutexes[n.Name] = true
			}
			if at, ok := f.Type.(*ast.ArrayType); ok && at.Len == nil {
				el := at.Elt
				if se, ok := el.(*ast.StarExpr); ok {
					el = se.X
				}
				if strings.HasSuffix(exprString(el), "FeatureAddressType") {
					lists = append(lists, n.Name)
				}
			}
		}
	}
	sort.Strings(lists)
	return
}

// cascOneRegion: in typ.method every access to list field `list` lies inside a region of one of the struct's mutexes,
// and the list is written in exactly ONE region, which is exclusive and also reads it (filter and write-back, or
// append, are one critical section). mustWrite=false: a method that does not touch the list at all is fine.
func cascOneRegion(p *mgrPkg, typ, method, list string, mutexes map[string]bool, note func(string, ...any)) bool {
	fd := p.funcs[typ+"."+method]
	if fd == nil || fd.Body == nil {
		note("method %s.%s not found in the package", typ, method)
		return false
	}
	w := &mgrWalk{p: p, typ: typ, mutexes: mutexes, entries: list}
	w.walkFunc(recvVarName(fd), fd.Type.Params, fd.Body, 0, false)
	ok := true
	fail := func(format string, a ...any) {
		ok = false
		note("%s.%s, list %s: "+format, append([]any{typ, method, list}, a...)...)
	}
	if w.cur != nil {
		fail("a lock is still held at the end of the operation")
	}
	for _, pr := range w.problems {
		fail("%s", pr)
	}
	if w.outside > 0 {
		fail("%d access(es) with no lock held", w.outside)
	}
	if w.nested > 0 {
		fail("a mutex of the struct is locked while one is held (%d times)", w.nested)
	}
	if w.stray > 0 {
		fail("%d unlock(s) with no lock held", w.stray)
	}
	writers := 0
	for _, r := range w.regions {
		if r.writes > 0 {
			writers++
			if !r.exclusive {
				fail("written under a read lock")
			}
			if r.reads == 0 {
				fail("the region that writes the list does not read it: the new value was computed outside")
			}
		}
	}
	if writers != 1 {
		fail("written in %d regions, expected exactly one", writers)
	}
	return ok
}

// names of all methods / functions called (selector or plain identifier) in the body of fd, with the functions of the
// package that are called by name inlined up to `depth` levels (name-based, over-approximating: every declaration with
// that name; the clean-up operations themselves and the event bus are not looked into)
func cascCalls(p *mgrPkg, body ast.Node, depth int, seen map[string]bool, out map[string]int) {
	ast.Inspect(body, func(n ast.Node) bool {
		c, ok := n.(*ast.CallExpr)
		if !ok {
			return true
		}
		name := ""
		switch f := c.Fun.(type) {
		case *ast.SelectorExpr:
			name = f.Sel.Name
		case *ast.Ident:
			name = f.Name
		}
		if name == "" {
			return true
		}
		out[name]++
		if depth > 0 && !seen[name] {
			seen[name] = true
			for key, fd := range p.funcs {
				if (key == name || strings.HasSuffix(key, "."+name)) && fd.Body != nil && !cascStop[name] {
					// helpers and wrappers of the package are looked through; the operations themselves are not
					cascCalls(p, fd.Body, depth-1, seen, out)
				}
			}
		}
		return true
	})
}

var cascStop = map[string]bool{"RemoveEntityByAddress": true, "RemoveSubscriptionsForEntity": true, "RemoveBindingsForEntity": true,
	"CleanRemoteEntityCaches": true, "Publish": true}

func genCascade(outDir string) (string, error) {
	var notes []string
	note := func(format string, a ...any) { notes = append(notes, fmt.Sprintf(format, a...)) }
	p, err := mgrLoad(filepath.Join(RepoDir(), "spine"))
	if err != nil {
		return "", err
	}
	const FL = "FeatureLocal"
	mutexes, lists := cascFields(p, FL)
	if len(mutexes) == 0 || len(lists) == 0 {
		note("struct %s: mutex fields or bookkeeping lists ([]*model.FeatureAddressType) not found", FL)
	}
	all := func(methods ...string) bool {
		ok := len(lists) > 0 && len(mutexes) > 0
		for _, m := range methods {
			touched := false
			for _, l := range lists {
				// a method has to treat every list it touches as one region; which lists it touches is its own business
				fd := p.funcs[FL+"."+m]
				if fd == nil {
					note("method %s.%s not found in the package", FL, m)
					ok = false
					break
				}
				w := &mgrWalk{p: p, typ: FL, mutexes: mutexes, entries: l}
				w.walkFunc(recvVarName(fd), fd.Type.Params, fd.Body, 0, false)
				acc := w.outside
				for _, r := range w.regions {
					acc += r.reads + r.writes
				}
				if acc == 0 {
					continue
				}
				touched = true
				if !cascOneRegion(p, FL, m, l, mutexes, note) {
					ok = false
				}
			}
			if !touched {
				note("%s.%s touches none of the bookkeeping lists %v", FL, m, lists)
				ok = false
			}
		}
		return ok
	}
	// the entity clean-up has to cover EVERY bookkeeping list
	coversAll := func(method string) bool {
		fd := p.funcs[FL+"."+method]
		if fd == nil || len(lists) == 0 {
			return false
		}
		for _, l := range lists {
			w := &mgrWalk{p: p, typ: FL, mutexes: mutexes, entries: l}
			w.walkFunc(recvVarName(fd), fd.Type.Params, fd.Body, 0, false)
			wr := 0
			for _, r := range w.regions {
				wr += r.writes
			}
			if wr == 0 {
				note("%s.%s does not write the bookkeeping list %s", FL, method, l)
				return false
			}
		}
		return true
	}
	// DeviceLocal.CleanRemoteEntityCaches hands the address to the clean-up of the features
	deviceDelegates := func() bool {
		fd := p.funcs["DeviceLocal.CleanRemoteEntityCaches"]
		if fd == nil || fd.Body == nil {
			note("DeviceLocal.CleanRemoteEntityCaches not found")
			return false
		}
		calls := map[string]int{}
		cascCalls(p, fd.Body, 2, map[string]bool{}, calls)
		if calls["CleanRemoteEntityCaches"] == 0 {
			note("DeviceLocal.CleanRemoteEntityCaches does not call the features' CleanRemoteEntityCaches")
			return false
		}
		return true
	}
	// every function of the package that removes an announced entity (calls RemoveEntityByAddress; the method itself
	// and functions that only forward are not handlers) runs the three clean-ups
	handlers, handlersOK := 0, true
	var keys []string
	for k := range p.funcs {
		keys = append(keys, k)
	}
	sort.Strings(keys)
	for _, k := range keys {
		fd := p.funcs[k]
		if fd.Body == nil || strings.HasSuffix(k, ".RemoveEntityByAddress") {
			continue
		}
		direct := map[string]int{}
		cascCalls(p, fd.Body, 0, map[string]bool{}, direct)
		if direct["RemoveEntityByAddress"] == 0 {
			continue
		}
		handlers++
		calls := map[string]int{}
		cascCalls(p, fd.Body, 3, map[string]bool{}, calls)
		for _, need := range []string{"RemoveSubscriptionsForEntity", "RemoveBindingsForEntity", "CleanRemoteEntityCaches"} {
			if calls[need] == 0 {
				handlersOK = false
				note("%s removes an entity (RemoveEntityByAddress) without calling %s", k, need)
			}
		}
	}
	if handlers == 0 {
		handlersOK = false
		note("no function of package spine calls RemoveEntityByAddress: the handler of entity removals was not found")
	}
	facts := []struct {
		name, doc string
		val       bool
	}{
		{"cleanEntityCachesOneRegion", "FeatureLocal.CleanRemoteEntityCaches: for every bookkeeping list (slices of *model.FeatureAddressType of struct FeatureLocal) the filter and the write-back lie in ONE exclusive region of a mutex of the feature; the list is touched nowhere without a lock (helpers inlined)",
			all("CleanRemoteEntityCaches")},
		{"cleanEntityCachesCoversAllLists", "FeatureLocal.CleanRemoteEntityCaches writes every bookkeeping list of the struct",
			coversAll("CleanRemoteEntityCaches")},
		{"cleanDeviceCachesOneRegion", "FeatureLocal.CleanRemoteDeviceCaches: same, per list one exclusive region that filters and writes back",
			all("CleanRemoteDeviceCaches")},
		{"bookkeepingAddsOneRegion", "SubscribeToRemote / BindToRemote: the append to the bookkeeping list is one exclusive region (read and write of the list together)",
			all("SubscribeToRemote", "BindToRemote")},
		{"bookkeepingRemovesOneRegion", "RemoveRemoteSubscription / RemoveRemoteBinding: every list they touch is read and written in one exclusive region",
			all("RemoveRemoteSubscription", "RemoveRemoteBinding")},
		{"deviceCleanDelegates", "DeviceLocal.CleanRemoteEntityCaches calls the features' CleanRemoteEntityCaches",
			deviceDelegates()},
		{"removalRunsAllCleanups", "every function of package spine that removes an announced entity (calls RemoveEntityByAddress) calls RemoveSubscriptionsForEntity, RemoveBindingsForEntity and CleanRemoteEntityCaches (unexported helpers looked through)",
			handlersOK},
	}
	var b strings.Builder
	b.WriteString("/-! GENERATED by go/cmd/translate (generator `cascade`) from struct FeatureLocal and the entity-removal handler of package spine — do not edit. -/\n")
	b.WriteString("namespace Spine.Generated.Cascade\n\n")
	var sum []string
	for _, f := range facts {
		fmt.Fprintf(&b, "/-- %s -/\ndef %s : Bool := %v\n\n", f.doc, f.name, f.val)
		sum = append(sum, fmt.Sprintf("%s=%v", f.name, f.val))
	}
	fmt.Fprintf(&b, "/-- number of bookkeeping lists of struct FeatureLocal (%s) -/\ndef bookkeepingLists : Nat := %d\n\n", strings.Join(lists, ", "), len(lists))
	fmt.Fprintf(&b, "/-- number of functions that remove an announced entity -/\ndef removalHandlers : Nat := %d\n\n", handlers)
	sort.Strings(notes)
	for _, n := range notes {
		fmt.Fprintf(&b, "-- note: %s\n", n)
	}
	b.WriteString("end Spine.Generated.Cascade\n")
	if err := writeFile(outDir, "Cascade.lean", b.String()); err != nil {
		return "", err
	}
	return strings.Join(sum, " "), nil
}
